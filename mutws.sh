#!/bin/bash
# mutws.sh <patch.diff> <Cxx> <tier> [part]  — run a check against a patched scratch copy of /repo
# (worktree ${MUTWS:-/tmp/mutws}/repo, harness copy ${MUTWS:-/tmp/mutws}/harness with its own target dir).
set -e
P=$(realpath "$1"); C=$2; T=${3:-quick}
mkdir -p ${MUTWS:-/tmp/mutws}
if [ ! -d ${MUTWS:-/tmp/mutws}/repo ]; then git -C /repo worktree add --detach ${MUTWS:-/tmp/mutws}/repo HEAD >/dev/null 2>&1; fi
git -C ${MUTWS:-/tmp/mutws}/repo checkout -q --detach $(git -C /repo rev-parse HEAD)
git -C ${MUTWS:-/tmp/mutws}/repo checkout -- .
git -C ${MUTWS:-/tmp/mutws}/repo apply "$P"
rm -rf ${MUTWS:-/tmp/mutws}/harness/src; mkdir -p ${MUTWS:-/tmp/mutws}/harness/.cargo
cp -r /verif/harness/src /verif/harness/Cargo.lock ${MUTWS:-/tmp/mutws}/harness/
sed "s#/repo/#${MUTWS:-/tmp/mutws}/repo/#" /verif/harness/Cargo.toml > ${MUTWS:-/tmp/mutws}/harness/Cargo.toml
sed "s#/verif/target#${MUTWS:-/tmp/mutws}/target#" /verif/harness/.cargo/config.toml > ${MUTWS:-/tmp/mutws}/harness/.cargo/config.toml
cd ${MUTWS:-/tmp/mutws}/harness && cargo build --release --offline 2>&1 | grep -E "^error" -A10 | head -30
export GV_OUT=${MUTWS:-/tmp/mutws}/out; mkdir -p $GV_OUT; cp /verif/known_findings.json $GV_OUT/
[ -n "$4" ] && export GV_ONLY_PART=$4
${MUTWS:-/tmp/mutws}/target/release/gv $C $T 2>&1 | tail -12
git -C ${MUTWS:-/tmp/mutws}/repo checkout -- .
