#!/usr/bin/env python3
"""Regenerates DESIGN.md §9.7 (table of seeded changes) from /verif/seeded/*/meta.json."""
import json,glob,os
rows=[]
for d in sorted(glob.glob('/verif/seeded/c[0-9]*')):
    m=json.load(open(d+'/meta.json'))
    n=os.path.basename(d)
    f=lambda x,k: (str(x or ''))[:k].replace('\n',' ').replace('|','/')
    rows.append((n, m.get('property','?'), f(m.get('summary'),170), f(m.get('needs_to_manifest'),150), f(m.get('check_result'),260)))
s=open('/verif/DESIGN.md').read()
marker='\n### 9.7 Seeded changes'
head=s[:s.index(marker)] if marker in s else s
intro=s[s.index(marker):].split('| seed | property |')[0] if marker in s else ''
out=intro+"| seed | property | change | needs | result |\n|---|---|---|---|---|\n"
for r in rows: out+="| %s | %s | %s | %s | %s |\n"%r
open('/verif/DESIGN.md','w').write(head+out)
print('seeds:',len(rows))
