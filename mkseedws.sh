#!/bin/bash
# mkseedws.sh <Cxx> [suffix] [text: mechanisms earlier seeds already used, to be avoided]: scratch git worktree of /repo for a seeding sub-agent + task file with the property text only
set -e
P=$1; S=${2:-a}; n=$(echo $P | tr A-Z a-z)$S
D=/tmp/seed_$n
git -C /repo worktree remove --force $D 2>/dev/null || true
rm -rf $D /tmp/seed_${n}_out; mkdir -p /tmp/seed_${n}_out
git -C /repo worktree add --detach $D HEAD >/dev/null 2>&1
python3 - "$P" "$D" "/tmp/seed_${n}_out" "${3:-}" <<'PY'
import json,sys
pid,d,out,avoid=sys.argv[1:5]
avoid_txt=('\nAn earlier change for this property already used the following mechanism; choose a DIFFERENT mechanism, in different code (another function, another stage of the pipeline, another kind of trigger):\n  '+avoid+'\n') if avoid else ''
p=[json.loads(l) for l in open('/verif/properties.jsonl') if json.loads(l)['id']==pid][0]
t=f"""# Task: a realistic property-breaking change to mimblewimble/grin

You have your own scratch git worktree of the repository at {d} (Rust workspace; build offline with
`CARGO_NET_OFFLINE=true CARGO_TARGET_DIR={d}/target cargo ... --offline`). Work only there and in {out}.
Never touch /repo or /verif (do not read /verif either).

## The property that should hold

{p['title']}

{p['statement']}

Quantifier: {p['quantifier']['text']}

Code it is anchored in: {', '.join(p['anchors']['files'])}
Mechanisms: {'; '.join((m.get('name') or '') + ' (' + (m.get('where') or '') + ')' for m in p['anchors']['mechanism'])}

## What to produce

A small change to the repository (a few lines, the kind of slip a real commit could contain) that BREAKS this
property while the code still compiles and the repository's existing test suite still passes
(`cd {d} && CARGO_TARGET_DIR={d}/target cargo test --workspace --no-fail-fast --offline`; the test
`grin_chain::store_indices::test_store_indices` fails on the unchanged tree too and does not count).
The change must need something SPECIFIC to manifest — a particular interleaving, a crash or fault at a particular
point, a multi-step sequence of operations, an unusual input, or two cooperating sites that each look fine alone —
not something ordinary use would expose at once. Do not put it behind cfg flags and do not touch tests.
Hooks under `#[cfg(grin_verif)]` exist in the tree; leave them alone.
{avoid_txt}
Deliver in {out}:
1. `patch.diff` — `git -C {d} diff` of the change (source files only).
2. a demonstration: a Rust integration test file (e.g. `{out}/demo_test.rs`, to be dropped into the right
   crate's `tests/` dir, say which) or a small program that FAILS with the change and PASSES without it. Run it both ways
   and record the outputs.
3. `meta.json`: {{"property": "{pid}", "summary": "...", "needs_to_manifest": "...", "files_changed": [...],
   "demo": "how to run it", "ran": ["commands you ran and their outcome, including the full test suite result with the change"]}}

When done, leave the worktree with the change applied (uncommitted) and reply with a short summary. Keep total build
output reasonable; remove `{d}/target` only if you are told to.
"""
open(out+'/TASK.md','w').write(t)
PY
echo $D
