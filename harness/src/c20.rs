//! C20 — Keys, commitments and range-proof rewind are deterministic and recoverable.
//!
//! Parts (all on the real keychain / libtx code; the oracles are written here from the property text)
//! * `blind`    - blinding-factor arithmetic over {zero, 4 generic derived keys}: all signed
//!   multisets of size 1..3 in every order, add / add-then-subtract / split-and-re-sum identities,
//!   key-id sums; every step judged against scalar arithmetic mod n (`Sc`) written in this file.
//! * `derive`   - seeds x paths (depth 0..4) x amounts x switch: `derive_key` / `commit` called twice
//!   and from a re-created keychain, commitment vs key, private vs *public* (view key) derivation
//!   twin, other seed / other amount / `Keychain::sign`; all 781 keys of a seed pairwise distinct.
//! * `proofs`   - `proof::create` -> `verify` -> `rewind` with the own seed (exact), the other seeds
//!   (nothing), the other builder generation, root and child view keys, over seeds x paths x
//!   amounts x switch x builder generation.
//! * `builder`  - every integer-balancing multiset of inputs (0-2) / outputs (1-3) / fee through
//!   `build::transaction`, `transaction_with_kernel`, `partial_transaction`: validates, kernel
//!   verifies, offset / blinding sum equal the reference, outputs rewind.
//! * `coinbase` - `reward::output` over seeds x paths x fees x generation, also as the coinbase of a
//!   block collecting exactly these fees.
use crate::ev::{hex, Report, Tier};
use crate::par::mine;
use crate::uni;
use crate::{Engine, Meta};
use grin_core::consensus;
use grin_core::core::{
	Block, Committed, FeeFields, KernelFeatures, Output, OutputFeatures, Transaction, TxKernel, Weighting,
};
use grin_core::genesis;
use grin_core::libtx::build::{self, Append};
use grin_core::libtx::proof::{self, LegacyProofBuilder, ProofBuild};
use grin_core::libtx::{aggsig, reward, ProofBuilder};
use grin_core::pow::Difficulty;
use grin_keychain::{
	BlindSum, BlindingFactor, ChildNumber, ExtKeychain, ExtKeychainPath, Identifier, Keychain,
	SwitchCommitmentType, ViewKey,
};
use grin_util::secp::key::{PublicKey, SecretKey};
use grin_util::secp::pedersen::{Commitment, RangeProof};
use grin_util::secp::{Message, Secp256k1};
use serde_json::{json, Value};
use std::collections::{BTreeMap, BTreeSet, HashSet};

pub struct C20;

// ------------------------------------------------------------------------------------------
// the stated finite space
// ------------------------------------------------------------------------------------------

/// seed bytes: the keychain seed is `[b; 32]`
const SEEDS: [u8; 3] = [1, 2, 0xA7];
/// every path index comes from this alphabet (normal 0,1,max-normal; hardened min, max)
const IDX: [u32; 5] = [0, 1, 0x7fff_ffff, 0x8000_0000, 0xffff_ffff];
const AMOUNTS: [u64; 6] = [0, 1, (1 << 32) - 1, 1 << 32, 1 << 63, u64::MAX];
const SWITCHES: [SwitchCommitmentType; 2] =
	[SwitchCommitmentType::None, SwitchCommitmentType::Regular];
/// proof builder generations
const B_NEW: usize = 0;
const B_LEGACY: usize = 1;
const BUILDER_NAMES: [&str; 2] = ["ProofBuilder", "LegacyProofBuilder"];

type Path = (u8, [u32; 4]);

/// all 781 paths: depth 0..=4, each used index from IDX, unused indices 0
fn all_paths() -> Vec<Path> {
	let mut out = vec![];
	for depth in 0..=4u8 {
		let n = 5usize.pow(depth as u32);
		for k in 0..n {
			let mut p = [0u32; 4];
			let mut kk = k;
			// last index varies fastest
			for pos in (0..depth as usize).rev() {
				p[pos] = IDX[kk % 5];
				kk /= 5;
			}
			out.push((depth, p));
		}
	}
	out
}

fn ident(p: &Path) -> Identifier {
	ExtKeychainPath::new(p.0, p.1[0], p.1[1], p.1[2], p.1[3]).to_identifier()
}

fn hardened(i: u32) -> bool {
	i & 0x8000_0000 != 0
}

fn path_has_hardened(p: &Path) -> bool {
	(0..p.0 as usize).any(|i| hardened(p.1[i]))
}

fn sw_name(s: SwitchCommitmentType) -> &'static str {
	match s {
		SwitchCommitmentType::None => "None",
		SwitchCommitmentType::Regular => "Regular",
	}
}

fn sw_from(name: &str) -> SwitchCommitmentType {
	if name == "None" {
		SwitchCommitmentType::None
	} else {
		SwitchCommitmentType::Regular
	}
}

fn view_key(kc: &ExtKeychain) -> ViewKey {
	let mut h = kc.hasher();
	ViewKey::create(kc, kc.master.clone(), &mut h, false).expect("view key")
}

/// One failed check: (stable key, human sentence).
type Fail = (String, String);

struct Obs {
	fails: Vec<Fail>,
	outcomes: Vec<String>,
	evals: u64,
}
impl Obs {
	fn new() -> Obs {
		Obs {
			fails: vec![],
			outcomes: vec![],
			evals: 0,
		}
	}
	fn fail(&mut self, key: &str, what: String) {
		self.fails.push((key.to_string(), what));
	}
	fn out(&mut self, class: &str) {
		self.outcomes.push(class.to_string());
	}
	fn into_report(self, r: &mut Report, case: &Value) {
		r.evaluations += self.evals;
		for o in self.outcomes {
			r.outcome(&o);
		}
		for (k, w) in self.fails {
			r.violation(k, w, case.clone());
		}
	}
	fn to_result(self) -> Result<String, String> {
		if self.fails.is_empty() {
			let mut m: BTreeMap<String, u64> = BTreeMap::new();
			for o in self.outcomes {
				*m.entry(o).or_insert(0) += 1;
			}
			Ok(format!("held; evaluations={} outcomes={:?}", self.evals, m))
		} else {
			Err(self
				.fails
				.iter()
				.map(|(k, w)| format!("{} :: {}", k, w))
				.collect::<Vec<_>>()
				.join(" | "))
		}
	}
}

// ------------------------------------------------------------------------------------------
// reference scalar arithmetic mod n (the secp256k1 group order), little-endian u64 limbs
// ------------------------------------------------------------------------------------------

#[derive(Clone, Copy, PartialEq, Eq, Debug, PartialOrd, Ord)]
struct Sc([u64; 4]);

const ORDER: [u64; 4] = [
	0xBFD2_5E8C_D036_4141,
	0xBAAE_DCE6_AF48_A03B,
	0xFFFF_FFFF_FFFF_FFFE,
	0xFFFF_FFFF_FFFF_FFFF,
];

impl Sc {
	const ZERO: Sc = Sc([0; 4]);
	fn from_be(b: &[u8]) -> Sc {
		assert_eq!(b.len(), 32);
		let mut l = [0u64; 4];
		for i in 0..4 {
			let mut v = 0u64;
			for j in 0..8 {
				v = (v << 8) | b[(3 - i) * 8 + j] as u64;
			}
			l[i] = v;
		}
		let s = Sc(l);
		assert!(s.lt_order(), "scalar out of range");
		s
	}
	fn from_u64(v: u64) -> Sc {
		Sc([v, 0, 0, 0])
	}
	fn to_be(&self) -> [u8; 32] {
		let mut b = [0u8; 32];
		for i in 0..4 {
			b[(3 - i) * 8..(3 - i) * 8 + 8].copy_from_slice(&self.0[i].to_be_bytes());
		}
		b
	}
	fn lt_order(&self) -> bool {
		for i in (0..4).rev() {
			if self.0[i] != ORDER[i] {
				return self.0[i] < ORDER[i];
			}
		}
		false
	}
	fn is_zero(&self) -> bool {
		self.0 == [0; 4]
	}
	fn raw_sub(a: [u64; 4], b: [u64; 4]) -> ([u64; 4], bool) {
		let mut out = [0u64; 4];
		let mut borrow = false;
		for i in 0..4 {
			let (d1, b1) = a[i].overflowing_sub(b[i]);
			let (d2, b2) = d1.overflowing_sub(borrow as u64);
			out[i] = d2;
			borrow = b1 || b2;
		}
		(out, borrow)
	}
	fn add(&self, o: &Sc) -> Sc {
		let mut out = [0u64; 4];
		let mut carry = 0u128;
		for i in 0..4 {
			let s = self.0[i] as u128 + o.0[i] as u128 + carry;
			out[i] = s as u64;
			carry = s >> 64;
		}
		let r = Sc(out);
		if carry != 0 || !r.lt_order() {
			// (a + b) - n, both a, b < n so one subtraction suffices (the borrow cancels the carry)
			Sc(Sc::raw_sub(out, ORDER).0)
		} else {
			r
		}
	}
	fn neg(&self) -> Sc {
		if self.is_zero() {
			*self
		} else {
			Sc(Sc::raw_sub(ORDER, self.0).0)
		}
	}
	fn sub(&self, o: &Sc) -> Sc {
		self.add(&o.neg())
	}
	fn to_blind(&self) -> BlindingFactor {
		BlindingFactor::from_slice(&self.to_be())
	}
	fn of_blind(b: &BlindingFactor) -> Sc {
		Sc::from_be(b.as_ref())
	}
	fn of_key(k: &SecretKey) -> Sc {
		Sc::from_be(&k.0)
	}
}

fn sc_selftest() {
	let one = Sc::from_u64(1);
	let nm1 = one.neg();
	assert_eq!(nm1.add(&one), Sc::ZERO);
	assert_eq!(nm1.add(&nm1), Sc::from_u64(2).neg());
	assert_eq!(Sc::ZERO.sub(&one), nm1);
	assert_eq!(Sc::from_be(&nm1.to_be()), nm1);
	let h = half_plus();
	assert_eq!(h.add(&h), one);
	assert_eq!(
		hex(&nm1.to_be()),
		"fffffffffffffffffffffffffffffffebaaedce6af48a03bbfd25e8cd0364140"
	);
}

/// (n + 1) / 2: twice this value is 1 mod n
fn half_plus() -> Sc {
	// n is odd: (n+1)/2 = (n >> 1) + 1
	let mut l = [0u64; 4];
	for i in 0..4 {
		l[i] = ORDER[i] >> 1;
		if i < 3 {
			l[i] |= ORDER[i + 1] << 63;
		}
	}
	Sc(l).add(&Sc::from_u64(1))
}

// ------------------------------------------------------------------------------------------
// case lists: which (path, combination) tuples a tier runs, and the counted pairwise cover
// ------------------------------------------------------------------------------------------

/// Paths get either the full product of the other factors or `k` combinations of it.
/// `plan(path)` = None for the full product, Some(k) for k combinations (Some(0): path not used).
fn case_list(paths: &[Path], combos: usize, plan: &dyn Fn(&Path) -> Option<usize>) -> Vec<(usize, usize)> {
	let mut out = vec![];
	for (pi, p) in paths.iter().enumerate() {
		match plan(p) {
			None => {
				for c in 0..combos {
					out.push((pi, c));
				}
			}
			Some(0) => {}
			Some(k) => {
				let mut used = BTreeSet::new();
				let mut j = 0usize;
				while used.len() < k.min(combos) {
					// stride 7 is coprime to 36 and 72: consecutive paths walk through all combinations
					let c = (pi * 7 + j * 29 + j * j * 6) % combos;
					if used.insert(c) {
						out.push((pi, c));
					}
					j += 1;
				}
			}
		}
	}
	out
}

/// The depth-4 paths of the quick tier: the 125 of 625 whose last index is determined by the
/// others (a Latin hypercube: every triple of the first three indices and every pair of values
/// at any two positions occurs).
fn quick_deep(p: &Path) -> bool {
	let ix = |i: usize| IDX.iter().position(|x| *x == p.1[i]).unwrap_or(0);
	p.0 < 4 || ix(3) == (ix(0) + 2 * ix(1) + 3 * ix(2)) % 5
}

fn is_corner(p: &Path) -> bool {
	(0..p.0 as usize).all(|i| p.1[i] == 0 || p.1[i] == 0xffff_ffff)
}

/// counts covered / realisable pairs of factor values over a case list. Factors: depth, the index
/// at each position (defined when position < depth), then the given other factors.
fn pairwise_cover(cases: &[(usize, usize)], paths: &[Path], other_card: &[usize], split: &dyn Fn(usize) -> Vec<usize>) -> (u64, u64) {
	let mut card = vec![5usize, 5, 5, 5, 5];
	card.extend_from_slice(other_card);
	let mut seen: HashSet<(usize, usize, usize, usize)> = HashSet::new();
	for (pi, c) in cases {
		let p = &paths[*pi];
		let mut vals: Vec<Option<usize>> = vec![Some(p.0 as usize)];
		for pos in 0..4 {
			if pos < p.0 as usize {
				vals.push(IDX.iter().position(|x| *x == p.1[pos]));
			} else {
				vals.push(None);
			}
		}
		for v in split(*c) {
			vals.push(Some(v));
		}
		for f in 0..vals.len() {
			for g in f + 1..vals.len() {
				if let (Some(a), Some(b)) = (vals[f], vals[g]) {
					seen.insert((f, a, g, b));
				}
			}
		}
	}
	let (mut required, mut covered) = (0u64, 0u64);
	for f in 0..card.len() {
		for g in f + 1..card.len() {
			for a in 0..card[f] {
				for b in 0..card[g] {
					// depth a has position g-1 only if a >= g; positions f-1 < g-1 both exist whenever g-1 does
					let realisable = !(f == 0 && (1..=4).contains(&g)) || a >= g;
					if realisable {
						required += 1;
						if seen.contains(&(f, a, g, b)) {
							covered += 1;
						}
					}
				}
			}
		}
	}
	(covered, required)
}

fn cover_extras(r: &mut Report, part: &str, cases: &[(usize, usize)], paths: &[Path], combos: usize, other_card: &[usize], split: &dyn Fn(usize) -> Vec<usize>) {
	let (cov, req) = pairwise_cover(cases, paths, other_card, split);
	r.extra.insert("bound_cases".into(), json!(cases.len()));
	r.extra.insert("bound_pairwise_pairs_required".into(), json!(req));
	r.extra.insert("bound_pairwise_pairs_covered".into(), json!(cov));
	let mut per_path: BTreeMap<usize, usize> = BTreeMap::new();
	for (pi, _) in cases {
		*per_path.entry(*pi).or_insert(0) += 1;
	}
	r.extra.insert("bound_paths".into(), json!(per_path.len()));
	r.extra.insert("bound_paths_with_full_product".into(), json!(per_path.values().filter(|v| **v == combos).count()));
	if cov != req {
		r.violation(
			format!("machinery:{}-cover", part),
			format!("case list covers {} of {} factor-value pairs ({} of {} paths)", cov, req, per_path.len(), paths.len()),
			json!({"part": part}),
		);
	}
}

// ------------------------------------------------------------------------------------------
// part: derive
// ------------------------------------------------------------------------------------------

fn msg32(tag: u8) -> Message {
	Message::from_slice(&[tag; 32]).expect("message")
}

const DCOMBOS: usize = 3 * 6 * 2;

fn dcombo(c: usize) -> (usize, usize, usize) {
	(c / 12, (c / 2) % 6, c % 2)
}

/// quick: the full product seeds x amounts x switch on depth <= 1, six combinations on depth 2,
/// one on every depth-3 path and on the 125 `quick_deep` depth-4 paths; thorough: the complete
/// product on all 781 paths.
fn derive_cases(tier: Tier, paths: &[Path]) -> Vec<(usize, usize)> {
	case_list(paths, DCOMBOS, &|p: &Path| match tier {
		Tier::Thorough => None,
		Tier::Quick => match p.0 {
			0 | 1 => None,
			2 => Some(6),
			3 => Some(1),
			_ => Some(quick_deep(p) as usize),
		},
	})
}

/// public derivation of the view key for a path without hardened steps
fn public_chain(kc: &ExtKeychain, p: &Path) -> Result<Option<ViewKey>, String> {
	if path_has_hardened(p) {
		return Ok(None);
	}
	let mut k = view_key(kc);
	let mut h = kc.hasher();
	for i in 0..p.0 as usize {
		k = k
			.ckd_pub(kc.secp(), &mut h, ChildNumber::from(p.1[i]))
			.map_err(|e| format!("public derivation step {} failed: {:?}", i, e))?;
	}
	Ok(Some(k))
}

#[allow(clippy::too_many_arguments)]
fn derive_case(kc: &ExtKeychain, kc2: &ExtKeychain, other_kc: &ExtKeychain, seed: u8, p: &Path, amount_i: usize, sw: SwitchCommitmentType, extras: bool, o: &mut Obs) {
	let secp = kc.secp();
	let id = ident(p);
	let amount = AMOUNTS[amount_i];
	let other_amount = AMOUNTS[(amount_i + 1) % AMOUNTS.len()];
	let msg = msg32(0x5a);
	let what = format!("seed {} path {:?} amount {} switch {}", seed, p, amount, sw_name(sw));
	// identifier round trip (the path is what rewind has to give back)
	let back = id.to_path();
	let back_p: Path = (back.depth, [u32::from(back.path[0]), u32::from(back.path[1]), u32::from(back.path[2]), u32::from(back.path[3])]);
	o.evals += 1;
	if back_p != *p {
		o.fail("derive:identifier-roundtrip", format!("{}: identifier decodes to {:?}", what, back_p));
	}
	let k1 = kc.derive_key(amount, &id, sw);
	let k2 = kc.derive_key(amount, &id, sw);
	let c1 = kc.commit(amount, &id, sw);
	let c2 = kc.commit(amount, &id, sw);
	o.evals += 4;
	let (k1, c1) = match (k1, c1) {
		(Ok(k), Ok(c)) => (k, c),
		(k, c) => {
			o.fail("derive:error", format!("{}: derive_key -> {:?}, commit -> {:?}", what, k.map(|_| "ok"), c.map(|_| "ok")));
			return;
		}
	};
	if k2.as_ref().ok() != Some(&k1) {
		o.fail("derive:key-nondeterministic", format!("{}: derive_key called twice differs", what));
	}
	if c2.as_ref().ok() != Some(&c1) {
		o.fail("derive:commit-nondeterministic", format!("{}: commit called twice differs", what));
	}
	// re-created keychain
	o.evals += 2;
	if kc2.derive_key(amount, &id, sw).ok().as_ref() != Some(&k1) {
		o.fail("derive:key-recreated", format!("{}: derive_key from a re-created keychain differs", what));
	}
	if kc2.commit(amount, &id, sw).ok() != Some(c1) {
		o.fail("derive:commit-recreated", format!("{}: commit from a re-created keychain differs", what));
	}
	o.out("deterministic");
	// the commitment is the Pedersen commitment to (amount, derived key), computed in another context
	let s = grin_util::static_secp_instance();
	let s = s.lock();
	o.evals += 1;
	if s.commit(amount, k1.clone()).ok() != Some(c1) {
		o.fail("derive:commit-vs-key", format!("{}: commit != amount*H + derive_key*G", what));
	}
	let pk = PublicKey::from_secret_key(secp, &k1).expect("pubkey");
	// public derivation twin: commit = (publicly derived key) + amount*H  (plain commitments only:
	// the public side of a switch commitment needs the blinding factor tweak)
	match (public_chain(kc, p), sw) {
		(Err(e), _) => o.fail("derive:ckd_pub-error", format!("{}: {}", what, e)),
		(Ok(Some(vk)), SwitchCommitmentType::None) => {
			o.evals += 1;
			if amount == 0 {
				// 0*H is the point at infinity: the commitment is the public key itself
				if c1.to_pubkey(secp).ok() != Some(pk) {
					o.fail("derive:commit0-vs-pubkey", format!("{}: commit(0) is not the public key of the derived key", what));
				}
				match vk.commit(secp, 1, sw) {
					Ok(p1) => {
						let c_one = s.commit(1, k1.clone()).ok().and_then(|c| c.to_pubkey(secp).ok());
						if Some(p1) != c_one {
							o.fail("derive:public-twin", format!("{}: public (view key) derivation gives another key than private derivation", what));
						} else {
							o.out("public-twin-agrees");
						}
					}
					Err(e) => o.fail("derive:public-twin-error", format!("{}: ViewKey::commit(1) -> {:?}", what, e)),
				}
			} else {
				match vk.commit(secp, amount, sw) {
					Ok(p) => {
						if Some(p) != c1.to_pubkey(secp).ok() {
							o.fail("derive:public-twin", format!("{}: public (view key) derivation gives another commitment than private derivation", what));
						} else {
							o.out("public-twin-agrees");
						}
					}
					Err(e) => o.fail("derive:public-twin-error", format!("{}: ViewKey::commit -> {:?}", what, e)),
				}
			}
		}
		(Ok(None), _) => o.out("hardened-no-public-twin"),
		(Ok(Some(_)), SwitchCommitmentType::Regular) => o.out("switch-no-public-twin"),
	}
	if !extras {
		return;
	}
	// another seed gives another key
	o.evals += 1;
	let other_key = other_kc.derive_key(amount, &id, sw).ok();
	if other_key.as_ref() == Some(&k1) {
		o.fail("derive:seed-independent", format!("{}: another seed gives the same key", what));
	} else {
		o.out("other-seed-differs");
	}
	// amount dependence: the commitment binds the amount; without switch the blinding part does not
	// depend on it (c - amount*H is the same point), with switch it does
	o.evals += 1;
	match kc.commit(other_amount, &id, sw) {
		Ok(co) => {
			if co == c1 {
				o.fail("derive:commit-ignores-amount", format!("{}: same commitment for amount {}", what, other_amount));
			}
			let blind_part = |c: Commitment, v: u64| -> Option<Commitment> {
				if v == 0 {
					Some(c)
				} else {
					s.commit_sum(vec![c], vec![s.commit_value(v).ok()?]).ok()
				}
			};
			let (b1, b2) = (blind_part(c1, amount), blind_part(co, other_amount));
			match sw {
				SwitchCommitmentType::None => {
					if b1.is_none() || b1 != b2 {
						o.fail("derive:none-key-depends-on-amount", format!("{}: the blinding part differs for amount {}", what, other_amount));
					} else {
						o.out("plain-key-amount-independent");
					}
				}
				SwitchCommitmentType::Regular => {
					if b1.is_none() || b1 == b2 {
						o.fail("derive:regular-key-ignores-amount", format!("{}: the blinding part is the same for amount {}", what, other_amount));
					} else {
						o.out("switch-key-binds-amount");
					}
				}
			}
		}
		Err(e) => o.fail("derive:error", format!("{}: commit for amount {} -> {:?}", what, other_amount, e)),
	}
	// Keychain::sign verifies under the derived key, not under another seed's key
	o.evals += 3;
	match kc.sign(&msg, amount, &id, sw) {
		Ok(sig) => {
			if secp.verify(&msg, &sig, &pk).is_err() {
				o.fail("derive:sign-verify", format!("{}: Keychain::sign does not verify under the derived key", what));
			} else {
				o.out("sig-verified");
			}
			let opk = other_key.and_then(|k| PublicKey::from_secret_key(secp, &k).ok());
			match opk {
				Some(opk) if secp.verify(&msg, &sig, &opk).is_ok() => o.fail("derive:sign-verify-other", format!("{}: signature verifies under another seed's key", what)),
				_ => o.out("sig-rejected-other-seed"),
			}
		}
		Err(e) => o.fail("derive:sign-error", format!("{}: Keychain::sign -> {:?}", what, e)),
	}
}

/// all 781 plain keys of one seed are pairwise distinct (depth matters: m/0 != m/0/0)
fn derive_sweep(seed_i: usize, paths: &[Path], r: &mut Report) {
	let seed = SEEDS[seed_i];
	let kc = uni::keychain(seed);
	let mut seen: BTreeMap<[u8; 32], usize> = BTreeMap::new();
	for (pi, p) in paths.iter().enumerate() {
		r.evaluations += 1;
		match kc.derive_key(0, &ident(p), SwitchCommitmentType::None) {
			Ok(k) => {
				if let Some(prev) = seen.insert(k.0, pi) {
					r.violation(
						"derive:key-collision",
						format!("seed {}: paths {:?} and {:?} derive the same key", seed, paths[prev], p),
						json!({"part": "derive", "sweep": true, "seed_i": seed_i, "a": {"depth": paths[prev].0, "path": paths[prev].1}, "b": {"depth": p.0, "path": p.1}}),
					);
				}
			}
			Err(e) => r.violation("derive:error", format!("seed {} path {:?}: derive_key -> {:?}", seed, p, e), json!({"part": "derive", "sweep": true, "seed_i": seed_i})),
		}
	}
	*r.outcomes.entry("sweep-distinct-keys".into()).or_insert(0) += seen.len() as u64;
	r.distinct += 1;
}

fn dcase_json(p: &Path, c: usize) -> Value {
	let (s, a, sw) = dcombo(c);
	json!({"part": "derive", "seed_i": s, "seed": SEEDS[s], "depth": p.0, "path": p.1, "amount_i": a, "amount": AMOUNTS[a], "switch": sw_name(SWITCHES[sw])})
}

fn derive(tier: Tier, shard: usize, n: usize) -> Report {
	let mut r = Report::new();
	let paths = all_paths();
	// the first shards sweep one seed each for collisions, the others share the cases
	// (quick: dedicated to it; thorough: the sweep is small against the cases, all shards share them)
	let mut sweepers = if n > SEEDS.len() { SEEDS.len() } else { 0 };
	if shard < sweepers {
		derive_sweep(shard, &paths, &mut r);
		if tier == Tier::Quick {
			return r;
		}
	}
	if sweepers == 0 && shard == 0 {
		for s in 0..SEEDS.len() {
			derive_sweep(s, &paths, &mut r);
		}
	}
	if tier == Tier::Thorough {
		sweepers = 0;
	}
	let cases = derive_cases(tier, &paths);
	// the checks beyond the determinism oracle (other seed, other amount, signature) run on the
	// pairwise-covering list of the quick tier in both tiers
	let extras: HashSet<(usize, usize)> = derive_cases(Tier::Quick, &paths).into_iter().collect();
	let kcs: Vec<ExtKeychain> = SEEDS.iter().map(|s| uni::keychain(*s)).collect();
	let mut kc2s: Vec<ExtKeychain> = SEEDS.iter().map(|s| uni::keychain(*s)).collect();
	let mut done = 0u64;
	for (i, (pi, c)) in cases.iter().enumerate() {
		if !mine(i as u64, shard - sweepers, n - sweepers) {
			continue;
		}
		let (s, a, sw) = dcombo(*c);
		// the second keychain is created anew every 32 cases
		if done % 32 == 31 {
			kc2s[s] = ExtKeychain::from_seed(&[SEEDS[s]; 32], false).expect("keychain");
		}
		done += 1;
		let p = &paths[*pi];
		let case = dcase_json(p, *c);
		let mut o = Obs::new();
		derive_case(&kcs[s], &kc2s[s], &kcs[(s + 1) % SEEDS.len()], SEEDS[s], p, a, SWITCHES[sw], extras.contains(&(*pi, *c)), &mut o);
		r.distinct += 1;
		if i % 499 == 7 {
			let cm = kcs[s].commit(AMOUNTS[a], &ident(p), SWITCHES[sw]).map(|c| hex(&c.0)).unwrap_or_default();
			r.sample(json!({"case": case, "commit": cm, "outcomes": o.outcomes}));
		}
		o.into_report(&mut r, &case);
	}
	if shard == sweepers {
		cover_extras(&mut r, "derive", &cases, &paths, DCOMBOS, &[3, 6, 2], &|c| {
			let (s, a, sw) = dcombo(c);
			vec![s, a, sw]
		});
	}
	r
}

// ------------------------------------------------------------------------------------------
// part: proofs
// ------------------------------------------------------------------------------------------

const COMBOS: usize = 3 * 6 * 2 * 2;

/// (seed, amount, switch, builder generation)
fn combo(c: usize) -> (usize, usize, usize, usize) {
	(c / 24, (c / 4) % 6, (c / 2) % 2, c % 2)
}

/// quick: the full product seeds x amounts x switch x generation (72) on depth <= 1, six
/// combinations on every depth-2 path, one on every depth-3 path and on the 125 `quick_deep`
/// depth-4 paths.
/// thorough: the full product on depth <= 3 and on the 16 index-corner paths of depth 4 (every
/// index from {0, 2^32-1}), twelve combinations on every other depth-4 path.
fn proof_cases(tier: Tier, paths: &[Path]) -> Vec<(usize, usize)> {
	case_list(paths, COMBOS, &|p: &Path| match tier {
		Tier::Quick => match p.0 {
			0 | 1 => None,
			2 => Some(6),
			3 => Some(1),
			_ => Some(quick_deep(p) as usize),
		},
		Tier::Thorough => {
			if p.0 <= 3 || is_corner(p) {
				None
			} else {
				Some(12)
			}
		}
	})
}

type Rewound = Result<Option<(u64, Identifier, SwitchCommitmentType)>, String>;

fn rewind_with<B: ProofBuild>(secp: &Secp256k1, b: &B, commit: Commitment, proof: RangeProof) -> Rewound {
	proof::rewind(secp, b, commit, None, proof).map_err(|e| format!("{:?}", e))
}

fn show(rw: &Rewound) -> String {
	match rw {
		Ok(Some((a, id, sw))) => format!("Some(amount {}, id {}, switch {})", a, id, sw_name(*sw)),
		Ok(None) => "None".into(),
		Err(e) => format!("Err({})", e),
	}
}

struct Keys {
	kcs: Vec<ExtKeychain>,
	vks: Vec<ViewKey>,
	/// depth-1 view keys for the normal first indices 0, 1, 2^31-1 of every seed
	child_vks: Vec<Vec<(u32, ViewKey)>>,
	/// the same depth-1 view keys obtained the other way: ViewKey::create on the privately derived
	/// extended key m/i
	child_vks_priv: Vec<Vec<(u32, ViewKey)>>,
}

impl Keys {
	fn new() -> Keys {
		let kcs: Vec<ExtKeychain> = SEEDS.iter().map(|s| uni::keychain(*s)).collect();
		let vks: Vec<ViewKey> = kcs.iter().map(view_key).collect();
		let child_vks = kcs
			.iter()
			.zip(vks.iter())
			.map(|(kc, vk)| {
				let mut h = kc.hasher();
				IDX.iter()
					.filter(|i| !hardened(**i))
					.map(|i| (*i, vk.ckd_pub(kc.secp(), &mut h, ChildNumber::from(*i)).expect("child view key")))
					.collect()
			})
			.collect();
		let child_vks_priv = kcs
			.iter()
			.map(|kc| {
				let mut h = kc.hasher();
				IDX.iter()
					.filter(|i| !hardened(**i))
					.map(|i| {
						let ext = kc.master.ckd_priv(kc.secp(), &mut h, ChildNumber::from(*i)).expect("ckd_priv");
						(*i, ViewKey::create(kc, ext, &mut h, false).expect("view key of a derived key"))
					})
					.collect()
			})
			.collect();
		Keys { kcs, vks, child_vks, child_vks_priv }
	}
}

struct Builders<'a> {
	new_b: Vec<ProofBuilder<'a, ExtKeychain>>,
	leg_b: Vec<LegacyProofBuilder<'a, ExtKeychain>>,
}

impl<'a> Builders<'a> {
	fn new(keys: &'a Keys) -> Builders<'a> {
		Builders {
			new_b: keys.kcs.iter().map(ProofBuilder::new).collect(),
			leg_b: keys.kcs.iter().map(LegacyProofBuilder::new).collect(),
		}
	}
}

/// create -> verify -> rewind for one case. Everything the part decides is decided here, so that
/// `replay` runs exactly the same code. `extras`: also create twice and verify against another
/// commitment (done on the shallow paths).
fn proof_case(keys: &Keys, b: &Builders, p: &Path, c: usize, extras: bool, o: &mut Obs) -> Option<(Commitment, RangeProof)> {
	let (seed_i, amount_i, switch_i, gen) = combo(c);
	let kc = &keys.kcs[seed_i];
	let secp = kc.secp();
	let amount = AMOUNTS[amount_i];
	let sw = SWITCHES[switch_i];
	let id = ident(p);
	let what = format!("seed {} path {:?} amount {} switch {} builder {}", SEEDS[seed_i], p, amount, sw_name(sw), BUILDER_NAMES[gen]);
	let commit = match kc.commit(amount, &id, sw) {
		Ok(c) => c,
		Err(e) => {
			o.fail("proof:commit-error", format!("{}: commit -> {:?}", what, e));
			return None;
		}
	};
	let create = |o: &mut Obs| {
		o.evals += 1;
		if gen == B_NEW {
			proof::create(kc, &b.new_b[seed_i], amount, &id, sw, commit, None)
		} else {
			proof::create(kc, &b.leg_b[seed_i], amount, &id, sw, commit, None)
		}
	};
	let pr = match create(o) {
		Ok(p) => p,
		Err(e) => {
			o.fail("proof:create-error", format!("{}: proof::create -> {:?}", what, e));
			return None;
		}
	};
	// verify (in the keychain's context and through Output, which uses the static context)
	o.evals += 2;
	if let Err(e) = proof::verify(secp, commit, pr, None) {
		o.fail("proof:verify", format!("{}: proof::verify -> {:?}", what, e));
	} else {
		o.out("verify-ok");
	}
	if let Err(e) = Output::new(OutputFeatures::Plain, commit, pr).verify_proof() {
		o.fail("proof:output-verify", format!("{}: Output::verify_proof -> {:?}", what, e));
	}
	if extras {
		// deterministic creation (the nonces are derived from seed and commitment)
		match create(o) {
			Ok(p2) if p2.proof[..p2.plen] == pr.proof[..pr.plen] => o.out("create-deterministic"),
			_ => o.fail("proof:create-nondeterministic", format!("{}: proof::create called twice gives different proofs", what)),
		}
		// the same proof must not verify for the commitment to another amount under the same key
		let other = kc.commit(AMOUNTS[(amount_i + 1) % AMOUNTS.len()], &id, sw).expect("commit");
		o.evals += 1;
		if proof::verify(secp, other, pr, None).is_ok() {
			o.fail("proof:verify-other-commit", format!("{}: the proof verifies for the commitment to another amount", what));
		} else {
			o.out("verify-rejected-other-commit");
		}
	}
	// rewind, same seed, same builder generation
	let exact = |rw: &Rewound| matches!(rw, Ok(Some((a, i, s))) if *a == amount && *i == id && *s == sw);
	o.evals += 1;
	let rw = if gen == B_NEW {
		rewind_with(secp, &b.new_b[seed_i], commit, pr)
	} else {
		rewind_with(secp, &b.leg_b[seed_i], commit, pr)
	};
	// the legacy message has room for the 16 path bytes only: depth 3 and the regular switch are
	// implied (documented in the code), so exact recovery is demanded there only
	let in_domain = gen == B_NEW || (p.0 == 3 && sw == SwitchCommitmentType::Regular);
	if in_domain {
		if exact(&rw) {
			o.out("rewind-own-exact");
		} else {
			let key = format!("rewind:own-seed:{}", if gen == B_NEW { "new" } else { "legacy" });
			o.fail(&key, format!("{}: rewind with the same seed gives {} instead of exactly (amount, id, switch)", what, show(&rw)));
		}
	} else {
		match &rw {
			Ok(None) => o.out("rewind-legacy-outside-domain-none"),
			_ if exact(&rw) => o.out("rewind-legacy-outside-domain-exact"),
			_ => o.fail("rewind:legacy-outside-domain-wrong", format!("{}: legacy rewind outside its domain gives {} (neither nothing nor the truth)", what, show(&rw))),
		}
	}
	// rewind with every other seed: nothing
	for j in 0..keys.kcs.len() {
		if j == seed_i {
			continue;
		}
		o.evals += 1;
		let rw = if gen == B_NEW {
			rewind_with(secp, &b.new_b[j], commit, pr)
		} else {
			rewind_with(secp, &b.leg_b[j], commit, pr)
		};
		match rw {
			Ok(None) => o.out("rewind-other-seed-none"),
			_ => o.fail("rewind:other-seed", format!("{}: rewind with seed {} gives {} instead of None", what, SEEDS[j], show(&rw))),
		}
	}
	// the other builder generation of the same seed uses another nonce: it must not mis-recover
	o.evals += 1;
	let rw = if gen == B_NEW {
		rewind_with(secp, &b.leg_b[seed_i], commit, pr)
	} else {
		rewind_with(secp, &b.new_b[seed_i], commit, pr)
	};
	match &rw {
		Ok(None) => o.out("rewind-other-generation-none"),
		_ if exact(&rw) => o.out("rewind-other-generation-exact"),
		_ => o.fail("rewind:other-generation-wrong", format!("{}: the other builder generation rewinds to {}", what, show(&rw))),
	}
	// view keys (the view key shares the rewind nonce of ProofBuilder only)
	if gen == B_NEW {
		let hard = path_has_hardened(p);
		let vk_key = |kind: &str| -> String {
			match (sw, amount) {
				(SwitchCommitmentType::Regular, _) => "viewkey:regular-switch".to_string(),
				(_, 0) => "viewkey:amount-zero".to_string(),
				_ => format!("viewkey:{}", kind),
			}
		};
		o.evals += 1;
		let rw = rewind_with(secp, &keys.vks[seed_i], commit, pr);
		if hard {
			// public derivation cannot pass a hardened step (BIP32): nothing may be recovered
			match &rw {
				Ok(None) => o.out("viewkey-hardened-none"),
				_ => o.fail("viewkey:hardened", format!("{}: view key rewind over a hardened path gives {}", what, show(&rw))),
			}
		} else if exact(&rw) {
			o.out("viewkey-exact");
		} else {
			o.fail(&vk_key("mismatch"), format!("{}: rewind with the matching view key gives {} instead of exactly (amount, id, switch)", what, show(&rw)));
		}
		// view keys of other seeds: nothing
		for (j, vk) in keys.vks.iter().enumerate() {
			if j == seed_i {
				continue;
			}
			o.evals += 1;
			let rw = rewind_with(secp, vk, commit, pr);
			match rw {
				Ok(None) => o.out("viewkey-other-seed-none"),
				_ => o.fail("viewkey:other-seed", format!("{}: view key of seed {} gives {}", what, SEEDS[j], show(&rw))),
			}
		}
		// child view keys (depth 1): match exactly the paths below them
		for (ci, cvk) in &keys.child_vks[seed_i] {
			o.evals += 1;
			let rw = rewind_with(secp, cvk, commit, pr);
			let below = p.0 >= 1 && p.1[0] == *ci;
			if below && !hard {
				if exact(&rw) {
					o.out("child-viewkey-exact");
				} else {
					o.fail(&vk_key("child-mismatch"), format!("{}: rewind with the child view key m/{} gives {}", what, ci, show(&rw)));
				}
			} else {
				match &rw {
					Ok(None) => o.out("child-viewkey-none"),
					_ => o.fail("viewkey:child-foreign", format!("{}: child view key m/{} (not an ancestor, or hardened below) gives {}", what, ci, show(&rw))),
				}
			}
		}
		// the same child view keys built from the privately derived extended key: same answers
		for (ci, cvk) in &keys.child_vks_priv[seed_i] {
			o.evals += 1;
			let rw = rewind_with(secp, cvk, commit, pr);
			let below = p.0 >= 1 && p.1[0] == *ci;
			if below && !hard {
				if exact(&rw) {
					o.out("child-viewkey(private route)-exact");
				} else {
					o.fail(&vk_key("child-private-route-mismatch"), format!("{}: rewind with the view key created from the derived private key m/{} gives {}", what, ci, show(&rw)));
				}
			} else {
				match &rw {
					Ok(None) => o.out("child-viewkey(private route)-none"),
					_ => o.fail("viewkey:child-private-route-foreign", format!("{}: view key created from m/{} (not an ancestor, or hardened below) gives {}", what, ci, show(&rw))),
				}
			}
		}
	}
	Some((commit, pr))
}

fn pcase_json(p: &Path, c: usize) -> Value {
	let (s, a, sw, g) = combo(c);
	json!({"part": "proofs", "combo": c, "seed_i": s, "seed": SEEDS[s], "depth": p.0, "path": p.1, "amount": AMOUNTS[a], "switch": sw_name(SWITCHES[sw]), "builder": BUILDER_NAMES[g]})
}

fn proofs(tier: Tier, shard: usize, n: usize) -> Report {
	let mut r = Report::new();
	let paths = all_paths();
	let cases = proof_cases(tier, &paths);
	let keys = Keys::new();
	let b = Builders::new(&keys);
	for (i, (pi, c)) in cases.iter().enumerate() {
		if !mine(i as u64, shard, n) {
			continue;
		}
		let p = &paths[*pi];
		let case = pcase_json(p, *c);
		let mut o = Obs::new();
		// creating twice and the foreign-commitment verification: on the shallowest paths
		let res = proof_case(&keys, &b, p, *c, p.0 <= tier.pick(0, 1), &mut o);
		r.distinct += 1;
		if let Some((commit, pr)) = res {
			if i % 397 == 5 {
				r.sample(json!({"case": case, "commit": hex(&commit.0), "proof_len": pr.plen, "outcomes": o.outcomes}));
			}
		}
		o.into_report(&mut r, &case);
	}
	if shard == 0 {
		cover_extras(&mut r, "proofs", &cases, &paths, COMBOS, &[3, 6, 2, 2], &|c| {
			let (s, a, sw, g) = combo(c);
			vec![s, a, sw, g]
		});
	}
	r
}

// ------------------------------------------------------------------------------------------
// part: blind
// ------------------------------------------------------------------------------------------

/// alphabet: the zero blinding factor + 4 generic derived keys (three seeds, depths 0..4, both
/// switch modes). Checked: no two distinct reduced signed multisets of size <= 3 have equal sums,
/// i.e. a zero (partial) result arises only by cancelling the same key.
fn blind_alphabet() -> Vec<Sc> {
	let key = |seed_i: usize, p: Path, v: u64, sw: SwitchCommitmentType| -> Sc {
		Sc::of_key(&uni::keychain(SEEDS[seed_i]).derive_key(v, &ident(&p), sw).expect("derive"))
	};
	let al = vec![
		Sc::ZERO,
		key(0, (3, [1, 2, 3, 0]), 0, SwitchCommitmentType::None),
		key(1, (1, [0x8000_0000, 0, 0, 0]), 1, SwitchCommitmentType::Regular),
		key(0, (0, [0, 0, 0, 0]), 0, SwitchCommitmentType::None),
		key(2, (4, [0, 0xffff_ffff, 1, 0x7fff_ffff]), u64::MAX, SwitchCommitmentType::Regular),
	];
	// the stated genericity of the alphabet, verified
	let mut sums: BTreeMap<Sc, (Vec<usize>, Vec<usize>)> = BTreeMap::new();
	for pos in multisets(5, 3) {
		for neg in multisets(5, 3 - pos.len()) {
			if pos.contains(&0) || neg.contains(&0) || pos.iter().any(|x| neg.contains(x)) {
				continue;
			}
			let mut s = Sc::ZERO;
			for i in &pos {
				s = s.add(&al[*i]);
			}
			for i in &neg {
				s = s.sub(&al[*i]);
			}
			assert!(pos.is_empty() && neg.is_empty() || !s.is_zero(), "alphabet not generic: zero sum");
			if let Some(prev) = sums.insert(s, (pos.clone(), neg.clone())) {
				panic!("alphabet not generic: {:?} and {:?} have equal sums", prev, (pos, neg));
			}
		}
	}
	al
}

fn sym(i: usize) -> String {
	if i == 0 {
		"zero".into()
	} else {
		format!("k{}", i)
	}
}

fn syms(v: &[usize]) -> String {
	v.iter().map(|i| sym(*i)).collect::<Vec<_>>().join(", ")
}

fn permutations(v: &[usize]) -> Vec<Vec<usize>> {
	if v.len() <= 1 {
		return vec![v.to_vec()];
	}
	let mut out: Vec<Vec<usize>> = vec![];
	for i in 0..v.len() {
		let mut rest = v.to_vec();
		let x = rest.remove(i);
		for mut p in permutations(&rest) {
			p.insert(0, x);
			if !out.contains(&p) {
				out.push(p);
			}
		}
	}
	out
}

/// all non-decreasing index lists of length <= max over 0..k
fn multisets(k: usize, max: usize) -> Vec<Vec<usize>> {
	let mut out = vec![vec![]];
	let mut frontier: Vec<Vec<usize>> = vec![vec![]];
	for _ in 0..max {
		let mut next = vec![];
		for m in &frontier {
			let lo = m.last().cloned().unwrap_or(0);
			for x in lo..k {
				let mut m2 = m.clone();
				m2.push(x);
				next.push(m2);
			}
		}
		out.extend(next.iter().cloned());
		frontier = next;
	}
	out
}

fn e2s<T, E: std::fmt::Debug>(r: Result<T, E>) -> Result<T, String> {
	r.map_err(|e| format!("{:?}", e))
}

/// state of a chain of arithmetic steps
#[derive(Clone, PartialEq, Debug)]
enum Chain {
	Val(BlindingFactor),
	/// a step whose true result is the zero scalar failed: the chain cannot go on
	ZeroStop,
	Wrong,
}

/// One call of the arithmetic under test judged against the reference scalar. `site` names the
/// function called (blind_sum / add / split): the violation key is `<site>:<kind>`.
fn step(site: &str, got: Result<BlindingFactor, String>, exp: &Sc, what: &str, o: &mut Obs) -> Chain {
	o.evals += 1;
	match got {
		Ok(b) => {
			if b.as_ref() == &exp.to_be()[..] {
				o.out(&format!("{}-ok{}", site, if exp.is_zero() { "-zero" } else { "" }));
				Chain::Val(b)
			} else {
				o.fail(&format!("{}:value", site), format!("{}: got {} expected {}", what, hex(b.as_ref()), hex(&exp.to_be())));
				Chain::Wrong
			}
		}
		Err(e) => {
			if exp.is_zero() {
				o.fail("blind:zero-result", format!("{} [{}]: the true result is the zero blinding factor (a value the type represents and accepts as operand) but the call fails with {}", what, site, e));
				Chain::ZeroStop
			} else {
				o.fail(&format!("{}:error", site), format!("{}: fails with {} (expected {})", what, e, hex(&exp.to_be())));
				Chain::Wrong
			}
		}
	}
}

/// fold `BlindingFactor::add` over the list, judging every partial sum
fn add_chain(secp: &Secp256k1, terms: &[(BlindingFactor, Sc)], what: &str, o: &mut Obs) -> (Chain, Sc) {
	let mut acc = Chain::Val(terms[0].0.clone());
	let mut exp = terms[0].1;
	for (k, (b, s)) in terms.iter().enumerate().skip(1) {
		exp = exp.add(s);
		acc = match acc {
			Chain::Val(a) => step("add", e2s(a.add(b, secp)), &exp, &format!("{} (after {} terms)", what, k + 1), o),
			x => x,
		};
	}
	(acc, exp)
}

/// the verdict on a set of orders of the same sum
fn order_verdict(site: &str, finals: &[(Vec<usize>, Chain)], what: &str, o: &mut Obs) {
	o.evals += 1;
	let vals: Vec<&(Vec<usize>, Chain)> = finals.iter().filter(|x| matches!(x.1, Chain::Val(_))).collect();
	let zeros: Vec<&(Vec<usize>, Chain)> = finals.iter().filter(|x| x.1 == Chain::ZeroStop).collect();
	if vals.iter().any(|x| x.1 != vals[0].1) {
		o.fail(&format!("{}:order", site), format!("{}: different values in different orders", what));
	} else if !vals.is_empty() && !zeros.is_empty() {
		o.fail(
			"blind:zero-result",
			format!("{} [{}]: succeeds in order {:?} but fails in order {:?}, where a partial sum cancels to zero", what, site, vals[0].0, zeros[0].0),
		);
	} else {
		o.out("order-independent");
	}
}

/// signed multiset through `Keychain::blind_sum`, every order of both lists
fn blind_sum_case(kc: &ExtKeychain, al: &[Sc], pos: &[usize], neg: &[usize], o: &mut Obs) {
	let mut exp = Sc::ZERO;
	for i in pos {
		exp = exp.add(&al[*i]);
	}
	for i in neg {
		exp = exp.sub(&al[*i]);
	}
	let mut finals = vec![];
	for pp in permutations(pos) {
		for np in permutations(neg) {
			let mut bs = BlindSum::new();
			for i in &pp {
				bs = bs.add_blinding_factor(al[*i].to_blind());
			}
			for i in &np {
				bs = bs.sub_blinding_factor(al[*i].to_blind());
			}
			let c = step("blind_sum", e2s(kc.blind_sum(&bs)), &exp, &format!("Keychain::blind_sum(+[{}] -[{}])", syms(&pp), syms(&np)), o);
			let mut order = pp.clone();
			order.extend(np.iter().map(|x| x + 100));
			finals.push((order, c));
		}
	}
	order_verdict("blind_sum", &finals, &format!("blind_sum(+{:?} -{:?})", pos, neg), o);
}

/// positive multiset through chained `BlindingFactor::add`, every order
fn add_chain_case(secp: &Secp256k1, al: &[Sc], pos: &[usize], o: &mut Obs) {
	let mut finals = vec![];
	for pp in permutations(pos) {
		let terms: Vec<(BlindingFactor, Sc)> = pp.iter().map(|i| (al[*i].to_blind(), al[*i])).collect();
		let (c, _) = add_chain(secp, &terms, &format!("BlindingFactor::add chain over [{}]", syms(&pp)), o);
		finals.push((pp, c));
	}
	order_verdict("add", &finals, &format!("add chain over {:?}", pos), o);
}

/// x + b1 [+ b2], then taking the same away again restores x: via blind_sum and via split
fn add_sub_case(kc: &ExtKeychain, al: &[Sc], x: usize, bs: &[usize], o: &mut Obs) {
	let secp = kc.secp();
	let what = format!("({} + [{}])", sym(x), syms(bs));
	let mut terms = vec![(al[x].to_blind(), al[x])];
	terms.extend(bs.iter().map(|i| (al[*i].to_blind(), al[*i])));
	let (t, _) = add_chain(secp, &terms, &format!("{} forward", what), o);
	let t = match t {
		Chain::Val(t) => t,
		_ => return,
	};
	// subtract through blind_sum
	let mut s = BlindSum::new().add_blinding_factor(t.clone());
	for b in bs {
		s = s.sub_blinding_factor(al[*b].to_blind());
	}
	if let Chain::Val(_) = step("blind_sum", e2s(kc.blind_sum(&s)), &al[x], &format!("{} then the same subtracted again with Keychain::blind_sum", what), o) {
		o.out("add-then-sub-restores");
	}
	// subtract through split (split takes the first part away)
	let mut back = Chain::Val(t);
	let mut exp = terms.iter().fold(Sc::ZERO, |a, (_, s)| a.add(s));
	for b in bs.iter().rev() {
		exp = exp.sub(&al[*b]);
		back = match back {
			Chain::Val(a) => step("split", e2s(a.split(&al[*b].to_blind(), secp)), &exp, &format!("{} then {} split off again", what, sym(*b)), o),
			x => x,
		};
	}
	if let Chain::Val(_) = back {
		o.out("add-then-split-restores");
	}
}

/// whole w split by the parts ps: the remainder is w - sum(ps), and all parts re-sum to w
fn split_case(kc: &ExtKeychain, al: &[Sc], w: usize, ps: &[usize], o: &mut Obs) {
	let secp = kc.secp();
	let what = format!("whole {} split by parts [{}]", sym(w), syms(ps));
	let mut rest = Chain::Val(al[w].to_blind());
	let mut rexp = al[w];
	for p in ps {
		rexp = rexp.sub(&al[*p]);
		rest = match rest {
			Chain::Val(a) => step("split", e2s(a.split(&al[*p].to_blind(), secp)), &rexp, &format!("{} remainder after part {}", what, sym(*p)), o),
			x => x,
		};
	}
	let rest = match rest {
		Chain::Val(r) => r,
		_ => return,
	};
	// re-sum: parts + remainder, in every order, via add and via blind_sum
	let mut parts: Vec<(BlindingFactor, Sc)> = ps.iter().map(|p| (al[*p].to_blind(), al[*p])).collect();
	parts.push((rest, rexp));
	let idx: Vec<usize> = (0..parts.len()).collect();
	let mut finals_add = vec![];
	let mut finals_sum = vec![];
	for perm in permutations(&idx) {
		let terms: Vec<(BlindingFactor, Sc)> = perm.iter().map(|i| parts[*i].clone()).collect();
		let (c, _) = add_chain(secp, &terms, &format!("{} re-summed with add in order {:?}", what, perm), o);
		if let Chain::Val(_) = c {
			o.out("split-parts-resum-add");
		}
		finals_add.push((perm.clone(), c));
		let mut s = BlindSum::new();
		for (b, _) in &terms {
			s = s.add_blinding_factor(b.clone());
		}
		let c = step("blind_sum", e2s(kc.blind_sum(&s)), &al[w], &format!("{} re-summed with blind_sum in order {:?}", what, perm), o);
		if let Chain::Val(_) = c {
			o.out("split-parts-resum-blind_sum");
		}
		finals_sum.push((perm, c));
	}
	order_verdict("add", &finals_add, &format!("{} re-summed with add", what), o);
	order_verdict("blind_sum", &finals_sum, &format!("{} re-summed with blind_sum", what), o);
}

/// key-id alphabet for BlindSum's key lists
fn keyid_alphabet() -> Vec<(Path, u64, SwitchCommitmentType)> {
	vec![
		((0, [0, 0, 0, 0]), 0, SwitchCommitmentType::None),
		((1, [0x8000_0000, 0, 0, 0]), 1, SwitchCommitmentType::Regular),
		((3, [1, 0x7fff_ffff, 0xffff_ffff, 0]), u64::MAX, SwitchCommitmentType::Regular),
		((4, [0, 1, 0, 1]), 1 << 63, SwitchCommitmentType::None),
	]
}

fn keyid_sum_case(kc: &ExtKeychain, pos: &[usize], neg: &[usize], o: &mut Obs) {
	let al = keyid_alphabet();
	let keys: Vec<Sc> = al.iter().map(|(p, v, sw)| Sc::of_key(&kc.derive_key(*v, &ident(p), *sw).expect("derive"))).collect();
	let mut exp = Sc::ZERO;
	for i in pos {
		exp = exp.add(&keys[*i]);
	}
	for i in neg {
		exp = exp.sub(&keys[*i]);
	}
	let vp = |i: usize| {
		let (p, v, sw) = &al[i];
		let mut x = ident(p).to_value_path(*v);
		x.switch = *sw;
		x
	};
	let mut finals = vec![];
	for pp in permutations(pos) {
		for np in permutations(neg) {
			let mut bs = BlindSum::new();
			for i in &pp {
				bs = bs.add_key_id(vp(*i));
			}
			for i in &np {
				bs = bs.sub_key_id(vp(*i));
			}
			let c = step("blind_sum", e2s(kc.blind_sum(&bs)), &exp, &format!("blind_sum over key ids +{:?} -{:?} (key-id alphabet indices)", pp, np), o);
			let mut order = pp.clone();
			order.extend(np.iter().map(|x| x + 100));
			finals.push((order, c));
		}
	}
	order_verdict("blind_sum", &finals, &format!("blind_sum over key ids +{:?} -{:?}", pos, neg), o);
}

/// the case list of the `blind` part (the same in both tiers: it is small)
fn blind_cases() -> Vec<Value> {
	let mut out = vec![];
	// x + b1 [+ b2] - the same, all ordered tuples
	// (those adding keys before those adding the zero factor)
	for with_zero in [false, true].iter() {
		for x in 0..5 {
			for bs in multisets(5, 2) {
				if bs.is_empty() || bs.contains(&0) != *with_zero {
					continue;
				}
				for b in permutations(&bs) {
					out.push(json!({"part": "blind", "kind": "add_sub", "x": x, "bs": b}));
				}
			}
		}
	}
	// signed multisets over 5 symbols, total size 1..3
	for pos in multisets(5, 3) {
		for neg in multisets(5, 3 - pos.len()) {
			if pos.len() + neg.len() > 0 {
				out.push(json!({"part": "blind", "kind": "blind_sum", "pos": pos, "neg": neg}));
			}
		}
	}
	for pos in multisets(5, 3) {
		if !pos.is_empty() {
			out.push(json!({"part": "blind", "kind": "add_chain", "pos": pos}));
		}
	}
	for w in 0..5 {
		for ps in multisets(5, 2) {
			if ps.is_empty() {
				continue;
			}
			for p in permutations(&ps) {
				out.push(json!({"part": "blind", "kind": "split", "w": w, "ps": p}));
			}
		}
	}
	for pos in multisets(4, 3) {
		for neg in multisets(4, 3 - pos.len()) {
			if pos.len() + neg.len() > 0 {
				out.push(json!({"part": "blind", "kind": "keyid_sum", "pos": pos, "neg": neg}));
			}
		}
	}
	out
}

fn usizes(v: &Value) -> Vec<usize> {
	v.as_array()
		.map(|a| a.iter().map(|x| x.as_u64().unwrap_or(0) as usize).collect())
		.unwrap_or_default()
}

fn blind_case(kc: &ExtKeychain, al: &[Sc], case: &Value, o: &mut Obs) {
	match case["kind"].as_str().unwrap_or("") {
		"blind_sum" => blind_sum_case(kc, al, &usizes(&case["pos"]), &usizes(&case["neg"]), o),
		"add_chain" => add_chain_case(kc.secp(), al, &usizes(&case["pos"]), o),
		"add_sub" => add_sub_case(kc, al, case["x"].as_u64().unwrap_or(0) as usize, &usizes(&case["bs"]), o),
		"split" => split_case(kc, al, case["w"].as_u64().unwrap_or(0) as usize, &usizes(&case["ps"]), o),
		"keyid_sum" => keyid_sum_case(kc, &usizes(&case["pos"]), &usizes(&case["neg"]), o),
		k => o.fail("machinery:blind-kind", format!("unknown kind {}", k)),
	}
}

fn blind(_tier: Tier, shard: usize, n: usize) -> Report {
	let mut r = Report::new();
	sc_selftest();
	let kc = uni::keychain(SEEDS[1]);
	let cases = blind_cases();
	let al = blind_alphabet();
	let mut zero_cases = 0u64;
	for (i, case) in cases.iter().enumerate() {
		if !mine(i as u64, shard, n) {
			continue;
		}
		let mut o = Obs::new();
		blind_case(&kc, &al, case, &mut o);
		r.distinct += 1;
		if o.fails.iter().any(|(k, _)| k == "blind:zero-result") {
			zero_cases += 1;
			r.outcome("case-with-zero-result-failure");
		} else if o.fails.is_empty() {
			r.outcome("case-consistent");
		}
		if i % 97 == 11 {
			r.sample(json!({"case": case, "outcomes": o.outcomes}));
		}
		o.into_report(&mut r, case);
	}
	r.extra.insert("zero_result_cases".into(), json!(zero_cases));
	if shard == 0 {
		r.extra.insert("bound_cases".into(), json!(cases.len()));
		r.extra.insert("alphabet".into(), json!(al.iter().map(|s| hex(&s.to_be())).collect::<Vec<_>>()));
	}
	r
}

// ------------------------------------------------------------------------------------------
// part: builder
// ------------------------------------------------------------------------------------------

const FEES: [u64; 5] = [0, 1, (1 << 32) - 1, 1 << 32, (1 << 40) - 1];
const MODES: [&str; 3] = ["transaction", "transaction_with_kernel", "partial_transaction"];

/// keys of the builder part: distinct per slot; shallow (derivation costs a secp context per
/// level), except that the legacy generation can only give back depth-3 paths
fn in_id(i: usize) -> Identifier {
	ident(&(1, [0x8000_0000 + i as u32, 0, 0, 0]))
}
fn out_id(gen: usize, i: usize) -> Identifier {
	if gen == B_LEGACY {
		ident(&(3, [0, 0xffff_ffff, i as u32, 0]))
	} else {
		ident(&(2, [i as u32, 0xffff_ffff, 0, 0]))
	}
}

fn fee_fields(fee: u64) -> FeeFields {
	if fee == 0 {
		FeeFields::zero()
	} else {
		FeeFields::new(0, fee).expect("fee fields")
	}
}

#[derive(Clone, Debug)]
struct BCase {
	ins: Vec<u64>,
	outs: Vec<u64>,
	fee: u64,
	builder: usize,
	mode: usize,
	/// balanced in the integers (the property's precondition)
	balanced: bool,
	/// output 0 is paid to the key id of input 0 (change back to the key being spent: same derivation path,
	/// another amount)
	share_key: bool,
	/// the outputs are handed to the builder before the inputs
	outs_first: bool,
}

fn bcase_json(c: &BCase) -> Value {
	json!({"part": "builder", "ins": c.ins, "outs": c.outs, "fee": c.fee, "builder": BUILDER_NAMES[c.builder], "mode": MODES[c.mode], "balanced": c.balanced, "share_key": c.share_key, "outs_first": c.outs_first})
}

/// All multisets of inputs (0-2) / outputs (1-3) over AMOUNTS and fee over FEES that balance in
/// the integers. thorough: x 2 generations x 3 building functions. quick: every multiset through
/// build::transaction with ProofBuilder; transaction_with_kernel on the multisets with <= 2
/// outputs; partial_transaction and the legacy generation on the one-output multisets.
/// Plus, for the one-output multisets, the same with the fee raised by one (unbalanced: must not
/// validate, which shows that validation discriminates).
fn builder_cases(tier: Tier) -> Vec<BCase> {
	let mut out = vec![];
	let am = |m: &Vec<usize>| -> Vec<u64> { m.iter().map(|i| AMOUNTS[*i]).collect() };
	for ins in multisets(AMOUNTS.len(), 2) {
		for outs in multisets(AMOUNTS.len(), 3) {
			if outs.is_empty() {
				continue;
			}
			let (ins, outs) = (am(&ins), am(&outs));
			let si: u128 = ins.iter().map(|x| *x as u128).sum();
			let so: u128 = outs.iter().map(|x| *x as u128).sum();
			for fee in FEES.iter().cloned() {
				if si != so + fee as u128 {
					continue;
				}
				for builder in 0..2 {
					for mode in 0..3 {
						let run = match tier {
							Tier::Thorough => true,
							Tier::Quick => {
								if builder == B_NEW {
									mode == 0 || (mode == 1 && outs.len() <= 2) || outs.len() == 1
								} else {
									mode == 0 && outs.len() == 1
								}
							}
						};
						if run {
							out.push(BCase { ins: ins.clone(), outs: outs.clone(), fee, builder, mode, balanced: true, share_key: false, outs_first: false });
							// the same elements in the other order, and with the first output paid to the key of the first
							// input (another amount on the same path), in both orders
							if builder == B_NEW && mode <= 1 && !ins.is_empty() && outs.len() <= 2 {
								out.push(BCase { ins: ins.clone(), outs: outs.clone(), fee, builder, mode, balanced: true, share_key: false, outs_first: true });
								if ins[0] != outs[0] {
									out.push(BCase { ins: ins.clone(), outs: outs.clone(), fee, builder, mode, balanced: true, share_key: true, outs_first: false });
									out.push(BCase { ins: ins.clone(), outs: outs.clone(), fee, builder, mode, balanced: true, share_key: true, outs_first: true });
								}
							}
						}
					}
				}
				if outs.len() == 1 && fee < (1 << 40) - 1 {
					out.push(BCase { ins: ins.clone(), outs: outs.clone(), fee: fee + 1, builder: B_NEW, mode: 1, balanced: false, share_key: false, outs_first: false });
				}
			}
		}
	}
	out
}

fn fixed_secret(secp: &Secp256k1, tag: &str, n: u64) -> SecretKey {
	let mut i = 0u64;
	loop {
		let h = blake2_rfc::blake2b::blake2b(32, &[], format!("c20/{}/{}/{}", tag, n, i).as_bytes());
		if let Ok(k) = SecretKey::from_slice(secp, h.as_bytes()) {
			return k;
		}
		i += 1;
	}
}

/// a kernel with the given features whose excess is `skey*G`, signed with a fixed nonce
fn fixed_kernel(secp: &Secp256k1, features: KernelFeatures, skey: &SecretKey, nonce: &SecretKey) -> TxKernel {
	let mut kernel = TxKernel::with_features(features);
	let msg = kernel.msg_to_sign().expect("msg");
	kernel.excess = secp.commit(0, skey.clone()).expect("commit");
	let pubkey = kernel.excess.to_pubkey(secp).expect("pubkey");
	kernel.excess_sig = aggsig::sign_single(secp, &msg, skey, Some(nonce), Some(&pubkey)).expect("sign");
	kernel
}

fn builder_run<B: ProofBuild>(kc: &ExtKeychain, pb: &B, c: &BCase, case_no: u64, o: &mut Obs) {
	let secp = kc.secp();
	let what = format!("inputs {:?} outputs {:?} fee {} via build::{} with {}{}{}", c.ins, c.outs, c.fee, MODES[c.mode], BUILDER_NAMES[c.builder], if c.share_key { ", output 0 on the key id of input 0" } else { "" }, if c.outs_first { ", outputs handed over first" } else { "" });
	let oid = |i: usize| if c.share_key && i == 0 { in_id(0) } else { out_id(c.builder, i) };
	let mut elems: Vec<Box<Append<ExtKeychain, B>>> = vec![];
	if c.outs_first {
		for (i, v) in c.outs.iter().enumerate() {
			elems.push(build::output(*v, oid(i)));
		}
	}
	for (i, v) in c.ins.iter().enumerate() {
		elems.push(build::input(*v, in_id(i)));
	}
	if !c.outs_first {
		for (i, v) in c.outs.iter().enumerate() {
			elems.push(build::output(*v, oid(i)));
		}
	}
	// reference: the key of every element (one derivation each), its commitment computed from the
	// key in the static context, and the blinding sum outputs - inputs in scalar arithmetic
	let st = grin_util::static_secp_instance();
	let key_commit = |v: u64, id: &Identifier| -> (Sc, Commitment) {
		let k = kc.derive_key(v, id, SwitchCommitmentType::Regular).expect("derive");
		let c = st.lock().commit(v, k.clone()).expect("commit");
		(Sc::of_key(&k), c)
	};
	let in_ref: Vec<(Sc, Commitment)> = c.ins.iter().enumerate().map(|(i, v)| key_commit(*v, &in_id(i))).collect();
	let out_ref: Vec<(Sc, Commitment)> = c.outs.iter().enumerate().map(|(i, v)| key_commit(*v, &oid(i))).collect();
	let mut ksum = Sc::ZERO;
	for (k, _) in &out_ref {
		ksum = ksum.add(k);
	}
	for (k, _) in &in_ref {
		ksum = ksum.sub(k);
	}
	let features = KernelFeatures::Plain { fee: fee_fields(c.fee) };
	o.evals += 1;
	let tx: Transaction = match c.mode {
		0 => match build::transaction(features, &elems, kc, pb) {
			Ok(t) => t,
			Err(e) => {
				o.fail("builder:transaction-error", format!("{}: -> {:?}", what, e));
				return;
			}
		},
		1 => {
			let skey = fixed_secret(secp, "excess", case_no);
			let kernel = fixed_kernel(secp, features, &skey, &fixed_secret(secp, "nonce", case_no));
			match build::transaction_with_kernel(&elems, kernel, BlindingFactor::from_secret_key(skey.clone()), kc, pb) {
				Ok(t) => {
					// offset = (sum of keys) - excess
					let exp = ksum.sub(&Sc::of_key(&skey));
					o.evals += 1;
					if t.offset.as_ref() != &exp.to_be()[..] {
						o.fail("builder:offset", format!("{}: offset {} expected {}", what, hex(t.offset.as_ref()), hex(&exp.to_be())));
					} else {
						o.out("offset-exact");
					}
					t
				}
				Err(e) => {
					o.fail("builder:transaction_with_kernel-error", format!("{}: -> {:?}", what, e));
					return;
				}
			}
		}
		_ => {
			// partial build, then the harness completes it the way a wallet does: kernel over the
			// whole blinding sum, zero offset
			match build::partial_transaction(Transaction::empty(), &elems, kc, pb) {
				Ok((t, blind)) => {
					o.evals += 1;
					if blind.as_ref() != &ksum.to_be()[..] {
						o.fail("builder:partial-blind-sum", format!("{}: blinding sum {} expected {}", what, hex(blind.as_ref()), hex(&ksum.to_be())));
					} else {
						o.out("blind-sum-exact");
					}
					let skey = match blind.secret_key(secp) {
						Ok(k) => k,
						Err(e) => {
							o.fail("builder:partial-blind-key", format!("{}: blinding sum is no key: {:?}", what, e));
							return;
						}
					};
					t.with_kernel(fixed_kernel(secp, features, &skey, &fixed_secret(secp, "pnonce", case_no)))
				}
				Err(e) => {
					o.fail("builder:partial_transaction-error", format!("{}: -> {:?}", what, e));
					return;
				}
			}
		}
	};
	// shape: every requested element is there with the commitment of its key
	o.evals += 1;
	let mut exp_out: Vec<Commitment> = out_ref.iter().map(|x| x.1).collect();
	let mut exp_in: Vec<Commitment> = in_ref.iter().map(|x| x.1).collect();
	exp_out.sort();
	exp_in.sort();
	let mut got_out: Vec<Commitment> = tx.outputs_committed();
	let mut got_in: Vec<Commitment> = tx.inputs_committed();
	got_out.sort();
	got_in.sort();
	if got_out != exp_out || got_in != exp_in || tx.kernels().len() != 1 {
		o.fail("builder:shape", format!("{}: built {} inputs / {} outputs / {} kernels with other commitments than requested", what, got_in.len(), got_out.len(), tx.kernels().len()));
	}
	if tx.fee() != c.fee {
		o.fail("builder:fee", format!("{}: tx.fee() = {}", what, tx.fee()));
	}
	// the verdict
	o.evals += 1;
	let v = tx.validate(Weighting::AsTransaction);
	if c.balanced {
		match &v {
			Ok(()) => o.out("validates"),
			Err(e) => o.fail("builder:validate", format!("{}: Transaction::validate -> {:?}", what, e)),
		}
	} else {
		match &v {
			Ok(()) => o.fail("builder:unbalanced-validates", format!("{}: an unbalanced transaction validates", what)),
			Err(e) => o.out(&format!("unbalanced-rejected:{:?}", e)),
		}
	}
	for k in tx.kernels() {
		o.evals += 1;
		match k.verify() {
			Ok(()) => o.out("kernel-verifies"),
			Err(e) => o.fail("builder:kernel-verify", format!("{}: TxKernel::verify -> {:?}", what, e)),
		}
	}
	// each output is recoverable from the seed
	for out in tx.outputs() {
		o.evals += 1;
		let rw = rewind_with(secp, pb, out.commitment(), out.proof);
		let pos = out_ref.iter().position(|(_, cm)| *cm == out.commitment());
		let ok = match (&rw, pos) {
			(Ok(Some((a, id, sw))), Some(i)) => *a == c.outs[i] && *id == oid(i) && *sw == SwitchCommitmentType::Regular,
			_ => false,
		};
		if ok {
			o.out("output-rewinds");
		} else {
			o.fail("builder:output-rewind", format!("{}: output rewinds to {}", what, show(&rw)));
		}
	}
}

fn builder_case(kc: &ExtKeychain, c: &BCase, case_no: u64, o: &mut Obs) {
	if c.builder == B_NEW {
		builder_run(kc, &ProofBuilder::new(kc), c, case_no, o);
	} else {
		builder_run(kc, &LegacyProofBuilder::new(kc), c, case_no, o);
	}
}

fn builder(tier: Tier, shard: usize, n: usize) -> Report {
	let mut r = Report::new();
	let cases = builder_cases(tier);
	let kcs: Vec<ExtKeychain> = SEEDS.iter().map(|s| uni::keychain(*s)).collect();
	// heavier cases first so that the strided shards end together
	let mut order: Vec<usize> = (0..cases.len()).collect();
	order.sort_by_key(|i| (std::cmp::Reverse(cases[*i].outs.len()), *i));
	for (slot, i) in order.iter().enumerate() {
		if !mine(slot as u64, shard, n) {
			continue;
		}
		let c = &cases[*i];
		// the seed rotates over the cases (every seed meets every building function)
		let seed_i = i % SEEDS.len();
		let mut case = bcase_json(c);
		case["seed_i"] = json!(seed_i);
		case["case_no"] = json!(i);
		let mut o = Obs::new();
		builder_case(&kcs[seed_i], c, *i as u64, &mut o);
		r.distinct += 1;
		if i % 101 == 3 {
			r.sample(json!({"case": case, "outcomes": o.outcomes}));
		}
		o.into_report(&mut r, &case);
	}
	if shard == 0 {
		r.extra.insert("bound_cases".into(), json!(cases.len()));
		r.extra.insert("bound_balanced_multisets".into(), json!(cases.iter().filter(|c| c.balanced && c.builder == B_NEW && c.mode == 0).count()));
	}
	r
}

// ------------------------------------------------------------------------------------------
// part: coinbase
// ------------------------------------------------------------------------------------------

const CB_FEES: [u64; 3] = [0, 1, 1 << 40];

fn coinbase_paths() -> Vec<Path> {
	vec![
		(0, [0, 0, 0, 0]),
		(1, [0x8000_0000, 0, 0, 0]),
		(2, [1, 0x7fff_ffff, 0, 0]),
		(3, [0, 1, 0, 0]),
		(3, [0xffff_ffff, 0x8000_0000, 1, 0]),
		(4, [1, 0, 0xffff_ffff, 0x7fff_ffff]),
	]
}

/// plain transactions paying exactly `fees` in total (each kernel fee is limited to 40 bits)
fn fee_txs(kc: &ExtKeychain, fees: u64) -> Result<Vec<Transaction>, String> {
	let pb = ProofBuilder::new(kc);
	let mut parts = vec![];
	let mut rest = fees;
	while rest > 0 {
		let f = rest.min((1 << 40) - 1);
		parts.push(f);
		rest -= f;
	}
	let mut txs = vec![];
	for (i, f) in parts.iter().enumerate() {
		let v = (1u64 << 41) + i as u64;
		let elems: Vec<Box<Append<ExtKeychain, ProofBuilder<'_, ExtKeychain>>>> =
			vec![build::input(v, ident(&(2, [7, i as u32, 0, 0]))), build::output(v - f, ident(&(2, [8, i as u32, 0, 0])))];
		txs.push(uni::tx(kc, KernelFeatures::Plain { fee: fee_fields(*f) }, &elems, &pb, 900 + i as u64)?);
	}
	Ok(txs)
}

fn coinbase_case(kc: &ExtKeychain, txs: &[Transaction], p: &Path, fees: u64, builder: usize, o: &mut Obs) {
	let secp = kc.secp();
	let id = ident(p);
	let what = format!("reward::output(path {:?}, fees {}, {})", p, fees, BUILDER_NAMES[builder]);
	let value = consensus::REWARD + fees;
	let make = |o: &mut Obs| {
		o.evals += 1;
		if builder == B_NEW {
			reward::output(kc, &ProofBuilder::new(kc), &id, fees, true)
		} else {
			reward::output(kc, &LegacyProofBuilder::new(kc), &id, fees, true)
		}
	};
	let (out, kern) = match make(o) {
		Ok(x) => x,
		Err(e) => {
			o.fail("coinbase:error", format!("{}: -> {:?}", what, e));
			return;
		}
	};
	o.evals += 4;
	if !out.is_coinbase() || !kern.is_coinbase() {
		o.fail("coinbase:features", format!("{}: output/kernel not marked coinbase", what));
	}
	if Some(out.commitment()) != kc.commit(value, &id, SwitchCommitmentType::Regular).ok() {
		o.fail("coinbase:commit", format!("{}: output does not commit to reward + fees = {} under the key", what, value));
	}
	match out.verify_proof() {
		Ok(()) => o.out("proof-verifies"),
		Err(e) => o.fail("coinbase:proof", format!("{}: range proof -> {:?}", what, e)),
	}
	match kern.verify() {
		Ok(()) => o.out("kernel-verifies"),
		Err(e) => o.fail("coinbase:kernel-verify", format!("{}: TxKernel::verify -> {:?}", what, e)),
	}
	// coinbase sum rule: output - (reward + fees)*H = kernel excess
	o.evals += 1;
	let over = secp.commit_value(value).expect("commit_value");
	match secp.commit_sum(vec![out.commitment()], vec![over]) {
		Ok(x) if x == kern.excess() => o.out("coinbase-sum-ok"),
		x => o.fail("coinbase:sum", format!("{}: output - value*H = {:?}, kernel excess {:?}", what, x.map(|c| hex(&c.0)), hex(&kern.excess().0))),
	}
	// deterministic in test mode (only where the block check below does not already cost a proof)
	if fees == 0 {
		match make(o) {
			Ok((o2, k2)) if o2 == out && k2 == kern => o.out("deterministic"),
			_ => o.fail("coinbase:nondeterministic", format!("{}: two calls differ", what)),
		}
	}
	// recoverable from the seed (legacy generation: depth 3 only, see `proofs`)
	if builder == B_NEW || p.0 == 3 {
		o.evals += 1;
		let rw = if builder == B_NEW {
			rewind_with(secp, &ProofBuilder::new(kc), out.commitment(), out.proof)
		} else {
			rewind_with(secp, &LegacyProofBuilder::new(kc), out.commitment(), out.proof)
		};
		if matches!(&rw, Ok(Some((a, i, s))) if *a == value && *i == id && *s == SwitchCommitmentType::Regular) {
			o.out("rewind-own-exact");
		} else {
			o.fail("coinbase:rewind", format!("{}: rewind gives {}", what, show(&rw)));
		}
	}
	// as the coinbase of a block that collects exactly these fees
	let prev = genesis::genesis_dev().header;
	o.evals += 1;
	match Block::from_reward(&prev, txs, out.clone(), kern.clone(), Difficulty::min_dma()) {
		Ok(b) => match b.validate(&prev.total_kernel_offset) {
			Ok(()) => o.out("block-validates"),
			Err(e) => o.fail("coinbase:block-validate", format!("{}: a block with this coinbase and {} of fees -> {:?}", what, fees, e)),
		},
		Err(e) => o.fail("coinbase:block-build", format!("{}: Block::from_reward -> {:?}", what, e)),
	}
	// and not of a block that collects other fees
	if fees == 1 {
		o.evals += 1;
		match Block::from_reward(&prev, &[], out, kern, Difficulty::min_dma()) {
			Ok(b) => match b.validate(&prev.total_kernel_offset) {
				Ok(()) => o.fail("coinbase:wrong-fees-validate", format!("{}: validates in a block without fees", what)),
				Err(e) => o.out(&format!("wrong-fees-rejected:{:?}", e)),
			},
			Err(e) => o.out(&format!("wrong-fees-rejected:{:?}", e)),
		}
	}
}

/// (seed, fee) major so that a shard builds few fee transactions
fn coinbase_cases() -> Vec<(usize, usize, u64, usize)> {
	let mut out = vec![];
	for s in 0..SEEDS.len() {
		for f in CB_FEES.iter().cloned() {
			for pi in 0..coinbase_paths().len() {
				for b in 0..2 {
					out.push((s, pi, f, b));
				}
			}
		}
	}
	out
}

fn coinbase(_tier: Tier, shard: usize, n: usize) -> Report {
	let mut r = Report::new();
	let kcs: Vec<ExtKeychain> = SEEDS.iter().map(|s| uni::keychain(*s)).collect();
	let paths = coinbase_paths();
	let cases = coinbase_cases();
	let mut cache: BTreeMap<(usize, u64), Vec<Transaction>> = BTreeMap::new();
	let per = (cases.len() + n - 1) / n;
	for (i, (s, pi, f, b)) in cases.iter().enumerate() {
		// contiguous blocks: neighbours share (seed, fee)
		if i / per != shard {
			continue;
		}
		let case = json!({"part": "coinbase", "seed_i": s, "path_i": pi, "depth": paths[*pi].0, "path": paths[*pi].1, "fees": f, "builder": BUILDER_NAMES[*b]});
		let mut o = Obs::new();
		if !cache.contains_key(&(*s, *f)) {
			match fee_txs(&kcs[*s], *f) {
				Ok(t) => {
					cache.insert((*s, *f), t);
				}
				Err(e) => {
					r.violation("coinbase:fee-tx", format!("fee-paying transactions for {} could not be built: {}", f, e), case.clone());
					continue;
				}
			}
		}
		coinbase_case(&kcs[*s], &cache[&(*s, *f)], &paths[*pi], *f, *b, &mut o);
		r.distinct += 1;
		if i == 7 {
			r.sample(json!({"case": case, "outcomes": o.outcomes}));
		}
		o.into_report(&mut r, &case);
	}
	if shard == 0 {
		r.extra.insert("bound_cases".into(), json!(cases.len()));
	}
	r
}

// ------------------------------------------------------------------------------------------

impl Engine for C20 {
	fn id(&self) -> &'static str {
		"C20"
	}
	fn meta(&self, tier: Tier) -> Meta {
		let common = "blind: all signed multisets of size 1..3 over {zero, 4 generic derived keys} through Keychain::blind_sum in every order, all add chains <= 3 in every order, add-then-subtract and split/re-sum identities over all ordered tuples (whole, 1-2 parts), key-id sums over a 4-key-id alphabet, all judged step by step against scalar arithmetic mod n written in the harness. coinbase: reward::output over 3 seeds x 6 paths (depth 0..4) x fees {0,1,2^40} x 2 generations, each also as the coinbase of a block collecting exactly these fees. A case is one tuple of the stated product; all generated tuples are distinct by construction; pairwise covers are computed and counted, not assumed";
		let rule = match tier {
			Tier::Quick => format!("exhaustive enumeration of stated products. derive: 3 seeds x 6 amounts x 2 switch modes in full on the 6 paths of depth <= 1, six combinations on each of the 25 depth-2 paths, one on each of the 125 depth-3 paths and on 125 depth-4 paths forming a Latin hypercube of the index alphabet {{0,1,2^31-1,2^31,2^32-1}} (every pair of factor values covered, counted), plus all 781 plain keys of every seed pairwise distinct. proofs: seeds x amounts x switch x builder generation (72) in full on depth <= 1, six combinations on each depth-2 path, one on each depth-3 path and on the same 125 depth-4 paths (every pair of factor values covered, counted); each case = create, verify, rewind with the own seed, both other seeds, the other generation, root and child view keys of all seeds. builder: every integer-balancing multiset of 0-2 inputs / 1-3 outputs over the amount alphabet with fee from {{0,1,2^32-1,2^32,2^40-1}} through build::transaction (ProofBuilder), transaction_with_kernel on those with <= 2 outputs, partial_transaction and the legacy generation on those with one output. {}", common),
			Tier::Thorough => format!("exhaustive enumeration of stated products. derive: the complete product 3 seeds x all 781 paths (depth 0..4, indices from {{0,1,2^31-1,2^31,2^32-1}}) x 6 amounts x 2 switch modes for the determinism oracle (called twice, re-created keychain, commitment vs key, public-derivation twin; the other-seed / other-amount / signature checks on the pairwise-covering list of the quick tier), plus all 781 plain keys of every seed pairwise distinct. proofs: seeds x amounts x switch x builder generation (72) in full on all 156 paths of depth <= 3 and on the 16 index-corner paths of depth 4, twelve combinations on each other depth-4 path (every pair of factor values covered); each case = create, verify, rewind with the own seed, both other seeds, the other generation, root and child view keys of all seeds. builder: every integer-balancing multiset of 0-2 inputs / 1-3 outputs over the amount alphabet with fee from {{0,1,2^32-1,2^32,2^40-1}} x 3 building functions x 2 generations. {}", common),
		};
		Meta {
			level: "exploration",
			rule: Box::leak(rule.into_boxed_str()),
			assumptions: vec![
				"LegacyProofBuilder's message carries the 16 path bytes only (depth 3 and the regular switch are implied, as its code documents): exact recovery is demanded for depth-3 / Regular cases; elsewhere it must recover nothing or the truth, never something else".into(),
				"a view key is a public key: paths with a hardened step below it cannot be derived (BIP32), there the view key must recover nothing; view keys share the rewind nonce of ProofBuilder only".into(),
				"kernel fees are 40-bit fields: the fee alphabet is {0,1,2^32-1,2^32,2^40-1}; coinbase fees of 2^40 are collected from two kernels".into(),
				"inputs/outputs of one built transaction use distinct keys (equal commitments are rejected as duplicates / cut-through by design)".into(),
				"build::transaction draws its kernel excess from the OS RNG inside the code under test; the verdict must be the same for every excess, and the offset arithmetic is checked exactly through transaction_with_kernel with a fixed excess".into(),
				"blinding factors are scalars < n (byte strings >= n are not keys); the alphabet is the explicit zero BlindingFactor plus 4 generic derived keys: no two distinct sub-multisets of the alphabet have equal sums except by cancelling the same key (verified at start), so a zero (partial) result arises only from zero operands or from cancelling a key against itself".into(),
			],
			exhaustive: true,
		}
	}
	fn parts(&self, _tier: Tier) -> Vec<(&'static str, usize)> {
		vec![("blind", 4), ("derive", 16), ("proofs", 16), ("builder", 16), ("coinbase", 9)]
	}
	fn run_part(&self, part: &str, tier: Tier, shard: usize, n: usize) -> Report {
		uni::init_thread();
		match part {
			"derive" => derive(tier, shard, n),
			"blind" => blind(tier, shard, n),
			"proofs" => proofs(tier, shard, n),
			"builder" => builder(tier, shard, n),
			"coinbase" => coinbase(tier, shard, n),
			_ => panic!("unknown part"),
		}
	}
	fn replay(&self, case: &Value) -> Result<String, String> {
		uni::init_thread();
		let mut o = Obs::new();
		let path_of = |case: &Value| -> Path {
			let mut v = usizes(&case["path"]);
			v.resize(4, 0);
			(case["depth"].as_u64().unwrap_or(0) as u8, [v[0] as u32, v[1] as u32, v[2] as u32, v[3] as u32])
		};
		let seed_i = case["seed_i"].as_u64().unwrap_or(0) as usize % SEEDS.len();
		let gen = if case["builder"] == BUILDER_NAMES[B_LEGACY] { B_LEGACY } else { B_NEW };
		match case["part"].as_str().unwrap_or("") {
			"derive" if case["sweep"] == true => {
				let kc = uni::keychain(SEEDS[seed_i]);
				let (a, b) = (path_of(&case["a"]), path_of(&case["b"]));
				let ka = kc.derive_key(0, &ident(&a), SwitchCommitmentType::None).map_err(|e| format!("{:?}", e))?;
				let kb = kc.derive_key(0, &ident(&b), SwitchCommitmentType::None).map_err(|e| format!("{:?}", e))?;
				if a != b && ka == kb {
					return Err(format!("derive:key-collision :: paths {:?} and {:?} derive the same key", a, b));
				}
				return Ok("distinct keys".into());
			}
			"derive" => {
				let p = path_of(case);
				let kc = uni::keychain(SEEDS[seed_i]);
				let kc2 = uni::keychain(SEEDS[seed_i]);
				let other = uni::keychain(SEEDS[(seed_i + 1) % SEEDS.len()]);
				derive_case(&kc, &kc2, &other, SEEDS[seed_i], &p, case["amount_i"].as_u64().unwrap_or(0) as usize % AMOUNTS.len(), sw_from(case["switch"].as_str().unwrap_or("")), true, &mut o);
			}
			"proofs" => {
				if case["depth"].is_null() {
					return Ok("no single case".into());
				}
				let p = path_of(case);
				let keys = Keys::new();
				let b = Builders::new(&keys);
				proof_case(&keys, &b, &p, case["combo"].as_u64().unwrap_or(0) as usize % COMBOS, p.0 <= 1, &mut o);
			}
			"blind" => {
				let kc = uni::keychain(SEEDS[1]);
				blind_case(&kc, &blind_alphabet(), case, &mut o)
			}
			"builder" => {
				let u64s = |v: &Value| -> Vec<u64> { v.as_array().map(|a| a.iter().map(|x| x.as_u64().unwrap_or(0)).collect()).unwrap_or_default() };
				let c = BCase {
					ins: u64s(&case["ins"]),
					outs: u64s(&case["outs"]),
					fee: case["fee"].as_u64().unwrap_or(0),
					builder: gen,
					mode: MODES.iter().position(|m| case["mode"] == *m).unwrap_or(0),
					balanced: case["balanced"].as_bool().unwrap_or(true),
					share_key: case["share_key"].as_bool().unwrap_or(false),
					outs_first: case["outs_first"].as_bool().unwrap_or(false),
				};
				builder_case(&uni::keychain(SEEDS[seed_i]), &c, case["case_no"].as_u64().unwrap_or(0), &mut o);
			}
			"coinbase" => {
				let p = path_of(case);
				let kc = uni::keychain(SEEDS[seed_i]);
				let fees = case["fees"].as_u64().unwrap_or(0);
				let txs = fee_txs(&kc, fees)?;
				coinbase_case(&kc, &txs, &p, fees, gen, &mut o);
			}
			other => return Ok(format!("no single-case replay for part {:?}", other)),
		}
		o.to_result()
	}
}
