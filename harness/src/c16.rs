//! C16 — State segments are sound and state sync reproduces the validated state.
//!
//! Segment level: bounded-exhaustive enumeration of MMR sizes x prune/compaction states x
//! segment heights x indices x every single corruption, on the real prunable `PMMRBackend`
//! through `Segment::from_pmmr / validate / validate_with`, judged by a reference forest.
//! End to end: stateless (replay) exploration of every arrival order of the segment multiset on
//! a receiving `Chain`'s `Desegmenter` with the sync loop's own calls interleaved, judged by a
//! twin chain that processed every block up to the archive header.
use crate::elem::Elem;
use crate::ev::{hash64, hex, Report, Tier};
use crate::refmmr::{hash_leaf, hash_pair, Forest};
use crate::par::mine;
use crate::uni::{self, BlockSpec, REWARD};
use crate::{Engine, Meta};
use grin_chain::txhashset::{BitmapChunk, Desegmenter};
use grin_chain::types::Options;
use grin_chain::{Chain, SyncState};
use grin_core::core::hash::{Hash, Hashed};
use croaring::Bitmap;
use grin_core::core::pmmr::segment::{Segment, SegmentIdentifier, SegmentProof};
use grin_core::core::pmmr::{ReadablePMMR, ReadonlyPMMR, PMMR};
use grin_store::pmmr::PMMRBackend;
use grin_core::core::{Block, BlockHeader, OutputIdentifier, TxKernel};
use grin_core::ser::{self, PMMRIndexHashable, ProtocolVersion};
use grin_keychain::ExtKeychain;
use grin_util::secp::pedersen::{Commitment, RangeProof};
use grin_util::{RwLock, StopState};
use serde_json::{json, Value};
use std::collections::{BTreeMap, BTreeSet, HashMap, HashSet};
use std::path::{Path, PathBuf};
use std::sync::Arc;

pub struct C16;

const M: u64 = 1_000_000;


// =====================================================================================
// Segments as plain parts, and the catalogue of single corruptions
// =====================================================================================

/// Leaf payloads that can be changed "a little" (one bit / one byte).
trait Mutate: Clone {
	fn mutated(&self) -> Self;
}
impl Mutate for crate::elem::Elem {
	fn mutated(&self) -> Self {
		crate::elem::Elem(self.0 ^ 0x4000_0000)
	}
}
impl Mutate for OutputIdentifier {
	fn mutated(&self) -> Self {
		let mut o = *self;
		o.commit.0[7] ^= 0x10;
		o
	}
}
impl Mutate for RangeProof {
	fn mutated(&self) -> Self {
		let mut o = *self;
		o.proof[9] ^= 0x01;
		o
	}
}
impl Mutate for TxKernel {
	fn mutated(&self) -> Self {
		let mut o = self.clone();
		o.excess.0[11] ^= 0x02;
		o
	}
}
impl Mutate for BitmapChunk {
	fn mutated(&self) -> Self {
		// flip bit 5
		let mut o = self.clone();
		let was = self.set_iter(0).any(|x| x == 5);
		o.set(5, !was);
		o
	}
}

#[derive(Clone)]
struct Parts<T> {
	id: SegmentIdentifier,
	hash_pos: Vec<u64>,
	hashes: Vec<Hash>,
	leaf_pos: Vec<u64>,
	leaf_data: Vec<T>,
	proof: Vec<Hash>,
}

fn proof_hashes(p: &SegmentProof) -> Vec<Hash> {
	let b = ser::ser_vec(p, ProtocolVersion(1)).expect("ser proof");
	b[8..].chunks(32).map(Hash::from_vec).collect()
}
fn make_proof(h: &[Hash]) -> SegmentProof {
	let mut b = (h.len() as u64).to_be_bytes().to_vec();
	for x in h {
		b.extend_from_slice(x.as_bytes());
	}
	ser::deserialize(&mut &b[..], ProtocolVersion(1), ser::DeserializationMode::default()).expect("deser proof")
}

fn parts_of<T: Clone>(s: &Segment<T>) -> Parts<T> {
	let proof = proof_hashes(s.proof());
	let (id, hash_pos, hashes, leaf_pos, leaf_data, _) = s.clone().parts();
	Parts { id, hash_pos, hashes, leaf_pos, leaf_data, proof }
}

/// `Segment::from_parts` asserts on its position lists (the wire decoder returns SortError for
/// the same inputs): None = the corrupted segment does not even decode.
fn build<T: Clone>(p: &Parts<T>) -> Option<Segment<T>> {
	let sorted = |v: &[u64]| {
		let mut last = 0;
		for &x in v {
			if !(last == 0 || x > last) {
				return false;
			}
			last = x;
		}
		true
	};
	// the wire format carries 1-based positions that must strictly increase
	let strictly = |v: &[u64]| v.windows(2).all(|w| w[0] < w[1]);
	if !sorted(&p.hash_pos) || !sorted(&p.leaf_pos) || !strictly(&p.hash_pos) || !strictly(&p.leaf_pos) {
		return None;
	}
	if p.hash_pos.len() != p.hashes.len() || p.leaf_pos.len() != p.leaf_data.len() {
		return None;
	}
	Some(Segment::from_parts(p.id, p.hash_pos.clone(), p.hashes.clone(), p.leaf_pos.clone(), p.leaf_data.clone(), make_proof(&p.proof)))
}

fn flip(h: &Hash) -> Hash {
	let mut b = h.to_vec();
	b[3] ^= 0x20;
	Hash::from_vec(&b)
}

/// Single corruptions that need nothing but the segment itself.
#[derive(Clone, Debug, PartialEq, Eq, Hash, PartialOrd, Ord)]
enum Corr {
	LeafData(usize),
	LeafPosPlus(usize),
	LeafPosMinus(usize),
	/// data of leaf k and k+1 exchanged
	LeafSwap(usize),
	LeafOmit(usize),
	Hash(usize),
	HashOmit(usize),
	Proof(usize),
	ProofDrop(usize),
	ProofExtend,
	IdIdxPlus,
	IdIdxMinus,
	IdHeightPlus,
	IdHeightMinus,
}

impl Corr {
	fn class(&self) -> &'static str {
		match self {
			Corr::LeafData(_) => "leaf-data",
			Corr::LeafPosPlus(_) => "leaf-pos+1",
			Corr::LeafPosMinus(_) => "leaf-pos-1",
			Corr::LeafSwap(_) => "leaf-swap",
			Corr::LeafOmit(_) => "leaf-omit",
			Corr::Hash(_) => "hash",
			Corr::HashOmit(_) => "hash-omit",
			Corr::Proof(_) => "proof-hash",
			Corr::ProofDrop(_) => "proof-truncate",
			Corr::ProofExtend => "proof-extend",
			Corr::IdIdxPlus => "id-idx+1",
			Corr::IdIdxMinus => "id-idx-1",
			Corr::IdHeightPlus => "id-height+1",
			Corr::IdHeightMinus => "id-height-1",
		}
	}
	fn show(&self) -> String {
		format!("{:?}", self)
	}
	fn parse(s: &str) -> Option<Corr> {
		let (name, arg) = match s.find('(') {
			Some(i) => (&s[..i], s[i + 1..s.len() - 1].parse::<usize>().ok()),
			None => (s, None),
		};
		Some(match (name, arg) {
			("LeafData", Some(k)) => Corr::LeafData(k),
			("LeafPosPlus", Some(k)) => Corr::LeafPosPlus(k),
			("LeafPosMinus", Some(k)) => Corr::LeafPosMinus(k),
			("LeafSwap", Some(k)) => Corr::LeafSwap(k),
			("LeafOmit", Some(k)) => Corr::LeafOmit(k),
			("Hash", Some(k)) => Corr::Hash(k),
			("HashOmit", Some(k)) => Corr::HashOmit(k),
			("Proof", Some(k)) => Corr::Proof(k),
			("ProofDrop", Some(k)) => Corr::ProofDrop(k),
			("ProofExtend", None) => Corr::ProofExtend,
			("IdIdxPlus", None) => Corr::IdIdxPlus,
			("IdIdxMinus", None) => Corr::IdIdxMinus,
			("IdHeightPlus", None) => Corr::IdHeightPlus,
			("IdHeightMinus", None) => Corr::IdHeightMinus,
			_ => return None,
		})
	}
}

/// every single corruption applicable to these parts
fn all_corrs<T>(p: &Parts<T>) -> Vec<Corr> {
	let mut v = vec![];
	for k in 0..p.leaf_pos.len() {
		v.push(Corr::LeafData(k));
		v.push(Corr::LeafPosPlus(k));
		v.push(Corr::LeafPosMinus(k));
		if k + 1 < p.leaf_pos.len() {
			v.push(Corr::LeafSwap(k));
		}
		v.push(Corr::LeafOmit(k));
	}
	for j in 0..p.hash_pos.len() {
		v.push(Corr::Hash(j));
		v.push(Corr::HashOmit(j));
	}
	for j in 0..p.proof.len() {
		v.push(Corr::Proof(j));
		v.push(Corr::ProofDrop(j));
	}
	v.push(Corr::ProofExtend);
	v.push(Corr::IdIdxPlus);
	if p.id.idx > 0 {
		v.push(Corr::IdIdxMinus);
	}
	v.push(Corr::IdHeightPlus);
	if p.id.height > 0 {
		v.push(Corr::IdHeightMinus);
	}
	v
}

fn apply_corr<T: Mutate>(p: &Parts<T>, c: &Corr) -> Option<Parts<T>> {
	let mut q = p.clone();
	match c {
		Corr::LeafData(k) => q.leaf_data[*k] = q.leaf_data[*k].mutated(),
		Corr::LeafPosPlus(k) => q.leaf_pos[*k] += 1,
		Corr::LeafPosMinus(k) => {
			if q.leaf_pos[*k] == 0 {
				return None;
			}
			q.leaf_pos[*k] -= 1
		}
		Corr::LeafSwap(k) => q.leaf_data.swap(*k, *k + 1),
		Corr::LeafOmit(k) => {
			q.leaf_pos.remove(*k);
			q.leaf_data.remove(*k);
		}
		Corr::Hash(j) => q.hashes[*j] = flip(&q.hashes[*j]),
		Corr::HashOmit(j) => {
			q.hash_pos.remove(*j);
			q.hashes.remove(*j);
		}
		Corr::Proof(j) => q.proof[*j] = flip(&q.proof[*j]),
		Corr::ProofDrop(j) => {
			q.proof.remove(*j);
		}
		Corr::ProofExtend => q.proof.push(Hash::from_vec(&[0x5a; 32])),
		Corr::IdIdxPlus => q.id.idx += 1,
		Corr::IdIdxMinus => q.id.idx -= 1,
		Corr::IdHeightPlus => q.id.height += 1,
		Corr::IdHeightMinus => q.id.height -= 1,
	}
	Some(q)
}
// =====================================================================================
// End to end: source chains
// =====================================================================================

/// One spend in the source chain: at `height`, coinbase `cb` (of an empty block, value REWARD)
/// is spent into `outs` plain outputs; or a plain output is moved on.
#[derive(Clone, Debug)]
enum Spend {
	/// the genesis output (leaf 0 of the output MMR) into one plain output
	Genesis { height: u32, to_key: u32 },
	Cb { height: u32, cb: u32, outs: u32 },
	Plain { height: u32, from_key: u32, from_val: u64, to_key: u32 },
}

#[derive(Clone, Copy, Debug, PartialEq, Eq)]
enum Plan {
	/// every arrival order, every duplicate, every corrupted copy, fixed orders
	Full,
	/// every arrival order of the honest segments (no duplicate, no corrupted copies), fixed orders
	Orders,
	/// fixed delivery orders only
	Fixed,
}

#[derive(Clone, Debug)]
struct Variant {
	name: &'static str,
	/// number of blocks of the source chain
	head: u32,
	/// call Chain::compact() when the source head is at this height
	compact_at: Option<u32>,
	spends: Vec<Spend>,
	/// hook H7 heights (bitmap, output, rangeproof, kernel) for the arrival-order exploration
	heights: (u8, u8, u8, u8),
	/// heights for the exploration with corrupted copies (fewer segments)
	probe_heights: (u8, u8, u8, u8),
	/// what is explored on this variant in this tier
	plan: Plan,
	/// also exercised through the state archive
	archive: bool,
}

impl Spend {
	fn height(&self) -> u32 {
		match self {
			Spend::Genesis { height, .. } => *height,
			Spend::Cb { height, .. } => *height,
			Spend::Plain { height, .. } => *height,
		}
	}
}

fn plain_key(cb: u32, j: u32) -> u32 {
	10_000 + cb * 100 + j
}
fn plain_vals(outs: u32) -> Vec<u64> {
	// REWARD - M split into `outs` parts
	let total = REWARD - M;
	let each = total / outs as u64;
	(0..outs).map(|j| if j == outs - 1 { total - each * (outs as u64 - 1) } else { each }).collect()
}

fn spends_both() -> Vec<Spend> {
	let cb = |height: u32, cb: u32, outs: u32| Spend::Cb { height, cb, outs };
	// leaves 4..7 (coinbases 4-7) are all spent at or before the archive header (height 10): one
	// fully spent, uncompacted height-2 segment; then spends after the archive header of outputs
	// created before it
	vec![
		cb(7, 4, 2),
		cb(8, 5, 1),
		cb(9, 6, 1),
		cb(10, 7, 2),
		cb(9, 1, 1),
		cb(12, 2, 1),
		cb(14, 8, 2),
		Spend::Plain { height: 15, from_key: plain_key(5, 0), from_val: plain_vals(1)[0], to_key: 2000 },
		cb(20, 12, 1),
	]
}

fn spends_compacted() -> Vec<Spend> {
	let cb = |height: u32, cb: u32, outs: u32| Spend::Cb { height, cb, outs };
	// compaction at head 90 puts the horizon exactly on the archive header (70). Spent before the
	// archive header: coinbases 16..31 (one whole height-4 sub-tree) and a scattering; a few
	// spends after it (never compacted).
	let mut comp = vec![];
	for k in 16..32u32 {
		comp.push(cb(40 + (k - 16), k, if k % 5 == 0 { 2 } else { 1 }));
	}
	for (h, k) in [(8u32, 1u32), (9, 2), (10, 3), (12, 5), (60, 33), (61, 34), (62, 50), (66, 51), (69, 60)] {
		comp.push(cb(h, k, 1));
	}
	// the genesis output too: leaves 0 and 1 are both spent and compacted, so the served segment 0
	// starts with the hash of their parent and the receiver has to drop its own genesis leaf
	comp.push(Spend::Genesis { height: 11, to_key: 2003 });
	comp.push(Spend::Plain { height: 65, from_key: plain_key(17, 0), from_val: plain_vals(1)[0], to_key: 2001 });
	for (h, k) in [(72u32, 4u32), (75, 61), (91, 70), (92, 6)] {
		comp.push(cb(h, k, 1));
	}
	comp.push(Spend::Plain { height: 93, from_key: plain_key(33, 0), from_val: plain_vals(1)[0], to_key: 2002 });
	comp
}

fn variants(tier: Tier) -> Vec<Variant> {
	let both = spends_both();
	let before: Vec<Spend> = both.iter().filter(|s| s.height() <= 10).cloned().collect();
	let after: Vec<Spend> = both.iter().filter(|s| matches!(s, Spend::Cb { height, .. } if *height > 10)).cloned().collect();
	let comp = spends_compacted();
	let q = tier == Tier::Quick;
	let mut v = vec![];
	// archive header at height 10: 11 outputs / 11 kernels without spends
	v.push(Variant { name: "no-spends", head: 35, compact_at: None, spends: vec![], heights: tier.pick((0, 4, 3, 4), (0, 2, 2, 3)), probe_heights: tier.pick((0, 4, 4, 4), (0, 3, 4, 3)), plan: Plan::Full, archive: true });
	// 18 outputs / 16 kernels at the archive header
	v.push(Variant { name: "spends-both-sides", head: 35, compact_at: None, spends: both.clone(), heights: tier.pick((0, 5, 4, 3), (0, 3, 3, 3)), probe_heights: tier.pick((0, 5, 5, 4), (0, 4, 4, 4)), plan: Plan::Full, archive: true });
	if !q {
		v.push(Variant { name: "spends-both-sides/outputs", head: 36, compact_at: None, spends: both.clone(), heights: (0, 2, 5, 4), probe_heights: (0, 3, 5, 4), plan: Plan::Full, archive: false });
		v.push(Variant { name: "spends-both-sides/kernels", head: 37, compact_at: None, spends: both.clone(), heights: (0, 5, 5, 2), probe_heights: (0, 5, 5, 3), plan: Plan::Full, archive: false });
		v.push(Variant { name: "spends-before", head: 35, compact_at: None, spends: before, heights: (0, 3, 3, 4), probe_heights: (0, 5, 3, 4), plan: Plan::Full, archive: true });
		v.push(Variant { name: "spends-after", head: 38, compact_at: None, spends: after, heights: (0, 2, 4, 3), probe_heights: (0, 3, 4, 4), plan: Plan::Full, archive: true });
	}
	// many small segments per tree (9 / 9 / 8 of two leaves each): more consecutive segments in
	// the receiver's caches than it applies in one batch (4); fixed delivery orders only
	v.push(Variant { name: "many-small-segments", head: 35, compact_at: None, spends: both.clone(), heights: (0, 1, 1, 1), probe_heights: (0, 1, 1, 1), plan: Plan::Fixed, archive: false });
	// 90+ blocks (Chain::compact refuses to run on shorter chains): archive header at height 70
	v.push(Variant { name: "compacted", head: 95, compact_at: Some(90), spends: comp.clone(), heights: (0, 5, 7, 6), probe_heights: (0, 6, 7, 7), plan: if q { Plan::Fixed } else { Plan::Full }, archive: true });
	if !q {
		v.push(Variant { name: "compacted/rangeproofs", head: 96, compact_at: Some(90), spends: comp.clone(), heights: (0, 7, 5, 7), probe_heights: (0, 7, 6, 7), plan: Plan::Full, archive: false });
		// more than 1024 outputs at the archive header (two bitmap chunks): 130 blocks, archive
		// header at height 110, coinbases 1..104 each spent into 10 outputs three blocks later
		let wide: Vec<Spend> = (1..=104u32).map(|k| Spend::Cb { height: k + 3, cb: k, outs: 10 }).collect();
		v.push(Variant { name: "two-bitmap-chunks", head: 130, compact_at: None, spends: wide, heights: (0, 9, 11, 8), probe_heights: (0, 9, 11, 8), plan: Plan::Orders, archive: false });
		v.push(Variant { name: "compacted/kernels", head: 97, compact_at: Some(90), spends: comp, heights: (0, 6, 7, 5), probe_heights: (0, 7, 7, 6), plan: Plan::Full, archive: false });
	}
	v
}

#[derive(Clone)]
enum SegBody {
	Bitmap(Segment<BitmapChunk>, Hash),
	Output(Segment<OutputIdentifier>, Hash),
	Rproof(Segment<RangeProof>),
	Kernel(Segment<TxKernel>),
}

#[derive(Clone)]
struct Seg {
	/// 0 bitmap, 1 output, 2 rangeproof, 3 kernel
	tree: u8,
	idx: u64,
	/// leaf insertion indices [lo, hi) covered by the segment
	lo: u64,
	hi: u64,
	body: SegBody,
}

impl Seg {
	fn name(&self) -> String {
		format!("{}{}", ["bitmap", "output", "rproof", "kernel"][self.tree as usize], self.idx)
	}
}

/// What a node at the archive header looks like to its users.
#[derive(Clone, Debug, PartialEq, Eq)]
struct StateFp {
	head: String,
	roots: String,
	sizes: String,
	unspent: Vec<String>,
	utxo_list: String,
	validate: String,
	roots_vs_header: String,
}

fn short(h: &Hash) -> String {
	let s = format!("{:?}", h);
	s.chars().take(12).collect()
}

fn state_fp(chain: &Chain, archive: &BlockHeader, commits: &[Commitment], full: bool) -> StateFp {
	let head = chain.head().map(|t| format!("{}@{}", short(&t.last_block_h), t.height)).unwrap_or_else(|e| format!("ERR {:?}", e));
	let (roots, sizes, rvh) = {
		let ts = chain.txhashset();
		let ts = ts.read();
		let sizes = format!("{} {} {}", ts.output_mmr_size(), ts.rangeproof_mmr_size(), ts.kernel_mmr_size());
		match ts.roots() {
			Ok(r) => (
				format!("o{} b{} r{} k{}", short(&r.output_roots.pmmr_root), short(&r.output_roots.bitmap_root), short(&r.rproof_root), short(&r.kernel_root)),
				sizes,
				format!("{:?}", r.validate(archive).map_err(|e| format!("{:?}", e))),
			),
			Err(e) => (format!("ERR {:?}", e), sizes, "n/a".into()),
		}
	};
	let unspent = commits
		.iter()
		.map(|c| match chain.get_unspent(*c) {
			Ok(Some((_, cp))) => format!("unspent pos{} h{}", cp.pos, cp.height),
			Ok(None) => "none".to_string(),
			Err(e) => format!("ERR {:?}", e),
		})
		.collect();
	let utxo_list = match chain.unspent_outputs_by_pmmr_index(1, 100_000, None) {
		Ok((hi, last, outs)) => format!("hi{} last{} [{}]", hi, last, outs.iter().map(|o| hex(&o.commitment().0[..6])).collect::<Vec<_>>().join(",")),
		Err(e) => format!("ERR {:?}", e),
	};
	let validate = if full { format!("{:?}", chain.validate(false).map_err(|e| format!("{:?}", e))) } else { "skipped".into() };
	StateFp { head, roots, sizes, unspent, utxo_list, validate, roots_vs_header: rvh }
}

struct Uni {
	variant: Variant,
	kc: ExtKeychain,
	gen: Block,
	src_dir: PathBuf,
	src: Chain,
	headers: Vec<BlockHeader>,
	blocks: Vec<Block>,
	archive: BlockHeader,
	commits: Vec<Commitment>,
	segs: Vec<Seg>,
	/// number of segments per tree
	counts: [usize; 4],
	twin: StateFp,
	template: PathBuf,
	bitmap_root: Hash,
}

fn seg_count(n_leaves: u64, h: u8) -> u64 {
	let d = 1u64 << h;
	(n_leaves + d - 1) / d
}
fn leaves_of_size(size: u64) -> u64 {
	// number of leaves of an MMR of `size` nodes (size is always a complete MMR here)
	let mut n = 0u64;
	let mut rest = size;
	let mut h = 63u32;
	loop {
		let tree = if h >= 63 { u64::MAX } else { (1u64 << (h + 1)) - 1 };
		if tree <= rest {
			rest -= tree;
			n += 1u64 << h;
		} else if h == 0 {
			break;
		} else {
			h -= 1;
			continue;
		}
		if rest == 0 {
			break;
		}
	}
	n
}

fn build_uni(sc: &uni::Scratch, variant: &Variant) -> Uni {
	build_uni_checked(sc, variant).unwrap_or_else(|e| panic!("source of variant {} cannot serve: {}", variant.name, e))
}

/// Every segment of the state at the archive header, from the serving chain's own segmenter.
fn cut_segments(src: &Chain, archive: &BlockHeader, heights: (u8, u8, u8, u8)) -> Result<(Vec<Seg>, [usize; 4], Hash), String> {
	let segmenter = src.segmenter().map_err(|e| format!("segmenter(): {:?}", e))?;
	if segmenter.header().hash() != archive.hash() {
		return Err(format!("segmenter() serves header {} instead of the archive header {}", segmenter.header().height, archive.height));
	}
	let n_out = leaves_of_size(archive.output_mmr_size);
	let n_ker = leaves_of_size(archive.kernel_mmr_size);
	let n_bmp = (n_out + 1023) / 1024;
	let (hb, ho, hr, hk) = heights;
	let mut segs = vec![];
	let mut counts = [0usize; 4];
	let mut bitmap_root = Hash::default();
	for (tree, h, n) in [(0u8, hb, n_bmp), (1, ho, n_out), (2, hr, n_out), (3, hk, n_ker)] {
		let cnt = seg_count(n, h);
		counts[tree as usize] = cnt as usize;
		for idx in 0..cnt {
			let id = SegmentIdentifier { height: h, idx };
			let lo = idx << h;
			let hi = ((idx + 1) << h).min(n);
			let body = match tree {
				0 => {
					let (s, r) = segmenter.bitmap_segment(id).map_err(|e| format!("bitmap_segment({},{}): {:?}", h, idx, e))?;
					SegBody::Bitmap(s, r)
				}
				1 => {
					let (s, r) = segmenter.output_segment(id).map_err(|e| format!("output_segment({},{}): {:?}", h, idx, e))?;
					bitmap_root = r;
					SegBody::Output(s, r)
				}
				2 => SegBody::Rproof(segmenter.rangeproof_segment(id).map_err(|e| format!("rangeproof_segment({},{}): {:?}", h, idx, e))?),
				_ => SegBody::Kernel(segmenter.kernel_segment(id).map_err(|e| format!("kernel_segment({},{}): {:?}", h, idx, e))?),
			};
			segs.push(Seg { tree, idx, lo, hi, body });
		}
	}
	Ok((segs, counts, bitmap_root))
}

/// Err = the source node could not produce a segment of its own state.
fn build_uni_checked(sc: &uni::Scratch, variant: &Variant) -> Result<Uni, String> {
	let kc = uni::keychain(16);
	let gen = uni::genesis(&kc);
	let src_dir = sc.fresh("src");
	let src = uni::open_chain(&src_dir, &gen);
	let mut prev = gen.header.clone();
	let mut blocks = vec![];
	let mut commits = vec![];
	let mut txid = 1u64;
	for h in 1..=variant.head {
		let mut txs = vec![];
		for s in &variant.spends {
			match s {
				Spend::Cb { height, cb, outs } if *height == h => {
					let vals = plain_vals(*outs);
					let to: Vec<(u32, u64)> = vals.iter().enumerate().map(|(j, v)| (plain_key(*cb, j as u32), *v)).collect();
					for (k, v) in &to {
						commits.push(uni::commit_of(&kc, *k, *v));
					}
					// the spent coinbase carries the fees of its own block (M per transaction)
					let cbv = REWARD + M * variant.spends.iter().filter(|x| x.height() == *cb).count() as u64;
					let mut to = to;
					to.last_mut().unwrap().1 += cbv - REWARD;
					commits.pop();
					commits.push(uni::commit_of(&kc, to.last().unwrap().0, to.last().unwrap().1));
					txs.push(uni::spend_coinbase(&kc, *cb, cbv, &to, txid));
					txid += 1;
				}
				Spend::Genesis { height, to_key } if *height == h => {
					use grin_core::libtx::{build, ProofBuilder};
					use grin_keychain::{ExtKeychain, Keychain};
					let pb = ProofBuilder::new(&kc);
					let gid = ExtKeychain::derive_key_id(0, 1, 0, 0, 0);
					commits.push(uni::commit_of(&kc, *to_key, REWARD - M));
					let t = uni::tx(&kc, grin_core::core::KernelFeatures::Plain { fee: (M as u32).into() }, &[build::coinbase_input(REWARD, gid), build::output(REWARD - M, uni::kid(*to_key))], &pb, txid).expect("genesis spend");
					txs.push(t);
					txid += 1;
				}
				Spend::Plain { height, from_key, from_val, to_key } if *height == h => {
					commits.push(uni::commit_of(&kc, *to_key, from_val - M));
					txs.push(uni::spend_plain(&kc, &[(*from_key, *from_val)], &[(*to_key, from_val - M)], None, txid));
					txid += 1;
				}
				_ => {}
			}
		}
		let fees: u64 = txs.iter().map(|t| t.fee()).sum();
		commits.push(uni::commit_of(&kc, h, REWARD + fees));
		if std::env::var("C16_DEBUG").is_ok() {
			eprintln!("block {} txs {}", h, txs.len());
		}
		let b = uni::extend(&src, &kc, &prev, &BlockSpec::with(h, txs));
		prev = b.header.clone();
		blocks.push(b);
		if variant.compact_at == Some(h) {
			src.compact().expect("source compact");
		}
	}
	let headers: Vec<BlockHeader> = blocks.iter().map(|b| b.header.clone()).collect();
	let archive = src.txhashset_archive_header().expect("archive header");
	// twin: processes every block up to the archive header
	let twin = {
		let d = sc.fresh("twin");
		let c = uni::open_chain(&d, &gen);
		for b in blocks.iter().take(archive.height as usize) {
			c.process_block(b.clone(), Options::NONE).expect("twin process_block");
		}
		let fp = state_fp(&c, &archive, &commits, true);
		drop(c);
		let _ = std::fs::remove_dir_all(&d);
		fp
	};
	// receiver template: all headers, no bodies
	let template = sc.fresh("tmpl");
	{
		let c = uni::open_chain(&template, &gen);
		let hh = c.header_head().unwrap();
		c.sync_block_headers(&headers, hh, Options::NONE).expect("sync headers");
	}
	// honest segments from the source's own segmenter
	let (segs, counts, bitmap_root) = cut_segments(&src, &archive, variant.heights)?;
	Ok(Uni { variant: variant.clone(), kc, gen, src_dir, src, headers, blocks, archive, commits, segs, counts, twin, template, bitmap_root })
}

// =====================================================================================
// End to end: the receiver
// =====================================================================================

struct Rx {
	dir: PathBuf,
	chain: Chain,
	de: Arc<RwLock<Option<Desegmenter>>>,
	sync: Arc<SyncState>,
	stop: Arc<StopState>,
}

#[derive(Clone, Debug, PartialEq, Eq, Hash, PartialOrd, Ord)]
struct Obs {
	sizes: (u64, u64, u64),
	bitmap_final: bool,
	pibd_h: u64,
}

impl Rx {
	fn open(sc: &uni::Scratch, u: &Uni) -> Rx {
		Rx::open_with(sc, u, true)
	}
	/// `with_de` = false: a receiver for the archive path (no desegmenter is created)
	fn open_with(sc: &uni::Scratch, u: &Uni, with_de: bool) -> Rx {
		// <dir>/chain is the db root; the chain's own tmp sandbox is <dir>/tmp
		let dir = sc.fresh("rx");
		let cdir = dir.join("chain");
		uni::copy_dir(&u.template, &cdir);
		let chain = uni::open_chain(&cdir, &u.gen);
		grin_util::verif::set_segment_heights(Some(u.variant.heights));
		let de = if with_de { chain.desegmenter(&u.archive).expect("desegmenter") } else { Arc::new(RwLock::new(None)) };
		Rx { dir, chain, de, sync: Arc::new(SyncState::new()), stop: Arc::new(StopState::new()) }
	}
	fn obs(&self, u: &Uni) -> Obs {
		let ts = self.chain.txhashset();
		let ts = ts.read();
		let bitmap_final = ts.roots().map(|r| r.output_roots.bitmap_root == u.bitmap_root).unwrap_or(false);
		let pibd_h = self.chain.store().pibd_head().map(|t| t.height).unwrap_or(0);
		Obs { sizes: (ts.output_mmr_size(), ts.rangeproof_mmr_size(), ts.kernel_mmr_size()), bitmap_final, pibd_h }
	}
	fn arrive(&self, body: &SegBody) -> Result<(), String> {
		let mut g = self.de.write();
		let d = g.as_mut().expect("desegmenter present");
		let r = match body.clone() {
			SegBody::Bitmap(s, root) => d.add_bitmap_segment(s, root),
			SegBody::Output(s, root) => d.add_output_segment(s, Some(root)),
			SegBody::Rproof(s) => d.add_rangeproof_segment(s),
			SegBody::Kernel(s) => d.add_kernel_segment(s),
		};
		r.map_err(|e| format!("{:?}", e))
	}
	/// Would the receiver's validation accept this segment right now? Asked of a clone of the
	/// desegmenter (own caches, same bitmap state and archive header), so the receiver itself is
	/// left untouched.
	fn would_accept(&self, body: &SegBody) -> Result<(), String> {
		let mut d = self.de.read().as_ref().expect("desegmenter present").clone();
		let r = match body.clone() {
			SegBody::Bitmap(s, root) => d.add_bitmap_segment(s, root),
			SegBody::Output(s, root) => d.add_output_segment(s, Some(root)),
			SegBody::Rproof(s) => d.add_rangeproof_segment(s),
			SegBody::Kernel(s) => d.add_kernel_segment(s),
		};
		r.map_err(|e| format!("{:?}", e))
	}
	/// One iteration of the sync loop (StateSync::continue_pibd): apply, check progress, and
	/// when everything is in, the finishing sequence. Returns (apply result, progress, final).
	///
	/// The finishing sequence is a deterministic function of what is on disk at that point (all
	/// receivers share the same headers): `known(content)` lets the caller skip it for a
	/// txhashset byte content whose verdict it already has.
	fn tick(&self, known: &dyn Fn(u64) -> bool) -> TickOut {
		let mut g = self.de.write();
		let d = g.as_mut().expect("desegmenter present");
		let apply = d.apply_next_segments().map_err(|e| format!("{:?}", e));
		if apply.is_err() {
			return TickOut { apply, progress: Ok(false), finish: None, wanted: vec![], content: None };
		}
		let progress = d.check_progress(self.sync.clone()).map_err(|e| format!("{:?}", e));
		if let Ok(true) = progress {
			let content = dir_hash(&self.dir.join("chain").join("txhashset"));
			if known(content) {
				return TickOut { apply, progress, finish: None, wanted: vec![], content: Some(content) };
			}
			let f = match d.check_update_leaf_set_state() {
				Err(e) => Err(format!("check_update_leaf_set_state: {:?}", e)),
				Ok(()) => d.validate_complete_state(self.sync.clone(), self.stop.clone()).map_err(|e| format!("validate_complete_state: {:?}", e)),
			};
			return TickOut { apply, progress, finish: Some(f), wanted: vec![], content: Some(content) };
		}
		let wanted = d
			.next_desired_segments(15)
			.into_iter()
			.map(|s| {
				let t = match s.segment_type {
					grin_core::core::SegmentType::Bitmap => 0u8,
					grin_core::core::SegmentType::Output => 1,
					grin_core::core::SegmentType::RangeProof => 2,
					grin_core::core::SegmentType::Kernel => 3,
				};
				(t, s.identifier.height, s.identifier.idx)
			})
			.collect();
		TickOut { apply, progress, finish: None, wanted, content: None }
	}
	fn close(self) {
		let dir = self.dir.clone();
		drop(self);
		let _ = std::fs::remove_dir_all(dir);
	}
}

struct TickOut {
	apply: Result<(), String>,
	progress: Result<bool, String>,
	finish: Option<Result<(), String>>,
	wanted: Vec<(u8, u8, u64)>,
	/// hash of the txhashset files when all segments were in (before the finishing sequence)
	content: Option<u64>,
}

fn dir_hash(dir: &Path) -> u64 {
	fn walk(dir: &Path, acc: &mut Vec<(String, u64)>) {
		let mut names: Vec<PathBuf> = std::fs::read_dir(dir).map(|r| r.flatten().map(|e| e.path()).collect()).unwrap_or_default();
		names.sort();
		for p in names {
			if p.is_dir() {
				walk(&p, acc);
			} else if let Ok(b) = std::fs::read(&p) {
				acc.push((p.to_string_lossy().rsplit("txhashset").next().unwrap_or("").to_string(), hash64(&b)));
			}
		}
	}
	let mut acc = vec![];
	walk(dir, &mut acc);
	hash64(&acc)
}


// =====================================================================================
// Segment level: real prunable backend vs reference forest
// =====================================================================================

/// What happened to a leaf of the MMR before the segments are cut.
#[derive(Clone, Copy, Debug, PartialEq, Eq, Hash, PartialOrd, Ord)]
enum Lc {
	/// unspent
	Live,
	/// spent, then compacted (first compaction)
	C1,
	/// spent after the first compaction, then compacted again
	C2,
	/// spent before the archive point, never compacted
	U,
	/// spent after the archive point (the bitmap of the archive point still marks it unspent)
	B,
}

impl Lc {
	fn marked(&self) -> bool {
		matches!(self, Lc::Live | Lc::B)
	}
	fn ch(&self) -> char {
		match self {
			Lc::Live => 'L',
			Lc::C1 => 'c',
			Lc::C2 => 'd',
			Lc::U => 'u',
			Lc::B => 'b',
		}
	}
	fn of(c: char) -> Lc {
		match c {
			'c' => Lc::C1,
			'd' => Lc::C2,
			'u' => Lc::U,
			'b' => Lc::B,
			_ => Lc::Live,
		}
	}
}

fn cls_str(c: &[Lc]) -> String {
	c.iter().map(|x| x.ch()).collect()
}

fn rh(x: &[u8; 32]) -> Hash {
	Hash::from_vec(x)
}

/// Reference view of an MMR of n leaves (Elem(i+1)) with its own hashing.
struct RefMmr {
	f: Forest,
	n: usize,
}

impl RefMmr {
	fn new(n: usize) -> RefMmr {
		let mut f = Forest::new(true);
		for i in 0..n {
			f.push(&Elem(i as u32 + 1).bytes());
		}
		RefMmr { f, n }
	}
	fn size(&self) -> u64 {
		self.f.size()
	}
	fn height(&self, pos: u64) -> u32 {
		self.f.nodes[pos as usize].height
	}
	/// first position of the subtree under pos
	fn start(&self, pos: u64) -> u64 {
		pos + 2 - (1u64 << (self.height(pos) + 1))
	}
	/// leaf index range [lo, hi) under pos
	fn leaves(&self, pos: u64) -> (usize, usize) {
		let mut l = pos;
		while let Some(c) = self.f.nodes[l as usize].left {
			l = c;
		}
		let lo = self.f.nodes[l as usize].leaf_idx.unwrap() as usize;
		(lo, lo + (1usize << self.height(pos)))
	}
	fn parent(&self, pos: u64) -> Option<u64> {
		self.f.nodes[pos as usize].parent
	}
	fn sibling(&self, pos: u64) -> Option<u64> {
		let p = self.parent(pos)?;
		let n = &self.f.nodes[p as usize];
		if n.left == Some(pos) {
			n.right
		} else {
			n.left
		}
	}
	fn hash(&self, pos: u64) -> Hash {
		rh(&self.f.nodes[pos as usize].hash)
	}
}

/// Geometry of a segment by definition (leaf range, position range, tops).
struct Geo {
	lo: usize,
	hi: usize,
	full: bool,
	first: u64,
	last: u64,
	/// roots of the sub-trees the segment consists of (one for a full segment, the peaks inside
	/// the range for the final partial one)
	tops: Vec<u64>,
}

fn geo(r: &RefMmr, h: u8, idx: u64) -> Option<Geo> {
	let cap = 1usize << h;
	let lo = (idx as usize).checked_mul(cap)?;
	if lo >= r.n {
		return None;
	}
	let hi = (lo + cap).min(r.n);
	let full = hi - lo == cap;
	let first = r.f.leaf_pos[lo];
	if full {
		let mut top = first;
		for _ in 0..h {
			top = r.parent(top)?;
		}
		Some(Geo { lo, hi, full, first, last: top, tops: vec![top] })
	} else {
		let last = r.size() - 1;
		let tops = r.f.stack.iter().cloned().filter(|p| *p >= first && *p <= last).collect();
		Some(Geo { lo, hi, full, first, last, tops })
	}
}

#[derive(Clone, Copy, PartialEq, Eq, Debug)]
enum Expect {
	Reject,
	Observe,
	Accept,
}

/// Nodes inside the segment whose hash the reconstruction needs although nothing below them is
/// unspent: (node, sole source?) — "sole" when the segment carries that value exactly once and
/// nothing below it.
fn needed_pruned(r: &RefMmr, g: &Geo, marked: &[bool], p: &Parts<Elem>) -> Vec<(u64, bool)> {
	let live = |pos: u64| {
		let (a, b) = r.leaves(pos);
		(a..b.min(r.n)).any(|i| marked[i])
	};
	let mut out = vec![];
	let mut stack: Vec<u64> = g.tops.clone();
	while let Some(t) = stack.pop() {
		if live(t) {
			if let (Some(l), Some(rr)) = (r.f.nodes[t as usize].left, r.f.nodes[t as usize].right) {
				stack.push(l);
				stack.push(rr);
			}
		} else {
			let s = r.start(t);
			let below = p.hash_pos.iter().filter(|x| **x >= s && **x < t).count() + p.leaf_pos.iter().filter(|x| **x >= s && **x < t).count();
			let at = p.hash_pos.iter().filter(|x| **x == t).count() + p.leaf_pos.iter().filter(|x| **x == t).count();
			out.push((t, below == 0 && at == 1));
		}
	}
	out
}

/// A consistent lie about the sub-tree under `up_to`: the left-most leaf under `from_top` gets a
/// different value and every entry of the segment on the path up to `up_to` is recomputed from
/// it (true siblings). Every derivation of `up_to`'s hash from the segment is then wrong.
fn consistent_lie(r: &RefMmr, p: &Parts<Elem>, from_top: u64, up_to: u64) -> Parts<Elem> {
	let mut q = p.clone();
	let mut cur = r.start(from_top);
	let mut lie = match q.leaf_pos.iter().position(|x| *x == cur) {
		Some(k) => {
			q.leaf_data[k] = q.leaf_data[k].mutated();
			rh(&hash_leaf(cur, &q.leaf_data[k].bytes()))
		}
		None => flip(&r.hash(cur)),
	};
	loop {
		if let Some(j) = q.hash_pos.iter().position(|x| *x == cur) {
			q.hashes[j] = lie;
		}
		if cur == up_to {
			break;
		}
		let par = r.parent(cur).expect("lie path stays inside a peak");
		let sib = r.sibling(cur).unwrap();
		let mut l = [0u8; 32];
		l.copy_from_slice(lie.as_bytes());
		let s = r.f.nodes[sib as usize].hash;
		lie = rh(&if sib < cur { hash_pair(par, &s, &l) } else { hash_pair(par, &l, &s) });
		cur = par;
	}
	q
}

/// Replace everything the segment says about the sub-tree under `a` by the (true) hash of `a`.
fn hide_subtree(r: &RefMmr, p: &Parts<Elem>, a: u64) -> Parts<Elem> {
	let s = r.start(a);
	let mut q = p.clone();
	let keep_l: Vec<usize> = (0..q.leaf_pos.len()).filter(|k| q.leaf_pos[*k] < s || q.leaf_pos[*k] > a).collect();
	q.leaf_pos = keep_l.iter().map(|k| p.leaf_pos[*k]).collect();
	q.leaf_data = keep_l.iter().map(|k| p.leaf_data[*k]).collect();
	let keep_h: Vec<usize> = (0..q.hash_pos.len()).filter(|k| q.hash_pos[*k] < s || q.hash_pos[*k] > a).collect();
	q.hash_pos = keep_h.iter().map(|k| p.hash_pos[*k]).collect();
	q.hashes = keep_h.iter().map(|k| p.hashes[*k]).collect();
	let at = q.hash_pos.iter().position(|x| *x > a).unwrap_or(q.hash_pos.len());
	q.hash_pos.insert(at, a);
	q.hashes.insert(at, r.hash(a));
	q
}

struct SegCtx<'a> {
	rep: &'a mut Report,
	dir: PathBuf,
	refs: HashMap<usize, RefMmr>,
	prunable: bool,
	max_height: u8,
}

fn open_be(dir: &Path, prunable: bool) -> PMMRBackend<Elem> {
	let _ = std::fs::remove_dir_all(dir);
	std::fs::create_dir_all(dir).expect("mkdir");
	PMMRBackend::<Elem>::new(dir, prunable, ProtocolVersion(1), None).expect("open backend")
}

/// Drive the real backend into the state described by `cls` (+ `extra` leaves appended after the
/// archive point) through the store's usage protocol: appends, prunes, sync, check_compact.
fn drive(dir: &Path, cls: &[Lc], extra: usize, prunable: bool) -> Result<PMMRBackend<Elem>, String> {
	let n = cls.len();
	let mut be = open_be(dir, prunable);
	{
		let mut pm = PMMR::new(&mut be);
		for i in 0..n {
			pm.push(&Elem(i as u32 + 1)).map_err(|e| format!("push: {}", e))?;
		}
	}
	be.sync().map_err(|e| format!("sync: {:?}", e))?;
	let size = {
		let n = n as u64;
		2 * n - n.count_ones() as u64
	};
	let pos = |i: usize| {
		let i = i as u64;
		2 * i - i.count_ones() as u64
	};
	for (stage, compact) in [(Lc::C1, true), (Lc::C2, true), (Lc::U, false)] {
		let which: Vec<usize> = (0..n).filter(|i| cls[*i] == stage).collect();
		if which.is_empty() {
			continue;
		}
		{
			let mut pm = PMMR::at(&mut be, size);
			for i in &which {
				match pm.prune(pos(*i)) {
					Ok(true) => {}
					other => return Err(format!("prune(leaf {}) = {:?}", i, other)),
				}
			}
		}
		be.sync().map_err(|e| format!("sync: {:?}", e))?;
		if compact {
			be.check_compact(size, &Bitmap::new()).map_err(|e| format!("check_compact: {:?}", e))?;
			be.sync().map_err(|e| format!("sync: {:?}", e))?;
		}
	}
	let later: Vec<usize> = (0..n).filter(|i| cls[*i] == Lc::B).collect();
	if extra > 0 || !later.is_empty() {
		let mut pm = PMMR::at(&mut be, size);
		for k in 0..extra {
			pm.push(&Elem(10_000 + k as u32)).map_err(|e| format!("push: {}", e))?;
		}
		for i in &later {
			match pm.prune(pos(*i)) {
				Ok(true) => {}
				other => return Err(format!("prune(leaf {}) = {:?}", i, other)),
			}
		}
		drop(pm);
		be.sync().map_err(|e| format!("sync: {:?}", e))?;
	}
	Ok(be)
}

fn seg_case(cls: &[Lc], extra: usize, prunable: bool, h: u8, idx: u64, corr: &str) -> Value {
	json!({"level": "segment", "leaves": cls_str(cls), "extra": extra, "prunable": prunable, "height": h, "idx": idx, "corruption": corr})
}

/// All checks for one MMR state. Returns the number of segments looked at.
fn seg_state(cx: &mut SegCtx<'_>, cls: &[Lc], extra: usize, only: Option<(u8, u64, String)>) -> Result<String, String> {
	let n = cls.len();
	if !cx.refs.contains_key(&n) {
		cx.refs.insert(n, RefMmr::new(n));
	}
	let prunable = cx.prunable;
	let be = match drive(&cx.dir, cls, extra, prunable) {
		Ok(b) => b,
		Err(e) => {
			cx.rep.violation("seg:protocol-step-failed", format!("driving the backend into state {} failed: {}", cls_str(cls), e), seg_case(cls, extra, prunable, 0, 0, ""));
			return Err(e);
		}
	};
	let r = &cx.refs[&n];
	let size = r.size();
	let root = rh(&r.f.root());
	let marked: Vec<bool> = cls.iter().map(|c| !prunable || c.marked()).collect();
	let mut bm = Bitmap::new();
	for (i, m) in marked.iter().enumerate() {
		if *m {
			bm.add(i as u32);
		}
	}
	let bitmap = if prunable { Some(&bm) } else { None };
	// the "other" tree of validate_with: an arbitrary fixed root, merged by definition
	let other = Hash::from_vec(&[0xa7; 32]);
	let mut o = [0u8; 32];
	o.copy_from_slice(other.as_bytes());
	let merged_right = rh(&hash_pair(size, &r.f.root(), &o));
	let merged_left = rh(&hash_pair(size, &o, &r.f.root()));
	let pm = ReadonlyPMMR::at(&be, size);
	let mut obs = String::new();
	let mut replay_err: Option<String> = None;
	for h in 0..=cx.max_height {
		let count = ((n as u64) + (1u64 << h) - 1) >> h;
		// one index past the end must not produce a segment
		for idx in 0..=count {
			if let Some((oh, oi, _)) = &only {
				if *oh != h || *oi != idx {
					continue;
				}
			}
			let id = SegmentIdentifier { height: h, idx };
			let g = geo(r, h, idx);
			let made = Segment::from_pmmr(id, &pm, prunable);
			cx.rep.evaluations += 1;
			let g = match (g, &made) {
				(None, Err(_)) => {
					cx.rep.outcome("from_pmmr:beyond-the-end:refused");
					continue;
				}
				(None, Ok(_)) => {
					cx.rep.violation("seg:produced-beyond-end", format!("from_pmmr produced segment ({},{}) of an MMR with {} leaves", h, idx, n), seg_case(cls, extra, prunable, h, idx, ""));
					replay_err = Some("segment produced beyond the end".into());
					continue;
				}
				(Some(g), Err(e)) => {
					// the node cannot serve this segment at all
					let sib_spent = h == 0 && prunable && {
						let s = g.lo ^ 1;
						s < n && !matches!(cls[s], Lc::Live)
					};
					if sib_spent {
						// Not a statement of the property (which speaks about segments a node produced):
						// from_pmmr cannot build the one-leaf segment next to a spent leaf because the
						// proof needs the sibling's hash and the backend hides removed leaves. Counted.
						cx.rep.outcome("from_pmmr:not-produced:height0-next-to-spent-leaf");
						let note = "Segment::from_pmmr fails (MissingHash) for height-0 segments whose sibling leaf is spent; such segments are never requested by a node (served heights are >= 7)".to_string();
						if !cx.rep.notes.contains(&note) {
							cx.rep.notes.push(note);
						}
						continue;
					}
					cx.rep.outcome("from_pmmr:not-produced:other");
					cx.rep.violation(
						"seg:not-produced",
						format!("from_pmmr(height {}, idx {}) on the {}-leaf MMR in state {} (+{} later leaves) failed with {:?}: the node cannot serve a segment of its own state", h, idx, n, cls_str(cls), extra, e),
						seg_case(cls, extra, prunable, h, idx, ""),
					);
					replay_err = Some(format!("from_pmmr failed: {:?}", e));
					continue;
				}
				(Some(g), Ok(_)) => g,
			};
			let seg = made.unwrap();
			cx.rep.distinct += 1;
			// ---- honest segment validates
			let v1 = seg.validate(size, bitmap, root);
			let v2 = seg.validate_with(size, bitmap, merged_right, size, other, false);
			let v3 = seg.validate_with(size, bitmap, merged_left, size, other, true);
			cx.rep.evaluations += 3;
			let any_marked = (g.lo..g.hi).any(|i| marked[i]);
			let compacted_in = (g.lo..g.hi).any(|i| matches!(cls[i], Lc::C1 | Lc::C2));
			let kind = format!(
				"{}{}{}",
				if g.full { "full" } else { "partial" },
				if any_marked { "" } else { ":all-spent" },
				if compacted_in { ":compacted" } else { "" }
			);
			if v1.is_err() || v2.is_err() || v3.is_err() {
				cx.rep.outcome(&format!("honest:{}:REJECTED", kind));
				cx.rep.violation(
					format!("seg:honest-rejected:{}", kind),
					format!(
						"honest segment (height {}, idx {}) of the {}-leaf MMR in state {} (+{} later leaves) does not validate: validate={:?} validate_with(right)={:?} validate_with(left)={:?}",
						h, idx, n, cls_str(cls), extra, v1, v2, v3
					),
					seg_case(cls, extra, prunable, h, idx, ""),
				);
				replay_err = Some(format!("honest rejected: {:?} {:?} {:?}", v1, v2, v3));
				continue;
			}
			cx.rep.outcome(&format!("honest:{}:accepted", kind));
			if only.is_some() {
				obs.push_str(&format!("honest ok; leaves {:?} hashes {:?} proof {}; ", seg.leaf_iter().map(|x| x.0).collect::<Vec<_>>(), seg.hash_iter().map(|x| x.0).collect::<Vec<_>>(), seg.proof().size()));
			}
			// wrong root / wrong other side must fail
			let wrong = [
				("mmr-root", seg.validate(size, bitmap, flip(&root)).is_err()),
				("other-root", seg.validate_with(size, bitmap, merged_right, size, flip(&other), false).is_err()),
				("other-side", seg.validate_with(size, bitmap, merged_right, size, other, true).is_err()),
				("merge-index", seg.validate_with(size, bitmap, merged_right, size + 1, other, false).is_err()),
			];
			cx.rep.evaluations += 4;
			for (w, rejected) in wrong {
				if rejected {
					cx.rep.outcome(&format!("input:{}:rejected", w));
				} else {
					cx.rep.violation(format!("seg:wrong-{}-accepted", w), format!("segment (height {}, idx {}) of state {} validates against a wrong {}", h, idx, cls_str(cls), w), seg_case(cls, extra, prunable, h, idx, w));
					replay_err = Some(format!("wrong {} accepted", w));
				}
			}
			// ---- corruptions
			let p = parts_of(&seg);
			let np = if prunable { needed_pruned(r, &g, &marked, &p) } else { vec![] };
			let leaf_of = |pos: u64| r.f.nodes[pos as usize].leaf_idx.map(|x| x as usize);
			let mut cases: Vec<(String, Option<Parts<Elem>>, Expect)> = vec![];
			for c in all_corrs(&p) {
				let exp = match &c {
					Corr::LeafData(k) | Corr::LeafPosPlus(k) | Corr::LeafPosMinus(k) | Corr::LeafOmit(k) => {
						let li = leaf_of(p.leaf_pos[*k]).unwrap();
						if marked[li] {
							Expect::Reject
						} else if matches!(c, Corr::LeafData(_)) && np.iter().any(|(t, sole)| *t == p.leaf_pos[*k] && *sole) {
							Expect::Reject
						} else {
							Expect::Observe
						}
					}
					Corr::LeafSwap(k) => {
						let a = leaf_of(p.leaf_pos[*k]).unwrap();
						let b = leaf_of(p.leaf_pos[*k + 1]).unwrap();
						if marked[a] || marked[b] {
							Expect::Reject
						} else {
							Expect::Observe
						}
					}
					Corr::Hash(j) | Corr::HashOmit(j) => {
						let pos = p.hash_pos[*j];
						let sole_np = np.iter().any(|(t, sole)| *t == pos && *sole);
						// a fully spent full segment: the single entry it carries is the only
						// source of the value the proof starts from
						let sole_root = g.full && !any_marked && p.hash_pos.len() + p.leaf_pos.len() == 1;
						if sole_np || sole_root {
							Expect::Reject
						} else {
							Expect::Observe
						}
					}
					Corr::Proof(_) | Corr::ProofDrop(_) => Expect::Reject,
					Corr::ProofExtend => Expect::Observe,
					Corr::IdIdxPlus | Corr::IdIdxMinus | Corr::IdHeightPlus | Corr::IdHeightMinus => {
						// a changed identifier claims another leaf range. While both ranges are entirely
						// spent the root depends on neither (only on the hash of a spent ancestor), so
						// that case is observed; as soon as an unspent leaf is involved it must fail.
						let nid = apply_corr(&p, &c).map(|q| q.id).unwrap_or(p.id);
						let other_marked = match geo(r, nid.height, nid.idx) {
							Some(g2) => (g2.lo..g2.hi).any(|i| marked[i]),
							None => true,
						};
						if any_marked || other_marked {
							Expect::Reject
						} else {
							Expect::Observe
						}
					}
				};
				let q = apply_corr(&p, &c);
				// identifier changes: when the changed identifier denotes a segment with exactly the
				// same content (e.g. both are the same pruned root), it IS that honest segment
				let exp = match (&c, &q) {
					(Corr::IdIdxPlus | Corr::IdIdxMinus | Corr::IdHeightPlus | Corr::IdHeightMinus, Some(q)) => match Segment::from_pmmr(q.id, &pm, prunable) {
						Ok(other_seg) => {
							let op = parts_of(&other_seg);
							if op.hash_pos == q.hash_pos && op.hashes == q.hashes && op.leaf_pos == q.leaf_pos && op.leaf_data == q.leaf_data && op.proof == q.proof {
								Expect::Accept
							} else {
								exp
							}
						}
						Err(_) => exp,
					},
					_ => exp,
				};
				if q.is_some() {
					cases.push((c.show(), q, exp));
				}
			}
			if prunable {
				// hide an unspent leaf behind the true hash of each of its ancestors inside the segment
				for k in 0..p.leaf_pos.len() {
					let li = leaf_of(p.leaf_pos[k]).unwrap();
					if !marked[li] {
						continue;
					}
					let mut a = p.leaf_pos[k];
					let mut level = 0;
					loop {
						if a > g.last || r.start(a) < g.first {
							break;
						}
						cases.push((format!("Hide(leaf{},level{})", k, level), Some(hide_subtree(r, &p, a)), Expect::Reject));
						match r.parent(a) {
							Some(x) => a = x,
							None => break,
						}
						level += 1;
					}
				}
				// consistent lies about every needed pruned node
				for (t, _) in &np {
					if g.full && !any_marked {
						continue;
					}
					cases.push((format!("Lie(node{})", t), Some(consistent_lie(r, &p, *t, *t)), Expect::Reject));
				}
				if g.full && !any_marked {
					// the value the proof starts from: some all-spent ancestor-or-self of the top
					let mut up = g.last;
					while let Some(par) = r.parent(up) {
						let (a, b) = r.leaves(par);
						if (a..b.min(n)).any(|i| marked[i]) {
							break;
						}
						up = par;
					}
					cases.push((format!("Lie(top..node{})", up), Some(consistent_lie(r, &p, g.last, up)), Expect::Reject));
					// the whole segment is spent and stands for the hash of its highest all-spent
					// ancestor `up`.  Claim instead that a HIGHER ancestor is all spent: carry only the
					// (true) hash of that ancestor and the proof from there.  Its sub-tree holds an
					// unspent leaf (of a neighbouring segment), which the receiver would never ask for.
					if p.hash_pos.len() == 1 && p.leaf_pos.is_empty() && p.hash_pos[0] == up {
						let mut a = up;
						let mut k = 0usize;
						while let Some(par) = r.parent(a) {
							a = par;
							k += 1;
							if k > p.proof.len() {
								break;
							}
							let mut q = p.clone();
							q.hash_pos = vec![a];
							q.hashes = vec![r.hash(a)];
							q.proof = p.proof[k..].to_vec();
							cases.push((format!("HideAbove(node{})", a), Some(q), Expect::Reject));
						}
					}
				}
			}
			let mut case_no = 0u64;
			for (name, q, exp) in cases {
				if let Some((_, _, oc)) = &only {
					if !oc.is_empty() && *oc != name {
						continue;
					}
				}
				let class: String = name.split('(').next().unwrap_or("").to_string();
				let built = q.as_ref().and_then(build);
				let (rejected, how) = match &built {
					None => (true, "undecodable".to_string()),
					Some(s) => {
						let a = s.validate(size, bitmap, root);
						cx.rep.evaluations += 1;
						// validate_with shares the reconstruction: every third corrupted case (and every
						// accepted one) is also put through it
						case_no += 1;
						let b = if case_no % 3 == 0 || a.is_ok() || only.is_some() {
							cx.rep.evaluations += 1;
							s.validate_with(size, bitmap, merged_right, size, other, false)
						} else {
							a.clone()
						};
						if a.is_ok() != b.is_ok() {
							cx.rep.violation(
								"seg:validate-vs-validate_with-disagree",
								format!("corruption {} of segment (height {}, idx {}) in state {}: validate={:?} but validate_with={:?}", name, h, idx, cls_str(cls), a, b),
								seg_case(cls, extra, prunable, h, idx, &name),
							);
							replay_err = Some("validate and validate_with disagree".into());
						}
						(a.is_err(), format!("{:?}", a))
					}
				};
				if only.is_some() {
					obs.push_str(&format!("{} -> {} (expected {:?}); ", name, how, exp));
				}
				match (exp, rejected) {
					(Expect::Reject, true) => cx.rep.outcome(&format!("corrupt:{}:rejected", class)),
					(Expect::Reject, false) => {
						cx.rep.outcome(&format!("corrupt:{}:ACCEPTED", class));
						cx.rep.violation(
							format!("seg:corruption-accepted:{}:{}", class, if prunable { "prunable" } else { "plain" }),
							format!(
								"segment (height {}, idx {}) of the {}-leaf MMR in state {} (+{} later leaves) still validates after corruption {} of a part its root depends on",
								h, idx, n, cls_str(cls), extra, name
							),
							seg_case(cls, extra, prunable, h, idx, &name),
						);
						replay_err = Some(format!("corruption {} accepted", name));
					}
					(Expect::Accept, false) => cx.rep.outcome(&format!("corrupt:{}:same-as-honest-segment:accepted", class)),
					(Expect::Accept, true) => {
						cx.rep.outcome(&format!("corrupt:{}:same-as-honest-segment:REJECTED", class));
						cx.rep.violation(
							format!("seg:honest-alias-rejected:{}", class),
							format!("segment (height {}, idx {}) in state {} with identifier change {} is identical to the honest segment of that identifier but is rejected ({})", h, idx, cls_str(cls), name, how),
							seg_case(cls, extra, prunable, h, idx, &name),
						);
						replay_err = Some(format!("alias {} rejected", name));
					}
					(Expect::Observe, true) => cx.rep.outcome(&format!("redundant:{}:rejected", class)),
					(Expect::Observe, false) => cx.rep.outcome(&format!("redundant:{}:accepted", class)),
				}
			}
		}
	}
	drop(be);
	match replay_err {
		Some(e) => Err(e),
		None => Ok(obs),
	}
}

/// every assignment of {Live, C1, C2, U, B} to n leaves, by index
fn exhaustive_state(n: usize, mut code: u64) -> Vec<Lc> {
	let all = [Lc::Live, Lc::C1, Lc::C2, Lc::U, Lc::B];
	(0..n)
		.map(|_| {
			let c = all[(code % 5) as usize];
			code /= 5;
			c
		})
		.collect()
}

/// structured prune/compaction states for larger MMRs
fn family_states(n: usize, wide: bool, thin: bool) -> Vec<(Vec<Lc>, usize)> {
	let mut sets: Vec<BTreeSet<usize>> = vec![];
	for i in 0..n {
		sets.push([i].into_iter().collect());
	}
	let reach = if wide { n } else if thin { 3 } else { 9 };
	for i in 0..n {
		for j in i + 1..n.min(i + reach) {
			sets.push([i, j].into_iter().collect());
		}
	}
	let mut subtrees: Vec<BTreeSet<usize>> = vec![];
	for h in 1..=5usize {
		let w = 1 << h;
		let mut a = 0;
		while a + w <= n {
			subtrees.push((a..a + w).collect());
			a += w;
		}
	}
	sets.extend(subtrees.iter().cloned());
	for st in subtrees.iter().filter(|s| s.len() <= 8) {
		for x in st.iter() {
			let mut s = st.clone();
			s.remove(x);
			sets.push(s);
		}
	}
	for j in 1..=n {
		if !thin || j % 4 == 1 || j == n {
			sets.push((0..j).collect());
		}
	}
	for j in 0..n {
		if !thin || j % 4 == 3 || j == 0 {
			sets.push((j..n).collect());
		}
	}
	sets.push((0..n).filter(|i| i % 2 == 0).collect());
	sets.push((0..n).filter(|i| i % 2 == 1).collect());
	let mut out: Vec<(Vec<Lc>, usize)> = vec![];
	let mut seen: HashSet<(Vec<Lc>, usize)> = HashSet::new();
	let mut push = |cls: Vec<Lc>, extra: usize| {
		if seen.insert((cls.clone(), extra)) {
			out.push((cls, extra));
		}
	};
	let paint = |n: usize, parts: &[(&BTreeSet<usize>, Lc)]| {
		let mut v = vec![Lc::Live; n];
		for (s, c) in parts {
			for i in s.iter() {
				if v[*i] == Lc::Live {
					v[*i] = *c;
				}
			}
		}
		v
	};
	push(vec![Lc::Live; n], 0);
	push(vec![Lc::Live; n], 1);
	push(vec![Lc::Live; n], 3);
	for s in &sets {
		push(paint(n, &[(s, Lc::C1)]), 0);
		push(paint(n, &[(s, Lc::U)]), 0);
	}
	// compacted sub-tree (or prefix) plus one uncompacted spend / one later spend near it
	let mut bases: Vec<BTreeSet<usize>> = subtrees.clone();
	for j in 1..=n {
		if j % 3 == 0 {
			bases.push((0..j).collect());
		}
	}
	for b in &bases {
		let lo = b.iter().next().cloned().unwrap_or(0).saturating_sub(if wide { n } else if thin { 2 } else { 4 });
		let hi = (b.iter().last().cloned().unwrap_or(0) + if wide { n } else if thin { 3 } else { 5 }).min(n);
		for i in lo..hi {
			if b.contains(&i) {
				continue;
			}
			let one: BTreeSet<usize> = [i].into_iter().collect();
			push(paint(n, &[(b, Lc::C1), (&one, Lc::U)]), 0);
			push(paint(n, &[(b, Lc::C1), (&one, Lc::B)]), 1);
			push(paint(n, &[(b, Lc::C1), (&one, Lc::C2)]), 0);
		}
	}
	// two compactions whose pruned roots merge: a sub-tree, then its sibling
	for h in 0..=3usize {
		let w = 1usize << h;
		let mut s0 = 0;
		while s0 + 2 * w <= n {
			let a: BTreeSet<usize> = (s0..s0 + w).collect();
			let b: BTreeSet<usize> = (s0 + w..s0 + 2 * w).collect();
			push(paint(n, &[(&a, Lc::C1), (&b, Lc::C2)]), 0);
			push(paint(n, &[(&b, Lc::C1), (&a, Lc::C2)]), 2);
			s0 += 2 * w;
		}
	}
	// spends after the archive point only
	for i in 0..n {
		let one: BTreeSet<usize> = [i].into_iter().collect();
		push(paint(n, &[(&one, Lc::B)]), 1);
		if i + 1 < n {
			let two: BTreeSet<usize> = [i, i + 1].into_iter().collect();
			push(paint(n, &[(&two, Lc::B)]), 2);
		}
	}
	out
}

fn run_seg(part: &str, tier: Tier, shard: usize, nsh: usize) -> Report {
	uni::init_thread();
	let mut rep = Report::new();
	rep.violation_cap = 80;
	let sc = uni::Scratch::new(&format!("c16{}", part));
	let dir = sc.fresh("be");
	let mut idx = 0u64;
	match part {
		"seg-exhaustive" => {
			let max_n = tier.pick(5usize, 7);
			let mut cx = SegCtx { rep: &mut rep, dir, refs: HashMap::new(), prunable: true, max_height: 4 };
			let mut states = 0u64;
			for n in 1..=max_n {
				for code in 0..5u64.pow(n as u32) {
					idx += 1;
					if !mine(idx, shard, nsh) {
						continue;
					}
					let cls = exhaustive_state(n, code);
					let extra = if cls.iter().any(|c| *c == Lc::B) { 1 } else { 0 };
					let _ = seg_state(&mut cx, &cls, extra, None);
					states += 1;
					if states <= 2 && shard == 0 {
						cx.rep.sample(json!({"leaves": cls_str(&cls), "legend": "L live, c spent+compacted, d spent+compacted in a second compaction, u spent uncompacted, b spent after the archive point"}));
					}
				}
			}
			rep.extra.insert("bound_leaves".into(), json!(max_n));
			rep.extra.insert("mmr_states".into(), json!(states));
		}
		"seg-families" => {
			let max_n = tier.pick(24usize, 64);
			let mut cx = SegCtx { rep: &mut rep, dir, refs: HashMap::new(), prunable: true, max_height: 4 };
			let mut states = 0u64;
			for n in 1..=max_n {
				let wide = n <= tier.pick(12, 20);
				let thin = n > tier.pick(20, 32);
				for (cls, extra) in family_states(n, wide, thin) {
					idx += 1;
					if !mine(idx, shard, nsh) {
						continue;
					}
					let _ = seg_state(&mut cx, &cls, extra, None);
					states += 1;
					if states == 40 && shard == 1 {
						cx.rep.sample(json!({"leaves": cls_str(&cls), "later_leaves": extra}));
					}
				}
			}
			rep.extra.insert("bound_leaves".into(), json!(max_n));
			rep.extra.insert("mmr_states".into(), json!(states));
		}
		"seg-plain" => {
			// non-prunable MMRs (kernels): every leaf is required
			let max_n = tier.pick(24usize, 64);
			let mut cx = SegCtx { rep: &mut rep, dir, refs: HashMap::new(), prunable: false, max_height: 4 };
			let mut states = 0u64;
			for n in 1..=max_n {
				for extra in [0usize, 1, 2] {
					idx += 1;
					if !mine(idx, shard, nsh) {
						continue;
					}
					let _ = seg_state(&mut cx, &vec![Lc::Live; n], extra, None);
					states += 1;
				}
			}
			rep.extra.insert("bound_leaves".into(), json!(max_n));
			rep.extra.insert("mmr_states".into(), json!(states));
		}
		_ => panic!("unknown part"),
	}
	rep
}

// =====================================================================================
// End to end: every arrival order (replay DFS, memoised on the abstract receiver state)
// =====================================================================================

#[derive(Clone, Debug, PartialEq, Eq, Hash, PartialOrd, Ord)]
enum Ev {
	/// the honest segment arrives (first time, or again after it was refused)
	Arr(usize),
	/// a second copy of an already accepted honest segment arrives
	Dup(usize),
	/// a corrupted copy arrives
	Bad(usize, String),
	/// one iteration of the sync loop
	Tick,
}

impl Ev {
	fn show(&self) -> String {
		match self {
			Ev::Arr(i) => format!("Arr({})", i),
			Ev::Dup(i) => format!("Dup({})", i),
			Ev::Bad(i, c) => format!("Bad({};{})", i, c),
			Ev::Tick => "Tick".into(),
		}
	}
	fn parse(s: &str) -> Option<Ev> {
		if s == "Tick" {
			return Some(Ev::Tick);
		}
		let inner = &s[s.find('(')? + 1..s.len() - 1];
		if s.starts_with("Arr(") {
			return Some(Ev::Arr(inner.parse().ok()?));
		}
		if s.starts_with("Dup(") {
			return Some(Ev::Dup(inner.parse().ok()?));
		}
		if s.starts_with("Bad(") {
			let k = inner.find(';')?;
			return Some(Ev::Bad(inner[..k].parse().ok()?, inner[k + 1..].to_string()));
		}
		None
	}
}

/// Harness-side abstract state of the receiver. Everything except `bmp_applied` is either what
/// the harness itself did (which segments were accepted) or read back from the receiver (`obs`).
#[derive(Clone, Debug, PartialEq, Eq, Hash)]
struct Model {
	/// per honest segment: 0 not accepted yet, 1 accepted, 2 accepted again after it was applied
	/// (a stale copy sits in the cache)
	honest: Vec<u8>,
	dup_used: bool,
	/// accepted corrupted segment: (segment, corruption, took the cache slot of the honest one)
	taint: Option<(usize, String, bool)>,
	/// bitmap segments moved from the cache into the accumulator (mirror of the only piece of
	/// receiver state that cannot be read back; cross-checked when the bitmap is finalised)
	bmp_applied: usize,
	obs: Obs,
}

fn corrupt_body(body: &SegBody, c: &str) -> Option<SegBody> {
	if c == "OtherRoot" {
		return match body {
			SegBody::Bitmap(s, r) => Some(SegBody::Bitmap(s.clone(), flip(r))),
			SegBody::Output(s, r) => Some(SegBody::Output(s.clone(), flip(r))),
			_ => None,
		};
	}
	if let Some(k) = c.strip_prefix("LeafHide(").and_then(|x| x.strip_suffix(')')).and_then(|x| x.parse::<usize>().ok()) {
		// an unspent (or any) leaf replaced by its own true hash
		fn hide<T: Mutate + PMMRIndexHashable>(s: &Segment<T>, k: usize) -> Option<Segment<T>> {
			let mut p = parts_of(s);
			if k >= p.leaf_pos.len() {
				return None;
			}
			let pos = p.leaf_pos.remove(k);
			let data = p.leaf_data.remove(k);
			if !p.hash_pos.contains(&pos) {
				let at = p.hash_pos.iter().position(|x| *x > pos).unwrap_or(p.hash_pos.len());
				p.hash_pos.insert(at, pos);
				p.hashes.insert(at, data.hash_with_index(pos));
			}
			build(&p)
		}
		return match body {
			SegBody::Bitmap(s, r) => hide(s, k).map(|x| SegBody::Bitmap(x, *r)),
			SegBody::Output(s, r) => hide(s, k).map(|x| SegBody::Output(x, *r)),
			SegBody::Rproof(s) => hide(s, k).map(SegBody::Rproof),
			SegBody::Kernel(s) => hide(s, k).map(SegBody::Kernel),
		};
	}
	let corr = Corr::parse(c)?;
	fn go<T: Mutate>(s: &Segment<T>, c: &Corr) -> Option<Segment<T>> {
		apply_corr(&parts_of(s), c).as_ref().and_then(build)
	}
	match body {
		SegBody::Bitmap(s, r) => go(s, &corr).map(|x| SegBody::Bitmap(x, *r)),
		SegBody::Output(s, r) => go(s, &corr).map(|x| SegBody::Output(x, *r)),
		SegBody::Rproof(s) => go(s, &corr).map(SegBody::Rproof),
		SegBody::Kernel(s) => go(s, &corr).map(SegBody::Kernel),
	}
}

fn body_corrs(body: &SegBody) -> Vec<String> {
	let mut v: Vec<String> = match body {
		SegBody::Bitmap(s, _) => all_corrs(&parts_of(s)),
		SegBody::Output(s, _) => all_corrs(&parts_of(s)),
		SegBody::Rproof(s) => all_corrs(&parts_of(s)),
		SegBody::Kernel(s) => all_corrs(&parts_of(s)),
	}
	.iter()
	.map(|c| c.show())
	.collect();
	if matches!(body, SegBody::Bitmap(..) | SegBody::Output(..)) {
		v.push("OtherRoot".into());
	}
	let n_leaves = match body {
		SegBody::Bitmap(s, _) => s.leaf_iter().count(),
		SegBody::Output(s, _) => s.leaf_iter().count(),
		SegBody::Rproof(s) => s.leaf_iter().count(),
		SegBody::Kernel(s) => s.leaf_iter().count(),
	};
	for k in 0..n_leaves {
		v.push(format!("LeafHide({})", k));
	}
	v
}

fn corr_class(c: &str) -> String {
	if c.starts_with("LeafHide(") {
		return "leaf-hidden-behind-its-hash".into();
	}
	Corr::parse(c).map(|x| x.class().to_string()).unwrap_or_else(|| "other-root".into())
}

#[derive(Clone, Debug)]
enum Mode {
	/// honest segments only, at most one duplicate of segment i
	Dup(Option<usize>),
	/// honest exploration; at every state every corrupted copy (of this worker's slice) is offered;
	/// a copy that passes validation taints the history and every continuation is explored
	Probe,
}

struct Ex<'a> {
	u: &'a Uni,
	sc: &'a uni::Scratch,
	rep: &'a mut Report,
	memo: HashSet<u64>,
	mode: Mode,
	bads: Vec<(usize, String, Option<SegBody>)>,
	/// corrupted copies that some state accepted and whose continuations are explored
	accepted_bad: BTreeMap<(usize, String), Vec<Ev>>,
	/// at most this many followed copies per (tree, corruption class); 0 = all
	follow_limit: usize,
	followed_per_class: HashMap<(u8, String), usize>,
	/// transitions between untainted states (re-explored by every slice of a probe exploration)
	honest_transitions: u64,
	replays: u64,
	quiet: bool,
	max_states: u64,
	/// verdict of the finishing sequence per txhashset byte content
	final_memo: std::cell::RefCell<HashMap<u64, FinalRec>>,
}

struct StepOut {
	result: String,
	ok: bool,
	tick: Option<TickSummary>,
}
struct TickSummary {
	apply_err: Option<String>,
	finish: Option<Result<(), String>>,
	wanted: Vec<(u8, u8, u64)>,
	/// receiver fingerprint after the finishing sequence
	fp: Option<StateFp>,
	/// the finishing sequence really ran now (not taken from the content memo)
	fresh: bool,
	content: Option<u64>,
}

#[derive(Clone)]
struct FinalRec {
	result: Result<(), String>,
	fp: StateFp,
}

impl<'a> Ex<'a> {
	fn seg_applied(&self, i: usize, m: &Model) -> bool {
		let s = &self.u.segs[i];
		let n = |size: u64| leaves_of_size(size);
		match s.tree {
			0 => (s.idx as usize) < m.bmp_applied,
			1 => s.hi <= n(m.obs.sizes.0),
			2 => s.hi <= n(m.obs.sizes.1),
			_ => s.hi <= n(m.obs.sizes.2),
		}
	}
	fn initial(&self, rx: &Rx) -> Model {
		Model { honest: vec![0; self.u.segs.len()], dup_used: false, taint: None, bmp_applied: 0, obs: rx.obs(self.u) }
	}
	fn key(&self, m: &Model) -> u64 {
		hash64(m)
	}
	fn case(&self, path: &[Ev], last: &Ev) -> Value {
		let mut evs: Vec<String> = path.iter().map(|e| e.show()).collect();
		evs.push(last.show());
		json!({
			"level": "e2e", "variant": self.u.variant.name, "heights": [self.u.variant.heights.0, self.u.variant.heights.1, self.u.variant.heights.2, self.u.variant.heights.3],
			"segments": self.u.segs.iter().map(|s| s.name()).collect::<Vec<_>>(),
			"events": evs,
		})
	}

	/// Execute one event on the real receiver and update the abstract state. No verdicts here.
	fn step(&self, rx: &Rx, m: &Model, ev: &Ev) -> (Model, StepOut) {
		let mut n = m.clone();
		match ev {
			Ev::Arr(i) | Ev::Dup(i) => {
				let r = rx.arrive(&self.u.segs[*i].body);
				if let Ev::Dup(_) = ev {
					n.dup_used = true;
				}
				if r.is_ok() {
					n.honest[*i] = if self.seg_applied(*i, m) { 2 } else { n.honest[*i].max(1) };
				}
				n.obs = rx.obs(self.u);
				(n, StepOut { ok: r.is_ok(), result: format!("{:?}", r), tick: None })
			}
			Ev::Bad(i, c) => {
				let body = self.bads.iter().find(|b| b.0 == *i && b.1 == *c).map(|b| b.2.clone()).unwrap_or_else(|| corrupt_body(&self.u.segs[*i].body, c));
				let r = match &body {
					None => Err("undecodable".to_string()),
					Some(b) => rx.arrive(b),
				};
				if r.is_ok() {
					let placed = m.honest[*i] == 0 || self.seg_applied(*i, m);
					n.taint = Some((*i, c.clone(), placed));
				}
				n.obs = rx.obs(self.u);
				(n, StepOut { ok: r.is_ok(), result: format!("{:?}", r), tick: None })
			}
			Ev::Tick => {
				let nb = self.u.counts[0];
				if !m.obs.bitmap_final && m.bmp_applied < nb {
					let next = self.u.segs.iter().position(|s| s.tree == 0 && s.idx as usize == m.bmp_applied).unwrap();
					let present = m.honest[next] >= 1 || matches!(&m.taint, Some((t, _, true)) if *t == next);
					if present {
						n.bmp_applied += 1;
					}
				}
				let o = rx.tick(&|c| self.final_memo.borrow().contains_key(&c));
				n.obs = rx.obs(self.u);
				let mut summary = TickSummary { apply_err: o.apply.clone().err().or(o.progress.clone().err()), finish: o.finish.clone(), wanted: o.wanted.clone(), fp: None, fresh: false, content: o.content };
				if let Some(c) = o.content {
					match &o.finish {
						Some(f) => {
							let fp = state_fp(&rx.chain, &self.u.archive, &self.u.commits, f.is_ok());
							self.final_memo.borrow_mut().insert(c, FinalRec { result: f.clone(), fp: fp.clone() });
							summary.fp = Some(fp);
							summary.fresh = true;
						}
						None => {
							let rec = self.final_memo.borrow().get(&c).cloned().expect("known content");
							summary.finish = Some(rec.result);
							summary.fp = Some(rec.fp);
						}
					}
				}
				let res = format!("apply {:?} progress {:?} finish {:?}", o.apply, o.progress, summary.finish);
				(n, StepOut { ok: o.apply.is_ok(), result: res, tick: Some(summary) })
			}
		}
	}

	fn replay(&mut self, path: &[Ev]) -> (Rx, Model) {
		self.replays += 1;
		let rx = Rx::open(self.sc, self.u);
		let mut m = self.initial(&rx);
		for e in path {
			let (n, _) = self.step(&rx, &m, e);
			m = n;
		}
		(rx, m)
	}

	fn enabled(&self, m: &Model) -> Vec<Ev> {
		let mut v = vec![];
		for i in 0..self.u.segs.len() {
			if m.honest[i] == 0 {
				v.push(Ev::Arr(i));
			}
		}
		match &self.mode {
			Mode::Dup(Some(i)) => {
				if !m.dup_used && m.honest[*i] >= 1 {
					v.push(Ev::Dup(*i));
				}
			}
			_ => {}
		}
		v.push(Ev::Tick);
		v
	}

	/// Verdicts for one executed event. Returns true when the successor is terminal.
	fn judge(&mut self, path: &[Ev], ev: &Ev, m: &Model, n: &Model, out: &StepOut, rx: &Rx) -> bool {
		let tainted = n.taint.is_some();
		let u = self.u;
		let tname = move |i: usize| ["bitmap", "output", "rproof", "kernel"][u.segs[i].tree as usize];
		match ev {
			Ev::Arr(i) | Ev::Dup(i) => {
				let dup = matches!(ev, Ev::Dup(_));
				let when = if m.obs.bitmap_final { "bitmap-final" } else { "bitmap-pending" };
				self.rep.outcome(&format!("{}:{}:{}:{}", if dup { "duplicate" } else { "arrival" }, tname(*i), when, if out.ok { "accepted" } else { "refused" }));
				if !out.ok && !tainted {
					// the only sanctioned refusal: output / rangeproof data before the bitmap is complete
					let tree = self.u.segs[*i].tree;
					if tree == 0 || tree == 3 || m.obs.bitmap_final {
						self.rep.violation(
							format!("e2e:honest-segment-refused:{}:{}", tname(*i), when),
							format!("variant {}: honest {} segment {} was refused ({}) after [{}]", self.u.variant.name, tname(*i), self.u.segs[*i].idx, out.result, path.iter().map(|e| e.show()).collect::<Vec<_>>().join(" ")),
							self.case(path, ev),
						);
					}
				}
				false
			}
			Ev::Bad(i, c) => {
				self.rep.outcome(&format!("corrupted:{}:{}:{}", tname(*i), corr_class(c), if out.ok { "accepted-by-validation" } else { "refused" }));
				false
			}
			Ev::Tick => {
				let t = out.tick.as_ref().unwrap();
				// mirror cross-check
				let nb = self.u.counts[0];
				if (n.obs.bitmap_final && n.bmp_applied < nb) || (!m.obs.bitmap_final && m.bmp_applied == nb && !n.obs.bitmap_final && t.apply_err.is_none()) {
					self.rep.violation("e2e:harness-mirror-drift", format!("the harness's count of applied bitmap segments ({} of {}) disagrees with the receiver (bitmap final: {})", n.bmp_applied, nb, n.obs.bitmap_final), self.case(path, ev));
				}
				if let Some(e) = &t.apply_err {
					self.rep.outcome(if tainted { "tick:tainted:apply-error" } else { "tick:APPLY-ERROR" });
					if !tainted {
						self.rep.violation(
							"e2e:honest-apply-error",
							format!("variant {}: apply_next_segments/check_progress failed with honest segments only: {} after [{}]", self.u.variant.name, e, path.iter().map(|e| e.show()).collect::<Vec<_>>().join(" ")),
							self.case(path, ev),
						);
					} else {
						self.recovery(path, ev, rx);
					}
					return true;
				}
				if let Some(f) = &t.finish {
					let fp = t.fp.clone().expect("fingerprint with the final verdict");
					let finalised = fp.head == self.u.twin.head;
					match (f, finalised) {
						(Ok(()), true) if fp == self.u.twin => {
							self.rep.outcome(if tainted { "final:tainted:finalised-correct-state" } else { "final:equals-twin" });
							if self.rep.samples.len() < 2 && !self.quiet {
								let mut evs: Vec<String> = path.iter().map(|e| e.show()).collect();
								evs.push(ev.show());
								self.rep.sample(json!({"variant": self.u.variant.name, "order": evs, "final": {"head": fp.head, "roots": fp.roots, "validate": fp.validate}}));
							}
						}
						(Ok(()), _) => {
							self.rep.outcome("final:DIFFERS-FROM-TWIN");
							let diff = format!("receiver {:?} vs twin {:?}", fp, self.u.twin);
							self.rep.violation(
								if tainted { format!("e2e:finalised-wrong-state:{}", corr_class(&n.taint.as_ref().unwrap().1)) } else { "e2e:final-state-differs".to_string() },
								format!("variant {}: validate_complete_state passed but the state differs from the twin that processed every block: {}", self.u.variant.name, diff.chars().take(900).collect::<String>()),
								self.case(path, ev),
							);
						}
						(Err(e), fin) => {
							if fin {
								self.rep.violation("e2e:failed-but-head-moved", format!("variant {}: finishing sequence failed ({}) but the head is at the archive header", self.u.variant.name, e), self.case(path, ev));
							}
							if tainted {
								self.rep.outcome("final:tainted:refused-by-final-validation");
								if t.fresh {
									self.recovery(path, ev, rx);
								}
							} else {
								self.rep.outcome("final:HONEST-REFUSED");
								self.rep.violation(
									"e2e:honest-final-validation-failed",
									format!("variant {}: all honest segments applied but the finishing sequence failed: {} after [{}]", self.u.variant.name, e, path.iter().map(|e| e.show()).collect::<Vec<_>>().join(" ")),
									self.case(path, ev),
								);
							}
						}
					}
					return true;
				}
				// the planner is only observed
				for w in &t.wanted {
					let st = self.u.segs.iter().position(|s| s.tree == w.0 && s.idx == w.2).map(|i| if self.seg_applied(i, n) { "already-applied" } else if n.honest[i] >= 1 { "already-cached" } else { "missing" }).unwrap_or("nonexistent");
					let hgt = [self.u.variant.heights.0, self.u.variant.heights.1, self.u.variant.heights.2, self.u.variant.heights.3][w.0 as usize];
					self.rep.outcome(&format!("planner:asks-for:{}{}", st, if w.1 != hgt { ":other-height" } else { "" }));
				}
				let mut missing_next: Vec<usize> = vec![];
				for tr in 0..4u8 {
					let first_unapplied = (0..self.u.segs.len()).find(|i| self.u.segs[*i].tree == tr && !self.seg_applied(*i, n));
					if let Some(i) = first_unapplied {
						if n.honest[i] == 0 && (tr == 0) != n.obs.bitmap_final {
							missing_next.push(i);
						}
					}
				}
				for i in missing_next {
					let asked = t.wanted.iter().any(|w| w.0 == self.u.segs[i].tree && w.2 == self.u.segs[i].idx);
					self.rep.outcome(&format!("planner:next-missing-{}:{}", tname(i), if asked { "requested" } else { "not-requested" }));
				}
				false
			}
		}
	}

	/// What the sync loop does after a failure (StateSync::check_run): reset everything, then
	/// the node must still be able to assemble the state from honest segments.
	fn recovery(&mut self, path: &[Ev], ev: &Ev, rx: &Rx) {
		{
			let mut g = rx.de.write();
			if let Some(d) = g.as_mut() {
				d.reset();
			}
		}
		let r1 = rx.chain.reset_pibd_head();
		let r2 = rx.chain.reset_chain_head_to_genesis();
		let r3 = rx.chain.reset_prune_lists();
		if r1.is_err() || r2.is_err() || r3.is_err() {
			self.rep.outcome("recovery:reset-failed");
			self.rep.violation("e2e:recovery:reset-failed", format!("reset after a failed PIBD attempt failed: {:?} {:?} {:?}", r1.err(), r2.err(), r3.err()), self.case(path, ev));
			return;
		}
		let mut fin = None;
		for _round in 0..(self.u.segs.len() + 6) {
			for s in &self.u.segs {
				let _ = rx.arrive(&s.body);
			}
			let o = rx.tick(&|_| false);
			if o.apply.is_err() {
				fin = Some(Err(format!("apply: {:?}", o.apply)));
				break;
			}
			if let Some(f) = o.finish {
				fin = Some(f);
				break;
			}
		}
		match fin {
			Some(Ok(())) => {
				let fp = state_fp(&rx.chain, &self.u.archive, &self.u.commits, true);
				if fp == self.u.twin {
					self.rep.outcome("recovery:after-reset:equals-twin");
				} else {
					self.rep.outcome("recovery:after-reset:DIFFERS");
					self.rep.violation("e2e:recovery:final-state-differs", format!("after the sync loop's reset, honest segments finalise a state that differs from the twin: {:?}", fp).chars().take(900).collect::<String>(), self.case(path, ev));
				}
			}
			other => {
				self.rep.outcome("recovery:after-reset:STUCK");
				self.rep.violation("e2e:recovery:cannot-complete", format!("after the sync loop's reset (desegmenter.reset, reset_pibd_head, reset_chain_head_to_genesis, reset_prune_lists) honest segments no longer complete: {:?}", other), self.case(path, ev));
			}
		}
	}

	fn dfs(&mut self, path: &mut Vec<Ev>, m: Model, mut live: Option<Rx>) {
		if self.rep.states >= self.max_states {
			self.rep.capped = Some(format!("state cap {}", self.max_states));
			if let Some(rx) = live {
				rx.close();
			}
			return;
		}
		let mut progress_possible = false;
		// corrupted copies offered at this state (refused ones leave the receiver untouched)
		if matches!(self.mode, Mode::Probe) && m.taint.is_none() {
			for k in 0..self.bads.len() {
				let (i, c) = (self.bads[k].0, self.bads[k].1.clone());
				let rx = match live.take() {
					Some(r) => r,
					None => self.replay(path).0,
				};
				let bev = Ev::Bad(i, c.clone());
				// ask a clone of the desegmenter first: most copies are refused (or accepted but not
				// followed up) and the receiver stays usable for the next one
				let verdict = match &self.bads[k].2 {
					None => Err("undecodable".to_string()),
					Some(b) => rx.would_accept(b),
				};
				self.rep.transitions += 1;
				self.rep.evaluations += 1;
				let tname = ["bitmap", "output", "rproof", "kernel"][self.u.segs[i].tree as usize];
				if verdict.is_err() {
					self.rep.outcome(&format!("corrupted:{}:{}:refused", tname, corr_class(&c)));
					live = Some(rx);
					continue;
				}
				let cl = (self.u.segs[i].tree, corr_class(&c));
				let known = self.accepted_bad.contains_key(&(i, c.clone()));
				if !known {
					let cnt = self.followed_per_class.entry(cl).or_insert(0);
					if self.follow_limit > 0 && *cnt >= self.follow_limit {
						self.rep.outcome(&format!("corrupted:{}:{}:accepted-by-validation", tname, corr_class(&c)));
						self.rep.outcome("corrupted:accepted-by-validation:continuations-not-explored(follow-up-limit)");
						live = Some(rx);
						continue;
					}
					*cnt += 1;
					self.accepted_bad.insert((i, c.clone()), path.clone());
				}
				let (n, out) = self.step(&rx, &m, &bev);
				self.judge(path, &bev, &m, &n, &out, &rx);
				if !out.ok {
					self.rep.violation("e2e:clone-verdict-differs", format!("a clone of the desegmenter accepted {} but the desegmenter refused it: {}", bev.show(), out.result), self.case(path, &bev));
					live = Some(rx);
					continue;
				}
				// validation let it through: every continuation of this tainted history
				let kk = self.key(&n);
				if !self.memo.insert(kk) {
					rx.close();
					continue;
				}
				self.rep.states += 1;
				self.rep.state_keys.insert(hash64(&(self.u.variant.name, self.u.variant.heights, &n)));
				path.push(bev);
				self.dfs(path, n, Some(rx));
				path.pop();
			}
		}
		for ev in self.enabled(&m) {
			let rx = match live.take() {
				Some(rx) => rx,
				None => {
					let (rx, m2) = self.replay(path);
					if m2 != m {
						self.rep.violation("e2e:replay-diverged", format!("replaying [{}] gave a different abstract state", path.iter().map(|e| e.show()).collect::<Vec<_>>().join(" ")), self.case(path, &ev));
					}
					rx
				}
			};
			self.exec(path, &m, &ev, rx, &mut live, &mut progress_possible);
		}
		if !progress_possible {
			// nothing the network or the sync loop can do changes anything any more
			self.rep.outcome(if m.taint.is_some() { "stuck:tainted" } else { "stuck:HONEST" });
			if m.taint.is_none() {
				self.rep.violation(
					"e2e:deadlock",
					format!("variant {}: after [{}] every honest arrival is refused or ignored and the sync loop makes no progress, but the state is not complete", self.u.variant.name, path.iter().map(|e| e.show()).collect::<Vec<_>>().join(" ")),
					{
						let mut c = self.case(path, &Ev::Tick);
						c["check"] = json!("deadlock");
						c
					},
				);
			}
		}
		if let Some(rx) = live {
			rx.close();
		}
	}

	fn exec(&mut self, path: &mut Vec<Ev>, m: &Model, ev: &Ev, rx: Rx, live: &mut Option<Rx>, progress: &mut bool) {
		let (n, out) = self.step(&rx, m, ev);
		self.rep.transitions += 1;
		self.rep.evaluations += 1;
		if m.taint.is_none() {
			self.honest_transitions += 1;
		}
		let terminal = self.judge(path, ev, m, &n, &out, &rx);
		if terminal {
			*progress = true;
			rx.close();
			return;
		}
		if n == *m {
			// refused arrival / idle iteration: the receiver is where it was
			*live = Some(rx);
			return;
		}
		*progress = true;
		let k = self.key(&n);
		if !self.memo.insert(k) {
			rx.close();
			return;
		}
		self.rep.states += 1;
		self.rep.state_keys.insert(hash64(&(self.u.variant.name, self.u.variant.heights, &n)));
		path.push(ev.clone());
		self.dfs(path, n, Some(rx));
		path.pop();
	}

	fn run(&mut self) {
		let rx = Rx::open(self.sc, self.u);
		let m = self.initial(&rx);
		self.memo.insert(self.key(&m));
		self.rep.states += 1;
		self.rep.state_keys.insert(hash64(&(self.u.variant.name, self.u.variant.heights, &m)));
		let mut path = vec![];
		self.dfs(&mut path, m, Some(rx));
	}
}

fn all_bads(u: &Uni, reduced: bool) -> Vec<(usize, String, Option<SegBody>)> {
	let mut v = vec![];
	for (i, s) in u.segs.iter().enumerate() {
		let all = body_corrs(&s.body);
		let mut by_class: BTreeMap<String, Vec<String>> = BTreeMap::new();
		for c in all {
			by_class.entry(corr_class(&c)).or_default().push(c);
		}
		for (_, list) in by_class {
			let n = list.len();
			// quick tier: four instances of every corruption class spread over the segment
			let pick: BTreeSet<usize> = if reduced { [0, n / 3, 2 * n / 3, n - 1].into_iter().collect() } else { (0..n).collect() };
			for k in pick {
				let c = list[k].clone();
				let b = corrupt_body(&s.body, &c);
				v.push((i, c, b));
			}
		}
	}
	v
}

/// One work item of the end-to-end part.
#[derive(Clone, Debug)]
struct Item {
	variant: usize,
	what: ItemKind,
}
#[derive(Clone, Debug)]
enum ItemKind {
	Dup(Option<usize>),
	/// probe exploration + follow-up of accepted corrupted copies, slice k of n
	Probe(usize, usize),
	/// fixed delivery orders + state archive (for variants too large for the DFS in this tier)
	Linear,
}

// =====================================================================================
// End to end: work items, fixed orders, state archive
// =====================================================================================

fn variant_counts(v: &Variant, heights: (u8, u8, u8, u8)) -> [usize; 4] {
	let archive_h = ((v.head - 20) / 10 * 10) as u64;
	let mut n_out = 1 + archive_h;
	let mut n_ker = 1 + archive_h;
	for s in &v.spends {
		if s.height() as u64 <= archive_h {
			n_ker += 1;
			n_out += match s {
				Spend::Cb { outs, .. } => *outs as u64,
				Spend::Plain { .. } | Spend::Genesis { .. } => 1,
			};
		}
	}
	let n_bmp = (n_out + 1023) / 1024;
	[seg_count(n_bmp, heights.0) as usize, seg_count(n_out, heights.1) as usize, seg_count(n_out, heights.2) as usize, seg_count(n_ker, heights.3) as usize]
}

fn e2e_items(tier: Tier) -> Vec<Item> {
	let mut items = vec![];
	for (vi, v) in variants(tier).iter().enumerate() {
		if v.plan == Plan::Fixed {
			items.push(Item { variant: vi, what: ItemKind::Linear });
			continue;
		}
		let total: usize = variant_counts(v, v.heights).iter().sum();
		items.push(Item { variant: vi, what: ItemKind::Dup(None) });
		if v.plan == Plan::Orders {
			items.push(Item { variant: vi, what: ItemKind::Linear });
			continue;
		}
		for i in 0..total {
			items.push(Item { variant: vi, what: ItemKind::Dup(Some(i)) });
		}
		let k = tier.pick(3, 6);
		for j in 0..k {
			items.push(Item { variant: vi, what: ItemKind::Probe(j, k) });
		}
		items.push(Item { variant: vi, what: ItemKind::Linear });
	}
	items
}

/// Deliver in a fixed order; refused segments are offered again after every iteration of the
/// sync loop. Verdicts by the same `judge` as the exploration.
fn linear(ex: &mut Ex<'_>, name: &str, order: &[usize], tick_after_each: bool) {
	let rx = Rx::open(ex.sc, ex.u);
	let mut m = ex.initial(&rx);
	let mut path: Vec<Ev> = vec![];
	let mut done = false;
	let do_ev = |ex: &mut Ex<'_>, m: &mut Model, path: &mut Vec<Ev>, ev: Ev| -> bool {
		let (n, out) = ex.step(&rx, m, &ev);
		ex.rep.transitions += 1;
		ex.rep.evaluations += 1;
		let term = ex.judge(path, &ev, m, &n, &out, &rx);
		path.push(ev);
		*m = n;
		term
	};
	'outer: for round in 0..(order.len() + 8) {
		let mut any = false;
		for i in order {
			if m.honest[*i] == 0 {
				any = true;
				if do_ev(ex, &mut m, &mut path, Ev::Arr(*i)) {
					done = true;
					break 'outer;
				}
				if tick_after_each && do_ev(ex, &mut m, &mut path, Ev::Tick) {
					done = true;
					break 'outer;
				}
			}
		}
		if do_ev(ex, &mut m, &mut path, Ev::Tick) {
			done = true;
			break;
		}
		if !any && round > order.len() + 4 {
			break;
		}
	}
	ex.rep.outcome(&format!("fixed-order:{}:{}", name, if done { "completed" } else { "NOT-COMPLETED" }));
	if !done {
		let mut c = ex.case(&path, &Ev::Tick);
		c["check"] = json!("completes");
		ex.rep.violation(format!("e2e:fixed-order-not-completed:{}", name), format!("variant {}: delivering every honest segment in order '{}' with retries never completes", ex.u.variant.name, name), c);
	}
	rx.close();
}

fn run_linear(ex: &mut Ex<'_>) {
	let n = ex.u.segs.len();
	let fwd: Vec<usize> = (0..n).collect();
	let rev: Vec<usize> = (0..n).rev().collect();
	// round robin over the trees
	let mut rr = vec![];
	let per: Vec<Vec<usize>> = (0..4u8).map(|t| (0..n).filter(|i| ex.u.segs[*i].tree == t).collect()).collect();
	for k in 0..n {
		for t in [3usize, 2, 1, 0] {
			if let Some(i) = per[t].get(k) {
				rr.push(*i);
			}
		}
	}
	linear(ex, "in-order/tick-after-each", &fwd, true);
	linear(ex, "in-order/all-then-ticks", &fwd, false);
	linear(ex, "reverse/tick-after-each", &rev, true);
	linear(ex, "reverse/all-then-ticks", &rev, false);
	linear(ex, "round-robin-kernels-first", &rr, true);
}

/// Deliver `segs` in order to a fresh receiver (refused ones again after every iteration of the
/// sync loop) and run the finishing sequence. Ok(receiver) when it completed.
fn sync_in_order(sc: &uni::Scratch, u: &Uni, segs: &[Seg]) -> Result<Rx, String> {
	let rx = Rx::open(sc, u);
	let mut pending: Vec<bool> = vec![true; segs.len()];
	for _round in 0..(segs.len() + 8) {
		for (i, s) in segs.iter().enumerate() {
			if pending[i] && rx.arrive(&s.body).is_ok() {
				pending[i] = false;
			}
		}
		let o = rx.tick(&|_| false);
		if let Err(e) = o.apply {
			rx.close();
			return Err(format!("apply_next_segments: {}", e));
		}
		match o.finish {
			Some(Ok(())) => return Ok(rx),
			Some(Err(e)) => {
				rx.close();
				return Err(e);
			}
			None => {}
		}
	}
	rx.close();
	Err("never completes".into())
}

/// A node that obtained its state through segments goes on processing blocks and then serves
/// the state itself (its MMRs hold pruned sub-trees it never saw the leaves of).
fn second_generation(sc: &uni::Scratch, u: &Uni, rep: &mut Report) {
	let case = |what: &str| json!({"level": "e2e-second-generation", "variant": u.variant.name, "heights": [u.variant.heights.0, u.variant.heights.1, u.variant.heights.2, u.variant.heights.3], "step": what});
	let r1 = match sync_in_order(sc, u, &u.segs) {
		Ok(r) => r,
		Err(e) => {
			rep.violation("e2e:second-generation:first-sync-failed", format!("variant {}: in-order sync failed: {}", u.variant.name, e), case("first sync"));
			return;
		}
	};
	rep.evaluations += 1;
	// the synced node validates the blocks after the archive header
	for b in u.blocks.iter().skip(u.archive.height as usize) {
		if let Err(e) = r1.chain.process_block(b.clone(), Options::NONE) {
			rep.outcome("second-generation:NEXT-BLOCK-REFUSED");
			rep.violation(
				"e2e:synced-node-refuses-next-block",
				format!("variant {}: a node that assembled its state from segments refuses the valid block at height {}: {:?}", u.variant.name, b.header.height, e),
				case(&format!("block {}", b.header.height)),
			);
			r1.close();
			return;
		}
	}
	rep.outcome("second-generation:processes-later-blocks");
	let served = cut_segments(&r1.chain, &u.archive, u.variant.heights);
	let (segs2, _, _) = match served {
		Ok(x) => x,
		Err(e) => {
			rep.outcome("second-generation:CANNOT-SERVE");
			rep.violation("e2e:second-generation:cannot-serve", format!("variant {}: a node synced from segments (then {} more blocks) cannot serve the archive state: {}", u.variant.name, u.blocks.len() as u64 - u.archive.height, e), case("serve"));
			r1.close();
			return;
		}
	};
	rep.evaluations += segs2.len() as u64;
	match sync_in_order(sc, u, &segs2) {
		Ok(r2) => {
			let fp = state_fp(&r2.chain, &u.archive, &u.commits, true);
			if fp == u.twin {
				rep.outcome("second-generation:third-node-equals-twin");
			} else {
				rep.outcome("second-generation:third-node-DIFFERS");
				rep.violation("e2e:second-generation:final-state-differs", format!("variant {}: state assembled from a second-generation source differs from the twin: {:?}", u.variant.name, fp).chars().take(900).collect::<String>(), case("second sync"));
			}
			r2.close();
		}
		Err(e) => {
			rep.outcome("second-generation:third-node-FAILED");
			rep.violation("e2e:second-generation:sync-failed", format!("variant {}: segments served by a node that itself synced from segments do not assemble: {}", u.variant.name, e), case("second sync"));
		}
	}
	// and its state archive
	match r1.chain.txhashset_read(u.archive.hash()) {
		Ok((_, _, f)) => {
			let rx = Rx::open_with(sc, u, false);
			let res = std::panic::catch_unwind(std::panic::AssertUnwindSafe(|| rx.chain.txhashset_write(u.archive.hash(), f, &NoStatus)));
			let fp = state_fp(&rx.chain, &u.archive, &u.commits, matches!(res, Ok(Ok(false))));
			if matches!(res, Ok(Ok(false))) && fp == u.twin {
				rep.outcome("second-generation:archive-equals-twin");
			} else {
				rep.outcome("second-generation:archive-FAILED");
				rep.violation("e2e:second-generation:archive-differs", format!("variant {}: the state archive of a node synced from segments gives {:?} and {:?}", u.variant.name, res.map(|r| r.map_err(|e| format!("{:?}", e))).map_err(|_| "PANIC"), fp).chars().take(900).collect::<String>(), case("archive"));
			}
			rx.close();
		}
		Err(e) => {
			rep.outcome("second-generation:archive-FAILED");
			rep.violation("e2e:second-generation:archive-read-failed", format!("variant {}: txhashset_read on a node synced from segments: {:?}", u.variant.name, e), case("archive"));
		}
	}
	r1.close();
}

/// The archive header moves on while a node is assembling its state (or the node is restarted in the middle): the
/// node makes a new desegmenter for the new header on top of what it already holds and asks only for what is
/// missing. Phase 1: segments of the state at an earlier archive header (the source when its head was 10 blocks
/// lower) - bitmap, outputs and range proofs, never the kernels. Phase 2: the segments of the universe's archive
/// header in order. Outputs that were unspent at the first header and are spent at the second stay in the
/// receiver's MMR; only the final pass over the bitmap can take them out of the unspent set.
fn rollover(sc: &uni::Scratch, u: &Uni, rep: &mut Report) {
	let case = |what: &str| json!({"level": "e2e-rollover", "variant": u.variant.name, "heights": [u.variant.heights.0, u.variant.heights.1, u.variant.heights.2, u.variant.heights.3], "step": what});
	for lower in [10usize, 0usize] {
		// lower = 0: the same archive header again (a restart in the middle of the sync)
		let n1 = u.blocks.len() - lower;
		let dir1 = sc.fresh("src1");
		let (segs1, a1) = {
			let src1 = uni::open_chain(&dir1, &u.gen);
			for b in u.blocks.iter().take(n1) {
				src1.process_block(b.clone(), Options::NONE).expect("earlier source");
			}
			let a1 = src1.txhashset_archive_header().expect("archive header");
			if lower > 0 && a1.height >= u.archive.height {
				let _ = std::fs::remove_dir_all(&dir1);
				continue;
			}
			match cut_segments(&src1, &a1, u.variant.heights) {
				Ok((s, _, _)) => (s, a1),
				Err(e) => {
					rep.violation("e2e:rollover:earlier-source-cannot-serve", format!("variant {}: the source at head {} cannot serve its archive state: {}", u.variant.name, n1, e), case("phase 1 source"));
					let _ = std::fs::remove_dir_all(&dir1);
					continue;
				}
			}
		};
		let _ = std::fs::remove_dir_all(&dir1);
		let name = if lower > 0 { format!("from-{}-to-{}", a1.height, u.archive.height) } else { "restart".to_string() };
		for keep_trees in [vec![0u8, 1, 2], vec![0u8, 1]] {
			let mut rx = Rx::open_with(sc, u, false);
			rx.de = rx.chain.desegmenter(&a1).expect("desegmenter");
			let mut failed = None;
			for _round in 0..(segs1.len() + 4) {
				for s in segs1.iter().filter(|s| keep_trees.contains(&s.tree)) {
					let _ = rx.arrive(&s.body);
				}
				let mut g = rx.de.write();
				if let Err(e) = g.as_mut().unwrap().apply_next_segments() {
					failed = Some(format!("{:?}", e));
					break;
				}
			}
			if let Some(e) = failed {
				rep.violation("e2e:rollover:first-phase-failed", format!("variant {} {}: apply_next_segments on honest segments: {}", u.variant.name, name, e), case("phase 1"));
				rx.close();
				continue;
			}
			let held = rx.obs(u).sizes;
			// phase 2: a new desegmenter for the archive header of the universe
			rx.de = rx.chain.desegmenter(&u.archive).expect("desegmenter");
			rep.evaluations += 1;
			rep.transitions += (segs1.len() + u.segs.len()) as u64;
			let mut pending: Vec<bool> = vec![true; u.segs.len()];
			let mut result: Option<Result<(), String>> = None;
			for _round in 0..(u.segs.len() + 8) {
				for (i, s) in u.segs.iter().enumerate() {
					if pending[i] && rx.arrive(&s.body).is_ok() {
						pending[i] = false;
					}
				}
				let o = rx.tick(&|_| false);
				if let Err(e) = o.apply {
					result = Some(Err(format!("apply_next_segments: {}", e)));
					break;
				}
				if let Some(f) = o.finish {
					result = Some(f);
					break;
				}
			}
			let trees = if keep_trees.len() == 3 { "outputs+rangeproofs" } else { "outputs" };
			match result {
				Some(Ok(())) => {
					let fp = state_fp(&rx.chain, &u.archive, &u.commits, true);
					if fp == u.twin {
						rep.outcome(&format!("rollover:{}:{}:equals-twin", name, trees));
					} else {
						rep.violation(
							"e2e:rollover:final-state-differs",
							format!("variant {} {} (held {:?} of {} before): the state assembled on top of a partial earlier sync differs from the twin: {:?}", u.variant.name, name, held, trees, fp).chars().take(900).collect::<String>(),
							case("phase 2"),
						);
					}
				}
				Some(Err(e)) => rep.violation("e2e:rollover:honest-sync-failed", format!("variant {} {} (held {:?} of {} before): honest segments for the new archive header do not complete: {}", u.variant.name, name, held, trees, e), case("phase 2")),
				None => rep.violation("e2e:rollover:never-completes", format!("variant {} {} (held {:?} of {} before): the sync loop never completes on honest segments", u.variant.name, name, held, trees), case("phase 2")),
			}
			rx.close();
		}
	}
}

fn run_e2e(tier: Tier, shard: usize, nsh: usize) -> Report {
	uni::init_thread();
	let mut rep = Report::new();
	rep.violation_cap = 80;
	let sc = uni::Scratch::new("c16e2e");
	let items = e2e_items(tier);
	let vars = variants(tier);
	let mut cache: Option<((usize, (u8, u8, u8, u8)), Uni)> = None;
	let mut failed: HashSet<(usize, (u8, u8, u8, u8))> = HashSet::new();
	// contiguous chunks of roughly equal estimated cost: a worker mostly stays with one source chain
	// estimated seconds per item (measured: ~3 ms per state of the arrival-order graph, twice that
	// with a duplicate, ~0.5 s per state of the probe graph for all corrupted copies together)
	let graph = |v: &Variant, h: (u8, u8, u8, u8)| -> f64 {
		let c = variant_counts(v, h);
		let per = |n: usize| ((1u64 << (n + 1)) - 1) as f64;
		(c[0] as f64 + 2.0) * per(c[1]) * per(c[2]) * per(c[3])
	};
	let weight = |it: &Item| -> f64 {
		let v = &vars[it.variant];
		let big = v.head > 60;
		let build = if big { 7.0 } else { 2.0 } / 4.0;
		build + match it.what {
			ItemKind::Dup(None) => 0.003 * graph(v, v.heights),
			ItemKind::Dup(Some(_)) => 0.006 * graph(v, v.heights),
			ItemKind::Probe(_, k) => (if big { 1.0 } else { 0.5 }) * graph(v, v.probe_heights) / k as f64,
			ItemKind::Linear => if big { 4.0 } else { 1.0 },
		}
	};
	let total: f64 = items.iter().map(|i| weight(i)).sum();
	let mut cum = 0.0;
	for it in items.iter() {
		let w = weight(it);
		let mid = cum + w / 2.0;
		cum += w;
		if ((mid * nsh as f64 / total) as usize).min(nsh - 1) != shard {
			continue;
		}
		let v = &vars[it.variant];
		let heights = match it.what {
			ItemKind::Probe(..) => v.probe_heights,
			_ => v.heights,
		};
		let keyv = (it.variant, heights);
		if failed.contains(&keyv) {
			continue;
		}
		if cache.as_ref().map(|c| c.0 != keyv).unwrap_or(true) {
			if let Some((_, old)) = cache.take() {
				drop_uni(old);
			}
			let mut vv = v.clone();
			vv.heights = heights;
			let u = match build_uni_checked(&sc, &vv) {
				Ok(u) => u,
				Err(e) => {
					rep.outcome("source:CANNOT-SERVE");
					rep.violation(
						format!("e2e:source-cannot-serve:{}", e.split('(').next().unwrap_or("")),
						format!("variant {}: the source node's segmenter failed on a segment of its own archive state: {}", v.name, e),
						json!({"level": "e2e", "variant": v.name, "heights": [heights.0, heights.1, heights.2, heights.3], "events": []}),
					);
					failed.insert(keyv);
					continue;
				}
			};
			assert_eq!(u.counts, variant_counts(v, heights), "segment counts of {}", v.name);
			// regression: a desegmenter for an archive header with <= 1024 outputs must exist
			// (Desegmenter::new used to panic on the eager fallback for a single bitmap chunk)
			let opened = std::panic::catch_unwind(std::panic::AssertUnwindSafe(|| {
				let rx = Rx::open(&sc, &u);
				let ok = rx.de.read().is_some();
				rx.close();
				ok
			}));
			match opened {
				Ok(true) => rep.outcome(if leaves_of_size(u.archive.output_mmr_size) <= 1024 { "desegmenter-new:<=1024-outputs:ok" } else { "desegmenter-new:>1024-outputs:ok" }),
				other => {
					rep.outcome("desegmenter-new:PANIC");
					rep.violation(
						"e2e:desegmenter-new-panics",
						format!("variant {}: Chain::desegmenter for an archive header with {} outputs {}", v.name, leaves_of_size(u.archive.output_mmr_size), if other.is_err() { "panicked" } else { "returned no desegmenter" }),
						json!({"level": "e2e", "variant": v.name, "heights": [heights.0, heights.1, heights.2, heights.3], "events": []}),
					);
					failed.insert(keyv);
					drop_uni(u);
					continue;
				}
			}
			cache = Some((keyv, u));
		}
		let u = &cache.as_ref().unwrap().1;
		let t0 = std::time::Instant::now();
		match &it.what {
			ItemKind::Dup(d) => {
				let mut local = Report::new();
				let mut ex = Ex { u, sc: &sc, rep: &mut local, memo: HashSet::new(), mode: Mode::Dup(*d), bads: vec![], accepted_bad: BTreeMap::new(), follow_limit: 0, followed_per_class: HashMap::new(), honest_transitions: 0, final_memo: Default::default(), replays: 0, quiet: d.is_some(), max_states: tier.pick(60_000, 600_000) };
				ex.run();
				let replays = ex.replays;
				local.extra.insert("replays".into(), json!(replays));
				rep.merge(local);
			}
			ItemKind::Probe(j, kk) => {
				let mut local = Report::new();
				let all = all_bads(u, false);
				let nb = all.len();
				// this worker offers (and follows up) its slice of the corrupted copies
				let bads: Vec<(usize, String, Option<SegBody>)> = all.into_iter().enumerate().filter(|(x, _)| x % kk == *j).map(|(_, b)| b).collect();
				let mut ex = Ex { u, sc: &sc, rep: &mut local, memo: HashSet::new(), mode: Mode::Probe, bads, accepted_bad: BTreeMap::new(), follow_limit: if tier == Tier::Quick { 1 } else if v.head > 60 { 4 } else { 0 }, followed_per_class: HashMap::new(), honest_transitions: 0, final_memo: Default::default(), replays: 0, quiet: true, max_states: tier.pick(60_000, 600_000) };
				ex.run();
				let followed = ex.accepted_bad.len();
				let honest_tr = ex.honest_transitions;
				if std::env::var("C16_DEBUG").is_ok() {
					eprintln!("probe slice {}: bads {} followed {} replays {} states {} transitions {} honest_tr {}", j, ex.bads.len(), followed, ex.replays, ex.rep.states, ex.rep.transitions, honest_tr);
				}
				local.extra.insert("corrupted_copies_followed_up".into(), json!(followed));
				if *j == 0 {
					local.extra.insert("corrupted_copies_offered_per_state".into(), json!(nb));
				} else {
					// the untainted part of the graph is the same in every slice: count it once
					local.transitions -= honest_tr;
					local.evaluations -= honest_tr;
					local.outcomes.retain(|k, _| k.starts_with("final:tainted") || k.starts_with("tick:tainted") || k.starts_with("stuck:tainted") || k.starts_with("recovery") || k.starts_with("corrupted:"));
				}
				rep.merge(local);
			}
			ItemKind::Linear => {
				let mut local = Report::new();
				let mut ex = Ex { u, sc: &sc, rep: &mut local, memo: HashSet::new(), mode: Mode::Dup(None), bads: vec![], accepted_bad: BTreeMap::new(), follow_limit: 0, followed_per_class: HashMap::new(), honest_transitions: 0, final_memo: Default::default(), replays: 0, quiet: false, max_states: 0 };
				run_linear(&mut ex);
				second_generation(&sc, u, &mut local);
				rep.merge(local);
			}
		}
		if std::env::var("C16_DEBUG").is_ok() {
			eprintln!("shard {} item {:?} of {} took {:?}", shard, it.what, v.name, t0.elapsed());
		}
		let kind = match it.what {
			ItemKind::Dup(_) => "orders",
			ItemKind::Probe(..) => "corrupted",
			ItemKind::Linear => "fixed",
		};
		let key = format!("ms_{}_{}", kind, v.name);
		let prev = rep.extra.get(&key).and_then(|x| x.as_u64()).unwrap_or(0);
		rep.extra.insert(key, json!(prev + t0.elapsed().as_millis() as u64));
		let prev = rep.extra.get("max_worker_ms").and_then(|x| x.as_u64()).unwrap_or(0);
		rep.extra.insert("max_worker_ms".into(), json!(prev + t0.elapsed().as_millis() as u64));
	}
	if let Some((_, old)) = cache.take() {
		drop_uni(old);
	}
	rep
}

fn drop_uni(u: Uni) {
	let (a, b) = (u.src_dir.clone(), u.template.clone());
	drop(u);
	let _ = std::fs::remove_dir_all(a);
	let _ = std::fs::remove_dir_all(b);
}

// ---- the archive path: txhashset_read -> txhashset_write

const ARCHIVE_FILES: [&str; 8] = [
	"kernel/pmmr_data.bin",
	"kernel/pmmr_hash.bin",
	"output/pmmr_data.bin",
	"output/pmmr_hash.bin",
	"output/pmmr_prun.bin",
	"rangeproof/pmmr_data.bin",
	"rangeproof/pmmr_hash.bin",
	"rangeproof/pmmr_prun.bin",
];

fn archive_files(h: &BlockHeader) -> Vec<PathBuf> {
	let mut v: Vec<PathBuf> = ARCHIVE_FILES.iter().map(PathBuf::from).collect();
	v.push(PathBuf::from(format!("output/pmmr_leaf.bin.{}", h.hash())));
	v.push(PathBuf::from(format!("rangeproof/pmmr_leaf.bin.{}", h.hash())));
	v
}

struct NoStatus;
impl grin_chain::types::TxHashsetWriteStatus for NoStatus {
	fn on_setup(&self, _: Option<u64>, _: Option<u64>, _: Option<u64>, _: Option<u64>) {}
	fn on_validation_kernels(&self, _: u64, _: u64) {}
	fn on_validation_rproofs(&self, _: u64, _: u64) {}
	fn on_save(&self) {}
	fn on_done(&self) {}
}

/// One attempt: a fresh receiver is handed `zip`. Returns (result text, fingerprint after).
fn archive_attempt(sc: &uni::Scratch, u: &Uni, zip: &Path) -> (String, StateFp) {
	let rx = Rx::open_with(sc, u, false);
	let f = std::fs::File::open(zip).expect("open zip");
	let r = std::panic::catch_unwind(std::panic::AssertUnwindSafe(|| rx.chain.txhashset_write(u.archive.hash(), f, &NoStatus)));
	let res = match &r {
		Ok(Ok(b)) => format!("Ok({})", b),
		Ok(Err(e)) => format!("Err({:?})", e).chars().take(160).collect(),
		Err(_) => "PANIC".to_string(),
	};
	let full = matches!(r, Ok(Ok(false)));
	let fp = state_fp(&rx.chain, &u.archive, &u.commits, full);
	rx.close();
	(res, fp)
}

fn archive_case(u: &Uni, file: &str, what: &str) -> Value {
	json!({"level": "archive", "variant": u.variant.name, "file": file, "change": what})
}

/// parse "flip@123" / "truncate:32" / "empty" / "remove" / "append:32" and apply it to the bytes
fn archive_change(bytes: &[u8], what: &str) -> Option<Vec<u8>> {
	let mut b = bytes.to_vec();
	if let Some(off) = what.strip_prefix("flip@") {
		let off: usize = off.parse().ok()?;
		if off >= b.len() {
			return None;
		}
		b[off] ^= 0x04;
		Some(b)
	} else if let Some(k) = what.strip_prefix("truncate:") {
		let k: usize = k.parse().ok()?;
		if k > b.len() || k == 0 {
			return None;
		}
		b.truncate(b.len() - k);
		Some(b)
	} else if let Some(k) = what.strip_prefix("append:") {
		let k: usize = k.parse().ok()?;
		b.extend(std::iter::repeat(0x3c).take(k));
		Some(b)
	} else if what == "empty" {
		Some(vec![])
	} else {
		None
	}
}

fn run_archive(tier: Tier, shard: usize, nsh: usize, only: Option<(String, String, String)>) -> (Report, Option<String>) {
	uni::init_thread();
	let mut rep = Report::new();
	rep.violation_cap = 80;
	let sc = uni::Scratch::new("c16arch");
	let mut replay_obs = None;
	let vars: Vec<Variant> = variants(tier).into_iter().filter(|v| v.archive).collect();
	// work = (variant, file) pairs; the honest archive of a variant is checked by the worker that owns its first file
	let nfiles = 10usize;
	let mut cur: Option<(usize, Uni, PathBuf, PathBuf)> = None;
	for (vi, v) in vars.iter().enumerate() {
		for fi in 0..nfiles {
			let k = vi * nfiles + fi;
			if let Some((ov, _, _)) = &only {
				if *ov != v.name {
					continue;
				}
			} else if k * nsh / (vars.len() * nfiles) != shard {
				// contiguous chunks: a worker stays with one source chain as long as possible
				continue;
			}
			if cur.as_ref().map(|c| c.0 != vi).unwrap_or(true) {
				if let Some((_, old, _, _)) = cur.take() {
					drop_uni(old);
				}
				let u = match build_uni_checked(&sc, v) {
					Ok(u) => u,
					Err(e) => {
						rep.violation(
							format!("e2e:source-cannot-serve:{}", e.split('(').next().unwrap_or("")),
							format!("variant {}: the source node's segmenter failed on a segment of its own archive state: {}", v.name, e),
							json!({"level": "e2e", "variant": v.name, "heights": [v.heights.0, v.heights.1, v.heights.2, v.heights.3], "events": []}),
						);
						break;
					}
				};
				// the source packs its state at the archive header
				let (_, _, f) = u.src.txhashset_read(u.archive.hash()).expect("txhashset_read");
				let good = sc.fresh("good.zip");
				{
					use std::io::{Read, Seek, SeekFrom, Write};
					let mut f = f;
					f.seek(SeekFrom::Start(0)).unwrap();
					let mut b = vec![];
					f.read_to_end(&mut b).unwrap();
					std::fs::File::create(&good).unwrap().write_all(&b).unwrap();
				}
				let ex = sc.fresh("unz");
				std::fs::create_dir_all(&ex).unwrap();
				grin_util::zip::extract_files(std::fs::File::open(&good).unwrap(), &ex, archive_files(&u.archive)).expect("extract honest archive");
				cur = Some((vi, u, good, ex));
			}
			let (_, u, good, unz) = cur.as_ref().unwrap();
			let files = archive_files(&u.archive);
			let file = files[fi].clone();
			let fname = file.to_string_lossy().to_string();
			let fclass = fname.split('.').next().unwrap_or("").replace("/pmmr_", ":").to_string();
			if let Some((_, of, _)) = &only {
				if !fname.starts_with(of.as_str()) {
					continue;
				}
			}
			if fi == 0 && only.as_ref().map(|o| o.2 == "honest").unwrap_or(true) {
				let (res, fp) = archive_attempt(&sc, u, good);
				rep.evaluations += 1;
				rep.distinct += 1;
				if res == "Ok(false)" && fp == u.twin {
					rep.outcome("archive:honest:equals-twin");
					rep.sample(json!({"variant": u.variant.name, "archive": "txhashset_read -> txhashset_write", "final": {"head": fp.head, "roots": fp.roots, "validate": fp.validate}}));
				} else {
					rep.outcome("archive:honest:FAILED");
					rep.violation(
						"archive:honest-differs",
						format!("variant {}: txhashset_write of the source's own archive returned {} and the receiver is {:?}, twin {:?}", u.variant.name, res, fp, u.twin).chars().take(1000).collect::<String>(),
						archive_case(u, "", "honest"),
					);
					replay_obs = Some(Err(format!("honest archive: {}", res)));
				}
			}
			let p = unz.join(&file);
			let bytes = match std::fs::read(&p) {
				Ok(b) => b,
				Err(_) => {
					rep.outcome(&format!("archive:{}:absent-in-honest-archive", fclass));
					continue;
				}
			};
			// changed bytes spread over the file: one per record (hash files: 32 bytes; data files:
			// 29 bytes; index files: 1 byte) while that stays below the per-file budget of the tier,
			// a different byte of each record; plus truncations / extension / emptying
			let record = if fname.contains("pmmr_hash") {
				32
			} else if fname.contains("pmmr_data") {
				29
			} else {
				1
			};
			let big = v.head > 60;
			let budget = match (tier, big) {
				(Tier::Quick, false) => 4,
				(Tier::Quick, true) => 2,
				(Tier::Thorough, false) => 64,
				(Tier::Thorough, true) => 20,
			};
			let nrec = (bytes.len() + record - 1) / record;
			let nflip = nrec.min(budget);
			let mut changes: Vec<String> = vec![];
			for i in 0..nflip {
				let r0 = i * nrec / nflip;
				let off = (r0 * record + r0 % record).min(bytes.len() - 1);
				changes.push(format!("flip@{}", off));
			}
			changes.push("truncate:32".into());
			if !(tier == Tier::Quick && big) {
				changes.push("truncate:1".into());
				changes.push("append:32".into());
				changes.push("empty".into());
			}
			for ch in changes {
				if let Some((_, _, oc)) = &only {
					if *oc != ch {
						continue;
					}
				}
				let nb = match archive_change(&bytes, &ch) {
					Some(b) => b,
					None => continue,
				};
				std::fs::write(&p, &nb).unwrap();
				let bad = sc.fresh("bad.zip");
				let made = grin_util::zip::create_zip(&std::fs::File::create(&bad).unwrap(), unz, files.clone());
				std::fs::write(&p, &bytes).unwrap();
				if made.is_err() {
					continue;
				}
				let (res, fp) = archive_attempt(&sc, u, &bad);
				let _ = std::fs::remove_file(&bad);
				rep.evaluations += 1;
				rep.distinct += 1;
				let kind = ch.split(|c| c == '@' || c == ':').next().unwrap_or("").to_string();
				let finalised = fp.head == u.twin.head;
				let verdict = if res == "PANIC" {
					"PANIC"
				} else if finalised && fp == u.twin {
					"harmless:finalised-correct-state"
				} else if finalised {
					"FINALISED-WRONG-STATE"
				} else if res.starts_with("Ok") {
					"not-finalised"
				} else {
					"refused"
				};
				rep.outcome(&format!("archive:{}:{}:{}", fclass, kind, verdict));
				if only.is_some() {
					replay_obs = Some(if verdict == "PANIC" || verdict == "FINALISED-WRONG-STATE" { Err(format!("{} {} -> {} ({})", fname, ch, res, verdict)) } else { Ok(format!("{} {} -> {} ({})", fname, ch, res, verdict)) });
				}
				if verdict == "FINALISED-WRONG-STATE" {
					rep.violation(
						format!("archive:finalised-wrong-state:{}:{}", fclass, kind),
						format!("variant {}: archive with {} changed ({}) was accepted ({}) and the receiver now is {:?}, twin {:?}", u.variant.name, fname, ch, res, fp, u.twin).chars().take(1000).collect::<String>(),
						archive_case(u, &fname, &ch),
					);
				}
				if verdict == "PANIC" {
					rep.violation(
						format!("archive:panic:{}:{}", fclass, kind),
						format!("variant {}: txhashset_write panicked on an archive with {} changed ({})", u.variant.name, fname, ch),
						archive_case(u, &fname, &ch),
					);
				}
			}
		}
	}
	if let Some((_, old, _, _)) = cur.take() {
		drop_uni(old);
	}
	(rep, replay_obs.map(|r: Result<String, String>| match r {
		Ok(s) => s,
		Err(s) => format!("ERR:{}", s),
	}))
}

// =====================================================================================
// Bitmap accumulator segments (pure)
// =====================================================================================

/// Reference serialisation of the 1024-bit chunk `c` of a live set: bit i of the chunk is the
/// most significant free bit of byte i/8.
fn ref_chunk_bytes(live: &BTreeSet<u64>, c: u64) -> Vec<u8> {
	let mut b = vec![0u8; 128];
	for i in live.range(c * 1024..(c + 1) * 1024) {
		let k = (i - c * 1024) as usize;
		b[k / 8] |= 0x80 >> (k % 8);
	}
	b
}

fn bitmap_sets(tier: Tier) -> Vec<(String, u64, BTreeSet<u64>)> {
	let sizes: Vec<u64> = tier.pick(vec![1, 5, 1023, 1024, 1025, 2049, 3100], vec![1, 2, 5, 1023, 1024, 1025, 2047, 2048, 2049, 3100, 4096, 4097, 5200, 7000, 8192]);
	let mut out = vec![];
	for n in sizes {
		let all: BTreeSet<u64> = (0..n).collect();
		out.push((format!("{}:all-unspent", n), n, all.clone()));
		// the most recent output is always unspent at the archive header (coinbase maturity)
		out.push((format!("{}:only-last", n), n, [n - 1].into_iter().collect()));
		out.push((format!("{}:every-third", n), n, (0..n).filter(|i| i % 3 == 0 || *i == n - 1).collect()));
		if n > 1024 {
			// first chunk entirely spent
			out.push((format!("{}:first-chunk-spent", n), n, (1024..n).collect()));
			// a middle chunk entirely spent
			if n > 2048 {
				out.push((format!("{}:second-chunk-spent", n), n, (0..n).filter(|i| i / 1024 != 1).collect()));
			}
			// chunk boundaries
			out.push((format!("{}:boundaries", n), n, (0..n).filter(|i| i % 1024 == 0 || i % 1024 == 1023 || *i == n - 1).collect()));
		}
	}
	out
}

fn bitmap_case(name: &str, h: u8, idx: u64, corr: &str) -> Value {
	json!({"level": "bitmap", "set": name, "height": h, "idx": idx, "corruption": corr})
}

fn bitmap_one(rep: &mut Report, name: &str, n: u64, live: &BTreeSet<u64>, only: Option<(u8, u64, String)>) -> Result<String, String> {
	use grin_chain::txhashset::{BitmapAccumulator, BitmapSegment};
	let mut err: Option<String> = None;
	let mut obs = String::new();
	let mut acc = BitmapAccumulator::new();
	acc.init(live.iter().cloned(), n).map_err(|e| format!("init: {:?}", e))?;
	let n_chunks = (n + 1023) / 1024;
	// reference forest over reference chunk bytes
	let mut f = Forest::new(true);
	for c in 0..n_chunks {
		f.push(&ref_chunk_bytes(live, c));
	}
	let size = f.size();
	let pm = acc.readonly_pmmr();
	rep.evaluations += 1;
	if pm.unpruned_size() != size || acc.root() != rh(&f.root()) {
		rep.violation("bitmap:root-differs-from-live-set", format!("live set {}: accumulator size {} root {:?} but the reference over the live set has size {} root {}", name, pm.unpruned_size(), acc.root(), size, hex(&f.root())), bitmap_case(name, 0, 0, ""));
		return Err("accumulator differs from reference".into());
	}
	rep.outcome("accumulator:root-equals-reference-live-set");
	// merged output root by definition: H(output_mmr_size | output_root | bitmap_root)
	let out_size = {
		let k = n;
		2 * k - k.count_ones() as u64
	};
	let out_root = Hash::from_vec(&[0x6b; 32]);
	let mut o = [0u8; 32];
	o.copy_from_slice(out_root.as_bytes());
	let merged = rh(&hash_pair(out_size, &o, &f.root()));
	for h in 0..=3u8 {
		let count = (n_chunks + (1 << h) - 1) >> h;
		let mut rebuilt = BitmapAccumulator::new();
		for idx in 0..=count {
			if let Some((oh, oi, _)) = &only {
				if *oh != h || *oi != idx {
					continue;
				}
			}
			let id = SegmentIdentifier { height: h, idx };
			let made = Segment::from_pmmr(id, &pm, false);
			rep.evaluations += 1;
			if idx == count {
				if made.is_ok() {
					rep.violation("bitmap:produced-beyond-end", format!("live set {}: bitmap segment ({},{}) beyond the end produced", name, h, idx), bitmap_case(name, h, idx, ""));
					err = Some("beyond end".into());
				} else {
					rep.outcome("from_pmmr:beyond-the-end:refused");
				}
				continue;
			}
			let seg = match made {
				Ok(s) => s,
				Err(e) => {
					rep.violation("bitmap:not-produced", format!("live set {}: bitmap segment ({},{}) not produced: {:?}", name, h, idx, e), bitmap_case(name, h, idx, ""));
					err = Some(format!("not produced {:?}", e));
					continue;
				}
			};
			rep.distinct += 1;
			let v = seg.validate_with(size, None, merged, out_size, out_root, true);
			rep.evaluations += 1;
			if v.is_err() {
				rep.outcome("honest:REJECTED");
				rep.violation("bitmap:honest-rejected", format!("live set {}: honest bitmap segment ({},{}) refused: {:?}", name, h, idx, v), bitmap_case(name, h, idx, ""));
				err = Some(format!("honest refused {:?}", v));
				continue;
			}
			rep.outcome("honest:accepted");
			// wire form
			let wire = ser::ser_vec(&BitmapSegment::from(seg.clone()), ProtocolVersion(1)).map_err(|e| format!("{:?}", e))?;
			let back: Result<BitmapSegment, _> = ser::deserialize(&mut &wire[..], ProtocolVersion(1), ser::DeserializationMode::default());
			match back.map(|b| b.into_segment()) {
				Ok(Ok(s2)) if s2 == seg => rep.outcome("wire:round-trip-equal"),
				other => {
					rep.outcome("wire:ROUND-TRIP-DIFFERS");
					rep.violation("bitmap:wire-round-trip", format!("live set {}: bitmap segment ({},{}) does not survive its wire form: {:?}", name, h, idx, other.map(|x| x.map(|_| "different segment"))), bitmap_case(name, h, idx, "wire"));
					err = Some("wire round trip".into());
				}
			}
			// the chunks are the reference live set
			let p = parts_of(&seg);
			for (k, ch) in p.leaf_data.iter().enumerate() {
				let c = idx * (1 << h) + k as u64;
				let got: BTreeSet<u64> = ch.set_iter((c * 1024) as usize).map(|x| x as u64).collect();
				let exp: BTreeSet<u64> = live.range(c * 1024..(c + 1) * 1024).cloned().collect();
				if got != exp {
					rep.violation("bitmap:chunk-differs-from-live-set", format!("live set {}: chunk {} of segment ({},{}) is not the live set", name, c, h, idx), bitmap_case(name, h, idx, ""));
					err = Some("chunk differs".into());
				}
				let _ = rebuilt.append_chunk(ch.clone());
			}
			// wrong inputs
			for (w, rejected) in [
				("output-root", seg.validate_with(size, None, merged, out_size, flip(&out_root), true).is_err()),
				("merge-side", seg.validate_with(size, None, merged, out_size, out_root, false).is_err()),
				("merge-index", seg.validate_with(size, None, merged, out_size + 1, out_root, true).is_err()),
				("merged-root", seg.validate_with(size, None, flip(&merged), out_size, out_root, true).is_err()),
			] {
				rep.evaluations += 1;
				if rejected {
					rep.outcome(&format!("input:{}:rejected", w));
				} else {
					rep.violation(format!("bitmap:wrong-{}-accepted", w), format!("live set {}: bitmap segment ({},{}) validates with a wrong {}", name, h, idx, w), bitmap_case(name, h, idx, w));
					err = Some(format!("wrong {} accepted", w));
				}
			}
			for c in all_corrs(&p) {
				let cname = c.show();
				if let Some((_, _, oc)) = &only {
					if !oc.is_empty() && *oc != cname {
						continue;
					}
				}
				let q = match apply_corr(&p, &c) {
					Some(q) => q,
					None => continue,
				};
				if q.leaf_data == p.leaf_data && q.leaf_pos == p.leaf_pos && q.proof == p.proof && q.id == p.id {
					continue; // e.g. two equal chunks swapped
				}
				let mut exp = match c {
					Corr::ProofExtend => Expect::Observe,
					_ => Expect::Reject,
				};
				if matches!(c, Corr::IdIdxPlus | Corr::IdIdxMinus | Corr::IdHeightPlus | Corr::IdHeightMinus) {
					if let Ok(o2) = Segment::from_pmmr(q.id, &pm, false) {
						let op = parts_of(&o2);
						if op.leaf_pos == q.leaf_pos && op.leaf_data == q.leaf_data && op.proof == q.proof {
							exp = Expect::Accept;
						}
					}
				}
				let rejected = match build(&q) {
					None => true,
					Some(s) => {
						rep.evaluations += 1;
						s.validate_with(size, None, merged, out_size, out_root, true).is_err()
					}
				};
				if only.is_some() {
					obs.push_str(&format!("{} -> {} (expected {:?}); ", cname, if rejected { "refused" } else { "accepted" }, exp));
				}
				match (exp, rejected) {
					(Expect::Reject, true) => rep.outcome(&format!("corrupt:{}:rejected", c.class())),
					(Expect::Reject, false) => {
						rep.outcome(&format!("corrupt:{}:ACCEPTED", c.class()));
						rep.violation(format!("bitmap:corruption-accepted:{}", c.class()), format!("live set {}: bitmap segment ({},{}) still validates after {}", name, h, idx, cname), bitmap_case(name, h, idx, &cname));
						err = Some(format!("{} accepted", cname));
					}
					(Expect::Accept, false) => rep.outcome(&format!("corrupt:{}:same-as-honest-segment:accepted", c.class())),
					(Expect::Accept, true) => {
						rep.violation(format!("bitmap:honest-alias-rejected:{}", c.class()), format!("live set {}: bitmap segment ({},{}) with {} equals the honest segment of that identifier but is refused", name, h, idx, cname), bitmap_case(name, h, idx, &cname));
						err = Some(format!("alias {} refused", cname));
					}
					(Expect::Observe, r) => rep.outcome(&format!("redundant:{}:{}", c.class(), if r { "rejected" } else { "accepted" })),
				}
			}
		}
		if only.is_none() {
			// reassembly in index order gives back the live set and the root
			let bm = rebuilt.as_bitmap().map_err(|e| format!("{:?}", e))?;
			let got: BTreeSet<u64> = bm.iter().map(|x| x as u64).collect();
			rep.evaluations += 1;
			if got != *live || rebuilt.root() != acc.root() {
				rep.outcome("reassembly:DIFFERS");
				rep.violation("bitmap:reassembly-differs", format!("live set {}: chunks of height-{} segments appended in order do not give back the live set / root", name, h), bitmap_case(name, h, 0, "reassembly"));
				err = Some("reassembly differs".into());
			} else {
				rep.outcome("reassembly:equals-live-set");
			}
		}
	}
	match err {
		Some(e) => Err(e),
		None => Ok(obs),
	}
}

fn run_bitmap(tier: Tier) -> Report {
	uni::init_thread();
	let mut rep = Report::new();
	let sets = bitmap_sets(tier);
	rep.extra.insert("live_sets".into(), json!(sets.len()));
	for (name, n, live) in &sets {
		let _ = bitmap_one(&mut rep, name, *n, live, None);
	}
	rep.sample(json!({"live_set": sets[sets.len() - 1].0, "chunks": (sets[sets.len() - 1].1 + 1023) / 1024}));
	rep
}

fn replay_bitmap(case: &Value) -> Result<String, String> {
	let name = case["set"].as_str().unwrap_or("");
	let (_, n, live) = bitmap_sets(Tier::Thorough).into_iter().find(|s| s.0 == name).ok_or("unknown live set")?;
	let mut rep = Report::new();
	let only = (case["height"].as_u64().unwrap_or(0) as u8, case["idx"].as_u64().unwrap_or(0), case["corruption"].as_str().unwrap_or("").to_string());
	let r = bitmap_one(&mut rep, name, n, &live, Some(only));
	match r {
		Ok(o) => Ok(o),
		Err(e) => Err(format!("{} :: {}", e, rep.violations.iter().map(|v| v.what.clone()).collect::<Vec<_>>().join(" | ")).chars().take(1200).collect()),
	}
}

// =====================================================================================
// Engine
// =====================================================================================

fn probe(args: &[String]) -> i32 {
	uni::init_thread();
	let sc = uni::Scratch::new("c16probe");
	let which = args.get(1).map(|s| s.as_str()).unwrap_or("no-spends");
	let t0 = std::time::Instant::now();
	let v = variants(Tier::Thorough).into_iter().find(|v| v.name == which).expect("variant");
	let u = build_uni(&sc, &v);
	eprintln!("built {} in {:?}: archive h{} out_size {} kern_size {} counts {:?}", v.name, t0.elapsed(), u.archive.height, u.archive.output_mmr_size, u.archive.kernel_mmr_size, u.counts);
	let mut rep = Report::new();
	let mut ex = Ex { u: &u, sc: &sc, rep: &mut rep, memo: HashSet::new(), mode: Mode::Dup(None), bads: vec![], accepted_bad: BTreeMap::new(), follow_limit: 0, followed_per_class: HashMap::new(), honest_transitions: 0, final_memo: Default::default(), replays: 0, quiet: false, max_states: 1_000_000 };
	let t1 = std::time::Instant::now();
	ex.run();
	let replays = ex.replays;
	eprintln!("explored: states {} transitions {} replays {} in {:?}", rep.states, rep.transitions, replays, t1.elapsed());
	for (k, v) in &rep.outcomes {
		eprintln!("  {} = {}", k, v);
	}
	for v in &rep.violations {
		eprintln!("VIOLATION {} :: {}", v.key, v.what);
	}
	drop_uni(u);
	0
}

fn replay_seg(case: &Value) -> Result<String, String> {
	let sc = uni::Scratch::new("c16replay");
	let cls: Vec<Lc> = case["leaves"].as_str().unwrap_or("").chars().map(Lc::of).collect();
	let extra = case["extra"].as_u64().unwrap_or(0) as usize;
	let prunable = case["prunable"].as_bool().unwrap_or(true);
	let h = case["height"].as_u64().unwrap_or(0) as u8;
	let idx = case["idx"].as_u64().unwrap_or(0);
	let corr = case["corruption"].as_str().unwrap_or("").to_string();
	let mut rep = Report::new();
	let mut cx = SegCtx { rep: &mut rep, dir: sc.fresh("be"), refs: HashMap::new(), prunable, max_height: h.max(4) };
	let r = seg_state(&mut cx, &cls, extra, Some((h, idx, corr)));
	match r {
		Ok(obs) => Ok(obs),
		Err(e) => Err(format!("{} :: {}", e, rep.violations.iter().map(|v| v.what.clone()).collect::<Vec<_>>().join(" | "))),
	}
}

fn replay_e2e(case: &Value) -> Result<String, String> {
	let sc = uni::Scratch::new("c16replay");
	let name = case["variant"].as_str().ok_or("no variant")?;
	let mut v = variants(Tier::Thorough).into_iter().find(|v| v.name == name).ok_or("unknown variant")?;
	if let Some(h) = case["heights"].as_array() {
		let g = |i: usize| h[i].as_u64().unwrap_or(0) as u8;
		v.heights = (g(0), g(1), g(2), g(3));
	}
	let u = build_uni_checked(&sc, &v).map_err(|e| format!("the source node cannot serve its own archive state: {}", e))?;
	let evs: Vec<Ev> = case["events"].as_array().ok_or("no events")?.iter().filter_map(|e| e.as_str().and_then(Ev::parse)).collect();
	let mut rep = Report::new();
	let mut ex = Ex { u: &u, sc: &sc, rep: &mut rep, memo: HashSet::new(), mode: Mode::Dup(None), bads: vec![], accepted_bad: BTreeMap::new(), follow_limit: 0, followed_per_class: HashMap::new(), honest_transitions: 0, final_memo: Default::default(), replays: 0, quiet: true, max_states: 0 };
	let rx = match std::panic::catch_unwind(std::panic::AssertUnwindSafe(|| Rx::open(&sc, &u))) {
		Ok(rx) => rx,
		Err(_) => return Err("Chain::desegmenter panicked for this archive header".into()),
	};
	let mut m = ex.initial(&rx);
	let mut path: Vec<Ev> = vec![];
	let mut log = vec![];
	let mut ended = false;
	for e in &evs {
		let (n, out) = ex.step(&rx, &m, e);
		let term = ex.judge(&path, e, &m, &n, &out, &rx);
		log.push(format!("{} -> {}", e.show(), out.result.chars().take(120).collect::<String>()));
		path.push(e.clone());
		m = n;
		if term {
			ended = true;
			break;
		}
	}
	let mut extra: Option<String> = None;
	match case["check"].as_str() {
		Some("completes") if !ended => extra = Some("the delivery never completes".into()),
		Some("deadlock") if !ended => {
			let stuck = ex.enabled(&m).iter().all(|e| {
				let (n, _) = ex.step(&rx, &m, e);
				n == m
			});
			if stuck {
				extra = Some("deadlock: no arrival and no iteration of the sync loop changes the receiver, and it is not complete".into());
			}
		}
		_ => {}
	}
	rx.close();
	let mut viol: Vec<String> = rep.violations.iter().map(|v| format!("{}: {}", v.key, v.what)).collect();
	if let Some(x) = extra {
		viol.push(x);
	}
	drop_uni(u);
	if viol.is_empty() {
		Ok(log.join("; "))
	} else {
		Err(viol.join(" | ").chars().take(1500).collect())
	}
}

impl Engine for C16 {
	fn id(&self) -> &'static str {
		"C16"
	}
	fn meta(&self, tier: Tier) -> Meta {
		Meta {
			level: "model_checking",
			rule: "(1) Segment level, real prunable PMMRBackend driven through the store's usage protocol (append, prune, sync, check_compact, more appends) into every assignment of {unspent, spent+compacted, spent+compacted by a second compaction, spent uncompacted, spent after the archive point} to the leaves of small MMRs and into structured families (single leaves, pairs, aligned sub-trees, sub-tree minus one leaf, prefixes, suffixes, alternating, two-stage compaction, later growth) for larger ones; for every segment height 0..4 and every index (and one index past the end): Segment::from_pmmr must produce the segment, validate and validate_with (both merge sides) must accept it against the root of an independently hashed reference forest with the reference live set as bitmap; every single corruption (each leaf's data, position +1/-1, data swapped with its neighbour, omission; each hash entry changed/omitted; each proof hash changed/removed, proof extended; identifier idx/height +-1; an unspent leaf hidden behind the true hash of each of its ancestors; a consistent lie about every needed pruned sub-tree; wrong root / other root / merge side / merge index) is classified by the reference (part the root depends on => must be refused; redundant => observed) and executed on validate and validate_with. Same for non-prunable MMRs. Bitmap accumulator: chunk MMRs for live sets up to 8 chunks, every segment height/idx, corruption of every chunk, reassembly equals the live set. (2) End to end: source chains (no spends / spends before and after the archive header / one fully spent segment / compacted with Chain::compact before serving), a receiving Chain with headers only; replay DFS, memoised on (accepted segments, stale copies, duplicate used, bitmap segments applied, local MMR sizes, bitmap finalised, PIBD head), over every arrival order of the honest segment multiset incl. one duplicate of any segment and re-delivery of refused segments, with the sync loop's iteration (apply_next_segments, check_progress, and when complete check_update_leaf_set_state + validate_complete_state) possible between any two arrivals; next_desired_segments is only observed. Oracle: honest segments are refused only as output/rangeproof data before the bitmap is final, the loop never errors or deadlocks, and the final head, roots, unspent map, unspent list and validate(false) equal a twin that processed every block up to the archive header. At every state every corrupted copy of every segment is offered: refused, or (if validation accepts it) every continuation is explored and may only end in the twin's state or a refused final validation (after which the sync loop's reset must allow honest completion). (3) State archive: txhashset_read -> txhashset_write equals the twin; every record of every archive file changed / truncated / extended is refused or harmless.",
			assumptions: vec![
				"segment level: leaf counts 1..5 exhaustive over 5 leaf histories (quick) / 1..7 (thorough); structured families up to 24 (quick) / 64 (thorough) leaves; segment heights 0..4".into(),
				"leaves spent after the archive point are never compacted (the compaction horizon is never newer than the archive header's own horizon; on mainnet the archive header is always newer than the horizon)".into(),
				"height-0 segments next to a spent leaf cannot be produced by from_pmmr (MissingHash); counted, not judged (nodes serve heights >= 7 only)".into(),
				format!("end to end: AutomatedTesting chains of 35-38 blocks (archive header at height 10) and 95-97 blocks with Chain::compact at height 90 (archive header = horizon = 70); hook H7 sets segment heights so that {} segments exist; one bitmap chunk (<= 1024 outputs)", tier.pick("5-6", "7-10")),
				"a changed segment identifier is required to be refused only when an unspent leaf lies in the old or the new range (between two entirely spent ranges the root depends on neither)".into(),
				"one duplicate and one corrupted copy per history; the corrupted-copy exploration uses coarser segment heights".into(),
			],
			exhaustive: true,
		}
	}
	fn parts(&self, tier: Tier) -> Vec<(&'static str, usize)> {
		vec![("seg-exhaustive", tier.pick(2, 4)), ("seg-families", tier.pick(6, 8)), ("seg-plain", 1), ("bitmap", 1), ("e2e", tier.pick(10, 16)), ("archive", tier.pick(3, 8)), ("rollover", tier.pick(4, 8))]
	}
	fn run_part(&self, part: &str, tier: Tier, shard: usize, n: usize) -> Report {
		match part {
			"e2e" => run_e2e(tier, shard, n),
			"rollover" => {
				uni::init_thread();
				let sc = uni::Scratch::new("c16r");
				let mut rep = Report::new();
				for (k, v) in variants(tier).into_iter().enumerate() {
					if !crate::par::mine(k as u64, shard, n) || v.name.contains('/') {
						continue;
					}
					let mut local = Report::new();
					let vv = v.clone();
					let scr = &sc;
					crate::chainx::guarded("rollover", &mut local, |r| {
						let u = build_uni(scr, &vv);
						rollover(scr, &u, r);
						drop_uni(u);
					});
					rep.merge(local);
				}
				rep
			}
			"archive" => run_archive(tier, shard, n, None).0,
			"bitmap" => run_bitmap(tier),
			_ => run_seg(part, tier, shard, n),
		}
	}
	fn child(&self, args: &[String]) -> i32 {
		match args.first().map(|s| s.as_str()) {
			Some("probe") => probe(args),
			_ => 2,
		}
	}
	fn replay(&self, case: &Value) -> Result<String, String> {
		uni::init_thread();
		match case["level"].as_str() {
			Some("segment") => replay_seg(case),
			Some("e2e") => replay_e2e(case),
			Some(lv @ "e2e-second-generation") | Some(lv @ "e2e-rollover") => {
				let sc = uni::Scratch::new("c16replay");
				let name = case["variant"].as_str().ok_or("no variant")?;
				let mut v = variants(Tier::Thorough).into_iter().find(|v| v.name == name).ok_or("unknown variant")?;
				if let Some(h) = case["heights"].as_array() {
					let g = |i: usize| h[i].as_u64().unwrap_or(0) as u8;
					v.heights = (g(0), g(1), g(2), g(3));
				}
				let u = build_uni_checked(&sc, &v)?;
				let mut rep = Report::new();
				if lv == "e2e-rollover" {
					rollover(&sc, &u, &mut rep);
				} else {
					second_generation(&sc, &u, &mut rep);
				}
				let r = rep.violations.first().map(|v| format!("{}: {}", v.key, v.what));
				drop_uni(u);
				match r {
					Some(e) => Err(e.chars().take(1200).collect()),
					None => Ok(format!("{:?}", rep.outcomes)),
				}
			}
			Some("archive") => {
				let (rep, obs) = run_archive(Tier::Thorough, 0, 1, Some((case["variant"].as_str().unwrap_or("").to_string(), case["file"].as_str().unwrap_or("").to_string(), case["change"].as_str().unwrap_or("").to_string())));
				if let Some(v) = rep.violations.first() {
					return Err(format!("{}: {}", v.key, v.what).chars().take(1200).collect());
				}
				Ok(obs.unwrap_or_default())
			}
			Some("bitmap") => replay_bitmap(case),
			_ => Ok("unknown case".into()),
		}
	}
}
