//! Counting allocator: records the largest single request and the peak of live bytes since
//! the last `reset()`, per thread (so worker threads do not disturb each other).
use std::alloc::{GlobalAlloc, Layout, System};
use std::cell::Cell;

pub struct Counting;

thread_local! {
	static MAX_REQ: Cell<usize> = Cell::new(0);
	static LIVE: Cell<isize> = Cell::new(0);
	static PEAK: Cell<isize> = Cell::new(0);
	static ON: Cell<bool> = Cell::new(false);
}

unsafe impl GlobalAlloc for Counting {
	unsafe fn alloc(&self, l: Layout) -> *mut u8 {
		note(l.size());
		System.alloc(l)
	}
	unsafe fn alloc_zeroed(&self, l: Layout) -> *mut u8 {
		note(l.size());
		System.alloc_zeroed(l)
	}
	unsafe fn dealloc(&self, p: *mut u8, l: Layout) {
		let _ = ON.try_with(|on| {
			if on.get() {
				let _ = LIVE.try_with(|c| c.set(c.get() - l.size() as isize));
			}
		});
		System.dealloc(p, l)
	}
	unsafe fn realloc(&self, p: *mut u8, l: Layout, new: usize) -> *mut u8 {
		note(new);
		let _ = ON.try_with(|on| {
			if on.get() {
				let _ = LIVE.try_with(|c| c.set(c.get() - l.size() as isize));
			}
		});
		System.realloc(p, l, new)
	}
}

fn note(sz: usize) {
	let _ = ON.try_with(|on| {
		if on.get() {
			let _ = MAX_REQ.try_with(|c| {
				if sz > c.get() {
					c.set(sz)
				}
			});
			let _ = LIVE.try_with(|c| {
				c.set(c.get() + sz as isize);
				let _ = PEAK.try_with(|p| {
					if c.get() > p.get() {
						p.set(c.get())
					}
				});
			});
		}
	});
}

/// start measuring on this thread
pub fn reset() {
	MAX_REQ.with(|c| c.set(0));
	LIVE.with(|c| c.set(0));
	PEAK.with(|c| c.set(0));
	ON.with(|c| c.set(true));
}
/// stop measuring; returns (largest single request, peak live bytes since reset)
pub fn stop() -> (usize, usize) {
	ON.with(|c| c.set(false));
	(
		MAX_REQ.with(|c| c.get()),
		PEAK.with(|c| c.get()).max(0) as usize,
	)
}
