//! Own PMMRable element types (fixed and variable size) for MMR-level engines.
use grin_core::core::hash::DefaultHashable;
use grin_core::ser::{self, PMMRable, Readable, Reader, Writeable, Writer};

#[derive(Clone, Copy, Debug, PartialEq, Eq, Hash)]
pub struct Elem(pub u32);
impl DefaultHashable for Elem {}
impl PMMRable for Elem {
	type E = Self;
	fn as_elmt(&self) -> Self::E {
		*self
	}
	fn elmt_size() -> Option<u16> {
		Some(4)
	}
}
impl Writeable for Elem {
	fn write<W: Writer>(&self, w: &mut W) -> Result<(), ser::Error> {
		w.write_u32(self.0)
	}
}
impl Readable for Elem {
	fn read<R: Reader>(r: &mut R) -> Result<Elem, ser::Error> {
		Ok(Elem(r.read_u32()?))
	}
}
impl Elem {
	pub fn bytes(&self) -> Vec<u8> {
		self.0.to_be_bytes().to_vec()
	}
}

/// variable-size element: u16 length followed by that many bytes (exercises the size file)
#[derive(Clone, Debug, PartialEq, Eq, Hash)]
pub struct VarElem(pub Vec<u8>);
impl DefaultHashable for VarElem {}
impl PMMRable for VarElem {
	type E = Self;
	fn as_elmt(&self) -> Self::E {
		self.clone()
	}
	fn elmt_size() -> Option<u16> {
		None
	}
}
impl Writeable for VarElem {
	fn write<W: Writer>(&self, w: &mut W) -> Result<(), ser::Error> {
		w.write_u16(self.0.len() as u16)?;
		w.write_fixed_bytes(&self.0)
	}
}
impl Readable for VarElem {
	fn read<R: Reader>(r: &mut R) -> Result<VarElem, ser::Error> {
		let n = r.read_u16()? as usize;
		Ok(VarElem(r.read_fixed_bytes(n)?))
	}
}
impl VarElem {
	pub fn of(i: u32) -> VarElem {
		// length 1..7 depending on i so neighbouring elements differ in size
		let n = 1 + (i as usize * 5) % 7;
		VarElem((0..n).map(|k| (i as u8).wrapping_mul(31).wrapping_add(k as u8)).collect())
	}
	pub fn bytes(&self) -> Vec<u8> {
		let mut v = (self.0.len() as u16).to_be_bytes().to_vec();
		v.extend_from_slice(&self.0);
		v
	}
}
