//! C17 — Concurrent chain use neither deadlocks nor exposes uncommitted state.
//! Every schedule with at most `bound` preemptions of small multi-threaded harnesses over the
//! real `Chain` (real OS threads, one running at a time under src/sched.rs).
use crate::chainx::{Ev, Live};
use crate::ev::{Report, Tier};
use crate::ledger::Tree;
use crate::sched::{Scheduler, Step, Verdict};
use crate::uni;
use crate::{Engine, Meta};
use grin_chain::types::{NoopAdapter, Options};
use grin_chain::Chain;
use grin_core::core::hash::Hashed;
use serde_json::{json, Value};
use std::collections::BTreeSet;
use std::path::Path;
use std::sync::{Arc, Mutex};

pub struct C17;

/// The part of the fingerprint compared for serializability: best-chain state and which blocks
/// are stored with which sums / spent indices. Header-chain memory (header_head, header MMR) is
/// left out: process_block commits its header step in a transaction of its own by design
/// ("process the header first ... with header_head committed to db"), so two concurrent
/// process_block calls on equal-work siblings can legitimately leave header_head on one and head
/// on the other - a state that the submitted operations cannot produce sequentially but that is
/// not a defect under any reading of the property we could defend.
const SER_KEYS: &[&str] = &["head", "roots", "sizes", "utxo.", "outpos", "tail", "blk."];

#[derive(Clone, Debug)]
enum Op {
	B(&'static str),
	H(&'static str),
	/// head + get_block(head) + get_header_by_height(head.height)
	Read,
	/// get_unspent over a probe commitment set
	Unspent,
	/// validate_tx of a transaction spending a mature coinbase
	ValidateTx,
	/// validate_tx of a transaction with an NRD kernel (the path that takes both write locks and applies the
	/// kernels to a read-only extension and to the recent-kernel index of a batch it discards)
	ValidateTxNrd,
	/// miner: set_txhashset_roots on a template on top of the current head
	SetRoots,
	Compact,
	Validate,
	Segmenter,
	/// one call of every other public read API of Chain (index into `api_sweep`)
	Api(usize),
	/// Chain::head(): one short read transaction of the chain's database
	Head,
}

struct Harness {
	/// preemption bound (quick, thorough)
	bounds: (usize, usize),
	name: &'static str,
	universe: &'static str,
	prelude: Vec<&'static str>,
	threads: Vec<(&'static str, Vec<Op>)>,
}

/// blocks delivered one after the other once every thread of the harness has finished (before
/// the final state is taken)
fn post_of(name: &str) -> Vec<&'static str> {
	if name.starts_with("e3:") {
		vec!["y90", "y91", "y92"]
	} else {
		vec![]
	}
}

fn harnesses(tier: Tier) -> Vec<Harness> {
	let base5 = vec!["B(m1)", "B(m2)", "B(m3)", "B(m4)"];
	let mut v = vec![
		Harness { bounds: (1, 2), name: "a:competing-forks+reader", universe: "forks", prelude: base5.clone(), threads: vec![("peer1", vec![Op::B("m5")]), ("peer2", vec![Op::B("f5")]), ("reader", vec![Op::Read, Op::Read])] },
		Harness { bounds: (1, 2), name: "b:header-first+block+reader", universe: "forks", prelude: base5.clone(), threads: vec![("hdr", vec![Op::H("m5")]), ("blk", vec![Op::B("m5")]), ("reader", vec![Op::Read])] },
		Harness { bounds: (1, 2), name: "c:block+validate_tx+get_unspent", universe: "forks", prelude: base5.clone(), threads: vec![("peer", vec![Op::B("m5")]), ("pool", vec![Op::ValidateTx]), ("api", vec![Op::Unspent])] },
		// NRD universe (NRD enabled, header version 4+): the delivered block carries an NRD kernel of the same excess
		Harness { bounds: (1, 2), name: "c2:nrd-block+validate_tx(nrd)+reader", universe: "nrd", prelude: vec!["*nrd11"], threads: vec![("peer", vec![Op::B("n12")]), ("pool", vec![Op::ValidateTxNrd]), ("reader", vec![Op::Read])] },
		Harness { bounds: (1, 2), name: "d:miner-template+block", universe: "forks", prelude: base5.clone(), threads: vec![("miner", vec![Op::SetRoots]), ("peer", vec![Op::B("m5")])] },
		// every remaining public read path against a block writer and against a header writer
		Harness { bounds: (1, 1), name: "r1:api-sweep+block", universe: "forks", prelude: base5.clone(), threads: vec![("api", (0..API_N / 2).map(Op::Api).collect()), ("peer", vec![Op::B("m5")])] },
		Harness { bounds: (1, 1), name: "r2:api-sweep+header+fork", universe: "forks", prelude: base5.clone(), threads: vec![("api", (API_N / 2..API_N).map(Op::Api).collect()), ("peer", vec![Op::H("m5"), Op::B("f5")])] },
		// compaction against a block delivery (two threads; the three-thread version is e, thorough)
		Harness { bounds: (1, 1), name: "e2:compact+block", universe: "long", prelude: vec!["*main"], threads: vec![("compactor", vec![Op::Compact]), ("peer", vec![Op::B("x91")])] },
		// the block spends two sibling leaves far below the horizon; afterwards (sequentially) a
		// heavier fork reorgs it out again: what compaction removed must not be needed then
		Harness { bounds: (1, 1), name: "e3:compact+spending-block,then-reorg", universe: "long", prelude: vec!["*main"], threads: vec![("compactor", vec![Op::Compact]), ("peer", vec![Op::B("z91")])] },
	];
	// two API threads whose short database reads end at the same time, with the accesses to the atomics of the
	// store's resize gate as scheduling points (two preemptions: both must have read the transaction counter
	// before either writes it back); afterwards the node keeps writing until the database map has to grow
	v.push(Harness { bounds: (2, 2), name: "s:two-readers,then-db-growth", universe: "forks", prelude: base5.clone(), threads: vec![("api1", vec![Op::Head]), ("api2", vec![Op::Head])] });
	if tier == Tier::Thorough {
		v.push(Harness { bounds: (1, 1), name: "a2:reorg+reader", universe: "forks", prelude: vec!["B(m1)", "B(m2)", "B(m3)", "B(m4)", "B(m5)", "B(m6)", "B(f5)", "B(f6)"], threads: vec![("peer1", vec![Op::B("f7")]), ("reader", vec![Op::Read, Op::Unspent, Op::Read])] });
		v.push(Harness { bounds: (1, 1), name: "g:validate+header", universe: "forks", prelude: base5.clone(), threads: vec![("validator", vec![Op::Validate]), ("hdr", vec![Op::H("m5")]), ("peer", vec![Op::B("f5")])] });
		v.push(Harness { bounds: (1, 1), name: "e:compact+block+reader", universe: "long", prelude: vec!["*main"], threads: vec![("compactor", vec![Op::Compact]), ("peer", vec![Op::B("x91")]), ("reader", vec![Op::Read, Op::Unspent])] });
		v.push(Harness { bounds: (1, 1), name: "f:segmenter+block", universe: "long", prelude: vec!["*main"], threads: vec![("server", vec![Op::Segmenter]), ("peer", vec![Op::B("x91")])] });
	}
	v
}

const API_N: usize = 20;

/// One read API per index; returns (description, ok). `ok` only demands what must hold under
/// any interleaving with the writers of these harnesses (the probed output / kernel / headers
/// exist below the fork point and are touched by no block the writers deliver).
fn api_sweep(chain: &Chain, cx: &Ctx, i: usize) -> (String, bool) {
	let kc_commit = cx.probe_commit;
	let b3 = cx.tree.blocks.iter().find(|b| b.name == "m3").map(|b| b.block.clone());
	match i {
		0 => {
			let r = chain.get_header_for_output(kc_commit);
			(format!("get_header_for_output -> {:?}", r.as_ref().map(|h| h.height).map_err(|e| format!("{:?}", e))), r.map(|h| h.height == 3).unwrap_or(false))
		}
		1 => {
			let r = chain.get_merkle_proof_for_pos(kc_commit);
			(format!("get_merkle_proof_for_pos -> {}", r.is_ok()), r.is_ok())
		}
		2 => {
			let k = b3.as_ref().map(|b| b.kernels()[0].excess).unwrap();
			let r = chain.get_kernel_height(&k, None, None);
			(format!("get_kernel_height -> {:?}", r.as_ref().map(|o| o.as_ref().map(|x| x.1)).map_err(|e| format!("{:?}", e))), matches!(r, Ok(Some((_, 3, _)))))
		}
		3 => {
			let r = chain.get_output_pos(&kc_commit);
			(format!("get_output_pos -> {:?}", r.as_ref().map_err(|e| format!("{:?}", e))), r.is_ok())
		}
		4 => {
			let r = chain.unspent_outputs_by_pmmr_index(1, 100, None);
			(format!("unspent_outputs_by_pmmr_index -> {:?}", r.as_ref().map(|x| x.2.len()).map_err(|e| format!("{:?}", e))), r.is_ok())
		}
		5 => {
			let a = chain.get_last_n_output(3).len();
			let b = chain.get_last_n_rangeproof(3).len();
			let c = chain.get_last_n_kernel(3).len();
			(format!("get_last_n_* -> {} {} {}", a, b, c), a == 3 && b == 3 && c == 3)
		}
		6 => {
			let hh = chain.header_head();
			let hd = chain.head_header();
			let t = chain.tail();
			(format!("header_head/head_header/tail -> {} {} {}", hh.is_ok(), hd.is_ok(), t.is_ok()), hh.is_ok() && hd.is_ok() && t.is_ok())
		}
		7 => {
			let h = b3.as_ref().unwrap().header.clone();
			let a = chain.get_previous_header(&h);
			let s = chain.get_block_sums(&h.hash());
			let k = chain.is_known(&h);
			(format!("get_previous_header/get_block_sums/is_known -> {} {} {}", a.is_ok(), s.is_ok(), k.is_err()), a.is_ok() && s.is_ok() && k.is_err())
		}
		8 => {
			let inputs = grin_core::core::Inputs::CommitOnly(vec![kc_commit.into()]);
			let a = chain.validate_inputs(&inputs);
			let b = chain.verify_coinbase_maturity(&inputs);
			// maturity of coinbase 3 depends on where the head is (next height >= 6): either answer is right
			(format!("validate_inputs/verify_coinbase_maturity -> {} {}", a.is_ok(), b.is_ok()), a.is_ok())
		}
		9 => {
			let r = chain.verify_tx_lock_height(&cx.tx);
			(format!("verify_tx_lock_height -> {}", r.is_ok()), r.is_ok())
		}
		10 => {
			let head = chain.header_head().unwrap();
			let r = chain.get_locator_hashes(head, &[0, 1, 2, 3]);
			(format!("get_locator_hashes -> {:?}", r.as_ref().map(|v| v.len()).map_err(|e| format!("{:?}", e))), r.map(|v| v.len() == 4).unwrap_or(false))
		}
		11 => {
			let n = chain.difficulty_iter().map(|it| it.take(5).count());
			(format!("difficulty_iter -> {:?}", n.as_ref().map_err(|e| format!("{:?}", e))), n.map(|n| n == 5).unwrap_or(false))
		}
		12 => {
			let h = b3.as_ref().unwrap().header.clone();
			let r = chain.get_merkle_proof(grin_core::core::OutputIdentifier::new(grin_core::core::OutputFeatures::Coinbase, &kc_commit), &h);
			(format!("get_merkle_proof -> {}", r.is_ok()), r.is_ok())
		}
		14 => {
			// position of the probed output through the index, then the output itself by position
			let pos = chain.get_output_pos(&kc_commit);
			let r = pos.as_ref().ok().map(|p| chain.get_unspent_output_at(*p));
			let ok = matches!(&r, Some(Ok(o)) if o.commitment() == kc_commit);
			(format!("get_output_pos/get_unspent_output_at -> {:?} {}", pos.as_ref().map_err(|e| format!("{:?}", e)), ok), ok)
		}
		15 => {
			let r = chain.block_height_range_to_pmmr_indices(1, Some(3));
			let r2 = chain.block_height_range_to_pmmr_indices(2, None);
			(format!("block_height_range_to_pmmr_indices -> {:?} {}", r.as_ref().map_err(|e| format!("{:?}", e)), r2.is_ok()), r.is_ok() && r2.is_ok())
		}
		16 => {
			// the kernel of block 3 is leaf 3 of the kernel MMR (genesis + one coinbase kernel per block): 1-based index 4 + parents
			let idx = grin_core::core::pmmr::insertion_to_pmmr_index(3) + 1;
			let r = chain.get_header_for_kernel_index(idx, None, None);
			(format!("get_header_for_kernel_index -> {:?}", r.as_ref().map(|h| h.height).map_err(|e| format!("{:?}", e))), r.map(|h| h.height == 3).unwrap_or(false))
		}
		17 => {
			let a = chain.txhashset_archive_header();
			let b = chain.txhashset_archive_header_header_only();
			let fp = b3.as_ref().unwrap().header.clone();
			let c = chain.check_txhashset_needed(&fp);
			(format!("txhashset_archive_header/_header_only/check_txhashset_needed -> {} {} {:?}", a.is_ok(), b.is_ok(), c.as_ref().ok()), a.is_ok() && b.is_ok() && matches!(c, Ok(false)))
		}
		18 => {
			let h = b3.as_ref().unwrap().hash();
			let a = chain.get_block(&h);
			let t = chain.get_tail();
			let bh = chain.get_block_header(&h);
			let hh = chain.get_header_by_height(3);
			(format!("get_block/get_tail/get_block_header/get_header_by_height -> {} {} {} {}", a.is_ok(), t.is_ok(), bh.is_ok(), hh.is_ok()), a.is_ok() && bh.is_ok() && hh.map(|x| x.hash() == h).unwrap_or(false))
		}
		19 => {
			let h = b3.as_ref().unwrap().header.clone();
			let mut hdr = h.clone();
			let r = chain.set_prev_root_only(&mut hdr);
			(format!("set_prev_root_only -> {}", r.is_ok()), r.is_ok())
		}
		_ => {
			let a = chain.block_exists(b3.as_ref().unwrap().hash());
			let f = chain.fork_point();
			let o = chain.orphans_len();
			(format!("block_exists/fork_point/orphans_len -> {:?} {} {}", a.as_ref().ok(), f.is_ok(), o), matches!(a, Ok(true)) && f.is_ok())
		}
	}
}

#[derive(Debug, Clone)]
struct Obs {
	thread: String,
	what: String,
	td: u64,
	ok: bool,
}

struct Ctx {
	tree: Arc<Tree>,
	tx: grin_core::core::Transaction,
	/// coinbase of m3 / x3: below every fork point, spent by no block
	probe_commit: grin_util::secp::pedersen::Commitment,
}

fn run_op(chain: &Chain, cx: &Ctx, op: &Op, tname: &str, log: &Mutex<Vec<Obs>>) {
	let idx = |n: &str| cx.tree.blocks.iter().position(|b| b.name == n).expect("block name");
	let mut obs = Obs { thread: tname.to_string(), what: String::new(), td: 0, ok: true };
	match op {
		Op::B(n) => {
			let r = chain.process_block(cx.tree.blocks[idx(n)].block.clone(), Options::NONE);
			obs.what = format!("B({}) -> {}", n, match &r { Ok(t) => format!("Ok({:?})", t.as_ref().map(|t| t.height)), Err(e) => format!("Err({:?})", e) });
			// a valid block may only be refused as already known (another thread delivered its header/body)
			obs.ok = match &r { Ok(_) => true, Err(e) => { let s = format!("{:?}", e); s.contains("Unfit") || s.contains("Orphan") } };
		}
		Op::H(n) => {
			let r = chain.process_block_header(&cx.tree.blocks[idx(n)].block.header, Options::NONE);
			obs.what = format!("H({}) -> {:?}", n, r.as_ref().map(|_| ()));
			obs.ok = r.is_ok();
		}
		Op::Read => {
			let head = chain.head().expect("head");
			let blk = chain.get_block(&head.last_block_h);
			let hdr = chain.get_block_header(&head.last_block_h);
			obs.td = head.total_difficulty.to_num();
			obs.ok = blk.is_ok() && hdr.is_ok();
			obs.what = format!("head {}@{} block_stored={} header_stored={}", &format!("{}", head.last_block_h)[..8], head.height, blk.is_ok(), hdr.is_ok());
		}
		Op::Unspent => {
			// one view: every output reported unspent must be retrievable at its position
			let mut bad = vec![];
			for c in cx.tree.all_commits() {
				if let Ok(Some((_, pos))) = chain.get_unspent(c) {
					if chain.get_unspent_output_at(pos.pos - 1).is_err() {
						// the chain may have moved between the two calls: only count it if the
						// output is still reported unspent at the same position afterwards
						if let Ok(Some((_, p2))) = chain.get_unspent(c) {
							if p2.pos == pos.pos && chain.get_unspent_output_at(pos.pos - 1).is_err() {
								bad.push(pos.pos);
							}
						}
					}
				}
			}
			obs.ok = bad.is_empty();
			obs.what = format!("get_unspent sweep, unreadable positions {:?}", bad);
		}
		Op::ValidateTx => {
			let r = chain.validate_tx(&cx.tx);
			obs.what = format!("validate_tx -> {:?}", r.as_ref().map(|_| ()).map_err(|e| format!("{:?}", e)));
			// spends coinbase 3 (below the fork point, spent by no block of the universe): must be accepted
			obs.ok = r.is_ok();
		}
		Op::ValidateTxNrd => {
			let tx = &cx.tree.txs.iter().find(|t| t.0 == "t:nrd2").expect("t:nrd2").1;
			let r = chain.validate_tx(tx);
			obs.what = format!("validate_tx(nrd) -> {:?}", r.as_ref().map(|_| ()).map_err(|e| format!("{:?}", e)));
			// before n12 the last instance of the excess is at height 10 and the next block is 12: admitted; after
			// n12 it is at 12 and the next block is 13: refused as too recent. Either serial answer is right.
			obs.ok = match &r { Ok(_) => true, Err(e) => format!("{:?}", e).contains("NRDRelativeHeight") };
		}
		Op::SetRoots => {
			let head = chain.head_header().expect("head_header");
			let kc = uni::keychain(99);
			let r = uni::assemble(chain, &kc, &head, &uni::BlockSpec::empty(4242));
			obs.what = format!("set_txhashset_roots on {} -> {}", head.height, r.is_ok());
			// the head may move under the miner: a template on a stale head is still buildable
			obs.ok = r.is_ok();
		}
		Op::Compact => {
			let r = chain.compact();
			obs.what = format!("compact -> {:?}", r.as_ref().map_err(|e| format!("{:?}", e)));
			obs.ok = r.is_ok();
		}
		Op::Validate => {
			let r = chain.validate(true);
			obs.what = format!("validate(fast) -> {:?}", r.as_ref().map_err(|e| format!("{:?}", e)));
			obs.ok = r.is_ok();
		}
		Op::Api(i) => {
			let (w, ok) = api_sweep(chain, cx, *i);
			obs.what = w;
			obs.ok = ok;
		}
		Op::Head => {
			let r = chain.head();
			obs.what = format!("head() -> {:?}", r.as_ref().map(|t| t.height).map_err(|e| format!("{:?}", e)));
			obs.ok = r.is_ok();
		}
		Op::Segmenter => {
			let r = chain.segmenter();
			let ok = match r {
				Ok(s) => {
					let id = grin_core::core::pmmr::segment::SegmentIdentifier { height: 4, idx: 0 };
					let o = s.output_segment(id);
					let k = s.kernel_segment(id);
					obs.what = format!("segmenter: output_segment {:?} kernel_segment {:?}", o.as_ref().map(|_| ()).map_err(|e| format!("{:?}", e)), k.as_ref().map(|_| ()).map_err(|e| format!("{:?}", e)));
					o.is_ok() && k.is_ok()
				}
				Err(e) => {
					obs.what = format!("segmenter -> Err({:?})", e);
					false
				}
			};
			obs.ok = ok;
		}
	}
	log.lock().unwrap().push(obs);
}

/// The node keeps writing: batches of 64 KiB through the chain's own store until the 1 MiB test-mode map must
/// have been enlarged at least once. Run on a thread of its own with a time limit: a store whose resize gate is
/// stuck never returns from batch().
fn grow_db(chain: &Arc<Chain>) -> Result<(), String> {
	let (tx, rx) = std::sync::mpsc::channel();
	let c = chain.clone();
	std::thread::spawn(move || {
		uni::init_thread();
		let blob = vec![0x5au8; 64 * 1024];
		let mut res: Result<(), String> = Ok(());
		for i in 0..18u32 {
			let r = c.store().batch().map_err(|e| format!("{:?}", e)).and_then(|mut b| {
				b.db.put(None, format!("gv-grow-{}", i).as_bytes(), &blob).map_err(|e| format!("{:?}", e))?;
				b.commit().map_err(|e| format!("{:?}", e))
			});
			if let Err(e) = r {
				res = Err(format!("batch {} of the growth phase failed: {}", i, e));
				break;
			}
		}
		let _ = tx.send(res);
	});
	match rx.recv_timeout(std::time::Duration::from_secs(30)) {
		Ok(r) => r,
		Err(_) => Err("the chain's database never returns from batch(): after all threads finished no transaction is open, yet the map resize waits for one to close (30 s)".into()),
	}
}

struct Exec {
	/// outcome of the growth phase (harnesses named s:*)
	post: Option<String>,
	verdict: Verdict,
	trace: Vec<Step>,
	panics: Vec<(String, String)>,
	obs: Vec<Obs>,
	final_fp: Option<String>,
	validate: Option<String>,
}

fn execute(h: &Harness, base: &Path, sc: &uni::Scratch, cx: &Arc<Ctx>, choices: &[usize]) -> Exec {
	let dir = sc.fresh("e");
	uni::copy_dir(base, &dir);
	let chain = Arc::new(uni::open_chain_with(&dir, &cx.tree.gen, Arc::new(NoopAdapter {})).expect("Chain::init"));
	let log = Arc::new(Mutex::new(vec![]));
	let names: Vec<&str> = h.threads.iter().map(|t| t.0).collect();
	let sched = Scheduler::new(&names, choices.to_vec());
	let mut bodies: Vec<Box<dyn FnOnce() + Send>> = vec![];
	for (tname, ops) in &h.threads {
		let chain = chain.clone();
		let cx = cx.clone();
		let log = log.clone();
		let ops = ops.clone();
		let tname = tname.to_string();
		bodies.push(Box::new(move || {
			for op in &ops {
				run_op(&chain, &cx, op, &tname, &log);
			}
		}));
	}
	grin_util::verif::set_atomic_points(h.name.starts_with("s:"));
	let (verdict, trace, panics) = sched.run(bodies);
	grin_util::verif::set_atomic_points(false);
	let obs = log.lock().unwrap().clone();
	let mut final_fp = None;
	let mut validate = None;
	let mut post = None;
	if matches!(verdict, Verdict::Completed) && h.name.starts_with("s:") {
		if let Err(e) = grow_db(&chain) {
			// the growth thread may be stuck inside the store for good: nothing of this execution is touched again
			return Exec { post: Some(e), verdict, trace, panics, obs, final_fp: None, validate: None };
		}
	}
	if matches!(verdict, Verdict::Completed) {
		for n in post_of(h.name) {
			let i = cx.tree.blocks.iter().position(|b| b.name == n).expect("post block");
			let _ = chain.process_block(cx.tree.blocks[i].block.clone(), Options::NONE);
		}
		let hashes: Vec<_> = cx.tree.blocks.iter().map(|b| b.block.hash()).collect();
		let f = crate::fp::chain_fp(&chain, &hashes, &cx.tree.all_commits()).only(SER_KEYS);
		final_fp = Some(f.digest());
		validate = Some(match chain.validate(false) { Ok(_) => "Ok".to_string(), Err(e) => format!("Err({:?})", e) });
		drop(chain);
		let _ = std::fs::remove_dir_all(&dir);
	}
	let _ = &mut post;
	Exec { post, verdict, trace, panics, obs, final_fp, validate }
}

/// fingerprints of every sequential order of the mutating operations
fn sequential_fps(h: &Harness, base: &Path, sc: &uni::Scratch, cx: &Arc<Ctx>) -> BTreeSet<String> {
	// all interleavings of the per-thread op lists at operation granularity
	fn interleavings(lists: &[Vec<(usize, Op)>]) -> Vec<Vec<(usize, Op)>> {
		if lists.iter().all(|l| l.is_empty()) {
			return vec![vec![]];
		}
		let mut out = vec![];
		for (i, l) in lists.iter().enumerate() {
			if l.is_empty() {
				continue;
			}
			let mut rest = lists.to_vec();
			let first = rest[i].remove(0);
			for mut tail in interleavings(&rest) {
				let mut v = vec![first.clone()];
				v.append(&mut tail);
				out.push(v);
			}
		}
		out
	}
	let lists: Vec<Vec<(usize, Op)>> = h.threads.iter().enumerate().map(|(t, (_, ops))| ops.iter().filter(|o| !matches!(o, Op::Read | Op::Unspent | Op::ValidateTx | Op::ValidateTxNrd | Op::SetRoots | Op::Validate | Op::Segmenter | Op::Api(_) | Op::Head)).map(|o| (t, o.clone())).collect()).collect();
	let mut set = BTreeSet::new();
	for order in interleavings(&lists) {
		let dir = sc.fresh("seq");
		uni::copy_dir(base, &dir);
		let chain = uni::open_chain_with(&dir, &cx.tree.gen, Arc::new(NoopAdapter {})).expect("init");
		let log = Mutex::new(vec![]);
		for (t, op) in &order {
			run_op(&chain, cx, op, h.threads[*t].0, &log);
		}
		for n in post_of(h.name) {
			let i = cx.tree.blocks.iter().position(|b| b.name == n).expect("post block");
			let _ = chain.process_block(cx.tree.blocks[i].block.clone(), Options::NONE);
		}
		let hashes: Vec<_> = cx.tree.blocks.iter().map(|b| b.block.hash()).collect();
		set.insert(crate::fp::chain_fp(&chain, &hashes, &cx.tree.all_commits()).only(SER_KEYS).digest());
		drop(chain);
		let _ = std::fs::remove_dir_all(&dir);
	}
	set
}

fn preemptions(trace: &[Step], upto: usize) -> usize {
	let mut n = 0;
	for s in &trace[..upto] {
		if let Some(r) = s.running {
			if s.enabled.contains(&r) && s.enabled[s.chosen] != r {
				n += 1;
			}
		}
	}
	n
}

struct Explore<'a> {
	h: &'a Harness,
	base: &'a Path,
	sc: &'a uni::Scratch,
	cx: &'a Arc<Ctx>,
	seq: &'a BTreeSet<String>,
	bound: usize,
	shard: usize,
	n: usize,
	top_ctr: usize,
	finals: BTreeSet<String>,
	dead: bool,
	cap: u64,
}

impl<'a> Explore<'a> {
	fn judge(&mut self, x: &Exec, choices: &[usize], rep: &mut Report) {
		let sched: Vec<String> = x.trace.iter().map(|s| s.what.clone()).collect();
		let case = json!({"harness": self.h.name, "choices": choices, "schedule": sched, "observations": x.obs.iter().map(|o| format!("{}: {}", o.thread, o.what)).collect::<Vec<_>>()});
		match &x.verdict {
			Verdict::Completed => {}
			Verdict::Deadlock(m) => {
				rep.violation(format!("{}:deadlock", self.h.name), format!("deadlock: {}", m), case.clone());
				self.dead = true;
				return;
			}
			Verdict::Livelock(m) => {
				rep.violation(format!("{}:livelock", self.h.name), m.clone(), case.clone());
				self.dead = true;
				return;
			}
			Verdict::Unsafe(m) => {
				rep.violation(format!("{}:unsafe", self.h.name), m.clone(), case.clone());
				self.dead = true;
				return;
			}
			Verdict::Divergence(m) => {
				eprintln!("MACHINERY: replay divergence in {}: {}", self.h.name, m);
				std::process::exit(2);
			}
			Verdict::Stuck(m) => {
				eprintln!("MACHINERY: un-modelled blocking in {}: {}", self.h.name, m);
				std::process::exit(2);
			}
		}
		for (t, m) in &x.panics {
			rep.violation(format!("{}:panic:{}", self.h.name, t), format!("thread {} panicked: {}", t, m), case.clone());
		}
		if let Some(e) = &x.post {
			rep.violation(format!("{}:store-stalled-afterwards", self.h.name), e.clone(), case.clone());
			self.dead = true;
			return;
		}
		for o in &x.obs {
			if o.what.starts_with("validate_tx") {
				// which of the serial answers a schedule produced (both must occur over the exploration)
				let short: String = o.what.chars().take(60).collect();
				rep.outcome(&format!("{}:{}", self.h.name, short));
			}
			if !o.ok {
				rep.violation(format!("{}:op-failed:{}", self.h.name, o.what.split(' ').next().unwrap_or("")), format!("{}: {}", o.thread, o.what), case.clone());
			}
		}
		// cumulative difficulty of successively observed heads never decreases (per reader thread)
		let mut last: std::collections::HashMap<String, u64> = Default::default();
		for o in &x.obs {
			if o.what.starts_with("head ") {
				let e = last.entry(o.thread.clone()).or_insert(0);
				if o.td < *e {
					rep.violation(format!("{}:head-td-decreased", self.h.name), format!("{} saw total difficulty {} after {}", o.thread, o.td, e), case.clone());
				}
				*e = o.td;
			}
		}
		if let Some(f) = &x.final_fp {
			self.finals.insert(f.clone());
			if !self.seq.contains(f) {
				rep.violation(format!("{}:not-serializable", self.h.name), "the final chain state equals that of no sequential ordering of the submitted operations".to_string(), case.clone());
			}
		}
		if let Some(v) = &x.validate {
			if v != "Ok" {
				rep.violation(format!("{}:final-validate", self.h.name), format!("validate(false) after all threads finished = {}", v), case.clone());
			}
		}
		rep.outcome(&format!("{}:final-state-{}", self.h.name, x.final_fp.as_ref().map(|f| &f[..6]).unwrap_or("none")));
	}

	fn explore(&mut self, prefix: Vec<usize>, rep: &mut Report) {
		if self.dead || rep.evaluations >= self.cap {
			if rep.evaluations >= self.cap {
				rep.capped = Some(format!("execution cap {} reached", self.cap));
			}
			return;
		}
		let x = execute(self.h, self.base, self.sc, self.cx, &prefix);
		rep.evaluations += 1;
		rep.distinct += 1;
		rep.transitions += x.trace.len() as u64;
		rep.states += 1;
		let choices: Vec<usize> = x.trace.iter().map(|s| s.chosen).collect();
		self.judge(&x, &choices, rep);
		if rep.samples.len() < 2 && prefix.len() > 3 {
			rep.sample(json!({"harness": self.h.name, "choices": choices, "schedule": x.trace.iter().map(|s| s.what.clone()).collect::<Vec<_>>()}));
		}
		if self.dead {
			return;
		}
		for i in prefix.len()..x.trace.len() {
			let p = &x.trace[i];
			let cost = preemptions(&x.trace, i);
			for alt in 0..p.enabled.len() {
				if alt == p.chosen {
					continue;
				}
				let extra = match p.running {
					Some(r) => (p.enabled.contains(&r) && p.enabled[alt] != r) as usize,
					None => 0,
				};
				if cost + extra > self.bound {
					continue;
				}
				if prefix.is_empty() {
					// top-level alternatives are dealt to the shards
					self.top_ctr += 1;
					if (self.top_ctr - 1) % self.n != self.shard {
						continue;
					}
				}
				let mut next: Vec<usize> = choices[..i].to_vec();
				next.push(alt);
				self.explore(next, rep);
			}
		}
	}
}

fn universe(sc: &uni::Scratch, name: &str) -> Tree {
	if name == "nrd" {
		return crate::c13::universe_nrd(sc);
	}
	crate::c09::universe(sc, name)
}

fn run(tier: Tier, shard: usize, n: usize) -> Report {
	uni::init_thread();
	let mut rep = Report::new();
	let sc = uni::Scratch::new("c17");
	rep.extra.insert("max_preemption_bound_completed".into(), json!(tier.pick(1, 2)));
	let mut trees: std::collections::HashMap<&'static str, Arc<Tree>> = Default::default();
	let only = std::env::var("GV_C17_ONLY").ok();
	for h in harnesses(tier) {
		if let Some(o) = &only {
			if !h.name.starts_with(o.as_str()) {
				continue;
			}
		}
		// the NRD flag is per thread: the scheduler's threads take it from this process-wide default
		let nrd = h.universe == "nrd";
		uni::NRD_DEFAULT.store(nrd, std::sync::atomic::Ordering::SeqCst);
		uni::init_thread();
		if !trees.contains_key(h.universe) {
			trees.insert(h.universe, Arc::new(universe(&sc, h.universe)));
		}
		let tree = trees.get(h.universe).unwrap().clone();
		let kc = uni::keychain(if h.universe == "forks" { 21 } else if nrd { 32 } else { 22 });
		let tx = uni::spend_coinbase(&kc, 3, uni::REWARD, &[(7777, uni::REWARD - 2_000_000)], 4243);
		let cx = Arc::new(Ctx { tree: tree.clone(), tx, probe_commit: uni::commit_of(&kc, 3, uni::REWARD) });
		let base = sc.fresh("base");
		{
			let mut live = Live::open(&tree, &base, Options::NONE);
			let prelude: Vec<&str> = if h.prelude == vec!["*nrd11"] { vec!["B(n1)", "B(n2)", "B(n3)", "B(n4)", "B(n5)", "B(n6)", "B(n7)", "B(n8)", "B(n9)", "B(n10)", "B(n11)"] } else { h.prelude.clone() };
			for e in crate::c09::parse_events(&tree, &prelude) {
				let o = live.apply(&e);
				assert!(o.ok, "prelude failed: {}", o.err);
			}
		}
		let seq = sequential_fps(&h, &base, &sc, &cx);
		let bound = tier.pick(h.bounds.0, h.bounds.1);
		rep.extra.insert(format!("bound_preemptions:{}", h.name), json!(bound));
		let mut ex = Explore { h: &h, base: &base, sc: &sc, cx: &cx, seq: &seq, bound, shard, n, top_ctr: 0, finals: BTreeSet::new(), dead: false, cap: tier.pick(4_000, 200_000) };
		// bound 0 (the default schedule) is run by every shard; its alternatives are dealt out
		ex.explore(vec![], &mut rep);
		if shard == 0 {
			rep.extra.insert(format!("sequential_final_states:{}", h.name), json!(seq.len()));
		}
		rep.extra.insert(format!("distinct_final_states:{}", h.name), json!(ex.finals.len()));
		let dead = ex.dead;
		let _ = std::fs::remove_dir_all(&base);
		if dead {
			// threads of the dead execution are parked forever: stop here, the report is emitted
			break;
		}
	}
	let _ = Ev::Reopen;
	rep
}

impl Engine for C17 {
	fn id(&self) -> &'static str {
		"C17"
	}
	fn meta(&self, tier: Tier) -> Meta {
		Meta {
			level: "model_checking",
			rule: if tier == Tier::Quick {
				"controlled-scheduler exploration of the real Chain with real OS threads (exactly one runs at a time; scheduling points = every util::RwLock acquisition, the LMDB writer lock, polling loops, thread start/exit; lock state mirrored incl. 'a parked writer blocks new readers'): EVERY schedule with at most 1 preemption of six harnesses (competing fork blocks + reader; header-first + block + reader; block + validate_tx + get_unspent; miner template + block; two sweeps calling every other public read API of Chain against a block writer and against a header writer + fork block). Oracles per schedule: no deadlock/livelock/panic, every operation returns what a correct node may return, a reported head names a stored block, observed total difficulty never decreases, final state in the set of final states of all sequential orders of the operations, validate(false) passes. A state = one complete schedule; transitions = scheduling decisions."
			} else {
				"as quick, with EVERY schedule with at most 2 preemptions of the first four harnesses and at most 1 preemption of the api sweeps and of four more harnesses (reorg + readers; validate + header + fork block; compact + block + reader; segmenter + block); the bound completed per harness is in the evidence"
			},
			assumptions: vec![
				"scheduling points are lock operations: data not protected by util::RwLock / the LMDB writer lock would be invisible (safe Rust excludes it except for the mmap / env.resize unsafe sites, which sit behind these locks)".into(),
				"the store's resize thread is not registered with the scheduler; the harness databases stay far below the resize threshold".into(),
				"preemption bound 1 (quick) / 2 (thorough); memory-ordering effects below lock granularity are not modelled".into(),
			],
			exhaustive: true,
		}
	}
	fn parts(&self, _tier: Tier) -> Vec<(&'static str, usize)> {
		vec![("schedules", 16)]
	}
	fn run_part(&self, _part: &str, tier: Tier, shard: usize, n: usize) -> Report {
		run(tier, shard, n)
	}
	fn replay(&self, case: &Value) -> Result<String, String> {
		uni::init_thread();
		let hn = case["harness"].as_str().ok_or("no harness")?;
		let hs = harnesses(Tier::Thorough);
		let h = hs.iter().find(|h| h.name == hn).ok_or("unknown harness")?;
		let sc = uni::Scratch::new("c17r");
		let nrd = h.universe == "nrd";
		uni::NRD_DEFAULT.store(nrd, std::sync::atomic::Ordering::SeqCst);
		uni::init_thread();
		let tree = Arc::new(universe(&sc, h.universe));
		let kc = uni::keychain(if h.universe == "forks" { 21 } else if nrd { 32 } else { 22 });
		let tx = uni::spend_coinbase(&kc, 3, uni::REWARD, &[(7777, uni::REWARD - 2_000_000)], 4243);
		let cx = Arc::new(Ctx { tree: tree.clone(), tx, probe_commit: uni::commit_of(&kc, 3, uni::REWARD) });
		let base = sc.fresh("base");
		{
			let mut live = Live::open(&tree, &base, Options::NONE);
			let prelude: Vec<&str> = if h.prelude == vec!["*nrd11"] { vec!["B(n1)", "B(n2)", "B(n3)", "B(n4)", "B(n5)", "B(n6)", "B(n7)", "B(n8)", "B(n9)", "B(n10)", "B(n11)"] } else { h.prelude.clone() };
			for e in crate::c09::parse_events(&tree, &prelude) {
				live.apply(&e);
			}
		}
		let choices: Vec<usize> = case["choices"].as_array().map(|a| a.iter().filter_map(|x| x.as_u64().map(|x| x as usize)).collect()).unwrap_or_default();
		let x = execute(h, &base, &sc, &cx, &choices);
		let s = format!("verdict {:?}; panics {:?}; observations {:?}; final {:?}; validate {:?}", x.verdict, x.panics, x.obs.iter().map(|o| o.what.clone()).collect::<Vec<_>>(), x.final_fp, x.validate);
		match x.verdict {
			Verdict::Completed if x.panics.is_empty() && x.obs.iter().all(|o| o.ok) => Ok(s),
			_ => Err(s),
		}
	}
}
