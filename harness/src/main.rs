//! gv — the verification harness binary. `gv <Cxx> <quick|thorough>` runs a property check;
//! `gv <Cxx> <tier> --part P --shard i n` is a worker; `gv <Cxx> --replay file` replays a case.
#![allow(dead_code)]
mod ev;
mod par;
mod c07;
mod elem;
mod refmmr;

use ev::{Finish, Report, Tier};
use serde_json::Value;
use std::time::Instant;

pub struct Meta {
	pub level: &'static str,
	pub rule: &'static str,
	pub assumptions: Vec<String>,
	pub exhaustive: bool,
}

pub trait Engine {
	fn id(&self) -> &'static str;
	fn meta(&self, tier: Tier) -> Meta;
	/// (part name, number of worker processes)
	fn parts(&self, tier: Tier) -> Vec<(&'static str, usize)>;
	fn run_part(&self, part: &str, tier: Tier, shard: usize, n: usize) -> Report;
	/// re-run one case; returns an observation string (Err = the violation reproduces)
	fn replay(&self, _case: &Value) -> Result<String, String> {
		Ok("replay not implemented for this engine".into())
	}
}

fn engines() -> Vec<Box<dyn Engine>> {
	vec![Box::new(c07::C07)]
}

fn main() {
	let args: Vec<String> = std::env::args().collect();
	if args.len() < 3 {
		eprintln!("usage: gv <Cxx> <quick|thorough> | gv <Cxx> --replay <file>");
		std::process::exit(2);
	}
	let prop = args[1].clone();
	let eng = match engines().into_iter().find(|e| e.id() == prop) {
		Some(e) => e,
		None => {
			eprintln!("unknown property {}", prop);
			std::process::exit(2);
		}
	};
	if args[2] == "--replay" {
		let s = std::fs::read_to_string(&args[3]).expect("read replay file");
		let v: Value = serde_json::from_str(&s).expect("parse replay file");
		let a = eng.replay(&v["case"]);
		let b = eng.replay(&v["case"]);
		println!("replay 1: {:?}\nreplay 2: {:?}", a, b);
		if a != b {
			eprintln!("MACHINERY: replay diverged");
			std::process::exit(2);
		}
		if a.is_err() {
			println!("VIOLATION property={} replay={}", prop, args[3]);
			std::process::exit(1);
		}
		std::process::exit(0);
	}
	let tier = match args[2].as_str() {
		"quick" => Tier::Quick,
		"thorough" => Tier::Thorough,
		_ => {
			eprintln!("tier must be quick|thorough");
			std::process::exit(2);
		}
	};
	let seed: u64 = std::env::var("VERIF_SEED")
		.ok()
		.and_then(|s| s.parse().ok())
		.unwrap_or(0);
	// worker mode
	if let Some(p) = args.iter().position(|a| a == "--part") {
		let part = args[p + 1].clone();
		let (mut shard, mut n) = (0usize, 1usize);
		if let Some(s) = args.iter().position(|a| a == "--shard") {
			shard = args[s + 1].parse().unwrap();
			n = args[s + 2].parse().unwrap();
		}
		let r = eng.run_part(&part, tier, shard, n);
		par::emit(&r);
		return;
	}
	let start = Instant::now();
	let only: Option<String> = std::env::var("GV_ONLY_PART").ok();
	let mut parts = vec![];
	for (name, shards) in eng.parts(tier) {
		if let Some(o) = &only {
			if o != name {
				continue;
			}
		}
		let t = Instant::now();
		let r = if shards <= 1 {
			eng.run_part(name, tier, 0, 1)
		} else {
			par::run_sharded(&prop, name, tier, shards)
		};
		eprintln!(
			"  part {:<18} evals={:<9} distinct={:<9} states={:<7} trans={:<8} classes={:<4} viol={} {:.1}s",
			name,
			r.evaluations,
			r.distinct,
			r.states,
			r.transitions,
			r.outcomes.len(),
			r.violations.len(),
			t.elapsed().as_secs_f64()
		);
		parts.push((name.to_string(), r));
	}
	let m = eng.meta(tier);
	let code = ev::finish(
		Finish {
			prop: &prop,
			tier,
			seed,
			level: m.level,
			rule: m.rule,
			assumptions: m.assumptions,
			exhaustive: m.exhaustive,
			start,
		},
		parts,
	);
	std::process::exit(code);
}
