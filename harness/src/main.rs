//! gv — the verification harness binary. `gv <Cxx> <quick|thorough>` runs a property check;
//! `gv <Cxx> <tier> --part P --shard i n` is a worker; `gv <Cxx> --replay file` replays a case.
#![allow(dead_code)]
mod alloc;
mod ev;
mod par;
mod c01;
mod c02;
mod c03;
mod c04;
mod c05;
mod c06;
mod c07;
mod c08;
mod c09;
mod c10;
mod c11;
mod c12;
mod c13;
mod c14;
mod c15;
mod c16;
mod c17;
mod c18;
mod c19;
mod c20;
mod chainx;
mod corrupt;
mod ledger;
mod elem;
mod fp;
mod refmmr;
mod sched;
mod uni;

use ev::{Finish, Report, Tier};

#[global_allocator]
static GLOBAL: alloc::Counting = alloc::Counting;

use serde_json::Value;
use std::time::Instant;

pub struct Meta {
	pub level: &'static str,
	pub rule: &'static str,
	pub assumptions: Vec<String>,
	pub exhaustive: bool,
}

pub trait Engine {
	fn id(&self) -> &'static str;
	fn meta(&self, tier: Tier) -> Meta;
	/// (part name, number of worker processes)
	fn parts(&self, tier: Tier) -> Vec<(&'static str, usize)>;
	fn run_part(&self, part: &str, tier: Tier, shard: usize, n: usize) -> Report;
	/// helper child process of the engine (crash victims, judges, untrusted-input workers)
	fn child(&self, _args: &[String]) -> i32 {
		2
	}
	/// re-run one case; returns an observation string (Err = the violation reproduces)
	fn replay(&self, _case: &Value) -> Result<String, String> {
		Ok("replay not implemented for this engine".into())
	}
}

fn engines() -> Vec<Box<dyn Engine>> {
	vec![Box::new(c01::C01), Box::new(c02::C02), Box::new(c03::C03), Box::new(c04::C04), Box::new(c05::C05), Box::new(c06::C06), Box::new(c07::C07), Box::new(c08::C08), Box::new(c09::C09), Box::new(c10::C10), Box::new(c11::C11), Box::new(c12::C12), Box::new(c13::C13), Box::new(c14::C14), Box::new(c15::C15), Box::new(c16::C16), Box::new(c17::C17), Box::new(c18::C18), Box::new(c19::C19), Box::new(c20::C20)]
}

fn main() {
	let args: Vec<String> = std::env::args().collect();
	if args.len() >= 2 && args[1] == "dbg03" {
		dbg03();
		return;
	}
	if args.len() >= 2 && args[1] == "selftest" {
		selftest();
		return;
	}
	if args.len() < 3 {
		eprintln!("usage: gv <Cxx> <quick|thorough> | gv <Cxx> --replay <file>");
		std::process::exit(2);
	}
	let prop = args[1].clone();
	if prop == "selftest" {
		selftest();
		return;
	}
	let eng = match engines().into_iter().find(|e| e.id() == prop) {
		Some(e) => e,
		None => {
			eprintln!("unknown property {}", prop);
			std::process::exit(2);
		}
	};
	if args[2] == "--child" {
		std::process::exit(eng.child(&args[3..]));
	}
	if args[2] == "--replay" {
		let s = std::fs::read_to_string(&args[3]).expect("read replay file");
		let v: Value = serde_json::from_str(&s).expect("parse replay file");
		let a = eng.replay(&v["case"]);
		let b = eng.replay(&v["case"]);
		println!("replay 1: {:?}\nreplay 2: {:?}", a, b);
		if a != b {
			eprintln!("MACHINERY: replay diverged");
			std::process::exit(2);
		}
		if a.is_err() {
			println!("VIOLATION property={} replay={}", prop, args[3]);
			std::process::exit(1);
		}
		std::process::exit(0);
	}
	let tier = match args[2].as_str() {
		"quick" => Tier::Quick,
		"thorough" => Tier::Thorough,
		_ => {
			eprintln!("tier must be quick|thorough");
			std::process::exit(2);
		}
	};
	let seed: u64 = std::env::var("VERIF_SEED")
		.ok()
		.and_then(|s| s.parse().ok())
		.unwrap_or(0);
	// worker mode
	if let Some(p) = args.iter().position(|a| a == "--part") {
		let part = args[p + 1].clone();
		let (mut shard, mut n) = (0usize, 1usize);
		if let Some(s) = args.iter().position(|a| a == "--shard") {
			shard = args[s + 1].parse().unwrap();
			n = args[s + 2].parse().unwrap();
		}
		// A panic inside a worker is judged by where it comes from: a panic raised in the code
		// under test (/repo or its dependencies), or a must-succeed operation of the subject that
		// returned a grin error to the harness, is a verdict about the subject; anything else is a
		// machinery failure (non-zero exit, never a verdict).
		let last_panic: std::sync::Arc<std::sync::Mutex<Option<(String, String)>>> = Default::default();
		{
			let lp = last_panic.clone();
			let prev = std::panic::take_hook();
			std::panic::set_hook(Box::new(move |info| {
				let loc = info.location().map(|l| format!("{}:{}", l.file(), l.line())).unwrap_or_default();
				let msg = if let Some(s) = info.payload().downcast_ref::<String>() {
					s.clone()
				} else if let Some(s) = info.payload().downcast_ref::<&str>() {
					s.to_string()
				} else {
					"panic".into()
				};
				if std::thread::current().name() == Some("main") {
					*lp.lock().unwrap() = Some((loc, msg));
				}
				prev(info);
			}));
		}
		let eng2 = engines().into_iter().find(|e| e.id() == prop).unwrap();
		let part2 = part.clone();
		let res = std::panic::catch_unwind(std::panic::AssertUnwindSafe(move || eng2.run_part(&part2, tier, shard, n)));
		match res {
			Ok(r) => par::emit(&r),
			Err(_) => {
				let (loc, msg) = last_panic.lock().unwrap().clone().unwrap_or_default();
				let subject = loc.starts_with("/repo/") || loc.contains("/.cargo/registry/");
				// `Result::expect` / `unwrap` on an error of the code under test: "<what>: <Debug of the error>", the
				// Debug form beginning with (or wrapping) a variant of one of grin's error enums
				let grin_err = ["StoreErr", "TxHashSetErr", "InvalidRoot", "AlreadySpent", "Orphan", "Unfit", "Chain::init", "prelude", "builder", "LmdbErr", "SerErr", "Err(", "InvalidBlock", "Immature", "Committed", "Secp("]
					.iter()
					.any(|k| msg.contains(k))
					|| GRIN_ERROR_VARIANTS.iter().any(|v| msg.contains(&format!(": {}", v)) || msg.contains(&format!("({}", v)) || msg.contains(&format!("source: {}", v)));
				if subject || grin_err {
					let mut r = Report::new();
					let short: String = msg.chars().take(300).collect();
					r.violation(
						format!("{}:{}", if subject { "subject-panicked" } else { "must-succeed-operation-failed" }, loc.rsplit('/').next().unwrap_or("")),
						format!("part {} shard {}/{}: {} at {}: {}", part, shard, n, if subject { "the code under test panicked" } else { "an operation of the subject that must succeed on a valid history returned an error to the harness" }, loc, short),
						serde_json::json!({"part": part, "shard": shard, "of": n, "location": loc, "message": short}),
					);
					r.capped = Some("worker stopped at the first panic".into());
					par::emit(&r);
				} else {
					eprintln!("MACHINERY: worker {}:{} shard {}/{} panicked in the harness at {}: {}", prop, part, shard, n, loc, msg);
					std::process::exit(2);
				}
			}
		}
		return;
	}
	let start = Instant::now();
	// per-run scratch namespace shared with the workers (removed at the end of the run)
	let run_dir = format!("{}/run-{}", uni::scratch_base(), std::process::id());
	std::env::set_var("GV_RUN_DIR", &run_dir);
	sweep_stale_scratch();
	let _ = std::fs::create_dir_all(&run_dir);
	let only: Option<String> = std::env::var("GV_ONLY_PART").ok();
	// all parts run concurrently (each part = its own set of worker processes)
	let mut handles = vec![];
	for (name, shards) in eng.parts(tier) {
		if let Some(o) = &only {
			if o != name {
				continue;
			}
		}
		let prop2 = prop.clone();
		let seq = std::env::var("GV_SEQ").is_ok();
		let h = std::thread::spawn(move || {
			let eng = engines().into_iter().find(|e| e.id() == prop2).unwrap();
			let t = Instant::now();
			let mut r = if shards <= 1 {
				eng.run_part(name, tier, 0, 1)
			} else {
				par::run_sharded(&prop2, name, tier, shards)
			};
			r.settle_states();
			eprintln!(
				"  part {:<18} evals={:<9} distinct={:<9} states={:<7} trans={:<8} classes={:<4} viol={} {:.1}s",
				name,
				r.evaluations,
				r.distinct,
				r.states,
				r.transitions,
				r.outcomes.len(),
				r.violations.len(),
				t.elapsed().as_secs_f64()
			);
			(name.to_string(), r)
		});
		if seq {
			handles.push(Ok(h.join().expect("part thread")));
		} else {
			handles.push(Err(h));
		}
	}
	let mut parts = vec![];
	for h in handles {
		parts.push(match h {
			Ok(x) => x,
			Err(h) => h.join().expect("part thread"),
		});
	}
	let m = eng.meta(tier);
	let code = ev::finish(
		Finish {
			prop: &prop,
			tier,
			seed,
			level: m.level,
			rule: m.rule,
			assumptions: m.assumptions,
			exhaustive: m.exhaustive,
			start,
		},
		parts,
	);
	let _ = std::fs::remove_dir_all(&run_dir);
	std::process::exit(code);
}

/// Scratch directories are named `<tag>-<pid>[-…]`; a killed run leaves its own behind.  Remove the
/// ones whose process no longer exists.
/// variant names of the error enums of grin_chain, grin_core (block, transaction, committed, ser, pow, segment,
/// libtx), grin_store, grin_pool, grin_p2p and grin_keychain
const GRIN_ERROR_VARIANTS: &[&str] = &[
	"Unfit", "Orphan", "DifficultyTooLow", "WrongTotalDifficulty", "LowEdgebits", "InvalidScaling", "InvalidPow", "OldBlock", "InvalidBlockProof", "InvalidBlockTime", "InvalidBlockHeight", "InvalidRoot", "InvalidMMRSize", "Keychain", "Secp", "AlreadySpent", "DuplicateCommitment", "ImmatureCoinbase", "MerkleProof", "OutputNotFound", "RangeproofNotFound",
	"TxKernelNotFound", "OutputSpent", "InvalidBlockVersion", "InvalidTxHashSet", "StoreErr", "FileReadErr", "SerErr", "TxHashSetErr", "TxLockHeight", "NRDRelativeHeight", "GenesisBlockRequired", "Transaction", "Block", "InvalidHeaderHeight", "Other", "Committed", "Stopped", "Bitmap", "SyncError", "SegmentError", "AbortingPIBDError",
	"SegmenterHeaderMismatch", "InvalidSegmentHeight", "InvalidSegment", "KernelSumMismatch", "InvalidTotalKernelSum", "CoinbaseSumMismatch", "TooHeavy", "KernelLockHeight", "NRDKernelPreHF3", "NRDKernelNotEnabled", "CutThrough", "Serialization", "LockHeight", "RangeProof", "InvalidProofMessage", "InvalidOutputFeatures", "InvalidKernelFeatures",
	"InvalidFeeFields", "InvalidNRDRelativeHeight", "IncorrectSignature", "InvalidValue", "IOErr", "UnexpectedData", "CorruptedData", "CountError", "TooLargeReadErr", "HexError", "SortError", "DuplicateError", "UnsupportedProtocolVersion", "NotFoundErr", "LmdbErr", "FileErr", "OtherErr", "InvalidTx", "ImmatureTransaction", "DandelionError",
	"OverCapacity", "LowFeeTransaction", "DuplicateTx", "NRDKernelRelativeHeight", "Connection", "BadMessage", "UnexpectedMessage", "MsgLen", "Banned", "ConnectionClose", "Timeout", "PeerWithSelf", "GenesisMismatch", "KeyDerivation", "SwitchCommitment", "Signature", "MissingLeaf", "MissingHash", "NonExistent", "Mismatch", "Verification",
	"EdgeAddition", "InvalidCycle", "NoCycle", "NoSolution", "RootMismatch",
];

fn sweep_stale_scratch() {
	let base = uni::scratch_base();
	if let Ok(rd) = std::fs::read_dir(&base) {
		for e in rd.flatten() {
			let name = e.file_name().to_string_lossy().to_string();
			let pid = name.split('-').filter_map(|t| t.parse::<u32>().ok()).next();
			if let Some(pid) = pid {
				if !std::path::Path::new(&format!("/proc/{}", pid)).exists() {
					let _ = std::fs::remove_dir_all(e.path());
					let _ = std::fs::remove_file(e.path());
				}
			}
		}
	}
}

fn selftest() {
	use grin_chain::types::Options;
	use grin_core::core::hash::Hashed;
	uni::init_thread();
	let t0 = Instant::now();
	let sc = uni::Scratch::new("selftest");
	let kc = uni::keychain(1);
	let gen = uni::genesis(&kc);
	let dir = sc.fresh("chain");
	let chain = uni::open_chain(&dir, &gen);
	let mut prev = gen.header.clone();
	let mut blocks = vec![];
	for i in 1..=5u32 {
		let b = uni::extend(&chain, &kc, &prev, &uni::BlockSpec::empty(i));
		prev = b.header.clone();
		blocks.push(b);
	}
	eprintln!("5 blocks in {:?}", t0.elapsed());
	// spend coinbase 1 at height 6
	let tx = uni::spend_coinbase(&kc, 1, uni::REWARD, &[(100, uni::REWARD - 1_000_000)], 1);
	let b6 = uni::extend(&chain, &kc, &prev, &uni::BlockSpec::with(6, vec![tx]));
	// fork from block 4: 5b 6b 7b
	let mut fprev = blocks[3].header.clone();
	for i in 0..3u32 {
		let b = uni::build_block(&chain, &kc, &fprev, &uni::BlockSpec::empty(50 + i)).unwrap();
		let r = chain.process_block(b.clone(), Options::NONE);
		eprintln!("fork block h{} td{} -> {:?}", b.header.height, b.header.total_difficulty().to_num(), r.map(|t| t.map(|t| t.height)));
		fprev = b.header.clone();
	}
	let hashes: Vec<_> = blocks.iter().map(|b| b.hash()).chain(std::iter::once(b6.hash())).collect();
	let commits = vec![uni::commit_of(&kc, 1, uni::REWARD), uni::commit_of(&kc, 2, uni::REWARD), uni::commit_of(&kc, 100, uni::REWARD - 1_000_000)];
	let f = fp::chain_fp(&chain, &hashes, &commits);
	for (k, v) in &f.lines {
		println!("{} = {}", k, v);
	}
	println!("digest {} validate={:?} total {:?}", f.digest(), chain.validate(false), t0.elapsed());
}

#[allow(dead_code)]
fn dbg03() {
	uni::init_thread();
	let sc = uni::Scratch::new("dbg");
	let mut tb = chainx::TreeBuilder::new(&sc, 7, true);
	let g = tb.tree.gen.header.clone();
	eprintln!("gen td {} head {:?}", g.total_difficulty().to_num(), tb.chain.head().unwrap());
	tb.add_with_difficulty("x", None, &uni::BlockSpec::empty(10), 1);
}
