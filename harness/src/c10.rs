//! C10 — Encoding round-trips and object hashes are version-independent and canonical.
//!
//! Bounded-exhaustive: a finite value catalogue per type x protocol versions {1,2,3,local,db}
//! (round trip, byte identity, identity-hash invariance, reference layout/hash), and for every
//! valid encoding a reference *structure map* (written here from the format description, not
//! from the code) that locates every tag byte, count field, sorted list and reserved/padding
//! bit; every canonical-form mutation operator is applied at every such site.
use crate::ev::{hex, Report, Tier};
use crate::par::mine;
use crate::{Engine, Meta};
use blake2_rfc::blake2b::blake2b;
use chrono::{DateTime, Utc};
use grin_chain::txhashset::{BitmapChunk, BitmapSegment};
use grin_chain::types::{CommitPos, Tip};
use grin_core::core::hash::{Hash, Hashed};
use grin_core::core::{
	Block, BlockHeader, BlockSums, CommitWrapper, CompactBlock, FeeFields, HeaderVersion, Input,
	Inputs, KernelFeatures, NRDRelativeHeight, Output, OutputFeatures, OutputIdentifier, Segment,
	SegmentIdentifier, SegmentProof, ShortId, Transaction, TransactionBody, TxKernel,
};
use grin_core::global::{self, ChainTypes};
use grin_core::pow::{Difficulty, Proof, ProofOfWork};
use grin_core::ser::{self, ProtocolVersion, Readable, Reader, Writeable, Writer};
use grin_keychain::BlindingFactor;
use grin_p2p::msg::{
	BanReason, GetPeerAddrs, Hand, Headers, Locator, OutputBitmapSegmentResponse,
	OutputSegmentResponse, PeerAddrs, PeerError, Ping, Pong, SegmentRequest, SegmentResponse, Shake,
	TxHashSetArchive, TxHashSetRequest,
};
use grin_p2p::types::{Capabilities, PeerAddr, ReasonForBan};
use grin_util::secp::constants::MAX_PROOF_SIZE;
use grin_util::secp::pedersen::{Commitment, RangeProof};
use grin_util::secp::Signature;
use serde_json::{json, Value};
use std::net::{Ipv4Addr, Ipv6Addr, SocketAddr, SocketAddrV4, SocketAddrV6};
use std::panic::{catch_unwind, AssertUnwindSafe};

pub struct C10;

type H32 = [u8; 32];
type R<T> = Result<T, String>;

/// blake2b-256, the hash of the format (written here with the blake2-rfc crate directly)
fn b2(data: &[u8]) -> H32 {
	let mut o = [0u8; 32];
	o.copy_from_slice(blake2b(32, &[], data).as_bytes());
	o
}

/// deterministic filler bytes (no `rand` anywhere in this engine)
fn rnd(tag: &str, n: u64, len: usize) -> Vec<u8> {
	let mut out = Vec::with_capacity(len + 32);
	let mut c = 0u32;
	while out.len() < len {
		out.extend_from_slice(blake2b(32, &[], format!("c10/{}/{}/{}", tag, n, c).as_bytes()).as_bytes());
		c += 1;
	}
	out.truncate(len);
	out
}

fn commit(tag: &str, n: u64) -> Commitment {
	let mut b = rnd(tag, n, 33);
	b[0] = 0x08 | (b[0] & 1);
	Commitment::from_vec(b)
}
fn sig(tag: &str, n: u64) -> Signature {
	let mut a = [0u8; 64];
	a.copy_from_slice(&rnd(tag, n, 64));
	Signature::from_raw_data(&a).unwrap()
}
fn rproof(tag: &str, n: u64) -> RangeProof {
	let mut proof = [0u8; MAX_PROOF_SIZE];
	let len = 675.min(MAX_PROOF_SIZE);
	proof[..len].copy_from_slice(&rnd(tag, n, len));
	RangeProof { proof, plen: len }
}
fn hsh(tag: &str, n: u64) -> Hash {
	Hash::from_vec(&rnd(tag, n, 32))
}
fn hash3(i: usize) -> Hash {
	match i {
		0 => Hash::from_vec(&[0u8; 32]),
		1 => hsh("mid", 7),
		_ => Hash::from_vec(&[0xffu8; 32]),
	}
}

// ------------------------------------------------------------------------------------------
// Reference structure map
// ------------------------------------------------------------------------------------------

#[derive(Clone, Debug)]
enum Kind {
	/// one byte selecting a variant; the listed values are the ones the format defines
	Tag(Vec<u8>),
	/// big-endian element / byte count
	Count,
	/// bits the format defines as zero (mask over the bytes of the site)
	Reserved(Vec<u8>),
	/// big-endian integer that must lie in lo..=hi
	Bounded(u64, u64),
}

#[derive(Clone, Debug)]
struct Site {
	/// component-relative, index-free label: the stable part of a violation key
	label: &'static str,
	/// where in the container the component sits (for humans)
	path: String,
	off: usize,
	len: usize,
	kind: Kind,
}

#[derive(Clone, Debug)]
struct List {
	label: &'static str,
	path: String,
	sorted: bool,
	count: usize,
	elems: Vec<(usize, usize)>,
	/// parallel array sharing the count (segment positions -> items)
	par: Vec<(usize, usize)>,
}

#[derive(Default, Clone, Debug)]
struct Map {
	sites: Vec<Site>,
	lists: Vec<List>,
}

/// Reference parser: walks a *valid* encoding according to the documented layout, records the
/// sites, recomputes identity hashes with its own blake2b and checks the canonical-form rules
/// (sorted lists strictly ascending by hash, reserved bits zero, tags known).
struct P<'a> {
	b: &'a [u8],
	pos: usize,
	v: u32,
	ps: usize,
	nrd: bool,
	path: Vec<String>,
	map: Map,
}

const ZH: H32 = [0u8; 32];

impl<'a> P<'a> {
	fn new(b: &'a [u8], v: u32, ps: usize, nrd: bool) -> P<'a> {
		P { b, pos: 0, v, ps, nrd, path: vec![], map: Map::default() }
	}
	fn take(&mut self, n: usize) -> R<&'a [u8]> {
		if self.pos + n > self.b.len() {
			return Err(format!("layout: need {} bytes at offset {} of {}", n, self.pos, self.b.len()));
		}
		let s = &self.b[self.pos..self.pos + n];
		self.pos += n;
		Ok(s)
	}
	fn be(&mut self, n: usize) -> R<u64> {
		let s = self.take(n)?;
		Ok(s.iter().fold(0u64, |a, x| (a << 8) | *x as u64))
	}
	fn pathstr(&self) -> String {
		self.path.join(".")
	}
	fn within<T>(&mut self, seg: String, f: impl FnOnce(&mut Self) -> R<T>) -> R<T> {
		self.path.push(seg);
		let r = f(self);
		self.path.pop();
		r
	}
	fn site(&mut self, label: &'static str, off: usize, len: usize, kind: Kind) -> usize {
		let path = self.pathstr();
		self.map.sites.push(Site { label, path, off, len, kind });
		self.map.sites.len() - 1
	}
	fn tag(&mut self, label: &'static str, known: &[u8]) -> R<u8> {
		let off = self.pos;
		let t = self.take(1)?[0];
		if !known.contains(&t) {
			return Err(format!("layout: {} = {} is not a defined value", label, t));
		}
		self.site(label, off, 1, Kind::Tag(known.to_vec()));
		Ok(t)
	}
	fn count(&mut self, label: &'static str, width: usize) -> R<(u64, usize)> {
		let off = self.pos;
		let n = self.be(width)?;
		let s = self.site(label, off, width, Kind::Count);
		Ok((n, s))
	}
	fn reserved(&mut self, label: &'static str, off: usize, mask: Vec<u8>) -> R<()> {
		for (i, m) in mask.iter().enumerate() {
			if self.b[off + i] & m != 0 {
				return Err(format!("layout: reserved bits of {} set in a writer-produced encoding", label));
			}
		}
		if mask.iter().any(|m| *m != 0) {
			let len = mask.len();
			self.site(label, off, len, Kind::Reserved(mask));
		}
		Ok(())
	}
	fn bounded(&mut self, label: &'static str, width: usize, lo: u64, hi: u64) -> R<u64> {
		let off = self.pos;
		let x = self.be(width)?;
		if x < lo || x > hi {
			return Err(format!("layout: {} = {} outside {}..={}", label, x, lo, hi));
		}
		self.site(label, off, width, Kind::Bounded(lo, hi));
		Ok(x)
	}
	/// n elements, recorded as a list; sorted lists must ascend strictly by reference hash
	fn list(
		&mut self,
		label: &'static str,
		seg: &str,
		sorted: bool,
		count: usize,
		n: u64,
		mut elem: impl FnMut(&mut Self) -> R<H32>,
	) -> R<()> {
		if n as usize > self.b.len() {
			return Err(format!("layout: {} count {} exceeds the encoding", label, n));
		}
		let mut elems = vec![];
		let mut last: Option<H32> = None;
		for i in 0..n {
			let o = self.pos;
			let h = self.within(format!("{}[{}]", seg, i), |p| elem(p))?;
			if sorted {
				if let Some(l) = last {
					if h <= l {
						return Err(format!("layout: {} not strictly ascending by hash at {}", label, i));
					}
				}
				last = Some(h);
			}
			elems.push((o, self.pos - o));
		}
		let path = self.pathstr();
		self.map.lists.push(List { label, path, sorted, count, elems, par: vec![] });
		Ok(())
	}
}

const FEE_FUTURE_MASK: [u8; 8] = [0xff, 0xff, 0xf0, 0, 0, 0, 0, 0];

fn p_fee(p: &mut P) -> R<[u8; 8]> {
	let off = p.pos;
	let mut f = [0u8; 8];
	f.copy_from_slice(p.take(8)?);
	p.reserved("FeeFields.future_use", off, FEE_FUTURE_MASK.to_vec())?;
	Ok(f)
}

/// kernel: features (v1: fixed 17 bytes, v2+: variant sized) || excess 33 || signature 64.
/// identity hash = blake2b of the v1 layout whatever the version
fn p_kernel(p: &mut P) -> R<H32> {
	let known: &[u8] = if p.nrd { &[0, 1, 2, 3] } else { &[0, 1, 2] };
	let t = p.tag("KernelFeatures.tag", known)?;
	let mut v1 = vec![t];
	if p.v <= 1 {
		match t {
			0 => {
				v1.extend_from_slice(&p_fee(p)?);
				let off = p.pos;
				v1.extend_from_slice(p.take(8)?);
				p.reserved("KernelFeatures.v1_padding", off, vec![0xff; 8])?;
			}
			1 => {
				let off = p.pos;
				v1.extend_from_slice(p.take(16)?);
				p.reserved("KernelFeatures.v1_padding", off, vec![0xff; 16])?;
			}
			2 => {
				v1.extend_from_slice(&p_fee(p)?);
				v1.extend_from_slice(p.take(8)?);
			}
			_ => {
				v1.extend_from_slice(&p_fee(p)?);
				let off = p.pos;
				v1.extend_from_slice(p.take(6)?);
				p.reserved("KernelFeatures.v1_padding", off, vec![0xff; 6])?;
				let h = p.bounded("NRDRelativeHeight", 2, 1, 10_080)?;
				v1.extend_from_slice(&(h as u16).to_be_bytes());
			}
		}
	} else {
		match t {
			0 => {
				v1.extend_from_slice(&p_fee(p)?);
				v1.extend_from_slice(&[0u8; 8]);
			}
			1 => v1.extend_from_slice(&[0u8; 16]),
			2 => {
				v1.extend_from_slice(&p_fee(p)?);
				v1.extend_from_slice(p.take(8)?);
			}
			_ => {
				v1.extend_from_slice(&p_fee(p)?);
				v1.extend_from_slice(&[0u8; 6]);
				let h = p.bounded("NRDRelativeHeight", 2, 1, 10_080)?;
				v1.extend_from_slice(&(h as u16).to_be_bytes());
			}
		}
	}
	v1.extend_from_slice(p.take(33)?);
	v1.extend_from_slice(p.take(64)?);
	Ok(b2(&v1))
}

fn p_outid(p: &mut P) -> R<H32> {
	let s = p.pos;
	p.tag("OutputFeatures.tag", &[0, 1])?;
	p.take(33)?;
	Ok(b2(&p.b[s..p.pos]))
}
fn p_commit(p: &mut P) -> R<H32> {
	Ok(b2(p.take(33)?))
}
fn p_rproof(p: &mut P) -> R<H32> {
	let (n, _) = p.count("RangeProof.len", 8)?;
	if n != 675 {
		return Err(format!("layout: range proof length {} (bulletproofs are 675 bytes)", n));
	}
	p.take(675)?;
	Ok(ZH)
}
fn p_output(p: &mut P) -> R<H32> {
	let h = p_outid(p)?;
	p_rproof(p)?;
	Ok(h)
}
fn p_body(p: &mut P) -> R<H32> {
	let (ni, ci) = p.count("TransactionBody.n_inputs", 8)?;
	let (no, co) = p.count("TransactionBody.n_outputs", 8)?;
	let (nk, ck) = p.count("TransactionBody.n_kernels", 8)?;
	if p.v <= 2 {
		p.list("TransactionBody.inputs", "inputs", true, ci, ni, p_outid)?;
	} else {
		p.list("TransactionBody.inputs", "inputs", true, ci, ni, p_commit)?;
	}
	p.list("TransactionBody.outputs", "outputs", true, co, no, p_output)?;
	p.list("TransactionBody.kernels", "kernels", true, ck, nk, p_kernel)?;
	Ok(ZH)
}
fn p_tx(p: &mut P) -> R<H32> {
	p.take(32)?;
	p.within("body".into(), p_body)
}
/// proof: edge_bits || nonces packed little-endian at edge_bits each, zero padded to a byte
fn p_proof(p: &mut P) -> R<H32> {
	let known: Vec<u8> = (1..=63).collect();
	let eb = p.tag("Proof.edge_bits", &known)? as usize;
	let nbits = eb * p.ps;
	let len = (nbits + 7) / 8;
	let off = p.pos;
	let packed = p.take(len)?;
	let pad = len * 8 - nbits;
	if pad > 0 {
		p.reserved("Proof.padding", off + len - 1, vec![(0xffu16 << (8 - pad)) as u8])?;
	}
	Ok(b2(packed))
}
fn p_pow(p: &mut P) -> R<H32> {
	p.take(8 + 4 + 8)?;
	p_proof(p)
}
fn p_header(p: &mut P) -> R<H32> {
	p.take(2 + 8 + 8 + 5 * 32 + 32 + 8 + 8)?;
	p.within("pow".into(), p_pow)
}
fn p_block(p: &mut P) -> R<H32> {
	let h = p.within("header".into(), p_header)?;
	p.within("body".into(), p_body)?;
	Ok(h)
}
fn p_shortid(p: &mut P) -> R<H32> {
	Ok(b2(p.take(6)?))
}
fn p_cblock(p: &mut P) -> R<H32> {
	let h = p.within("header".into(), p_header)?;
	p.take(8)?;
	let (no, co) = p.count("CompactBlockBody.n_out_full", 8)?;
	let (nk, ck) = p.count("CompactBlockBody.n_kern_full", 8)?;
	let (ni, ci) = p.count("CompactBlockBody.n_kern_ids", 8)?;
	p.list("CompactBlockBody.out_full", "out_full", true, co, no, p_output)?;
	p.list("CompactBlockBody.kern_full", "kern_full", true, ck, nk, p_kernel)?;
	p.list("CompactBlockBody.kern_ids", "kern_ids", true, ci, ni, p_shortid)?;
	Ok(h)
}
fn p_segid(p: &mut P) -> R<H32> {
	p.take(9)?;
	Ok(ZH)
}
fn p_hash32(p: &mut P) -> R<H32> {
	p.take(32)?;
	Ok(ZH)
}
fn p_segproof(p: &mut P) -> R<H32> {
	let (n, c) = p.count("SegmentProof.n_hashes", 8)?;
	p.list("SegmentProof.hashes", "proof", false, c, n, p_hash32)?;
	Ok(ZH)
}
/// positions (1-based, strictly ascending) followed by the same number of items
fn p_poslist(p: &mut P, cl: &'static str, ll: &'static str, seg: &str, item: fn(&mut P) -> R<H32>) -> R<()> {
	let (n, c) = p.count(cl, 8)?;
	if n as usize > p.b.len() {
		return Err(format!("layout: {} count {} exceeds the encoding", cl, n));
	}
	let mut elems = vec![];
	let mut last = 0u64;
	for i in 0..n {
		let o = p.pos;
		let x = p.be(8)?;
		if x <= last {
			return Err(format!("layout: {} not strictly ascending at {}", ll, i));
		}
		last = x;
		elems.push((o, 8));
	}
	let mut par = vec![];
	for i in 0..n {
		let o = p.pos;
		p.within(format!("{}[{}]", seg, i), |p| item(p))?;
		par.push((o, p.pos - o));
	}
	let path = p.pathstr();
	p.map.lists.push(List { label: ll, path, sorted: true, count: c, elems, par });
	Ok(())
}
fn p_segment(p: &mut P, item: fn(&mut P) -> R<H32>) -> R<H32> {
	p_segid(p)?;
	p_poslist(p, "Segment.n_hashes", "Segment.hash_pos", "hashes", p_hash32)?;
	p_poslist(p, "Segment.n_leaves", "Segment.leaf_pos", "leaves", item)?;
	p_segproof(p)
}
fn p_seg_outid(p: &mut P) -> R<H32> {
	p_segment(p, p_outid)
}
fn p_seg_rproof(p: &mut P) -> R<H32> {
	p_segment(p, p_rproof)
}
fn p_seg_kernel(p: &mut P) -> R<H32> {
	p_segment(p, p_kernel)
}
fn p_u16idx(p: &mut P) -> R<H32> {
	// ascending index order expressed as an ascending 32-byte key
	let s = p.take(2)?;
	let mut k = ZH;
	k[0] = s[0];
	k[1] = s[1];
	Ok(k)
}
fn p_bitmapblock(p: &mut P) -> R<H32> {
	let (nch, _) = p.count("BitmapBlock.n_chunks", 1)?;
	if nch > 64 {
		return Err("layout: bitmap block with more than 64 chunks".into());
	}
	let mode = p.tag("BitmapBlock.mode", &[0, 1, 2])?;
	if mode == 0 {
		p.take(nch as usize * 128)?;
	} else {
		let (n, c) = p.count("BitmapBlock.n_indices", 2)?;
		p.list("BitmapBlock.indices", "idx", true, c, n, p_u16idx)?;
	}
	Ok(ZH)
}
fn p_bitmapseg(p: &mut P) -> R<H32> {
	p_segid(p)?;
	let (n, c) = p.count("BitmapSegment.n_blocks", 2)?;
	p.list("BitmapSegment.blocks", "blocks", false, c, n, p_bitmapblock)?;
	p_segproof(p)
}
fn p_peeraddr(p: &mut P) -> R<H32> {
	let t = p.tag("PeerAddr.family", &[0, 1])?;
	p.take(if t == 0 { 6 } else { 18 })?;
	Ok(ZH)
}
/// capability bits not defined by the protocol (defined: the low 7 bits)
fn p_capab(p: &mut P) -> R<()> {
	let off = p.pos;
	p.take(4)?;
	p.reserved("Capabilities.undefined_bits", off, vec![0xff, 0xff, 0xff, 0x80])
}
fn p_lenbytes(p: &mut P, label: &'static str) -> R<()> {
	let (n, _) = p.count(label, 8)?;
	p.take(n as usize)?;
	Ok(())
}
fn p_hand(p: &mut P) -> R<H32> {
	p.take(4)?;
	p_capab(p)?;
	p.take(16)?;
	p.within("sender_addr".into(), p_peeraddr)?;
	p.within("receiver_addr".into(), p_peeraddr)?;
	p_lenbytes(p, "Hand.user_agent_len")?;
	p.take(32)?;
	Ok(ZH)
}
fn p_shake(p: &mut P) -> R<H32> {
	p.take(4)?;
	p_capab(p)?;
	p.take(8)?;
	p_lenbytes(p, "Shake.user_agent_len")?;
	p.take(32)?;
	Ok(ZH)
}
fn p_getpeeraddrs(p: &mut P) -> R<H32> {
	p_capab(p)?;
	Ok(ZH)
}
fn p_peeraddrs(p: &mut P) -> R<H32> {
	let (n, c) = p.count("PeerAddrs.count", 4)?;
	p.list("PeerAddrs.peers", "peers", false, c, n, p_peeraddr)?;
	Ok(ZH)
}
fn p_peererror(p: &mut P) -> R<H32> {
	p.take(4)?;
	p_lenbytes(p, "PeerError.message_len")?;
	Ok(ZH)
}
fn p_locator(p: &mut P) -> R<H32> {
	let (n, c) = p.count("Locator.count", 1)?;
	p.list("Locator.hashes", "hashes", false, c, n, p_hash32)?;
	Ok(ZH)
}
fn p_headers(p: &mut P) -> R<H32> {
	let (n, c) = p.count("Headers.count", 2)?;
	p.list("Headers.headers", "headers", false, c, n, p_header)?;
	Ok(ZH)
}
fn p_fixed16(p: &mut P) -> R<H32> {
	p.take(16)?;
	Ok(ZH)
}
fn p_banreason(p: &mut P) -> R<H32> {
	let off = p.pos;
	p.take(3)?;
	p.reserved("BanReason.high_bytes", off, vec![0xff; 3])?;
	p.tag("BanReason.code", &[0, 1, 2, 3, 4, 5, 6, 7])?;
	Ok(ZH)
}
fn p_fixed40(p: &mut P) -> R<H32> {
	p.take(40)?;
	Ok(ZH)
}
fn p_fixed48(p: &mut P) -> R<H32> {
	p.take(48)?;
	Ok(ZH)
}
fn p_fixed41(p: &mut P) -> R<H32> {
	p.take(41)?;
	Ok(ZH)
}
fn p_fixed80(p: &mut P) -> R<H32> {
	p.take(80)?;
	Ok(ZH)
}
fn p_fixed66(p: &mut P) -> R<H32> {
	p.take(66)?;
	Ok(ZH)
}
fn p_outsegresp(p: &mut P) -> R<H32> {
	p.take(32)?;
	p.within("segment".into(), p_seg_outid)?;
	p.take(32)?;
	Ok(ZH)
}
fn p_bitmapsegresp(p: &mut P) -> R<H32> {
	p.take(32)?;
	p.within("segment".into(), p_bitmapseg)?;
	p.take(32)?;
	Ok(ZH)
}
fn p_segresp_rproof(p: &mut P) -> R<H32> {
	p.take(32)?;
	p.within("segment".into(), p_seg_rproof)
}
fn p_segresp_kernel(p: &mut P) -> R<H32> {
	p.take(32)?;
	p.within("segment".into(), p_seg_kernel)
}

// ------------------------------------------------------------------------------------------
// Values: equality written field by field here (several grin types compare by hash or ignore
// fields), identity hash where the property names one, which versions can carry the value
// ------------------------------------------------------------------------------------------

trait Val: Writeable + Readable + Sized {
	const NAME: &'static str;
	/// reference parser of this type's encoding; returns the reference identity hash
	fn parse(p: &mut P) -> R<H32>;
	fn same(&self, o: &Self, v: u32) -> bool;
	fn idhash(&self) -> Option<Hash> {
		None
	}
	fn carried(&self, _v: u32) -> bool {
		true
	}
	/// sub-class of the value that becomes part of round-trip violation keys
	fn qual(&self) -> &'static str {
		""
	}
	fn show(&self) -> String;
}

fn eq_commit(a: &Commitment, b: &Commitment) -> bool {
	a.0[..] == b.0[..]
}
fn eq_kernel(a: &TxKernel, b: &TxKernel) -> bool {
	a.features == b.features && eq_commit(&a.excess, &b.excess) && a.excess_sig.to_raw_data()[..] == b.excess_sig.to_raw_data()[..]
}
fn eq_input(a: &Input, b: &Input) -> bool {
	a.features == b.features && eq_commit(&a.commit, &b.commit)
}
fn eq_outid(a: &OutputIdentifier, b: &OutputIdentifier) -> bool {
	a.features == b.features && eq_commit(&a.commit, &b.commit)
}
fn eq_rproof(a: &RangeProof, b: &RangeProof) -> bool {
	a.plen == b.plen && a.proof[..] == b.proof[..]
}
fn eq_output(a: &Output, b: &Output) -> bool {
	eq_outid(&a.identifier, &b.identifier) && eq_rproof(&a.proof, &b.proof)
}
fn eq_vec<T>(a: &[T], b: &[T], f: impl Fn(&T, &T) -> bool) -> bool {
	a.len() == b.len() && a.iter().zip(b.iter()).all(|(x, y)| f(x, y))
}
fn commits_of(i: &Inputs) -> Vec<Vec<u8>> {
	let mut c: Vec<Vec<u8>> = match i {
		Inputs::CommitOnly(v) => v.iter().map(|x| x.commitment().0.to_vec()).collect(),
		Inputs::FeaturesAndCommit(v) => v.iter().map(|x| x.commit.0.to_vec()).collect(),
	};
	c.sort();
	c
}
/// inputs: compared in full where the version carries features (v <= 2), by commitment where
/// it omits them (v >= 3); an empty list equals an empty list
fn eq_inputs(a: &Inputs, b: &Inputs, v: u32) -> bool {
	if a.len() == 0 && b.len() == 0 {
		return true;
	}
	if v >= 3 {
		return commits_of(a) == commits_of(b);
	}
	match (a, b) {
		(Inputs::FeaturesAndCommit(x), Inputs::FeaturesAndCommit(y)) => eq_vec(x, y, eq_input),
		_ => false,
	}
}
fn eq_body(a: &TransactionBody, b: &TransactionBody, v: u32) -> bool {
	eq_inputs(&a.inputs, &b.inputs, v) && eq_vec(&a.outputs, &b.outputs, eq_output) && eq_vec(&a.kernels, &b.kernels, eq_kernel)
}
fn eq_seg<T: Clone>(a: &Segment<T>, b: &Segment<T>, f: impl Fn(&T, &T) -> bool) -> bool {
	let (ia, hpa, ha, lpa, la, pa) = a.clone().parts();
	let (ib, hpb, hb, lpb, lb, pb) = b.clone().parts();
	ia == ib && hpa == hpb && ha == hb && lpa == lpb && eq_vec(&la, &lb, f) && pa == pb
}
fn inputs_carried(i: &Inputs, v: u32) -> bool {
	match i {
		Inputs::CommitOnly(x) => x.is_empty() || v >= 3,
		_ => true,
	}
}

macro_rules! val {
	($t:ty, $name:expr, $parse:expr, |$a:ident, $b:ident, $v:ident| $same:expr, |$s:ident| $show:expr) => {
		impl Val for $t {
			const NAME: &'static str = $name;
			fn parse(p: &mut P) -> R<H32> {
				$parse(p)
			}
			#[allow(unused_variables)]
			fn same(&self, o: &Self, $v: u32) -> bool {
				let ($a, $b) = (self, o);
				$same
			}
			#[allow(unused_variables)]
			fn show(&self) -> String {
				let $s = self;
				$show
			}
		}
	};
	($t:ty, $name:expr, $parse:expr, |$a:ident, $b:ident, $v:ident| $same:expr, |$s:ident| $show:expr, hash |$h:ident| $hash:expr, carried |$c:ident, $cv:ident| $carried:expr) => {
		impl Val for $t {
			const NAME: &'static str = $name;
			fn parse(p: &mut P) -> R<H32> {
				$parse(p)
			}
			#[allow(unused_variables)]
			fn same(&self, o: &Self, $v: u32) -> bool {
				let ($a, $b) = (self, o);
				$same
			}
			#[allow(unused_variables)]
			fn show(&self) -> String {
				let $s = self;
				$show
			}
			#[allow(unused_variables)]
			fn idhash(&self) -> Option<Hash> {
				let $h = self;
				$hash
			}
			#[allow(unused_variables)]
			fn carried(&self, $cv: u32) -> bool {
				let $c = self;
				$carried
			}
		}
	};
}

val!(TxKernel, "TxKernel", p_kernel, |a, b, v| eq_kernel(a, b), |s| format!("{:?}", s.features), hash |h| Some(h.hash()), carried |c, v| true);
val!(Input, "Input", p_outid, |a, b, v| eq_input(a, b), |s| format!("{:?}", s), hash |h| Some(h.hash()), carried |c, v| true);
val!(CommitWrapper, "CommitWrapper", p_commit, |a, b, v| eq_commit(&a.commitment(), &b.commitment()), |s| format!("{:?}", s), hash |h| Some(h.hash()), carried |c, v| true);
val!(OutputIdentifier, "OutputIdentifier", p_outid, |a, b, v| eq_outid(a, b), |s| format!("{:?}", s), hash |h| Some(h.hash()), carried |c, v| true);
val!(Output, "Output", p_output, |a, b, v| eq_output(a, b), |s| format!("{:?}", s.identifier), hash |h| Some(h.identifier.hash()), carried |c, v| true);
val!(RangeProof, "RangeProof", p_rproof, |a, b, v| eq_rproof(a, b), |s| format!("RangeProof[{}]", s.plen));
val!(TransactionBody, "TransactionBody", p_body, |a, b, v| eq_body(a, b, v),
	|s| format!("body {}i({}) {}o {}k", s.inputs.len(), s.inputs.version_str(), s.outputs.len(), s.kernels.len()),
	hash |h| None, carried |c, v| inputs_carried(&c.inputs, v));
val!(Transaction, "Transaction", p_tx, |a, b, v| a.offset == b.offset && eq_body(&a.body, &b.body, v),
	|s| format!("tx {}i({}) {}o {}k", s.body.inputs.len(), s.body.inputs.version_str(), s.body.outputs.len(), s.body.kernels.len()),
	hash |h| None, carried |c, v| inputs_carried(&c.body.inputs, v));
val!(Proof, "Proof", p_proof, |a, b, v| a.edge_bits == b.edge_bits && a.nonces == b.nonces, |s| format!("{:?}", s), hash |h| Some(h.hash()), carried |c, v| true);
val!(ProofOfWork, "ProofOfWork", p_pow, |a, b, v| a == b, |s| format!("{:?}", s));
val!(BlockHeader, "BlockHeader", p_header, |a, b, v| a == b, |s| format!("header v{} h{} ts{} {:?}", s.version.0, s.height, s.timestamp.timestamp(), s.pow.proof),
	hash |h| Some(h.hash()), carried |c, v| true);
val!(Block, "Block", p_block, |a, b, v| a.header == b.header && eq_body(&a.body, &b.body, v),
	|s| format!("block h{} {}i({}) {}o {}k", s.header.height, s.body.inputs.len(), s.body.inputs.version_str(), s.body.outputs.len(), s.body.kernels.len()),
	hash |h| Some(h.hash()), carried |c, v| inputs_carried(&c.body.inputs, v));
val!(CompactBlock, "CompactBlock", p_cblock,
	|a, b, v| a.header == b.header && a.nonce == b.nonce && eq_vec(a.out_full(), b.out_full(), eq_output) && eq_vec(a.kern_full(), b.kern_full(), eq_kernel)
		&& eq_vec(a.kern_ids(), b.kern_ids(), |x, y| x.as_ref() == y.as_ref()),
	|s| format!("cblock nonce {} {}o {}k {}ids", s.nonce, s.out_full().len(), s.kern_full().len(), s.kern_ids().len()),
	hash |h| Some(h.hash()), carried |c, v| true);
val!(SegmentIdentifier, "SegmentIdentifier", p_segid, |a, b, v| a == b, |s| format!("{:?}", s));
val!(SegmentProof, "SegmentProof", p_segproof, |a, b, v| a == b, |s| format!("segproof[{}]", s.size()));
val!(Segment<OutputIdentifier>, "Segment<OutputIdentifier>", p_seg_outid, |a, b, v| eq_seg(a, b, eq_outid), |s| format!("{:?} {}h {}l", s.id(), s.hash_iter().count(), s.leaf_iter().count()));
val!(Segment<RangeProof>, "Segment<RangeProof>", p_seg_rproof, |a, b, v| eq_seg(a, b, eq_rproof), |s| format!("{:?} {}h {}l", s.id(), s.hash_iter().count(), s.leaf_iter().count()));
val!(Segment<TxKernel>, "Segment<TxKernel>", p_seg_kernel, |a, b, v| eq_seg(a, b, eq_kernel), |s| format!("{:?} {}h {}l", s.id(), s.hash_iter().count(), s.leaf_iter().count()));
val!(BitmapSegment, "BitmapSegment", p_bitmapseg, |a, b, v| a == b, |s| "bitmap segment".to_string());
val!(Tip, "Tip", p_fixed80, |a, b, v| a == b, |s| format!("{:?}", s));
val!(CommitPos, "CommitPos", p_fixed16, |a, b, v| a == b, |s| format!("{:?}", s));
val!(BlockSums, "BlockSums", p_fixed66, |a, b, v| eq_commit(&a.utxo_sum, &b.utxo_sum) && eq_commit(&a.kernel_sum, &b.kernel_sum), |s| format!("{:?}", s));
impl Val for PeerAddr {
	const NAME: &'static str = "PeerAddr";
	fn parse(p: &mut P) -> R<H32> {
		p_peeraddr(p)
	}
	fn same(&self, o: &Self, _v: u32) -> bool {
		self.0 == o.0
	}
	fn qual(&self) -> &'static str {
		// IPv6 addresses whose first 80 bits are zero and the next 16 are 0 or ffff
		match self.0 {
			SocketAddr::V6(a) => {
				let s = a.ip().segments();
				if s[..5].iter().all(|x| *x == 0) && (s[5] == 0 || s[5] == 0xffff) {
					":ipv6-in-ipv4-range"
				} else {
					""
				}
			}
			_ => "",
		}
	}
	fn show(&self) -> String {
		format!("{:?}", self.0)
	}
}
val!(PeerAddrs, "PeerAddrs", p_peeraddrs, |a, b, v| eq_vec(&a.peers, &b.peers, |x, y| x.0 == y.0), |s| format!("{} peers", s.peers.len()));
val!(Hand, "Hand", p_hand,
	|a, b, v| a.version == b.version && a.capabilities == b.capabilities && a.nonce == b.nonce && a.genesis == b.genesis && a.total_difficulty == b.total_difficulty
		&& a.sender_addr.0 == b.sender_addr.0 && a.receiver_addr.0 == b.receiver_addr.0 && a.user_agent == b.user_agent,
	|s| format!("hand v{} caps {:#x} ua {:?}", s.version.0, s.capabilities.bits(), s.user_agent));
val!(Shake, "Shake", p_shake,
	|a, b, v| a.version == b.version && a.capabilities == b.capabilities && a.genesis == b.genesis && a.total_difficulty == b.total_difficulty && a.user_agent == b.user_agent,
	|s| format!("shake v{} caps {:#x} ua {:?}", s.version.0, s.capabilities.bits(), s.user_agent));
val!(GetPeerAddrs, "GetPeerAddrs", p_getpeeraddrs, |a, b, v| a.capabilities == b.capabilities, |s| format!("getpeeraddrs {:#x}", s.capabilities.bits()));
val!(PeerError, "PeerError", p_peererror, |a, b, v| a.code == b.code && a.message == b.message, |s| format!("peererror {} {:?}", s.code, s.message));
val!(Locator, "Locator", p_locator, |a, b, v| a.hashes == b.hashes, |s| format!("locator {}", s.hashes.len()));
val!(Ping, "Ping", p_fixed16, |a, b, v| a.total_difficulty == b.total_difficulty && a.height == b.height, |s| format!("ping {} {}", s.total_difficulty.to_num(), s.height));
val!(Pong, "Pong", p_fixed16, |a, b, v| a.total_difficulty == b.total_difficulty && a.height == b.height, |s| format!("pong {} {}", s.total_difficulty.to_num(), s.height));
val!(BanReason, "BanReason", p_banreason, |a, b, v| a.ban_reason == b.ban_reason, |s| format!("{:?}", s));
val!(TxHashSetRequest, "TxHashSetRequest", p_fixed40, |a, b, v| a.hash == b.hash && a.height == b.height, |s| format!("txhashsetreq {}", s.height));
val!(TxHashSetArchive, "TxHashSetArchive", p_fixed48, |a, b, v| a.hash == b.hash && a.height == b.height && a.bytes == b.bytes, |s| format!("txhashsetarchive {} {}", s.height, s.bytes));
val!(SegmentRequest, "SegmentRequest", p_fixed41, |a, b, v| a.block_hash == b.block_hash && a.identifier == b.identifier, |s| format!("segreq {:?}", s.identifier));
val!(OutputSegmentResponse, "OutputSegmentResponse", p_outsegresp,
	|a, b, v| a.response.block_hash == b.response.block_hash && eq_seg(&a.response.segment, &b.response.segment, eq_outid) && a.output_bitmap_root == b.output_bitmap_root,
	|s| format!("outsegresp {:?}", s.response.segment.id()));
val!(OutputBitmapSegmentResponse, "OutputBitmapSegmentResponse", p_bitmapsegresp,
	|a, b, v| a.block_hash == b.block_hash && a.segment == b.segment && a.output_root == b.output_root, |s| "bitmapsegresp".to_string());
val!(SegmentResponse<RangeProof>, "SegmentResponse<RangeProof>", p_segresp_rproof,
	|a, b, v| a.block_hash == b.block_hash && eq_seg(&a.segment, &b.segment, eq_rproof), |s| format!("rpsegresp {:?}", s.segment.id()));
val!(SegmentResponse<TxKernel>, "SegmentResponse<TxKernel>", p_segresp_kernel,
	|a, b, v| a.block_hash == b.block_hash && eq_seg(&a.segment, &b.segment, eq_kernel), |s| format!("kernsegresp {:?}", s.segment.id()));

/// `Headers` has no `Readable` (the codec streams it): the wrapper reads the count and then
/// each header with the real `BlockHeader::read`; writing is the real `Headers::write`.
struct HeadersRT(Vec<BlockHeader>);
impl Writeable for HeadersRT {
	fn write<W: Writer>(&self, w: &mut W) -> Result<(), ser::Error> {
		Headers { headers: self.0.clone() }.write(w)
	}
}
impl Readable for HeadersRT {
	fn read<Rd: Reader>(r: &mut Rd) -> Result<Self, ser::Error> {
		let n = r.read_u16()?;
		let mut v = vec![];
		for _ in 0..n {
			v.push(BlockHeader::read(r)?);
		}
		Ok(HeadersRT(v))
	}
}
val!(HeadersRT, "Headers", p_headers, |a, b, v| a.0 == b.0, |s| format!("headers {}", s.0.len()));

// ------------------------------------------------------------------------------------------
// The oracle
// ------------------------------------------------------------------------------------------

fn pv(v: u32) -> ProtocolVersion {
	ProtocolVersion(v)
}

/// decode one object from the front of `b`; returns the result and the bytes consumed.
/// A panic is reported as such (never silently treated as a refusal).
fn dec<T: Readable>(b: &[u8], v: u32) -> (Result<Result<T, ser::Error>, String>, usize) {
	let mut s = b;
	let r = catch_unwind(AssertUnwindSafe(|| ser::deserialize::<T, _>(&mut s, pv(v), ser::DeserializationMode::default())));
	match r {
		Ok(x) => (Ok(x), b.len() - s.len()),
		Err(e) => {
			let m = e.downcast_ref::<String>().cloned().or_else(|| e.downcast_ref::<&str>().map(|s| s.to_string())).unwrap_or_default();
			(Err(m), 0)
		}
	}
}

fn enc<T: Writeable>(x: &T, v: u32) -> Result<Vec<u8>, ser::Error> {
	ser::ser_vec(x, pv(v))
}

/// versions of the quantifier: 1, 2, 3, local and db (deduplicated, db == 1 today)
fn versions() -> Vec<u32> {
	let mut v = vec![1, 2, 3, ProtocolVersion::local().value(), ProtocolVersion::local_db().value()];
	v.sort();
	v.dedup();
	v
}

struct Run {
	r: Report,
	part: &'static str,
	tier: Tier,
	shard: usize,
	n: usize,
	/// replay: only this unit
	only: Option<u64>,
	unit: u64,
	vers: Vec<u32>,
	ps: usize,
	nrd: bool,
	/// heavy items: every shard takes a slice of the mutation sites instead of whole units
	heavy: bool,
	slice: Option<(u64, u64)>,
	mj: u64,
}

impl Run {
	fn new(part: &'static str, tier: Tier, shard: usize, n: usize, only: Option<u64>) -> Run {
		Run { r: Report::new(), part, tier, shard, n, only, unit: 0, vers: versions(), ps: global::proofsize(), nrd: global::is_nrd_enabled(), heavy: false, slice: None, mj: 0 }
	}
	fn owns(&self, u: u64) -> bool {
		match self.only {
			Some(o) => o == u,
			None => mine(u, self.shard, self.n),
		}
	}
	fn chain(&mut self, t: ChainTypes, nrd: bool) {
		global::set_local_chain_type(t);
		global::set_local_nrd_enabled(nrd);
		self.ps = global::proofsize();
		self.nrd = nrd;
	}
	fn class(&mut self, c: String) {
		*self.r.outcomes.entry(c).or_insert(0) += 1;
	}
	/// one catalogue value: a unit of work per version; built only if this shard owns a unit.
	/// Heavy values are built by every shard: the owner of the unit judges the round trip, the
	/// mutation sites are dealt out over all shards.
	fn item<T: Val>(&mut self, muts: bool, build: impl FnOnce() -> T) {
		let vers = self.vers.clone();
		let first = self.unit;
		self.unit += vers.len() as u64;
		let spread = self.heavy && self.only.is_none() && self.n > 1;
		if !spread && !(0..vers.len() as u64).any(|k| self.owns(first + k)) {
			return;
		}
		let x = build();
		for (k, v) in vers.iter().enumerate() {
			let unit = first + k as u64;
			let owner = self.owns(unit);
			if !spread && !owner {
				continue;
			}
			let got = if owner {
				self.roundtrip(&x, *v, unit)
			} else {
				// same checks, verdicts and counters discarded (the owner reports them)
				let saved = std::mem::take(&mut self.r);
				let g = self.roundtrip(&x, *v, unit);
				self.r = saved;
				g
			};
			if let (true, Some((b, map))) = (muts, got) {
				self.slice = if spread { Some((self.shard as u64, self.n as u64)) } else { None };
				self.mj = 0;
				self.mutate::<T>(&b, &map, *v, unit);
			}
		}
	}
	fn slot(&mut self) -> bool {
		let j = self.mj;
		self.mj += 1;
		match self.slice {
			None => true,
			Some((s, n)) => j % n == s,
		}
	}
	fn case(&self, unit: u64, ty: &str, v: u32, extra: Value) -> Value {
		let mut c = json!({"part": self.part, "tier": self.tier.name(), "unit": unit, "type": ty, "version": v});
		if let (Some(m), Some(e)) = (c.as_object_mut(), extra.as_object()) {
			for (k, x) in e {
				m.insert(k.clone(), x.clone());
			}
		}
		c
	}
	fn has(&self, key: &str) -> bool {
		self.r.violations.iter().any(|v| v.key == key)
	}
	fn viol(&mut self, key: String, what: String, mut case: Value) {
		case["key"] = json!(key);
		self.r.violation(key, what, case);
	}

	/// the round-trip / layout / hash oracle; Some((encoding, map)) when everything held
	fn roundtrip<T: Val>(&mut self, x: &T, v: u32, unit: u64) -> Option<(Vec<u8>, Map)> {
		let ty = T::NAME;
		self.r.evaluations += 1;
		let b = match enc(x, v) {
			Ok(b) => b,
			Err(e) => {
				if !x.carried(v) {
					self.class(format!("roundtrip:version-cannot-carry({:?})", e));
				} else {
					let c = self.case(unit, ty, v, json!({"value": x.show()}));
					self.viol(format!("roundtrip:encode-failed:{}{}", ty, x.qual()), format!("{} ({}) does not encode at version {}: {:?}", ty, x.show(), v, e), c);
				}
				return None;
			}
		};
		self.r.distinct += 1;
		let hx = if b.len() <= 6000 { hex(&b) } else { format!("{}..({} bytes)", hex(&b[..64]), b.len()) };
		let base = json!({"value": x.show(), "hex": hx});
		// reference layout
		let mut p = P::new(&b, v, self.ps, self.nrd);
		let refhash = match T::parse(&mut p) {
			Ok(h) if p.pos == b.len() => h,
			Ok(_) => {
				let c = self.case(unit, ty, v, base.clone());
				self.viol(format!("layout:{}", ty), format!("{} at version {}: the documented layout ends at byte {} but the encoding has {}", ty, v, p.pos, b.len()), c);
				return None;
			}
			Err(e) => {
				let c = self.case(unit, ty, v, base.clone());
				self.viol(format!("layout:{}", ty), format!("{} at version {}: encoding does not follow the documented layout: {}", ty, v, e), c);
				return None;
			}
		};
		let map = p.map;
		// round trip
		let (res, used) = dec::<T>(&b, v);
		let y = match res {
			Ok(Ok(y)) => y,
			Ok(Err(e)) => {
				let c = self.case(unit, ty, v, base.clone());
				self.viol(format!("roundtrip:decode-refused:{}{}", ty, x.qual()), format!("{} ({}) encoded at version {} is refused by its own decoder: {:?}", ty, x.show(), v, e), c);
				return None;
			}
			Err(m) => {
				let c = self.case(unit, ty, v, base.clone());
				self.viol(format!("roundtrip:decode-panicked:{}{}", ty, x.qual()), format!("{} ({}) at version {}: decoder panicked: {}", ty, x.show(), v, m), c);
				return None;
			}
		};
		let mut ok = true;
		if used != b.len() {
			ok = false;
			let c = self.case(unit, ty, v, base.clone());
			self.viol(format!("roundtrip:partial-read:{}{}", ty, x.qual()), format!("{} at version {}: decoder consumed {} of {} bytes of its own encoding", ty, v, used, b.len()), c);
		}
		if !x.same(&y, v) {
			ok = false;
			let c = self.case(unit, ty, v, base.clone());
			self.viol(format!("roundtrip:value-changed:{}{}", ty, x.qual()), format!("{} at version {}: {} decodes to a different value {}", ty, v, x.show(), y.show()), c);
		}
		match enc(&y, v) {
			Ok(b2) if b2 == b => {}
			other => {
				ok = false;
				let c = self.case(unit, ty, v, base.clone());
				self.viol(format!("roundtrip:reencode-differs:{}{}", ty, x.qual()), format!("{} at version {}: re-encoding the decoded value gives {:?} bytes, not the identical {}", ty, v, other.map(|b| b.len()), b.len()), c);
			}
		}
		// identity hash: unchanged by the round trip, equal to the reference, same through every version
		if let Some(h) = x.idhash() {
			if y.idhash() != Some(h) {
				ok = false;
				let c = self.case(unit, ty, v, base.clone());
				self.viol(format!("hash:changed-by-roundtrip:{}", ty), format!("{} at version {}: hash {:?} before, {:?} after the round trip", ty, v, h, y.idhash()), c);
			}
			if h.as_bytes() != &refhash[..] {
				ok = false;
				let c = self.case(unit, ty, v, base.clone());
				self.viol(format!("hash:differs-from-reference:{}", ty), format!("{} ({}): Hashed::hash = {} but blake2b of the version-1 identity layout = {}", ty, x.show(), hex(h.as_bytes()), hex(&refhash)), c);
			}
			for w in self.vers.clone() {
				if w == v || !y.carried(w) {
					continue;
				}
				self.r.evaluations += 1;
				let hz = enc(&y, w).ok().and_then(|bw| match dec::<T>(&bw, w).0 {
					Ok(Ok(z)) => z.idhash(),
					_ => None,
				});
				if hz != Some(h) {
					ok = false;
					let c = self.case(unit, ty, v, base.clone());
					self.viol(format!("hash:version-dependent:{}", ty), format!("{}: hash {:?} when carried at version {}, {:?} after re-transmission at version {}", ty, h, v, hz, w), c);
				} else {
					self.class("hash:invariant-across-versions".into());
				}
			}
		}
		self.class(if ok { format!("roundtrip:ok:v{}", v) } else { "roundtrip:VIOLATED".into() });
		if self.r.samples.len() < 2 {
			self.r.sample(json!({"type": ty, "version": v, "value": x.show(), "bytes": b.len(), "sites": map.sites.len(), "lists": map.lists.len(), "hex": hex(&b[..b.len().min(48)])}));
		}
		if ok {
			Some((b, map))
		} else {
			None
		}
	}

	/// decode a perturbed encoding and judge it
	fn judge<T: Val>(&mut self, m: &[u8], v: u32, unit: u64, mutation: &str, site: &'static str, path: &str, must_refuse: Option<&str>) {
		// violation keys use the operator family, so that one root cause has one key
		let fam = match mutation {
			"reserved-bit-set" | "reserved-bits-all-set" => "reserved-bits",
			"swap-adjacent" | "swap-adjacent-with-items" => "unsorted",
			o => o,
		};
		self.r.evaluations += 1;
		self.r.distinct += 1;
		let (res, used) = dec::<T>(m, v);
		let mk = |s: &Run| {
			let hx = if m.len() <= 6000 { hex(m) } else { format!("{}..({} bytes)", hex(&m[..64]), m.len()) };
			s.case(unit, T::NAME, v, json!({"mutation": mutation, "site": site, "path": path, "hex": hx}))
		};
		match res {
			Err(msg) => {
				self.class(format!("{}:VIOLATION(panicked)", mutation));
				let c = mk(self);
				self.viol(format!("panic:{}:{}", fam, site), format!("{} v{} {} at {} ({}): decoder panicked: {}", T::NAME, v, mutation, site, path, msg), c);
			}
			Ok(Err(e)) => {
				if self.r.samples.len() < 4 && (mutation == "swap-adjacent" || mutation == "tag-unknown") {
					self.r.sample(json!({"type": T::NAME, "version": v, "mutation": mutation, "site": site, "path": path, "bytes": m.len(), "verdict": format!("refused: {:?}", e)}));
				}
				self.class(format!("{}:refused", mutation))
			}
			Ok(Ok(y)) => {
				let re = enc(&y, v);
				let canonical = match &re {
					Ok(b2) => b2[..] == m[..used],
					Err(_) => false,
				};
				if !canonical {
					self.class(format!("{}:VIOLATION(normalised)", mutation));
					if self.has(&format!("normalised:{}:{}", fam, site)) {
						return;
					}
					let c = mk(self);
					self.viol(
						format!("normalised:{}:{}", fam, site),
						format!("{} v{}: encoding with {} at {} ({}) is accepted as {} and re-encodes to different bytes ({} read, {:?} written): normalised instead of refused", T::NAME, v, mutation, site, path, y.show(), used, re.map(|b| b.len())),
						c,
					);
				} else if let Some(rule) = must_refuse {
					self.class(format!("{}:VIOLATION(accepted)", mutation));
					if self.has(&format!("accepted:{}:{}", fam, site)) {
						return;
					}
					let c = mk(self);
					self.viol(
						format!("accepted:{}:{}", fam, site),
						format!("{} v{}: encoding with {} at {} ({}) breaks the rule \"{}\" but is accepted (as {})", T::NAME, v, mutation, site, path, rule, y.show()),
						c,
					);
				} else if used == m.len() {
					self.class(format!("{}:accepted-as-another-canonical-value", mutation));
				} else {
					self.class(format!("{}:accepted-shorter-object(trailing-bytes-unread)", mutation));
				}
			}
		}
	}

	fn mutate<T: Val>(&mut self, b: &[u8], map: &Map, v: u32, unit: u64) {
		// --- sorted lists: swap two adjacent entries, duplicate an entry (count fixed up)
		for l in &map.lists {
			if !l.sorted {
				continue;
			}
			let n = l.elems.len();
			for i in 0..n.saturating_sub(1) {
				if !self.slot() {
					continue;
				}
				let m = swap(b, l.elems[i], l.elems[i + 1]);
				self.judge::<T>(&m, v, unit, "swap-adjacent", l.label, &l.path, Some("entries are sorted"));
				if !l.par.is_empty() {
					let m2 = swap(&m, l.par[i], l.par[i + 1]);
					self.judge::<T>(&m2, v, unit, "swap-adjacent-with-items", l.label, &l.path, Some("entries are sorted"));
				}
			}
			for i in 0..n {
				if !self.slot() {
					continue;
				}
				let cs = &map.sites[l.count];
				let cur = be_read(&b[cs.off..cs.off + cs.len]);
				let mut edits = vec![(cs.off, cs.len, be_write(cur.wrapping_add(1), cs.len)), (l.elems[i].0 + l.elems[i].1, 0, b[l.elems[i].0..l.elems[i].0 + l.elems[i].1].to_vec())];
				if !l.par.is_empty() {
					edits.push((l.par[i].0 + l.par[i].1, 0, b[l.par[i].0..l.par[i].0 + l.par[i].1].to_vec()));
				}
				let m = apply(b, edits);
				self.judge::<T>(&m, v, unit, "duplicate-entry", l.label, &l.path, Some("entries are unique"));
			}
		}
		for s in &map.sites {
			match &s.kind {
				Kind::Count => {
					let cur = be_read(&b[s.off..s.off + s.len]);
					for (name, nv) in [("count+1", cur.wrapping_add(1)), ("count-1", cur.wrapping_sub(1))] {
						if !self.slot() {
							continue;
						}
						let mut m = b.to_vec();
						m[s.off..s.off + s.len].copy_from_slice(&be_write(nv, s.len));
						self.judge::<T>(&m, v, unit, name, s.label, &s.path, None);
					}
				}
				Kind::Tag(known) => {
					for t in 0..=255u8 {
						if t == b[s.off] || !self.slot() {
							continue;
						}
						let mut m = b.to_vec();
						m[s.off] = t;
						if known.contains(&t) {
							self.judge::<T>(&m, v, unit, "tag-known", s.label, &s.path, None);
						} else {
							self.judge::<T>(&m, v, unit, "tag-unknown", s.label, &s.path, Some("unknown tags are refused"));
						}
					}
				}
				Kind::Reserved(mask) => {
					for (i, mk) in mask.iter().enumerate() {
						for bit in 0..8 {
							if mk & (1 << bit) != 0 && self.slot() {
								let mut m = b.to_vec();
								m[s.off + i] |= 1 << bit;
								self.judge::<T>(&m, v, unit, "reserved-bit-set", s.label, &s.path, Some("reserved/padding bits are zero"));
							}
						}
					}
					if self.slot() {
						let mut m = b.to_vec();
						for (i, mk) in mask.iter().enumerate() {
							m[s.off + i] |= mk;
						}
						self.judge::<T>(&m, v, unit, "reserved-bits-all-set", s.label, &s.path, Some("reserved/padding bits are zero"));
					}
				}
				Kind::Bounded(lo, hi) => {
					let max = if s.len >= 8 { u64::MAX } else { (1u64 << (8 * s.len)) - 1 };
					let mut vals = vec![];
					if *lo > 0 {
						vals.push(lo - 1);
						vals.push(0);
					}
					if *hi < max {
						vals.push(hi + 1);
						vals.push(max);
					}
					vals.sort();
					vals.dedup();
					for x in vals {
						if !self.slot() {
							continue;
						}
						let mut m = b.to_vec();
						m[s.off..s.off + s.len].copy_from_slice(&be_write(x, s.len));
						self.judge::<T>(&m, v, unit, "out-of-range", s.label, &s.path, Some("field is within its defined range"));
					}
				}
			}
		}
	}
}

/// `Difficulty::from_num` clamps to 1: the value 0 needs its own constructor to be in the catalogue
fn diff_of(x: u64) -> Difficulty {
	if x == 0 {
		Difficulty::zero()
	} else {
		Difficulty::from_num(x)
	}
}

fn be_read(s: &[u8]) -> u64 {
	s.iter().fold(0u64, |a, x| (a << 8) | *x as u64)
}
fn be_write(x: u64, width: usize) -> Vec<u8> {
	x.to_be_bytes()[8 - width..].to_vec()
}
/// swap two non-overlapping byte ranges (a before b)
fn swap(b: &[u8], x: (usize, usize), y: (usize, usize)) -> Vec<u8> {
	let mut m = Vec::with_capacity(b.len());
	m.extend_from_slice(&b[..x.0]);
	m.extend_from_slice(&b[y.0..y.0 + y.1]);
	m.extend_from_slice(&b[x.0 + x.1..y.0]);
	m.extend_from_slice(&b[x.0..x.0 + x.1]);
	m.extend_from_slice(&b[y.0 + y.1..]);
	m
}
/// (offset, remove, insert) edits
fn apply(b: &[u8], mut edits: Vec<(usize, usize, Vec<u8>)>) -> Vec<u8> {
	edits.sort_by(|a, b| b.0.cmp(&a.0));
	let mut m = b.to_vec();
	for (off, rem, ins) in edits {
		m.splice(off..off + rem, ins);
	}
	m
}

// ------------------------------------------------------------------------------------------
// Catalogue builders (sorting uses the reference hashes computed here, not grin's Ord)
// ------------------------------------------------------------------------------------------

fn kfeat_v1(f: &KernelFeatures) -> Vec<u8> {
	let mut o = vec![];
	match f {
		KernelFeatures::Plain { fee } => {
			o.push(0);
			o.extend_from_slice(&u64::from(*fee).to_be_bytes());
			o.extend_from_slice(&[0u8; 8]);
		}
		KernelFeatures::Coinbase => {
			o.push(1);
			o.extend_from_slice(&[0u8; 16]);
		}
		KernelFeatures::HeightLocked { fee, lock_height } => {
			o.push(2);
			o.extend_from_slice(&u64::from(*fee).to_be_bytes());
			o.extend_from_slice(&lock_height.to_be_bytes());
		}
		KernelFeatures::NoRecentDuplicate { fee, relative_height } => {
			o.push(3);
			o.extend_from_slice(&u64::from(*fee).to_be_bytes());
			o.extend_from_slice(&u64::from(*relative_height).to_be_bytes());
		}
	}
	o
}
fn rh_kernel(k: &TxKernel) -> H32 {
	let mut o = kfeat_v1(&k.features);
	o.extend_from_slice(&k.excess.0);
	o.extend_from_slice(&k.excess_sig.to_raw_data());
	b2(&o)
}
fn rh_outid(f: OutputFeatures, c: &Commitment) -> H32 {
	let mut o = vec![f as u8];
	o.extend_from_slice(&c.0);
	b2(&o)
}

fn fee_fields() -> Vec<FeeFields> {
	let mut v = vec![];
	for fee in [1u64, (1u64 << 40) - 1] {
		for shift in [0u64, 15] {
			v.push(FeeFields::new(shift, fee).unwrap());
		}
	}
	v
}
/// 4 variants x fee {1, 2^40-1} x fee_shift {0, 15} x lock_height {0, 1, max} x relative_height {1, 10080}
fn kernel_features(nrd: bool) -> Vec<KernelFeatures> {
	let mut v = vec![KernelFeatures::Coinbase];
	for fee in fee_fields() {
		v.push(KernelFeatures::Plain { fee });
		for lock_height in [0u64, 1, u64::MAX] {
			v.push(KernelFeatures::HeightLocked { fee, lock_height });
		}
		if nrd {
			for rh in [1u64, 10_080] {
				v.push(KernelFeatures::NoRecentDuplicate { fee, relative_height: NRDRelativeHeight::new(rh).unwrap() });
			}
		}
	}
	v
}
fn kernel(f: KernelFeatures, n: u64) -> TxKernel {
	TxKernel { features: f, excess: commit("kex", n), excess_sig: sig("ksig", n) }
}
fn kernels(nrd: bool) -> Vec<TxKernel> {
	kernel_features(nrd).into_iter().enumerate().map(|(i, f)| kernel(f, i as u64)).collect()
}
fn input(n: u64) -> Input {
	Input::new(if n % 2 == 0 { OutputFeatures::Plain } else { OutputFeatures::Coinbase }, commit("in", n))
}
fn output(n: u64, f: OutputFeatures) -> Output {
	Output::new(f, commit("out", n), rproof("rp", n))
}
fn inputs_of(n: usize, commit_only: bool, salt: u64) -> Inputs {
	let mut v: Vec<Input> = (0..n as u64).map(|i| input(salt * 16 + i)).collect();
	if commit_only {
		let mut c: Vec<CommitWrapper> = v.iter().map(|i| CommitWrapper::from(i.commit)).collect();
		c.sort_by_key(|x| b2(&x.commitment().0));
		Inputs::CommitOnly(c)
	} else {
		v.sort_by_key(|x| rh_outid(x.features, &x.commit));
		Inputs::FeaturesAndCommit(v)
	}
}
fn body_of(inputs: Inputs, mut outputs: Vec<Output>, mut kerns: Vec<TxKernel>) -> TransactionBody {
	outputs.sort_by_key(|x| rh_outid(x.identifier.features, &x.identifier.commit));
	kerns.sort_by_key(rh_kernel);
	TransactionBody { inputs, outputs, kernels: kerns }
}
fn offset3(i: usize) -> BlindingFactor {
	match i {
		0 => BlindingFactor::zero(),
		1 => BlindingFactor::from_slice(&rnd("offset", 1, 32)),
		_ => BlindingFactor::from_slice(&[0xff; 32]),
	}
}
fn ts(secs: i64) -> DateTime<Utc> {
	DateTime::<Utc>::from_timestamp(secs, 0).expect("timestamp in range")
}
fn ts_min() -> i64 {
	chrono::NaiveDate::MIN.and_hms_opt(0, 0, 0).unwrap().and_utc().timestamp()
}
fn ts_max() -> i64 {
	chrono::NaiveDate::MAX.and_hms_opt(0, 0, 0).unwrap().and_utc().timestamp()
}
/// nonce patterns within edge_bits
fn nonces(eb: u8, ps: usize, pat: usize) -> Vec<u64> {
	let mask = (1u64 << eb) - 1;
	(0..ps as u64)
		.map(|i| match pat {
			0 => 0,
			1 => mask,
			2 => (i + 1) & mask,
			_ => be_read(&rnd("nonce", i * 64 + eb as u64, 8)) & mask,
		})
		.collect()
}
fn base_header(eb: u8, ps: usize, pat: usize) -> BlockHeader {
	BlockHeader {
		version: HeaderVersion(3),
		height: (1u64 << 32) + 12_345,
		prev_hash: hash3(1),
		prev_root: hsh("prev_root", 1),
		timestamp: ts(1_600_000_000),
		output_root: hsh("output_root", 1),
		range_proof_root: hsh("rp_root", 1),
		kernel_root: hsh("kernel_root", 1),
		total_kernel_offset: offset3(1),
		output_mmr_size: (1u64 << 33) + 7,
		kernel_mmr_size: (1u64 << 31) + 3,
		pow: ProofOfWork {
			total_difficulty: diff_of((1u64 << 40) + 99),
			secondary_scaling: 1856,
			nonce: (1u64 << 50) + 5,
			proof: Proof { edge_bits: eb, nonces: nonces(eb, ps, pat) },
		},
	}
}
const HEADER_FIELDS: usize = 14;
/// field `f` of the base header set to its {0, mid, max} value `k` (mid = base)
fn header_variant(eb: u8, ps: usize, f: usize, k: usize) -> BlockHeader {
	let mut h = base_header(eb, ps, 3);
	let u = |k: usize| match k {
		0 => 0u64,
		1 => (1u64 << 32) + 77,
		_ => u64::MAX,
	};
	match f {
		0 => h.version = HeaderVersion([0u16, 3, u16::MAX][k]),
		1 => h.height = u(k),
		2 => h.timestamp = ts([ts_min(), 0, ts_max()][k]),
		3 => h.prev_hash = hash3(k),
		4 => h.prev_root = hash3(k),
		5 => h.output_root = hash3(k),
		6 => h.range_proof_root = hash3(k),
		7 => h.kernel_root = hash3(k),
		8 => h.total_kernel_offset = offset3(k),
		9 => h.output_mmr_size = u(k),
		10 => h.kernel_mmr_size = u(k),
		11 => h.pow.total_difficulty = diff_of(u(k)),
		12 => h.pow.secondary_scaling = [0u32, 1856, u32::MAX][k],
		_ => h.pow.nonce = u(k),
	}
	h
}
fn header_all(eb: u8, ps: usize, k: usize) -> BlockHeader {
	let mut h = header_variant(eb, ps, 0, k);
	for f in 1..HEADER_FIELDS {
		let o = header_variant(eb, ps, f, k);
		match f {
			1 => h.height = o.height,
			2 => h.timestamp = o.timestamp,
			3 => h.prev_hash = o.prev_hash,
			4 => h.prev_root = o.prev_root,
			5 => h.output_root = o.output_root,
			6 => h.range_proof_root = o.range_proof_root,
			7 => h.kernel_root = o.kernel_root,
			8 => h.total_kernel_offset = o.total_kernel_offset,
			9 => h.output_mmr_size = o.output_mmr_size,
			10 => h.kernel_mmr_size = o.kernel_mmr_size,
			11 => h.pow.total_difficulty = o.pow.total_difficulty,
			12 => h.pow.secondary_scaling = o.pow.secondary_scaling,
			_ => h.pow.nonce = o.pow.nonce,
		}
	}
	h.pow.proof.nonces = nonces(eb, ps, [0, 3, 1][k]);
	h
}

/// a compact block with chosen nonce and short ids: its fields are private, so the value is
/// obtained by decoding an encoding assembled here from the documented layout
fn cblock_bytes(h: &BlockHeader, nonce: u64, mut outs: Vec<Output>, mut kerns: Vec<TxKernel>, mut ids: Vec<ShortId>, v: u32) -> Vec<u8> {
	outs.sort_by_key(|x| rh_outid(x.identifier.features, &x.identifier.commit));
	kerns.sort_by_key(rh_kernel);
	ids.sort_by_key(|x| b2(x.as_ref()));
	let mut b = enc(h, v).expect("header");
	b.extend_from_slice(&nonce.to_be_bytes());
	for n in [outs.len(), kerns.len(), ids.len()] {
		b.extend_from_slice(&(n as u64).to_be_bytes());
	}
	for o in &outs {
		b.extend_from_slice(&enc(o, v).expect("output"));
	}
	for k in &kerns {
		b.extend_from_slice(&enc(k, v).expect("kernel"));
	}
	for i in &ids {
		b.extend_from_slice(i.as_ref());
	}
	b
}
fn segproof(n: usize, salt: u64) -> SegmentProof {
	let mut b = (n as u64).to_be_bytes().to_vec();
	for i in 0..n {
		b.extend_from_slice(&rnd("segproof", salt * 64 + i as u64, 32));
	}
	match dec::<SegmentProof>(&b, 1).0 {
		Ok(Ok(p)) => p,
		_ => panic!("segment proof from its documented layout"),
	}
}
/// 0-based ascending positions; `big` puts the last one near the top of the u64 range
fn positions(n: usize, big: bool) -> Vec<u64> {
	let mut v: Vec<u64> = [0u64, 1, 3, 4, 7, 8, 10, 11].iter().cloned().take(n).collect();
	if big && n > 0 {
		v[n - 1] = u64::MAX - 1;
	}
	v
}
fn segment<T>(h: u8, idx: u64, nh: usize, leaves: Vec<T>, np: usize, big: bool) -> Segment<T> {
	let hp = positions(nh, big);
	let hashes: Vec<Hash> = (0..nh).map(|i| hsh("seghash", i as u64)).collect();
	let lp: Vec<u64> = positions(leaves.len(), big).into_iter().map(|p| p.saturating_add(if big { 0 } else { 15 })).collect();
	Segment::from_parts(SegmentIdentifier { height: h, idx }, hp, hashes, lp, leaves, segproof(np, nh as u64))
}
/// `k` bits set (spread by an odd stride) in a bitmap of `chunks` 1024-bit chunks
fn bitmap_segment(height: u8, idx: u64, chunks: usize, k: usize, np: usize) -> BitmapSegment {
	let nbits = chunks * 1024;
	let mut cs: Vec<BitmapChunk> = (0..chunks).map(|_| BitmapChunk::new()).collect();
	for j in 0..k {
		let pos = (j * 40_503) % nbits;
		cs[pos / 1024].set((pos % 1024) as u64, true);
	}
	let lp: Vec<u64> = (0..chunks as u64).map(|i| grin_core::core::pmmr::insertion_to_pmmr_index(idx * (1u64 << height) + i)).collect();
	let seg = Segment::from_parts(SegmentIdentifier { height, idx }, vec![], vec![], lp, cs, segproof(np, 99));
	BitmapSegment::from(seg)
}
fn addr(i: usize) -> PeerAddr {
	PeerAddr(match i {
		0 => SocketAddr::V4(SocketAddrV4::new(Ipv4Addr::new(0, 0, 0, 0), 0)),
		1 => SocketAddr::V4(SocketAddrV4::new(Ipv4Addr::new(127, 0, 0, 1), 3414)),
		2 => SocketAddr::V4(SocketAddrV4::new(Ipv4Addr::new(255, 255, 255, 255), u16::MAX)),
		3 => SocketAddr::V6(SocketAddrV6::new(Ipv6Addr::new(0x2001, 0xdb8, 0, 0, 0, 0, 0, 1), 3414, 0, 0)),
		4 => SocketAddr::V6(SocketAddrV6::new(Ipv6Addr::new(0xffff, 0xffff, 0xffff, 0xffff, 0xffff, 0xffff, 0xffff, 0xffff), u16::MAX, 0, 0)),
		_ => SocketAddr::V6(SocketAddrV6::new(Ipv6Addr::new(0xfe80, 0, 0, 0, 0x1234, 0x5678, 0x9abc, 0xdef0), 1, 0, 0)),
	})
}

// ------------------------------------------------------------------------------------------
// Parts
// ------------------------------------------------------------------------------------------

/// kernels of all variants, inputs in both encodings, outputs, identifiers, range proofs
fn part_elements(run: &mut Run) {
	// NRD enabled: all four kernel variants
	run.chain(ChainTypes::AutomatedTesting, true);
	for k in kernels(true) {
		run.item(true, || k);
	}
	// extreme excess / signature bytes
	for (i, f) in kernel_features(true).into_iter().enumerate() {
		if i % 6 == 0 {
			run.item(true, || TxKernel::with_features(f));
			run.item(true, || TxKernel { features: f, excess: Commitment::from_vec(vec![0xff; 33]), excess_sig: Signature::from_raw_data(&[0xff; 64]).unwrap() });
		}
	}
	// NRD disabled: variant 3 is not defined and must be refused at every version
	run.chain(ChainTypes::AutomatedTesting, false);
	for k in kernels(false) {
		run.item(true, || k);
	}
	run.chain(ChainTypes::AutomatedTesting, true);
	for n in 0..4u64 {
		run.item(true, || input(n));
		run.item(true, || CommitWrapper::from(commit("in", n)));
		run.item(true, || OutputIdentifier::new(if n < 2 { OutputFeatures::Plain } else { OutputFeatures::Coinbase }, &commit("oid", n)));
		run.item(true, || output(n, if n % 2 == 0 { OutputFeatures::Plain } else { OutputFeatures::Coinbase }));
		run.item(true, || rproof("rp", n));
	}
	run.item(true, || Input::new(OutputFeatures::Plain, Commitment::from_vec(vec![0; 33])));
	run.item(true, || Input::new(OutputFeatures::Coinbase, Commitment::from_vec(vec![0xff; 33])));
	run.item(true, || RangeProof { proof: [0xff; MAX_PROOF_SIZE], plen: 675 });
	run.item(true, || RangeProof { proof: [0; MAX_PROOF_SIZE], plen: 675 });
}

/// bodies 0..3 inputs (both encodings) x 1..3 outputs x 1..3 kernels, transactions, blocks,
/// compact blocks; thorough goes to 4/4/4, all kernel rotations and the maximal-weight bodies
fn part_bodies(run: &mut Run) {
	run.chain(ChainTypes::AutomatedTesting, true);
	let all = kernels(true);
	let nocb: Vec<TxKernel> = all.iter().cloned().filter(|k| !k.is_coinbase()).collect();
	let step = run.tier.pick(3, 1);
	let pick = |set: &Vec<TxKernel>, s: usize, n: usize| -> Vec<TxKernel> { (0..n).map(|j| set[(s + j * 7) % set.len()]).collect() };
	let outs = |n: usize, salt: u64, cb: bool| -> Vec<Output> {
		(0..n as u64).map(|i| output(salt * 8 + i, if cb && i == 0 { OutputFeatures::Coinbase } else { OutputFeatures::Plain })).collect()
	};
	let maxn = run.tier.pick(3usize, 4);
	for ni in 0..=maxn {
		for co in [false, true] {
			for no in 1..=maxn {
				for nk in 1..=maxn {
					for s in (0..all.len()).step_by(step) {
						let salt = (ni * 100 + no * 10 + nk) as u64;
						run.item(true, || body_of(inputs_of(ni, co, salt), outs(no, salt, true), pick(&all, s, nk)));
					}
					for s in (0..nocb.len()).step_by(step) {
						let salt = (ni * 100 + no * 10 + nk) as u64 + 1000;
						run.item(true, || Transaction { offset: offset3(s % 3), body: body_of(inputs_of(ni, co, salt), outs(no, salt, false), pick(&nocb, s, nk)) });
					}
				}
			}
		}
	}
	// blocks: header variants x bodies (coinbase output and kernel included)
	for hk in 0..3usize {
		for ni in [0usize, 2, 3] {
			for co in [false, true] {
				for (no, nk) in [(1usize, 1usize), (2, 3), (3, 2)] {
					for s in (0..all.len()).step_by(run.tier.pick(8, 2)) {
						let salt = (ni * 100 + no * 10 + nk) as u64 + 2000;
						run.item(true, || {
							let mut k = pick(&nocb, s, nk - 1);
							k.push(all[0]);
							Block { header: header_all(10 + (s as u8 % 50), 8, hk), body: body_of(inputs_of(ni, co, salt), outs(no, salt, true), k) }
						});
					}
				}
			}
		}
	}
	// real objects: network-shaped genesis (real coinbase proof and signature) and a real transaction
	run.item(true, || crate::uni::genesis(&crate::uni::keychain(1)));
	run.item(true, || crate::uni::spend_coinbase(&crate::uni::keychain(1), 1, crate::uni::REWARD, &[(100, crate::uni::REWARD / 2), (101, crate::uni::REWARD / 2 - 1_000_000)], 1));
	// the empty body (Block::default shape) and a block without inputs/outputs/kernels
	run.item(true, TransactionBody::empty);
	run.item(true, || Block { header: base_header(10, 8, 2), body: TransactionBody::empty() });
	// compact blocks: with/without full outputs and kernels, 0..3 short ids, nonce {0, mid, max}
	for (nn, nonce) in [0u64, (1 << 40) + 17, u64::MAX].iter().enumerate() {
		for no in 0..=2usize {
			for nk in 0..=2usize {
				for nid in 0..=3usize {
					let (ps, nrd) = (run.ps, run.nrd);
					let _ = (ps, nrd);
					run.item(true, || {
						let h = header_all(10 + ((no * 7 + nk * 3 + nid) as u8), 8, nn);
						let ids: Vec<ShortId> = (0..nid as u64).map(|i| ShortId::from_bytes(&rnd("shortid", i + 10 * nn as u64, 6))).collect();
						let ks: Vec<TxKernel> = (0..nk).map(|j| if j == 0 { all[0] } else { all[3 + no + nid] }).collect();
						let b = cblock_bytes(&h, *nonce, outs(no, 77, true), ks, ids, 1);
						match dec::<CompactBlock>(&b, 1).0 {
							Ok(Ok(cb)) => cb,
							o => panic!("compact block assembled from the documented layout is refused: {:?}", o.map(|r| r.map(|_| ()))),
						}
					});
				}
			}
		}
	}
	if run.tier == Tier::Thorough {
		// maximal weights under this chain type: tx 226 = 10 outputs + 5 kernels + 1 input,
		// block 250 = 11 outputs + 6 kernels + 1 input
		run.heavy = true;
		for co in [false, true] {
			run.item(true, || Transaction { offset: offset3(1), body: body_of(inputs_of(1, co, 900), outs(10, 900, false), pick(&nocb, 1, 5)) });
			run.item(true, || {
				let mut k = pick(&nocb, 2, 5);
				k.push(all[0]);
				Block { header: base_header(29, 8, 3), body: body_of(inputs_of(1, co, 901), outs(11, 901, true), k) }
			});
			run.item(true, || body_of(inputs_of(3, co, 902), outs(3, 902, true), pick(&all, 0, 3)));
		}
	}
}

/// proofs and headers: every edge_bits 10..63 at proof sizes 8 and 42, each header field at {0, mid, max}
fn part_headers(run: &mut Run) {
	for (ct, ps) in [(ChainTypes::AutomatedTesting, 8usize), (ChainTypes::Mainnet, 42usize)] {
		run.chain(ct, true);
		assert_eq!(run.ps, ps);
		for eb in 10u8..=63 {
			for pat in 0..4 {
				run.item(true, || Proof { edge_bits: eb, nonces: nonces(eb, ps, pat) });
			}
			run.item(true, || base_header(eb, ps, 2).pow);
			for f in 0..HEADER_FIELDS {
				for k in [0usize, 2] {
					run.item(true, || header_variant(eb, ps, f, k));
				}
			}
			for k in 0..3 {
				run.item(true, || header_all(eb, ps, k));
			}
		}
	}
	run.chain(ChainTypes::AutomatedTesting, true);
}

/// Segment<T> for the three wire element types, SegmentProof, BitmapSegment in all three
/// block serialisation modes and at the mode thresholds
fn part_segments(run: &mut Run) {
	run.chain(ChainTypes::AutomatedTesting, true);
	let ks = kernels(true);
	for np in [0usize, 1, 3, 8] {
		run.item(true, || segproof(np, 5));
	}
	for (h, idx) in [(0u8, 0u64), (11, 1 << 40), (255, u64::MAX)] {
		run.item(true, || SegmentIdentifier { height: h, idx });
	}
	let mut c = 0usize;
	for nh in [0usize, 1, 3] {
		for nl in [0usize, 1, 2, 4] {
			for np in [0usize, 1, 3] {
				for big in [false, true] {
					c += 1;
					let (h, idx) = if big { (13u8, u64::MAX) } else { ((c % 12) as u8, c as u64) };
					run.item(true, || segment(h, idx, nh, (0..nl as u64).map(|i| OutputIdentifier::new(if i % 2 == 0 { OutputFeatures::Plain } else { OutputFeatures::Coinbase }, &commit("segout", i))).collect(), np, big));
					run.item(true, || segment(h, idx, nh, (0..nl as u64).map(|i| rproof("segrp", i)).collect(), np, big));
					run.item(true, || segment(h, idx, nh, (0..nl).map(|i| ks[(c * 5 + i * 7) % ks.len()]).collect(), np, big));
				}
			}
		}
	}
	// (height, chunks, bits set): Positive < 4096 set; Negative < 4096 unset; Raw otherwise
	let mut bm: Vec<(u8, usize, usize)> = vec![
		(0, 1, 0), (0, 1, 1), (0, 1, 3), (0, 1, 1024),
		(3, 5, 0), (3, 5, 1), (3, 5, 4095), (3, 5, 4096), (3, 5, 5119), (3, 5, 5120),
		(3, 8, 4095), (3, 8, 4096), (3, 8, 4097), (3, 8, 8192),
		(6, 64, 0), (6, 64, 3), (6, 64, 30_000), (6, 64, 65_533), (6, 64, 65_536),
		(7, 65, 3), (7, 65, 40_000), (8, 130, 5),
	];
	if run.tier == Tier::Thorough {
		bm.extend_from_slice(&[(6, 64, 4095), (6, 64, 4096), (6, 64, 61_440), (6, 64, 61_441), (13, 64, 4095), (7, 128, 131_072)]);
	}
	for (i, (h, chunks, k)) in bm.into_iter().enumerate() {
		run.heavy = chunks >= 64 || (k >= 1024 && k + 1024 <= chunks * 1024) || chunks * 1024 - k < 4096 && chunks > 1;
		run.item(true, || bitmap_segment(h, if i % 2 == 0 { 0 } else { 3 }, chunks, k, i % 3));
	}
}

/// tips, positions, sums and the handshake / sync messages
fn part_p2p(run: &mut Run) {
	run.chain(ChainTypes::AutomatedTesting, true);
	let u3 = [0u64, (1 << 33) + 5, u64::MAX];
	for k in 0..3 {
		run.item(true, || Tip { height: u3[k], last_block_h: hash3(k), prev_block_h: hash3(2 - k), total_difficulty: diff_of(u3[(k + 1) % 3]) });
		run.item(true, || CommitPos { pos: u3[k], height: u3[(k + 2) % 3] });
		run.item(true, || BlockSums { utxo_sum: if k == 0 { Commitment::from_vec(vec![0; 33]) } else { commit("sum", k as u64) }, kernel_sum: if k == 2 { Commitment::from_vec(vec![0xff; 33]) } else { commit("ksum", k as u64) } });
		run.item(true, || Ping { total_difficulty: diff_of(u3[k]), height: u3[2 - k] });
		run.item(true, || Pong { total_difficulty: diff_of(u3[2 - k]), height: u3[k] });
		run.item(true, || TxHashSetRequest { hash: hash3(k), height: u3[k] });
		run.item(true, || TxHashSetArchive { hash: hash3(k), height: u3[k], bytes: u3[(k + 1) % 3] });
		run.item(true, || SegmentRequest { block_hash: hash3(k), identifier: SegmentIdentifier { height: [0u8, 11, 255][k], idx: u3[k] } });
		run.item(true, || PeerError { code: [0u32, 7, u32::MAX][k], message: ["", "bad block", "\u{00e9}\u{4e16}\u{1f600}"][k].to_string() });
	}
	for r in [ReasonForBan::None, ReasonForBan::BadBlock, ReasonForBan::BadCompactBlock, ReasonForBan::BadBlockHeader, ReasonForBan::BadTxHashSet, ReasonForBan::ManualBan, ReasonForBan::FraudHeight, ReasonForBan::BadHandshake] {
		run.item(true, || BanReason { ban_reason: r });
	}
	for i in 0..6 {
		run.item(true, || addr(i));
	}
	// IPv6 addresses inside ::/96 and ::ffff:0:0/96 are values of the 19-byte form too
	for (j, a) in [Ipv6Addr::new(0, 0, 0, 0, 0, 0xffff, 0x0102, 0x0304), Ipv6Addr::new(0, 0, 0, 0, 0, 0, 0, 1), Ipv6Addr::new(0, 0, 0, 0, 0, 0, 0, 0), Ipv6Addr::new(0, 0, 0, 0, 0, 0, 0x0a00, 1)].into_iter().enumerate() {
		run.item(true, || PeerAddr(SocketAddr::V6(SocketAddrV6::new(a, 3414 + j as u16, 0, 0))));
	}
	for n in [0usize, 1, 2, 3, 6, 256] {
		run.heavy = n > 6;
		run.item(true, || PeerAddrs { peers: (0..n).map(|i| addr([1, 3, 2, 4, 5, 0][i % 6])).collect() });
	}
	run.heavy = false;
	for n in 0..=20usize {
		run.item(true, || Locator { hashes: (0..n as u64).map(|i| hsh("loc", i)).collect() });
	}
	let caps = [Capabilities::UNKNOWN, Capabilities::default(), Capabilities::all(), Capabilities::PIBD_HIST_1];
	let uas = ["", "MW/Grin 5.4.0", "\u{00e9}\u{4e16}\u{1f600} agent"];
	let vs = [0u32, 1, 2, 3, 1000, u32::MAX];
	for (i, c) in caps.iter().enumerate() {
		run.item(true, || GetPeerAddrs { capabilities: *c });
		for (j, ua) in uas.iter().enumerate() {
			for (k, ver) in vs.iter().enumerate() {
				if (i + j + k) % 2 == 0 || run.tier == Tier::Thorough {
					run.item(true, || Hand {
						version: ProtocolVersion(*ver),
						capabilities: *c,
						nonce: u3[(i + k) % 3],
						genesis: hash3(j),
						total_difficulty: diff_of(u3[(j + k) % 3]),
						sender_addr: addr([1, 3, 2, 4][(i + j) % 4]),
						receiver_addr: addr([3, 1, 5, 0][(i + k) % 4]),
						user_agent: ua.to_string(),
					});
					run.item(true, || Shake { version: ProtocolVersion(*ver), capabilities: *c, genesis: hash3(k % 3), total_difficulty: diff_of(u3[(i + j) % 3]), user_agent: ua.to_string() });
				}
			}
		}
	}
	for n in [0usize, 1, 2, 3] {
		run.item(true, || HeadersRT((0..n).map(|i| header_all(10 + 13 * i as u8, 8, i % 3)).collect()));
	}
	if run.tier == Tier::Thorough {
		run.heavy = true;
		run.item(true, || HeadersRT((0..512).map(|i| header_variant(10 + (i % 54) as u8, 8, i % HEADER_FIELDS, (i / 7) % 3)).collect()));
	}
	run.heavy = false;
	// segment responses
	let ks = kernels(true);
	for k in 0..3usize {
		run.item(true, || OutputSegmentResponse {
			response: SegmentResponse { block_hash: hash3(k), segment: segment(k as u8 * 5, u3[k] >> 8, k, (0..(k as u64 + 1)).map(|i| OutputIdentifier::new(OutputFeatures::Plain, &commit("rsout", i))).collect(), k + 1, k == 2) },
			output_bitmap_root: hash3(2 - k),
		});
		run.item(true, || SegmentResponse { block_hash: hash3(k), segment: segment(k as u8, k as u64, 2 - k, (0..k as u64).map(|i| rproof("rsrp", i)).collect(), k, false) });
		run.item(true, || SegmentResponse { block_hash: hash3(k), segment: segment(k as u8 + 3, 9, k, (0..=k).map(|i| ks[(i * 6 + k) % ks.len()]).collect(), 2, k == 1) });
		run.item(true, || OutputBitmapSegmentResponse { block_hash: hash3(k), segment: bitmap_segment([0u8, 3, 6][k], k as u64, [1usize, 5, 64][k], [3usize, 4096, 65_533][k], k), output_root: hash3((k + 1) % 3) });
	}
}

fn run_part_inner(part: &str, tier: Tier, shard: usize, n: usize, only: Option<u64>) -> Report {
	crate::uni::init_thread();
	let name: &'static str = match part {
		"elements" => "elements",
		"bodies" => "bodies",
		"headers" => "headers",
		"segments" => "segments",
		"p2p" => "p2p",
		_ => panic!("unknown part"),
	};
	let mut run = Run::new(name, tier, shard, n, only);
	match name {
		"elements" => part_elements(&mut run),
		"bodies" => part_bodies(&mut run),
		"headers" => part_headers(&mut run),
		"segments" => part_segments(&mut run),
		_ => part_p2p(&mut run),
	}
	// leave the thread as the rest of the harness expects it
	crate::uni::init_thread();
	let mut r = run.r;
	r.extra.insert("max_units".into(), json!(run.unit));
	r.extra.insert("bound_versions".into(), json!(run.vers.len()));
	r
}

impl Engine for C10 {
	fn id(&self) -> &'static str {
		"C10"
	}
	fn meta(&self, _tier: Tier) -> Meta {
		Meta {
			level: "exploration",
			rule: "exhaustive enumeration of (catalogue value x protocol version {1,2,3,local 1000, db 1}) with the oracle decode(encode(x,v),v) == x (field-wise equality written in the check; inputs by commitment for v >= 3), byte-identical re-encoding, full consumption, Hashed::hash unchanged by the round trip, equal after re-transmission at every other version and equal to blake2b of the reference identity layout; plus, for every valid encoding, every site of a reference structure map (tag bytes x all 256 values, every count field +-1, every adjacent swap and every duplication in every sorted list, every reserved/padding bit, every bounded field just outside its range): a perturbed encoding must be refused, or (tags with a defined value, counts) decode to a value that re-encodes to exactly the bytes consumed. A case is one (type, value, version[, site, mutation]); all are distinct by construction",
			assumptions: vec![
				"commitments, signatures and range proofs are opaque byte strings to the codec (no curve validation on read), so deterministic filler bytes are used".into(),
				"range proofs are 675 bytes (the only size the bulletproof prover emits); BlindingFactor/Hash are 32 bytes".into(),
				"edge_bits 10..63 (10 is the smallest minimum of any chain type), nonces < 2^edge_bits; proof size 8 = AutomatedTesting, 42 = Mainnet chain type".into(),
				"header timestamps are whole seconds within chrono's NaiveDate range (the in-memory type cannot hold others)".into(),
				"IPv6 peer addresses have flowinfo = scope_id = 0 (the wire form has no such fields)".into(),
				"NRD kernels are encodable only with the NRD feature flag on; with the flag off variant 3 is treated as an undefined tag".into(),
				"body weights are within the AutomatedTesting limits (block 250, tx 226); inputs of one body have distinct commitments and do not cut through its outputs".into(),
				"BitmapChunk has no decoder by design (hash-only MMR backend): bitmap segments are exercised in their wire form BitmapSegment".into(),
				"Headers is decoded by a count + BlockHeader::read loop (the codec streams it; C19 covers the streaming)".into(),
				"a decoder reads one object from the front of a stream: bytes left unread after a lowered count are counted as a class, not a violation (framing is C11/C19)".into(),
			],
			exhaustive: true,
		}
	}
	fn parts(&self, _tier: Tier) -> Vec<(&'static str, usize)> {
		vec![("elements", 4), ("bodies", 16), ("headers", 16), ("segments", 16), ("p2p", 16)]
	}
	fn run_part(&self, part: &str, tier: Tier, shard: usize, n: usize) -> Report {
		run_part_inner(part, tier, shard, n, None)
	}
	fn replay(&self, case: &Value) -> Result<String, String> {
		let part = case["part"].as_str().ok_or("case without part")?.to_string();
		let tier = if case["tier"] == "thorough" { Tier::Thorough } else { Tier::Quick };
		let unit = case["unit"].as_u64().ok_or("case without unit")?;
		let key = case["key"].as_str().unwrap_or("");
		let r = run_part_inner(&part, tier, 0, 1, Some(unit));
		match r.violations.iter().find(|v| key.is_empty() || v.key == key) {
			Some(v) => Err(format!("{} :: {}", v.key, v.what)),
			None => Ok(format!("unit {} of part {} re-run: {} evaluations, no violation with key {:?}", unit, part, r.evaluations, key)),
		}
	}
}
