//! Chain explorer: replay-DFS with memoisation over delivery histories of a fork tree, on the
//! real `Chain`, with the reference ledger / fork-choice model as oracle. Shared by
//! C01(h) C02 C03 C06 C13 C15.
use crate::ev::{hash64, Report};
use crate::fp::{self, Fp};
use crate::ledger::{cbytes, Tree, UB};
use crate::uni;
use grin_chain::types::{BlockStatus, Options};
use grin_chain::{Chain, ChainAdapter};
use grin_core::core::hash::{Hash, Hashed};
use grin_core::core::{Block, BlockHeader};
use grin_keychain::ExtKeychain;
use grin_util::secp::pedersen::Commitment;
use serde_json::{json, Value};
use std::collections::{BTreeSet, HashSet};
use std::path::{Path, PathBuf};
use std::sync::{Arc, Mutex};

#[derive(Clone, PartialEq, Eq, Hash, Debug, PartialOrd, Ord)]
pub enum Ev {
	/// process_block of tree block i
	B(usize),
	/// process_block_header of tree block i
	H(usize),
	/// sync_block_headers with the root-to-i path
	HS(usize),
	Reopen,
	Compact,
	/// Chain::validate_tx of tree transaction i (the pool's gate; never changes chain state)
	T(usize),
	/// read-only uses of the state as of tree block i that may fail half-way (never change chain state): the miner's
	/// set_txhashset_roots on a copy of block i (valid or not; it rewinds to the block's parent and applies it in a
	/// read-only extension) and, when block i is on the best chain, Merkle proofs of every universe output as of its header
	RO(usize),
}

impl Ev {
	pub fn show(&self, t: &Tree) -> String {
		match self {
			Ev::B(i) => format!("B({})", t.blocks[*i].name),
			Ev::H(i) => format!("H({})", t.blocks[*i].name),
			Ev::HS(i) => format!("HS(..{})", t.blocks[*i].name),
			Ev::Reopen => "reopen".into(),
			Ev::Compact => "compact".into(),
			Ev::T(i) => format!("T({})", t.txs[*i].0),
			Ev::RO(i) => format!("RO({})", t.blocks[*i].name),
		}
	}
}

#[derive(Default)]
pub struct Rec {
	pub log: Mutex<Vec<(Hash, String)>>,
}
impl ChainAdapter for Rec {
	fn block_accepted(&self, b: &Block, status: BlockStatus, _opts: Options) {
		let s = match status {
			BlockStatus::Next { .. } => "next".to_string(),
			BlockStatus::Fork { fork_point, .. } => format!("fork@{}", fork_point.height),
			BlockStatus::Reorg { fork_point, .. } => format!("reorg@{}", fork_point.height),
		};
		self.log.lock().unwrap().push((b.hash(), s));
	}
}

/// The reference model state that the history implies (updated from callbacks + results only
/// where the property defines it).
#[derive(Clone, Debug, Default)]
pub struct Model {
	/// blocks the chain reported accepted (block_accepted callback)
	pub accepted: BTreeSet<usize>,
	/// reference head: moves only to an accepted block with strictly more work
	pub head: Option<usize>,
	/// headers the node must know (delivered as header, or as the header of a delivered block
	/// whose parent header was known)
	pub headers: BTreeSet<usize>,
	/// delivered blocks waiting for their parent body
	pub orphans: BTreeSet<usize>,
}

/// What the reference model expects of one event (None = the model does not define it).
#[derive(Clone, Debug, Default)]
pub struct Expect {
	pub ok: Option<bool>,
	/// blocks that must be reported accepted by this event (as a set)
	pub accepted: Option<BTreeSet<usize>>,
	pub why: String,
}

impl Model {
	/// Expected verdict of an event per the property statements (C02: accepted iff valid on its
	/// own ancestors; C03: orphans wait for their parents), and model update for header/orphan
	/// bookkeeping. `accepted` itself is updated from the callbacks, not from here.
	pub fn expect(&mut self, tree: &Tree, ev: &Ev) -> Expect {
		let parent_known = |m: &Model, i: usize| match tree.blocks[i].parent {
			None => true,
			Some(p) => m.headers.contains(&p),
		};
		match ev {
			Ev::H(i) => {
				if self.accepted.contains(i) || self.headers.contains(i) {
					return Expect { ok: Some(true), accepted: Some(BTreeSet::new()), why: "header already known".into() };
				}
				if parent_known(self, *i) {
					self.headers.insert(*i);
					Expect { ok: Some(true), accepted: Some(BTreeSet::new()), why: "header on known parent".into() }
				} else {
					Expect { ok: Some(false), accepted: Some(BTreeSet::new()), why: "parent header unknown".into() }
				}
			}
			Ev::HS(i) => {
				for k in tree.path(*i) {
					self.headers.insert(k);
				}
				Expect { ok: Some(true), accepted: Some(BTreeSet::new()), why: "header batch from genesis".into() }
			}
			Ev::B(i) => {
				if self.accepted.contains(i) {
					return Expect { ok: Some(false), accepted: Some(BTreeSet::new()), why: "duplicate of an accepted block".into() };
				}
				if !parent_known(self, *i) {
					return Expect { ok: Some(false), accepted: Some(BTreeSet::new()), why: "parent header unknown".into() };
				}
				self.headers.insert(*i);
				let parent_accepted = match tree.blocks[*i].parent {
					None => true,
					Some(p) => self.accepted.contains(&p),
				};
				if !parent_accepted {
					self.orphans.insert(*i);
					return Expect { ok: Some(false), accepted: Some(BTreeSet::new()), why: "orphan: parent body not accepted".into() };
				}
				if tree.valid(*i).is_err() {
					return Expect { ok: Some(false), accepted: Some(BTreeSet::new()), why: format!("invalid on its ancestors: {:?}", tree.valid(*i).err()) };
				}
				// accepted; waiting descendants follow, height by height
				let mut acc = BTreeSet::new();
				acc.insert(*i);
				self.orphans.remove(i);
				let mut frontier = vec![*i];
				while !frontier.is_empty() {
					let mut next = vec![];
					let waiting: Vec<usize> = self.orphans.iter().cloned().collect();
					for o in waiting {
						if let Some(p) = tree.blocks[o].parent {
							if frontier.contains(&p) {
								self.orphans.remove(&o);
								if tree.valid(o).is_ok() {
									acc.insert(o);
									next.push(o);
								}
							}
						}
					}
					frontier = next;
				}
				Expect { ok: Some(true), accepted: Some(acc), why: "valid on accepted parent".into() }
			}
			Ev::Reopen => {
				self.orphans.clear();
				Expect { ok: Some(true), accepted: Some(BTreeSet::new()), why: "reopen".into() }
			}
			Ev::Compact => Expect { ok: None, accepted: Some(BTreeSet::new()), why: "compact".into() },
			Ev::T(_) => Expect { ok: None, accepted: Some(BTreeSet::new()), why: "validate_tx".into() },
			Ev::RO(_) => Expect { ok: None, accepted: Some(BTreeSet::new()), why: "read-only queries".into() },
		}
	}
}

pub struct Live<'a> {
	pub tree: &'a Tree,
	pub dir: PathBuf,
	pub chain: Option<Chain>,
	pub rec: Arc<Rec>,
	pub model: Model,
	pub opts: Options,
	pub hashes: Vec<Hash>,
	pub commits: Vec<Commitment>,
	/// excesses of the NRD kernels of the universe (blocks and probe transactions)
	pub nrd_excesses: Vec<Commitment>,
}

#[derive(Debug, Clone)]
pub struct Outcome {
	pub ok: bool,
	pub err: String,
	/// (block, status) accepted during this event, in order
	pub accepted: Vec<(usize, String)>,
	pub head_before: (Hash, u64),
	pub head_after: (Hash, u64),
	pub expect: Expect,
}

impl<'a> Live<'a> {
	pub fn open(tree: &'a Tree, dir: &Path, opts: Options) -> Live<'a> {
		let rec = Arc::new(Rec::default());
		let chain = uni::open_chain_with(dir, &tree.gen, rec.clone()).expect("Chain::init");
		let hashes = tree.blocks.iter().map(|b| b.block.hash()).collect();
		Live {
			tree,
			dir: dir.to_path_buf(),
			chain: Some(chain),
			rec,
			model: Model::default(),
			opts,
			hashes,
			commits: tree.all_commits(),
			nrd_excesses: tree.nrd_excesses(),
		}
	}
	pub fn open_model(tree: &'a Tree, dir: &Path, opts: Options, model: Model) -> Live<'a> {
		let mut l = Live::open(tree, dir, opts);
		l.model = model;
		l
	}
	pub fn chain(&self) -> &Chain {
		self.chain.as_ref().unwrap()
	}
	pub fn fp(&self) -> Fp {
		let mut f = fp::chain_fp(self.chain(), &self.hashes, &self.commits);
		if !self.nrd_excesses.is_empty() {
			fp::add_nrd_lines(&mut f, self.chain(), &self.nrd_excesses);
		}
		f
	}
	fn head_pair(&self) -> (Hash, u64) {
		let h = self.chain().head().expect("head");
		(h.last_block_h, h.total_difficulty.to_num())
	}
	pub fn apply(&mut self, ev: &Ev) -> Outcome {
		let before = self.head_pair();
		self.rec.log.lock().unwrap().clear();
		let expect = self.model.expect(self.tree, ev);
		let res: Result<(), String> = match ev {
			Ev::B(i) => self
				.chain()
				.process_block(self.tree.blocks[*i].block.clone(), self.opts)
				.map(|_| ())
				.map_err(|e| format!("{:?}", e)),
			Ev::H(i) => self
				.chain()
				.process_block_header(&self.tree.blocks[*i].block.header, self.opts)
				.map_err(|e| format!("{:?}", e)),
			Ev::HS(i) => {
				let hs: Vec<BlockHeader> = self
					.tree
					.path(*i)
					.iter()
					.map(|k| self.tree.blocks[*k].block.header.clone())
					.collect();
				let sync_head = self.chain().header_head().expect("header_head");
				self.chain()
					.sync_block_headers(&hs, sync_head, self.opts)
					.map(|_| ())
					.map_err(|e| format!("{:?}", e))
			}
			Ev::Reopen => {
				self.chain = None;
				match uni::open_chain_with(&self.dir, &self.tree.gen, self.rec.clone()) {
					Ok(c) => {
						self.chain = Some(c);
						Ok(())
					}
					Err(e) => panic!("reopen failed: {:?}", e),
				}
			}
			Ev::Compact => self.chain().compact().map_err(|e| format!("{:?}", e)),
			Ev::T(i) => self.chain().validate_tx(&self.tree.txs[*i].1).map_err(|e| format!("{:?}", e)),
			Ev::RO(i) => {
				let mut classes: Vec<String> = vec![];
				let mut b = self.tree.blocks[*i].block.clone();
				classes.push(match self.chain().set_txhashset_roots(&mut b) {
					Ok(_) => "roots:ok".into(),
					Err(e) => format!("roots:{}", err_class(&format!("{:?}", e))),
				});
				// Merkle proofs as of a header of the best chain (an API caller takes the header from the chain)
				let on_best = {
					let mut cur = self.model.head;
					let mut found = false;
					while let Some(k) = cur {
						if k == *i {
							found = true;
							break;
						}
						cur = self.tree.blocks[k].parent;
					}
					found
				};
				if on_best {
					let h = self.tree.blocks[*i].block.header.clone();
					let (mut ok, mut err) = (0, 0);
					for c in self.commits.clone() {
						let id = grin_core::core::OutputIdentifier::new(grin_core::core::OutputFeatures::Plain, &c);
						match self.chain().get_merkle_proof(id, &h) {
							Ok(_) => ok += 1,
							Err(_) => err += 1,
						}
					}
					classes.push(format!("proofs:{}ok/{}err", ok.min(1), err.min(1)));
				}
				// a probe has no verdict of its own: what it did is the error text (an outcome class)
				Err(classes.join(","))
			}
		};
		let mut accepted = vec![];
		for (h, s) in self.rec.log.lock().unwrap().iter() {
			if let Some(i) = self.tree.index_of(h) {
				accepted.push((i, s.clone()));
			}
		}
		for (i, _) in &accepted {
			self.model.accepted.insert(*i);
			if self.tree.td(Some(*i)) > self.tree.td(self.model.head) {
				self.model.head = Some(*i);
			}
		}
		let after = self.head_pair();
		Outcome {
			ok: res.is_ok(),
			err: res.err().unwrap_or_default(),
			accepted,
			head_before: before,
			head_after: after,
			expect,
		}
	}
}

/// Error class (first word of the debug form) for outcome statistics.
pub fn err_class(e: &str) -> String {
	let mut s: String = e
		.chars()
		.take_while(|c| c.is_alphanumeric() || *c == '_')
		.collect();
	if s.is_empty() {
		s = "ok".into();
	}
	if s == "Unfit" || s == "Block" || s == "Transaction" || s == "TxHashSetErr" || s == "StoreErr" {
		// keep one level of detail
		let rest: String = e.chars().skip(s.len()).take(28).collect();
		s = format!("{}{}", s, rest.replace('"', "").replace(' ', ""));
	}
	s
}

/// What to verify after each event. Each check reports violations under its own key prefix.
pub trait Invariant {
	/// called after the last event of a prefix was applied. `before` = fingerprint before it.
	fn check(
		&mut self,
		live: &Live<'_>,
		prefix: &[Ev],
		before: &Fp,
		after: &Fp,
		out: &Outcome,
		rep: &mut Report,
	);
	/// called after `check` for a probe (snapshot explorer): the live object may be driven
	/// further (differential continuation); `parent_dir` is the snapshot the probe started from
	fn after_probe(&mut self, _live: &mut Live<'_>, _parent_dir: &Path, _sc: &uni::Scratch, _prefix: &[Ev], _rep: &mut Report) {}
	/// called when no event remains
	fn at_end(&mut self, _live: &Live<'_>, _prefix: &[Ev], _after: &Fp, _rep: &mut Report) {}
}

pub struct Explorer<'a> {
	pub tree: &'a Tree,
	pub base: PathBuf,
	pub opts: Options,
	pub sc: &'a uni::Scratch,
	pub memo: HashSet<u64>,
	pub inst: String,
	pub max_states: u64,
	/// (shard, n): only depth-2 subtrees k (numbered in DFS order) with k % n == shard are explored
	pub shard: (usize, usize),
	pub branch_ctr: usize,
	/// deliver a block only when its parent body is accepted, and never twice (C02; the
	/// other orders belong to C03)
	pub parent_first: bool,
	/// probe-heavy engines: every shard walks the whole (small) state graph and the probes are
	/// divided among the shards by hash of (state, probe)
	pub probe_split: bool,
	/// model of the base directory (blocks already accepted by a prelude)
	pub base_model: Model,
	/// snapshot explorer: every transition is made by a freshly opened chain object, so state the
	/// node keeps in memory never outlives one event.  With this set, the history of every new
	/// state is ALSO executed on one chain object that lives through the whole history (0 = off,
	/// 1 = the events only, 2 = every enabled probe between any two events as well) and the
	/// best-chain state it ends in must equal the state reached through restarts.
	pub live_check: u8,
}

pub fn case_json(inst: &str, tree: &Tree, prefix: &[Ev]) -> Value {
	json!({
		"instance": inst,
		"events": prefix.iter().map(|e| e.show(tree)).collect::<Vec<_>>(),
	})
}

impl<'a> Explorer<'a> {
	/// Prepare the base directory (chain with genesis only).
	pub fn new(tree: &'a Tree, sc: &'a uni::Scratch, opts: Options, inst: &str) -> Explorer<'a> {
		let base = sc.fresh("base");
		{
			let c = uni::open_chain(&base, &tree.gen);
			drop(c);
		}
		Explorer {
			tree,
			base,
			opts,
			sc,
			memo: HashSet::new(),
			inst: inst.to_string(),
			max_states: u64::MAX,
			shard: (0, 1),
			branch_ctr: 0,
			parent_first: false,
			probe_split: false,
			base_model: Model::default(),
			live_check: 0,
		}
	}

	/// Start from a state reached by a prelude (already applied to the base directory).
	pub fn with_prelude(tree: &'a Tree, sc: &'a uni::Scratch, opts: Options, inst: &str, prelude: &[Ev]) -> Explorer<'a> {
		let mut ex = Explorer::new(tree, sc, opts, inst);
		let mut live = Live::open(tree, &ex.base, opts);
		for e in prelude {
			let o = live.apply(e);
			assert!(o.ok, "prelude {} failed: {}", e.show(tree), o.err);
		}
		ex.base_model = live.model.clone();
		ex
	}

	/// Execute a prefix on a fresh copy; returns the live object, the fingerprint before the
	/// last event, and the last outcome.
	pub fn run_prefix(&self, prefix: &[Ev]) -> (Live<'a>, Fp, Option<Outcome>) {
		let dir = self.sc.fresh("x");
		uni::copy_dir(&self.base, &dir);
		// (the model of the base directory: blocks a prelude has already delivered)
		let mut live = Live::open_model(self.tree, &dir, self.opts, self.base_model.clone());
		let mut before = Fp {
			lines: Default::default(),
		};
		let mut last = None;
		for (k, ev) in prefix.iter().enumerate() {
			if k + 1 == prefix.len() {
				before = live.fp();
			}
			last = Some(live.apply(ev));
		}
		(live, before, last)
	}

	pub fn explore(
		&mut self,
		events: &[Ev],
		inv: &mut dyn Invariant,
		rep: &mut Report,
	) {
		let mut remaining: Vec<Ev> = events.to_vec();
		remaining.sort();
		let mut prefix = vec![];
		self.dfs(&mut prefix, &mut remaining, inv, rep);
	}

	/// Snapshot exploration for histories whose state lives on disk only (no pending orphans):
	/// a state is a directory; a transition = copy, reopen, apply one event. `probes` are
	/// tried at every state whose parent block is accepted but never added to the history
	/// (invalid / rejected inputs: they must not change the state, so they do not multiply it).
	/// Reopening the copy must reproduce the fingerprint (restart clause).
	pub fn explore_snap(
		&mut self,
		events: &[Ev],
		probes: &[Ev],
		inv: &mut dyn Invariant,
		rep: &mut Report,
	) {
		let mut remaining: Vec<Ev> = events.to_vec();
		remaining.sort();
		let root = self.sc.fresh("s");
		uni::copy_dir(&self.base, &root);
		let fp0 = {
			let live = Live::open(self.tree, &root, self.opts);
			live.fp()
		};
		let mut prefix = vec![];
		let range = if self.probe_split { (self.shard.0, self.shard.0 + 1) } else { (0usize, self.shard.1) };
		let m0 = self.base_model.clone();
		self.snap(&mut prefix, &root, &m0, &fp0, &mut remaining, probes, inv, rep, range);
		let _ = std::fs::remove_dir_all(&root);
	}

	/// One chain object lives through the whole history (and, at level 2, is offered every enabled
	/// probe between any two events): the best-chain state it ends in must be the state the
	/// snapshot path reached with a restart before every event.
	fn live_path_check(&self, prefix: &[Ev], probes: &[Ev], after_snap: &Fp, rep: &mut Report) {
		let d = self.sc.fresh("lv");
		uni::copy_dir(&self.base, &d);
		let mut live = Live::open_model(self.tree, &d, self.opts, self.base_model.clone());
		let mut offered = 0u64;
		for (k, ev) in prefix.iter().enumerate() {
			if self.live_check >= 2 {
				for p in probes {
					if matches!(p, Ev::Reopen | Ev::Compact) || !self.enabled(&live.model, p) {
						continue;
					}
					let m = live.model.clone();
					let _ = live.apply(p);
					// a probe is never part of the history: the model does not learn from it
					live.model = m;
					offered += 1;
				}
			}
			let o = live.apply(ev);
			let _ = (k, o);
		}
		rep.evaluations += 1;
		rep.transitions += prefix.len() as u64 + offered;
		let a = live.fp().only(crate::fp::BEST_CHAIN_KEYS);
		let b = after_snap.only(crate::fp::BEST_CHAIN_KEYS);
		if a != b {
			rep.violation(
				format!("live:long-lived-node-differs:{}", if self.live_check >= 2 { "with-probes" } else { "events-only" }),
				format!(
					"a chain object that lived through the whole history{} ends in another best-chain state than a node restarted before every event: {:?}",
					if self.live_check >= 2 { " (and was offered every rejected input on the way)" } else { "" },
					b.diff(&a).into_iter().take(4).collect::<Vec<_>>()
				),
				json!({"instance": self.inst, "events": prefix.iter().map(|e| e.show(self.tree)).collect::<Vec<_>>(), "live": true, "probes_between_events": self.live_check >= 2}),
			);
		} else {
			rep.outcome("live:long-lived-node-agrees");
		}
		// what the fingerprint does not read (kernel and output data behind the hashes): the long-lived node
		// must pass the chain's own validation, now and after it was closed and opened again
		let case = json!({"instance": self.inst, "events": prefix.iter().map(|e| e.show(self.tree)).collect::<Vec<_>>(), "live": true, "probes_between_events": self.live_check >= 2});
		if let Err(e) = live.chain().validate(true) {
			rep.violation(format!("live:long-lived-node-fails-validation:{}", err_class(&format!("{:?}", e))), format!("Chain::validate(fast) on the chain object that lived through the whole history = {:?}", e), case.clone());
		} else if !prefix.is_empty() && matches!(prefix.last(), Some(Ev::B(_))) {
			let _ = live.apply(&Ev::Reopen);
			if let Err(e) = live.chain().validate(true) {
				rep.violation(format!("live:long-lived-node-fails-validation-after-restart:{}", err_class(&format!("{:?}", e))), format!("Chain::validate(fast) after closing and reopening the long-lived node = {:?}", e), case);
			}
		}
		drop(live);
		let _ = std::fs::remove_dir_all(&d);
	}

	fn enabled(&self, model: &Model, ev: &Ev) -> bool {
		match ev {
			Ev::B(i) | Ev::H(i) => {
				let parent_ok = match self.tree.blocks[*i].parent {
					None => true,
					Some(p) => model.accepted.contains(&p),
				};
				parent_ok && !model.accepted.contains(i)
			}
			Ev::RO(i) => match self.tree.blocks[*i].parent {
				None => true,
				Some(p) => model.accepted.contains(&p),
			},
			_ => true,
		}
	}

	#[allow(clippy::too_many_arguments)]
	fn snap(
		&mut self,
		prefix: &mut Vec<Ev>,
		dir: &Path,
		model: &Model,
		fp_here: &Fp,
		remaining: &mut Vec<Ev>,
		probes: &[Ev],
		inv: &mut dyn Invariant,
		rep: &mut Report,
		range: (usize, usize),
	) {
		if rep.states >= self.max_states {
			rep.capped = Some(format!("state cap {} reached in {}", self.max_states, self.inst));
			return;
		}
		let me = self.shard.0;
		// the lowest shard of the range that shares this state runs its probes
		let probe_here = range.0 == me;
		let mut step = |this: &mut Self, ev: &Ev, prefix: &mut Vec<Ev>, rep: &mut Report, inv: &mut dyn Invariant, is_probe: bool| -> (PathBuf, Model, Fp) {
			let d = this.sc.fresh("s");
			uni::copy_dir(dir, &d);
			let mut live = Live::open_model(this.tree, &d, this.opts, model.clone());
			let reopened = live.fp();
			if &reopened != fp_here {
				rep.violation(
					"restart:state-differs-after-reopen",
					format!("closing and reopening the chain changed its state: {:?}", fp_here.diff(&reopened).into_iter().take(4).collect::<Vec<_>>()),
					case_json(&this.inst, this.tree, prefix),
				);
			}
			let out = live.apply(ev);
			let after = live.fp();
			prefix.push(ev.clone());
			rep.transitions += 1;
			rep.evaluations += 1;
			rep.outcome(&format!(
				"{}:{}",
				match ev {
					Ev::B(_) => "B",
					Ev::H(_) => "H",
					Ev::HS(_) => "HS",
					Ev::Reopen => "reopen",
					Ev::Compact => "compact",
					Ev::T(_) => "T",
					Ev::RO(_) => "RO",
				},
				if out.ok {
					if out.accepted.is_empty() { "ok".to_string() } else { out.accepted.iter().map(|(_, s)| s.split('@').next().unwrap().to_string()).collect::<Vec<_>>().join("+") }
				} else {
					err_class(&out.err)
				}
			));
			inv.check(&live, prefix, fp_here, &after, &out, rep);
			if is_probe {
				inv.after_probe(&mut live, dir, this.sc, prefix, rep);
			}
			prefix.pop();
			let m = live.model.clone();
			drop(live);
			(d, m, after)
		};
		// probes
		let here_key = hash64(&(fp_here.digest(), &model.accepted));
		for (pi, p) in probes.iter().enumerate() {
			if !self.enabled(model, p) {
				continue;
			}
			if self.probe_split {
				if (hash64(&(here_key, pi)) % self.shard.1 as u64) as usize != me {
					continue;
				}
			} else if !probe_here {
				continue; // states shared by several shards are probed once
			}
			let (d, _, _) = step(self, p, prefix, rep, inv, true);
			let _ = std::fs::remove_dir_all(&d);
		}
		// children and the sub-range of shards each one is given
		let mut kids: Vec<usize> = vec![];
		{
			let mut tried: Vec<Ev> = vec![];
			for idx in 0..remaining.len() {
				let ev = remaining[idx].clone();
				if tried.contains(&ev) || !self.enabled(model, &ev) {
					continue;
				}
				tried.push(ev);
				kids.push(idx);
			}
		}
		let size = range.1 - range.0;
		let k = kids.len().max(1);
		for (ci, idx) in kids.iter().cloned().enumerate() {
			let ev = remaining[idx].clone();
			let child_range = if size <= 1 {
				range
			} else if k <= size {
				let lo = range.0 + ci * size / k;
				let hi = range.0 + (ci + 1) * size / k;
				(lo, hi)
			} else {
				let s = range.0 + ci % size;
				(s, s + 1)
			};
			if me < child_range.0 || me >= child_range.1 {
				continue;
			}
			let (d, m, after) = step(self, &ev, prefix, rep, inv, false);
			remaining.remove(idx);
			let key = hash64(&(after.digest(), &m.accepted, &*remaining));
			if self.memo.insert(key) {
				rep.states += 1;
				rep.distinct += 1;
				rep.state_keys.insert(hash64(&(&self.inst, key)));
				if rep.samples.len() < 2 && remaining.len() <= 2 {
					rep.sample(json!({"instance": self.inst, "history": prefix.iter().chain(std::iter::once(&ev)).map(|e| e.show(self.tree)).collect::<Vec<_>>()}));
				}
				prefix.push(ev.clone());
				// (probe-split mode: every shard walks every state; one of them makes the live run)
				if self.live_check > 0 && (!self.probe_split || (key % self.shard.1 as u64) as usize == me) {
					self.live_path_check(prefix, probes, &after, rep);
				}
				self.snap(prefix, &d, &m, &after, remaining, probes, inv, rep, child_range);
				prefix.pop();
			}
			remaining.insert(idx, ev);
			let _ = std::fs::remove_dir_all(&d);
		}
	}

	fn dfs(
		&mut self,
		prefix: &mut Vec<Ev>,
		remaining: &mut Vec<Ev>,
		inv: &mut dyn Invariant,
		rep: &mut Report,
	) {
		if rep.states >= self.max_states {
			rep.capped = Some(format!("state cap {} reached in {}", self.max_states, self.inst));
			return;
		}
		let (live, before, out) = self.run_prefix(prefix);
		let after = live.fp();
		if let Some(out) = &out {
			if prefix.len() > 1 || self.shard.0 == 0 {
				rep.transitions += 1;
				rep.evaluations += 1;
			}
			rep.outcome(&format!(
				"{}:{}",
				match prefix.last().unwrap() {
					Ev::B(_) => "B",
					Ev::H(_) => "H",
					Ev::HS(_) => "HS",
					Ev::Reopen => "reopen",
					Ev::Compact => "compact",
					Ev::T(_) => "T",
					Ev::RO(_) => "RO",
				},
				if out.ok {
					if out.accepted.is_empty() {
						"ok".to_string()
					} else {
						out.accepted.iter().map(|(_, s)| s.split('@').next().unwrap().to_string()).collect::<Vec<_>>().join("+")
					}
				} else {
					err_class(&out.err)
				}
			));
			inv.check(&live, prefix, &before, &after, out, rep);
		}
		if remaining.is_empty() {
			inv.at_end(&live, prefix, &after, rep);
			if rep.samples.len() < 3 {
				rep.sample(json!({"history": prefix.iter().map(|e| e.show(self.tree)).collect::<Vec<_>>(), "final_head_height": live.chain().head().unwrap().height, "accepted": live.model.accepted.len()}));
			}
		}
		// memo on (state, accepted set, remaining multiset)
		let key = hash64(&(after.digest(), &live.model.accepted, &*remaining));
		let dir = live.dir.clone();
		let model = live.model.clone();
		drop(live);
		let _ = std::fs::remove_dir_all(&dir);
		if !self.memo.insert(key) {
			return;
		}
		rep.states += 1;
		rep.distinct += 1;
		rep.state_keys.insert(hash64(&(&self.inst, key)));
		let mut tried: Vec<Ev> = vec![];
		let depth = prefix.len();
		for idx in 0..remaining.len() {
			let ev = remaining[idx].clone();
			if tried.contains(&ev) {
				continue;
			}
			tried.push(ev.clone());
			if self.parent_first {
				if let Ev::B(i) = &ev {
					let parent_ok = match self.tree.blocks[*i].parent {
						None => true,
						Some(p) => model.accepted.contains(&p),
					};
					if !parent_ok {
						continue;
					}
				}
			}
			if depth == 1 && self.shard.1 > 1 {
				self.branch_ctr += 1;
				if (self.branch_ctr - 1) % self.shard.1 != self.shard.0 {
					continue;
				}
			}
			remaining.remove(idx);
			prefix.push(ev.clone());
			self.dfs(prefix, remaining, inv, rep);
			prefix.pop();
			remaining.insert(idx, ev);
		}
	}
}

// ---------------------------------------------------------------------------------------------
// Universe construction

pub struct TreeBuilder {
	pub kc: ExtKeychain,
	pub sc_dir: PathBuf,
	pub chain: Chain,
	pub tree: Tree,
	pub skip_pow: bool,
}

impl TreeBuilder {
	pub fn new(sc: &uni::Scratch, seed: u8, skip_pow: bool) -> TreeBuilder {
		let kc = uni::keychain(seed);
		let gen = uni::genesis(&kc);
		let dir = sc.fresh("builder");
		let chain = uni::open_chain(&dir, &gen);
		TreeBuilder {
			kc,
			sc_dir: dir,
			chain,
			tree: Tree {
				gen,
				blocks: vec![],
				nrd_enabled: false,
				txs: vec![],
			},
			skip_pow,
		}
	}
	pub fn header_of(&self, parent: Option<usize>) -> BlockHeader {
		match parent {
			None => self.tree.gen.header.clone(),
			Some(i) => self.tree.blocks[i].block.header.clone(),
		}
	}
	fn opts(&self) -> Options {
		if self.skip_pow {
			Options::SKIP_POW
		} else {
			Options::NONE
		}
	}
	/// Add a valid block (processed by the builder chain so that children can be built on it).
	pub fn add(&mut self, name: &str, parent: Option<usize>, spec: &uni::BlockSpec) -> usize {
		let prev = self.header_of(parent);
		let b = uni::build_block(&self.chain, &self.kc, &prev, spec).expect("build_block");
		self.chain
			.process_block(b.clone(), self.opts())
			.unwrap_or_else(|e| panic!("builder refused {}: {:?}", name, e));
		self.tree.blocks.push(UB::new(name, b, parent));
		self.tree.blocks.len() - 1
	}
	/// Add a valid block with an explicit difficulty, no PoW (SKIP_POW universes, C03).
	pub fn add_with_difficulty(
		&mut self,
		name: &str,
		parent: Option<usize>,
		spec: &uni::BlockSpec,
		diff: u64,
	) -> usize {
		assert!(self.skip_pow);
		let prev = self.header_of(parent);
		let fees: u64 = spec.txs.iter().map(|t| t.fee()).sum();
		let rw = uni::coinbase(&self.kc, spec.reward_key, fees);
		let mut b = Block::from_reward(
			&prev,
			&spec.txs,
			rw.0,
			rw.1,
			grin_core::pow::Difficulty::from_num(diff),
		)
		.expect("from_reward");
		b.header.timestamp = prev.timestamp + chrono::Duration::seconds(spec.dt);
		self.chain.set_txhashset_roots(&mut b).expect("roots");
		// the header hash is the hash of the proof: give every SKIP_POW block its own
		// deterministic pseudo-proof (the repo's tests use Proof::random for the same reason)
		{
			let seed = format!("{}/{}/{}/{}", prev.hash(), spec.reward_key, diff, spec.dt);
			let h = blake2_rfc::blake2b::blake2b(32, &[], seed.as_bytes());
			let hb = h.as_bytes();
			let nonces: Vec<u64> = (0..grin_core::global::proofsize())
				.map(|k| (((hb[2 * k] as u64) << 8 | hb[2 * k + 1] as u64) & 0x3ff) as u64)
				.collect();
			b.header.pow.proof = grin_core::pow::Proof::new(nonces);
		}
		if std::env::var("GV_DEBUG").is_ok() {
			eprintln!("add {}: td {} hash {} exists {:?} head {:?}", name, b.header.total_difficulty().to_num(), b.hash(), self.chain.block_exists(b.hash()), self.chain.head());
		}
		self.chain
			.process_block(b.clone(), Options::SKIP_POW)
			.unwrap_or_else(|e| panic!("builder refused {}: {:?}", name, e));
		self.tree.blocks.push(UB::new(name, b, parent));
		self.tree.blocks.len() - 1
	}
	/// Add a block that the reference ledger deems invalid on its ancestors: built as the valid
	/// `template` spec would be (for difficulty, sizes), then given `txs` instead, re-mined.
	/// Roots cannot be computed for such a block (the chain refuses to apply it), which is fine:
	/// the spend rules are evaluated before roots.
	pub fn add_invalid(
		&mut self,
		name: &str,
		parent: Option<usize>,
		spec: &uni::BlockSpec,
	) -> usize {
		let prev = self.header_of(parent);
		// assemble by hand: like uni::assemble but tolerate set_txhashset_roots failure
		let fees: u64 = spec.txs.iter().map(|t| t.fee()).sum();
		let rw = uni::coinbase(&self.kc, spec.reward_key, fees);
		let next = grin_core::consensus::next_difficulty(
			prev.height + 1,
			grin_chain::store::DifficultyIter::from(prev.hash(), self.chain.store()),
		);
		let mut b = Block::from_reward(&prev, &spec.txs, rw.0, rw.1, next.difficulty)
			.expect("from_reward");
		b.header.timestamp = prev.timestamp + chrono::Duration::seconds(spec.dt);
		b.header.pow.secondary_scaling = next.secondary_scaling;
		let mut rooted = self.chain.set_txhashset_roots(&mut b).is_ok();
		if !rooted && self.tree.nrd_enabled {
			// a block that only the NRD rule refuses still gets its true roots (computed with the rule switched
			// off in this thread), so that nothing but that rule can reject it
			grin_core::global::set_local_nrd_enabled(false);
			rooted = self.chain.set_txhashset_roots(&mut b).is_ok();
			grin_core::global::set_local_nrd_enabled(true);
		}
		if !rooted {
			// plausible sizes so that header-level checks pass
			b.header.output_mmr_size = refmmr_size(prev.output_mmr_count() + b.outputs().len() as u64);
			b.header.kernel_mmr_size = refmmr_size(prev.kernel_mmr_count() + b.kernels().len() as u64);
			let _ = self.chain.set_prev_root_only(&mut b.header);
		}
		if !self.skip_pow {
			uni::remine(&mut b, &prev);
		}
		self.tree.blocks.push(UB::new(name, b, parent));
		self.tree.blocks.len() - 1
	}
	/// `add_invalid` for SKIP_POW universes: explicit difficulty, deterministic pseudo-proof (own hash), never
	/// offered to the builder chain.
	pub fn add_invalid_with_difficulty(&mut self, name: &str, parent: Option<usize>, spec: &uni::BlockSpec, diff: u64) -> usize {
		assert!(self.skip_pow);
		let prev = self.header_of(parent);
		let fees: u64 = spec.txs.iter().map(|t| t.fee()).sum();
		let rw = uni::coinbase(&self.kc, spec.reward_key, fees);
		let mut b = Block::from_reward(&prev, &spec.txs, rw.0, rw.1, grin_core::pow::Difficulty::from_num(diff)).expect("from_reward");
		b.header.timestamp = prev.timestamp + chrono::Duration::seconds(spec.dt);
		if self.chain.set_txhashset_roots(&mut b).is_err() {
			b.header.output_mmr_size = refmmr_size(prev.output_mmr_count() + b.outputs().len() as u64);
			b.header.kernel_mmr_size = refmmr_size(prev.kernel_mmr_count() + b.kernels().len() as u64);
			let _ = self.chain.set_prev_root_only(&mut b.header);
		}
		{
			let seed = format!("{}/{}/{}/{}/invalid", prev.hash(), spec.reward_key, diff, spec.dt);
			let h = blake2_rfc::blake2b::blake2b(32, &[], seed.as_bytes());
			let hb = h.as_bytes();
			let nonces: Vec<u64> = (0..grin_core::global::proofsize()).map(|k| (((hb[2 * k] as u64) << 8 | hb[2 * k + 1] as u64) & 0x3ff) as u64).collect();
			b.header.pow.proof = grin_core::pow::Proof::new(nonces);
		}
		self.tree.blocks.push(UB::new(name, b, parent));
		self.tree.blocks.len() - 1
	}
	/// Add a corrupted variant of valid block `of` (same parent) from the closed catalogue.
	pub fn add_corrupt(&mut self, of: usize, c: &crate::corrupt::Corruption) -> Option<usize> {
		let parent = self.tree.blocks[of].parent;
		let prev = self.header_of(parent);
		let b = crate::corrupt::apply(c.name, &self.tree.blocks[of].block, &prev)?;
		let mut ub = UB::new(&format!("{}~{}", self.tree.blocks[of].name, c.name), b, parent);
		ub.bad = Some(c.name.to_string());
		ub.header_valid = c.header_valid;
		ub.of = if c.same_hash { Some(of) } else { None };
		ub.variant_of = Some(of);
		self.tree.blocks.push(ub);
		Some(self.tree.blocks.len() - 1)
	}
	pub fn finish(self) -> Tree {
		let t = self.tree.clone();
		let dir = self.sc_dir.clone();
		drop(self);
		let _ = std::fs::remove_dir_all(dir);
		t
	}
}

/// MMR size for n leaves
pub fn refmmr_size(n_leaves: u64) -> u64 {
	if n_leaves == 0 {
		0
	} else {
		// position after the last leaf's merges = 2n - popcount(n)
		2 * n_leaves - n_leaves.count_ones() as u64
	}
}

/// Unspent-set oracle shared by several properties: compare `get_unspent` of every universe
/// commitment with the reference replay of the path to `tip`.
pub fn check_unspent(
	live: &Live<'_>,
	tip: Option<usize>,
	key: &str,
	prefix: &[Ev],
	inst: &str,
	rep: &mut Report,
) {
	let st = match live.tree.state_at(tip) {
		Ok(s) => s,
		Err((i, bad)) => {
			rep.violation(
				format!("{}:head-on-invalid-chain", key),
				format!("head path contains block {} which the reference ledger rejects ({:?})", live.tree.blocks[i].name, bad),
				case_json(inst, live.tree, prefix),
			);
			return;
		}
	};
	for c in &live.commits {
		let exp = st.utxo.get(&cbytes(c));
		let got = live.chain().get_unspent(*c);
		let ok = match (&got, exp) {
			(Ok(Some((_, cp))), Some(u)) => cp.pos == u.pos1 && cp.height == u.height,
			(Ok(None), None) => true,
			_ => false,
		};
		if !ok {
			rep.violation(
				format!("{}:unspent-set", key),
				format!(
					"get_unspent({}) = {:?} but reference replay says {:?}",
					&crate::ev::hex(&c.0)[..16],
					got.as_ref().map(|o| o.as_ref().map(|(_, cp)| (cp.pos, cp.height))),
					exp.map(|u| (u.pos1, u.height))
				),
				case_json(inst, live.tree, prefix),
			);
			return;
		}
	}
}

/// Replay a recorded history (event names as written by `Ev::show`) on a fresh chain.
pub fn replay_events(tree: &Tree, case: &Value, opts: Options, sc: &uni::Scratch) -> Result<String, String> {
	let dir = sc.fresh("r");
	let mut live = Live::open(tree, &dir, opts);
	let mut obs = vec![];
	for e in case["events"].as_array().cloned().unwrap_or_default() {
		let s = e.as_str().unwrap_or("");
		let mut found = None;
		for (i, _) in tree.blocks.iter().enumerate() {
			for cand in [Ev::B(i), Ev::H(i), Ev::HS(i), Ev::RO(i)] {
				if cand.show(tree) == s {
					found = Some(cand);
				}
			}
		}
		if s == "reopen" {
			found = Some(Ev::Reopen);
		}
		if s == "compact" {
			found = Some(Ev::Compact);
		}
		for (i, _) in tree.txs.iter().enumerate() {
			if Ev::T(i).show(tree) == s {
				found = Some(Ev::T(i));
			}
		}
		let ev = found.ok_or(format!("unknown event {}", s))?;
		let o = live.apply(&ev);
		obs.push(format!(
			"{} -> {} (model expects {:?}: {}) accepted={:?} head_td={}",
			s,
			if o.ok { "Ok".into() } else { o.err.clone() },
			o.expect.ok,
			o.expect.why,
			o.accepted,
			o.head_after.1
		));
	}
	Ok(obs.join("; "))
}

/// Run `f` (universe construction + exploration of one instance). A panic whose message starts
/// with "builder refused" means the real chain refused a block that the universe builder
/// delivered in a valid history: that is a verdict (valid block rejected), reported as a
/// violation. Any other panic is propagated (machinery failure or a panic of the code under
/// test, which the caller's property may treat separately).
pub fn guarded<F: FnOnce(&mut Report)>(inst: &str, rep: &mut Report, f: F) {
	let mut local = Report::new();
	let r = {
		let lp = std::panic::AssertUnwindSafe((&mut local, f));
		std::panic::catch_unwind(move || {
			let lp = lp;
			let (l, f) = lp.0;
			f(l)
		})
	};
	rep.merge(local);
	if let Err(e) = r {
		let msg = if let Some(s) = e.downcast_ref::<String>() {
			s.clone()
		} else if let Some(s) = e.downcast_ref::<&str>() {
			s.to_string()
		} else {
			"panic".to_string()
		};
		if msg.starts_with("Chain::init") || msg.starts_with("reopen failed") {
			// a directory produced by a valid history could not be reopened
			rep.violation(
				format!("restart:chain-init-failed:{}", inst),
				format!("a chain directory reached by valid operations in universe {} cannot be opened again: {}", inst, msg),
				json!({"instance": inst, "panic": msg}),
			);
		} else if msg.starts_with("builder refused") || msg.starts_with("builder chain refused") || msg.starts_with("build_block:") {
			rep.violation(
				format!("builder:valid-block-refused:{}", inst),
				format!("while building universe {} from a valid history the chain refused a valid block: {}", inst, msg),
				json!({"instance": inst, "panic": msg}),
			);
		} else {
			std::panic::resume_unwind(e);
		}
	}
}
