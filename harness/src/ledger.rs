//! Reference ledger over a fork tree of blocks: pure replay, written from the property
//! statements (C02 spend rules, C13 maturity / lock rules, C03 fork choice, C01 sums).
//! It reads only the *data* of blocks (commitments, features, heights, difficulties), never
//! chain state.
use crate::refmmr;
use grin_core::core::hash::{Hash, Hashed};
use grin_core::core::{Block, KernelFeatures};
use grin_util::secp::pedersen::Commitment;
use std::collections::BTreeMap;

pub const MATURITY: u64 = 3; // AutomatedTesting coinbase maturity

#[derive(Clone, Debug, PartialEq, Eq)]
pub struct Utxo {
	/// 1-based position in the output MMR
	pub pos1: u64,
	pub height: u64,
	pub coinbase: bool,
	/// leaf insertion index
	pub leaf: u64,
}

#[derive(Clone, Debug, Default)]
pub struct State {
	pub utxo: BTreeMap<Vec<u8>, Utxo>,
	/// number of output leaves ever appended on this path
	pub n_outputs: u64,
	pub n_kernels: u64,
	/// NRD kernels seen: excess -> heights (ascending)
	pub nrd: BTreeMap<Vec<u8>, Vec<u64>>,
	pub height: u64,
	/// all kernel excesses on the path (for sums)
	pub kernels: Vec<Commitment>,
}

pub fn cbytes(c: &Commitment) -> Vec<u8> {
	c.0.to_vec()
}

/// Why a block is invalid relative to a state (class names used as outcome classes).
#[derive(Clone, Debug, PartialEq, Eq)]
pub enum Bad {
	Corrupted,
	UnknownInput,
	DuplicateOutput,
	Immature,
	LockHeight,
	NrdTooRecent,
	DoubleSpendInBlock,
}

impl State {
	pub fn genesis(gen: &Block) -> State {
		let mut s = State::default();
		s.apply_unchecked(gen);
		s
	}

	/// validity of `b` on top of this state, per the property texts
	pub fn check(&self, b: &Block, nrd_enabled: bool) -> Result<(), Bad> {
		let h = b.header.height;
		let inputs: Vec<Commitment> = b.inputs().into_iter_commits();
		let mut seen = std::collections::BTreeSet::new();
		for c in &inputs {
			if !seen.insert(cbytes(c)) {
				return Err(Bad::DoubleSpendInBlock);
			}
			match self.utxo.get(&cbytes(c)) {
				None => return Err(Bad::UnknownInput),
				Some(u) => {
					if u.coinbase && h < u.height + MATURITY {
						return Err(Bad::Immature);
					}
				}
			}
		}
		for o in b.outputs() {
			let k = cbytes(&o.commitment());
			// duplicates a commitment that is currently unspent there
			if self.utxo.contains_key(&k) {
				return Err(Bad::DuplicateOutput);
			}
		}
		for k in b.kernels() {
			match k.features {
				KernelFeatures::HeightLocked { lock_height, .. } => {
					if h < lock_height {
						return Err(Bad::LockHeight);
					}
				}
				KernelFeatures::NoRecentDuplicate {
					relative_height, ..
				} => {
					if nrd_enabled {
						if let Some(hs) = self.nrd.get(&cbytes(&k.excess)) {
							if let Some(last) = hs.last() {
								let rh: u64 = relative_height.into();
								if h - last < rh {
									return Err(Bad::NrdTooRecent);
								}
							}
						}
					}
				}
				_ => {}
			}
		}
		Ok(())
	}

	pub fn apply_unchecked(&mut self, b: &Block) {
		let h = b.header.height;
		for c in b.inputs().into_iter_commits() {
			self.utxo.remove(&cbytes(&c));
		}
		for o in b.outputs() {
			let leaf = self.n_outputs;
			self.n_outputs += 1;
			self.utxo.insert(
				cbytes(&o.commitment()),
				Utxo {
					pos1: refmmr::ref_leaf_pos(leaf as u128) as u64 + 1,
					height: h,
					coinbase: o.is_coinbase(),
					leaf,
				},
			);
		}
		for k in b.kernels() {
			self.n_kernels += 1;
			self.kernels.push(k.excess);
			if let KernelFeatures::NoRecentDuplicate { .. } = k.features {
				self.nrd.entry(cbytes(&k.excess)).or_default().push(h);
			}
		}
		self.height = h;
	}
}

pub trait InputCommits {
	fn into_iter_commits(self) -> Vec<Commitment>;
}
impl InputCommits for grin_core::core::Inputs {
	fn into_iter_commits(self) -> Vec<Commitment> {
		let v: Vec<grin_core::core::transaction::CommitWrapper> = self.into();
		v.iter().map(|x| x.commitment()).collect()
	}
}

/// A universe block.
#[derive(Clone)]
pub struct UB {
	pub name: String,
	pub block: Block,
	/// index of the parent in `Tree::blocks`, None = genesis
	pub parent: Option<usize>,
	/// Some(stage) when the block was deliberately corrupted (fails at that validation stage)
	pub bad: Option<String>,
	/// for corrupted blocks: does the header alone satisfy the header rules?
	pub header_valid: bool,
	/// for corrupted blocks with an unchanged header hash: the block it impersonates
	pub of: Option<usize>,
	/// for corrupted blocks: the valid block they were derived from
	pub variant_of: Option<usize>,
}

impl UB {
	pub fn new(name: &str, block: Block, parent: Option<usize>) -> UB {
		UB {
			name: name.into(),
			block,
			parent,
			bad: None,
			header_valid: true,
			of: None,
			variant_of: None,
		}
	}
}

/// Fork tree over genesis.
#[derive(Clone)]
pub struct Tree {
	pub gen: Block,
	pub blocks: Vec<UB>,
	pub nrd_enabled: bool,
	/// named transactions offered to Chain::validate_tx as probes (Ev::T)
	pub txs: Vec<(String, grin_core::core::Transaction)>,
}

impl Tree {
	pub fn hash(&self, i: usize) -> Hash {
		self.blocks[i].block.hash()
	}
	pub fn index_of(&self, h: &Hash) -> Option<usize> {
		self.blocks
			.iter()
			.position(|b| b.bad.is_none() && b.block.hash() == *h)
			.or_else(|| self.blocks.iter().position(|b| b.block.hash() == *h))
	}
	/// path genesis(excluded) -> i
	pub fn path(&self, i: usize) -> Vec<usize> {
		let mut p = vec![i];
		let mut cur = i;
		while let Some(q) = self.blocks[cur].parent {
			p.push(q);
			cur = q;
		}
		p.reverse();
		p
	}
	/// state after applying the path to `tip` (None = genesis); Err((block, why)) if some block
	/// on the path is invalid relative to its ancestors
	pub fn state_at(&self, tip: Option<usize>) -> Result<State, (usize, Bad)> {
		let mut s = State::genesis(&self.gen);
		if let Some(t) = tip {
			for i in self.path(t) {
				if self.blocks[i].bad.is_some() {
					return Err((i, Bad::Corrupted));
				}
				s.check(&self.blocks[i].block, self.nrd_enabled)
					.map_err(|e| (i, e))?;
				s.apply_unchecked(&self.blocks[i].block);
			}
		}
		Ok(s)
	}
	/// is block i valid relative to its own ancestors (all ancestors valid too)?
	pub fn valid(&self, i: usize) -> Result<(), (usize, Bad)> {
		self.state_at(Some(i)).map(|_| ())
	}
	pub fn td(&self, tip: Option<usize>) -> u64 {
		match tip {
			None => self.gen.header.total_difficulty().to_num(),
			Some(i) => self.blocks[i].block.header.total_difficulty().to_num(),
		}
	}
	pub fn tip_hash(&self, tip: Option<usize>) -> Hash {
		match tip {
			None => self.gen.hash(),
			Some(i) => self.hash(i),
		}
	}
	pub fn height(&self, tip: Option<usize>) -> u64 {
		match tip {
			None => 0,
			Some(i) => self.blocks[i].block.header.height,
		}
	}
	/// excess of every NRD kernel of the universe (blocks and probe transactions), deduplicated
	pub fn nrd_excesses(&self) -> Vec<Commitment> {
		let mut v: Vec<Commitment> = vec![];
		let ks = self.blocks.iter().flat_map(|b| b.block.kernels().iter()).chain(self.txs.iter().flat_map(|(_, t)| t.kernels().iter()));
		for k in ks {
			if let KernelFeatures::NoRecentDuplicate { .. } = k.features {
				if !v.contains(&k.excess) {
					v.push(k.excess);
				}
			}
		}
		v
	}
	/// every commitment created anywhere in the tree (genesis included), deduplicated, in order
	pub fn all_commits(&self) -> Vec<Commitment> {
		let mut v: Vec<Commitment> = vec![];
		let mut push = |c: Commitment| {
			if !v.contains(&c) {
				v.push(c)
			}
		};
		for o in self.gen.outputs() {
			push(o.commitment());
		}
		for b in &self.blocks {
			for o in b.block.outputs() {
				push(o.commitment());
			}
			for c in b.block.inputs().into_iter_commits() {
				push(c);
			}
		}
		v
	}
}

impl Tree {
	/// Serialise the universe so that child processes need not rebuild (re-mine) it.
	pub fn save(&self, path: &std::path::Path) {
		use grin_core::ser::{ser_vec, ProtocolVersion};
		let v = ProtocolVersion::local();
		let blocks: Vec<serde_json::Value> = self
			.blocks
			.iter()
			.map(|b| {
				serde_json::json!({
					"name": b.name, "parent": b.parent, "bad": b.bad, "header_valid": b.header_valid,
					"of": b.of, "variant_of": b.variant_of,
					"hex": crate::ev::hex(&ser_vec(&b.block, v).expect("ser")),
				})
			})
			.collect();
		let j = serde_json::json!({
			"gen": crate::ev::hex(&ser_vec(&self.gen, v).expect("ser")),
			"nrd": self.nrd_enabled,
			"blocks": blocks,
			"txs": self.txs.iter().map(|(n, t)| serde_json::json!({"name": n, "hex": crate::ev::hex(&ser_vec(t, v).expect("ser"))})).collect::<Vec<_>>(),
		});
		std::fs::write(path, serde_json::to_vec(&j).unwrap()).expect("write tree");
	}
	pub fn load(path: &std::path::Path) -> Tree {
		use grin_core::ser::{deserialize, DeserializationMode, ProtocolVersion};
		let v = ProtocolVersion::local();
		let j: serde_json::Value = serde_json::from_slice(&std::fs::read(path).expect("read tree")).expect("json");
		let de = |h: &str| -> Block {
			let bytes = crate::ev::unhex(h);
			deserialize(&mut &bytes[..], v, DeserializationMode::default()).expect("block")
		};
		let gen = de(j["gen"].as_str().unwrap());
		let blocks = j["blocks"]
			.as_array()
			.unwrap()
			.iter()
			.map(|b| UB {
				name: b["name"].as_str().unwrap().to_string(),
				block: de(b["hex"].as_str().unwrap()),
				parent: b["parent"].as_u64().map(|x| x as usize),
				bad: b["bad"].as_str().map(|s| s.to_string()),
				header_valid: b["header_valid"].as_bool().unwrap_or(true),
				of: b["of"].as_u64().map(|x| x as usize),
				variant_of: b["variant_of"].as_u64().map(|x| x as usize),
			})
			.collect();
		let txs = j["txs"]
			.as_array()
			.cloned()
			.unwrap_or_default()
			.iter()
			.map(|t| {
				let bytes = crate::ev::unhex(t["hex"].as_str().unwrap());
				(t["name"].as_str().unwrap().to_string(), deserialize(&mut &bytes[..], v, DeserializationMode::default()).expect("tx"))
			})
			.collect();
		Tree {
			gen,
			blocks,
			nrd_enabled: j["nrd"].as_bool().unwrap_or(false),
			txs,
		}
	}
}
