//! Reference MMR: an explicitly built forest. Positions, heights, parents, siblings, children
//! and hashes are assigned by construction (append a leaf, merge equal-height tops); hashing is
//! blake2b-256 over (u64 BE index ‖ serialized content) computed here, not via the repo's
//! `hash_with_index`.
use blake2_rfc::blake2b::Blake2b;

pub type H32 = [u8; 32];

pub fn hash_leaf(pos: u64, data: &[u8]) -> H32 {
	let mut st = Blake2b::new(32);
	st.update(&pos.to_be_bytes());
	st.update(data);
	let mut r = [0u8; 32];
	r.copy_from_slice(st.finalize().as_bytes());
	r
}
pub fn hash_pair(idx: u64, l: &H32, r: &H32) -> H32 {
	let mut st = Blake2b::new(32);
	st.update(&idx.to_be_bytes());
	st.update(l);
	st.update(r);
	let mut o = [0u8; 32];
	o.copy_from_slice(st.finalize().as_bytes());
	o
}

#[derive(Clone, Debug)]
pub struct Node {
	pub height: u32,
	pub left: Option<u64>,
	pub right: Option<u64>,
	pub parent: Option<u64>,
	pub hash: H32,
	/// leaf insertion index for leaves
	pub leaf_idx: Option<u64>,
}

#[derive(Clone, Debug, Default)]
pub struct Forest {
	pub nodes: Vec<Node>,
	/// current peaks (positions), left to right
	pub stack: Vec<u64>,
	pub leaf_pos: Vec<u64>,
	/// sizes at which the structure is a complete MMR, with the peaks at that size
	pub with_hashes: bool,
}

impl Forest {
	pub fn new(with_hashes: bool) -> Forest {
		Forest {
			with_hashes,
			..Default::default()
		}
	}
	pub fn size(&self) -> u64 {
		self.nodes.len() as u64
	}
	pub fn push(&mut self, data: &[u8]) -> u64 {
		let pos = self.nodes.len() as u64;
		let li = self.leaf_pos.len() as u64;
		self.nodes.push(Node {
			height: 0,
			left: None,
			right: None,
			parent: None,
			hash: if self.with_hashes {
				hash_leaf(pos, data)
			} else {
				[0; 32]
			},
			leaf_idx: Some(li),
		});
		self.leaf_pos.push(pos);
		self.stack.push(pos);
		loop {
			let n = self.stack.len();
			if n < 2 {
				break;
			}
			let (l, r) = (self.stack[n - 2], self.stack[n - 1]);
			if self.nodes[l as usize].height != self.nodes[r as usize].height {
				break;
			}
			let p = self.nodes.len() as u64;
			let h = self.nodes[l as usize].height + 1;
			let hash = if self.with_hashes {
				hash_pair(p, &self.nodes[l as usize].hash, &self.nodes[r as usize].hash)
			} else {
				[0; 32]
			};
			self.nodes.push(Node {
				height: h,
				left: Some(l),
				right: Some(r),
				parent: None,
				hash,
				leaf_idx: None,
			});
			self.nodes[l as usize].parent = Some(p);
			self.nodes[r as usize].parent = Some(p);
			self.stack.pop();
			self.stack.pop();
			self.stack.push(p);
		}
		pos
	}
	/// root = peaks bagged right to left with the size
	pub fn root(&self) -> H32 {
		let size = self.size();
		let mut acc: Option<H32> = None;
		for &p in self.stack.iter().rev() {
			let h = self.nodes[p as usize].hash;
			acc = Some(match acc {
				None => h,
				Some(r) => hash_pair(size, &h, &r),
			});
		}
		acc.unwrap_or([0u8; 32])
	}
	/// all positions of the subtree under pos, ascending
	pub fn subtree(&self, pos: u64) -> Vec<u64> {
		let mut out = vec![];
		self.collect(pos, &mut out);
		out.sort();
		out
	}
	fn collect(&self, pos: u64, out: &mut Vec<u64>) {
		out.push(pos);
		let n = &self.nodes[pos as usize];
		if let (Some(l), Some(r)) = (n.left, n.right) {
			self.collect(l, out);
			self.collect(r, out);
		}
	}
	/// The Merkle path for a leaf by definition: siblings up to the leaf's peak, then
	/// (bagged peaks to the right, if any), then the peaks to the left, nearest first.
	pub fn proof_path(&self, leaf: u64) -> Vec<H32> {
		let size = self.size();
		let mut path = vec![];
		let mut cur = leaf;
		while let Some(p) = self.nodes[cur as usize].parent {
			let n = &self.nodes[p as usize];
			let sib = if n.left == Some(cur) {
				n.right.unwrap()
			} else {
				n.left.unwrap()
			};
			path.push(self.nodes[sib as usize].hash);
			cur = p;
		}
		// cur is the peak
		let mut rhs: Option<H32> = None;
		for &p in self.stack.iter().rev() {
			if p <= cur {
				break;
			}
			let h = self.nodes[p as usize].hash;
			rhs = Some(match rhs {
				None => h,
				Some(r) => hash_pair(size, &h, &r),
			});
		}
		if let Some(r) = rhs {
			path.push(r);
		}
		for &p in self.stack.iter().rev() {
			if p < cur {
				path.push(self.nodes[p as usize].hash);
			}
		}
		path
	}
}

/// u128 bit-recursive reference for the pure position arithmetic (no tree needed).
/// height of 0-based position.
pub fn ref_height(pos0: u128) -> u32 {
	let mut p = pos0 + 1; // 1-based
	loop {
		let bits = 128 - p.leading_zeros();
		if p == (1u128 << bits) - 1 {
			return bits - 1;
		}
		// jump to the corresponding node in the left subtree
		p -= (1u128 << (bits - 1)) - 1;
	}
}
pub fn ref_family(pos0: u128) -> (u128, u128) {
	let h = ref_height(pos0);
	if ref_height(pos0 + 1) > h {
		// right child
		(pos0 + 1, pos0 + 1 - (1u128 << (h + 1)))
	} else {
		let parent = pos0 + (1u128 << (h + 1));
		(parent, parent - 1)
	}
}
pub fn ref_leaf_pos(n: u128) -> u128 {
	let mut pos = 0u128;
	for b in 0..127 {
		if n & (1u128 << b) != 0 {
			pos += (1u128 << (b + 1)) - 1;
		}
	}
	pos
}
/// number of leaves with position < size
pub fn ref_leaves_below(size: u128) -> u128 {
	// largest n with ref_leaf_pos(n) < size ... count = that n + 1; binary search
	if size == 0 {
		return 0;
	}
	let (mut lo, mut hi) = (0u128, size); // leaf_pos(n) >= n
	while lo < hi {
		let mid = lo + (hi - lo + 1) / 2;
		if ref_leaf_pos(mid) < size {
			lo = mid;
		} else {
			hi = mid - 1;
		}
	}
	lo + 1
}
