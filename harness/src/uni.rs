//! Deterministic universe builders: keychains, network-shaped genesis, blocks on any known
//! parent (real PoW), transactions with fixed kernel excess and signature nonce.
use chrono::Duration;
use grin_chain::store::DifficultyIter;
use grin_chain::types::{NoopAdapter, Options};
use grin_chain::{Chain, ChainAdapter};
use grin_core::consensus;
use grin_core::core::hash::{Hash, Hashed};
use grin_core::core::{
	Block, BlockHeader, KernelFeatures, Output, Transaction, TxKernel,
};
use grin_core::genesis;
use grin_core::global::{self, ChainTypes};
use grin_core::libtx::build::{self, Append};
use grin_core::libtx::{aggsig, reward, ProofBuilder};
use grin_core::pow;
use grin_keychain::{BlindingFactor, ExtKeychain, ExtKeychainPath, Identifier, Keychain};
use grin_util::secp::key::SecretKey;
use std::path::{Path, PathBuf};
use std::sync::Arc;

pub const REWARD: u64 = 60_000_000_000;

/// process-wide default of the per-thread NRD flag (set by engines whose worker threads run an NRD universe)
pub static NRD_DEFAULT: std::sync::atomic::AtomicBool = std::sync::atomic::AtomicBool::new(false);

/// Per-thread globals; call in every thread that touches grin code.
pub fn init_thread() {
	global::set_local_chain_type(ChainTypes::AutomatedTesting);
	global::set_local_nrd_enabled(NRD_DEFAULT.load(std::sync::atomic::Ordering::SeqCst));
	global::set_local_accept_fee_base(1);
}

pub fn keychain(seed: u8) -> ExtKeychain {
	ExtKeychain::from_seed(&[seed; 32], false).expect("keychain")
}

pub fn kid(n: u32) -> Identifier {
	ExtKeychainPath::new(1, n, 0, 0, 0).to_identifier()
}

/// Network-shaped genesis: reward output + kernel AND the header commits to its own body
/// (output_mmr_size = kernel_mmr_size = 1), as Mainnet/Testnet do.
pub fn genesis(kc: &ExtKeychain) -> Block {
	let key_id = ExtKeychain::derive_key_id(0, 1, 0, 0, 0);
	let r = reward::output(kc, &ProofBuilder::new(kc), &key_id, 0, true).unwrap();
	let mut g = genesis::genesis_dev().with_reward(r.0, r.1);
	g.header.output_mmr_size = 1;
	g.header.kernel_mmr_size = 1;
	g
}

/// RAM-backed scratch when available (fsync is the dominant cost of a chain transition on
/// disk); falls back to /verif/target/scratch. Override with GV_SCRATCH.
pub fn scratch_base() -> String {
	if let Ok(p) = std::env::var("GV_SCRATCH") {
		return p;
	}
	let shm = "/dev/shm/gv-scratch";
	if std::fs::create_dir_all(shm).is_ok() {
		return shm.to_string();
	}
	"/verif/target/scratch".to_string()
}

/// Scratch root for this process (under /verif/target/scratch/<pid>), removed by `Scratch::drop`.
pub struct Scratch {
	pub root: PathBuf,
	ctr: std::cell::Cell<u64>,
}
impl Scratch {
	pub fn new(tag: &str) -> Scratch {
		let root = PathBuf::from(format!(
			"{}/{}-{}",
			scratch_base(),
			tag,
			std::process::id()
		));
		let _ = std::fs::remove_dir_all(&root);
		std::fs::create_dir_all(&root).expect("scratch dir");
		Scratch {
			root,
			ctr: std::cell::Cell::new(0),
		}
	}
	pub fn fresh(&self, name: &str) -> PathBuf {
		let n = self.ctr.get();
		self.ctr.set(n + 1);
		let p = self.root.join(format!("{}-{}", name, n));
		let _ = std::fs::remove_dir_all(&p);
		p
	}
}
impl Drop for Scratch {
	fn drop(&mut self) {
		let _ = std::fs::remove_dir_all(&self.root);
	}
}

pub fn copy_dir(from: &Path, to: &Path) {
	std::fs::create_dir_all(to).expect("mkdir");
	for e in std::fs::read_dir(from).expect("read_dir") {
		let e = e.unwrap();
		let ft = e.file_type().unwrap();
		let dst = to.join(e.file_name());
		if ft.is_dir() {
			copy_dir(&e.path(), &dst);
		} else if ft.is_file() {
			// lmdb lock files are recreated on open
			std::fs::copy(e.path(), &dst).expect("copy file");
		}
	}
}

pub fn open_chain_with(
	dir: &Path,
	gen: &Block,
	adapter: Arc<dyn ChainAdapter + Send + Sync>,
) -> Result<Chain, grin_chain::Error> {
	Chain::init(
		dir.to_str().unwrap().to_string(),
		adapter,
		gen.clone(),
		pow::verify_size,
		false,
		None,
	)
}

pub fn open_chain(dir: &Path, gen: &Block) -> Chain {
	open_chain_with(dir, gen, Arc::new(NoopAdapter {})).expect("Chain::init")
}

/// What a block should carry.
#[derive(Clone)]
pub struct BlockSpec {
	pub txs: Vec<Transaction>,
	/// coinbase key index (distinguishes sibling blocks)
	pub reward_key: u32,
	/// seconds after the parent's timestamp
	pub dt: i64,
}
impl BlockSpec {
	pub fn empty(reward_key: u32) -> BlockSpec {
		BlockSpec {
			txs: vec![],
			reward_key,
			dt: 60,
		}
	}
	pub fn with(reward_key: u32, txs: Vec<Transaction>) -> BlockSpec {
		BlockSpec {
			txs,
			reward_key,
			dt: 60,
		}
	}
}

pub fn coinbase(kc: &ExtKeychain, key: u32, fees: u64) -> (Output, TxKernel) {
	reward::output(kc, &ProofBuilder::new(kc), &kid(key), fees, true).unwrap()
}

/// The unmined block on top of `prev` (which must be a stored *block* of `chain`, or the head):
/// reward, difficulty and secondary scaling from the parent's own ancestry, roots from the
/// chain's readonly extension. Not yet mined: `mine` finishes it.
pub fn assemble(chain: &Chain, kc: &ExtKeychain, prev: &BlockHeader, spec: &BlockSpec) -> Result<Block, String> {
	let fees: u64 = spec.txs.iter().map(|t| t.fee()).sum();
	let rw = coinbase(kc, spec.reward_key, fees);
	let store = chain.store();
	let next = consensus::next_difficulty(
		prev.height + 1,
		DifficultyIter::from(prev.hash(), store),
	);
	let mut b = Block::from_reward(prev, &spec.txs, rw.0, rw.1, next.difficulty)
		.map_err(|e| format!("from_reward: {:?}", e))?;
	b.header.timestamp = prev.timestamp + Duration::seconds(spec.dt);
	b.header.pow.secondary_scaling = next.secondary_scaling;
	chain
		.set_txhashset_roots(&mut b)
		.map_err(|e| format!("set_txhashset_roots: {:?}", e))?;
	Ok(b)
}

/// Real PoW for the block as it stands, at the difficulty it claims over `prev`.
pub fn remine(b: &mut Block, prev: &BlockHeader) {
	let diff = b.header.total_difficulty() - prev.total_difficulty();
	mine_header(&mut b.header, diff);
}

pub fn mine_header(h: &mut BlockHeader, diff: grin_core::pow::Difficulty) {
	let edge_bits = global::min_edge_bits();
	h.pow.proof.edge_bits = edge_bits;
	h.pow.nonce = 0;
	pow::pow_size(h, diff, global::proofsize(), edge_bits).expect("pow_size");
}

/// Build and mine a block on `prev`; does not deliver it.
pub fn build_block(chain: &Chain, kc: &ExtKeychain, prev: &BlockHeader, spec: &BlockSpec) -> Result<Block, String> {
	let mut b = assemble(chain, kc, prev, spec)?;
	remine(&mut b, prev);
	Ok(b)
}

/// Build, mine and process; panics if the builder chain refuses it.
pub fn extend(chain: &Chain, kc: &ExtKeychain, prev: &BlockHeader, spec: &BlockSpec) -> Block {
	let b = build_block(chain, kc, prev, spec).expect("build_block");
	chain
		.process_block(b.clone(), Options::NONE)
		.unwrap_or_else(|e| panic!("builder chain refused block at height {}: {:?}", b.header.height, e));
	b
}

fn secret_from(tag: &str, n: u64) -> SecretKey {
	let secp = grin_util::static_secp_instance();
	let secp = secp.lock();
	let mut i = 0u64;
	loop {
		let h = blake2_rfc::blake2b::blake2b(32, &[], format!("{}/{}/{}", tag, n, i).as_bytes());
		if let Ok(k) = SecretKey::from_slice(&secp, h.as_bytes()) {
			return k;
		}
		i += 1;
	}
}

/// A deterministic transaction: fixed kernel excess (from `id`) and fixed signature nonce.
pub fn tx<'a>(
	kc: &ExtKeychain,
	features: KernelFeatures,
	elems: &[Box<Append<ExtKeychain, ProofBuilder<'a, ExtKeychain>>>],
	builder: &ProofBuilder<'a, ExtKeychain>,
	id: u64,
) -> Result<Transaction, String> {
	let mut kernel = TxKernel::with_features(features);
	let msg = kernel.msg_to_sign().map_err(|e| format!("{:?}", e))?;
	let skey = secret_from("excess", id);
	let nonce = secret_from("nonce", id);
	let excess = BlindingFactor::from_secret_key(skey.clone());
	{
		let secp = kc.secp();
		kernel.excess = secp.commit(0, skey.clone()).map_err(|e| format!("{:?}", e))?;
		let pubkey = kernel.excess.to_pubkey(secp).map_err(|e| format!("{:?}", e))?;
		kernel.excess_sig = aggsig::sign_single(secp, &msg, &skey, Some(&nonce), Some(&pubkey))
			.map_err(|e| format!("{:?}", e))?;
	}
	build::transaction_with_kernel(elems, kernel, excess, kc, builder).map_err(|e| format!("{:?}", e))
}

/// Like `tx`, but the kernel excess key is chosen so that the transaction's offset is exactly `want_offset`
/// (the split of the blinding sum into kernel excess and offset is the sender's choice).
pub fn tx_with_offset<'a>(
	kc: &ExtKeychain,
	features: KernelFeatures,
	elems: &[Box<Append<ExtKeychain, ProofBuilder<'a, ExtKeychain>>>],
	builder: &ProofBuilder<'a, ExtKeychain>,
	id: u64,
	want_offset: &BlindingFactor,
) -> Result<Transaction, String> {
	// blinding sum of the elements = offset + excess of any build
	let probe = tx(kc, features, elems, builder, id)?;
	let secp = kc.secp();
	let e1 = secret_from("excess", id);
	let o1 = probe.offset.secret_key(secp).map_err(|e| format!("{:?}", e))?;
	let w = want_offset.secret_key(secp).map_err(|e| format!("{:?}", e))?;
	let skey = secp.blind_sum(vec![o1, e1], vec![w]).map_err(|e| format!("{:?}", e))?;
	let mut kernel = TxKernel::with_features(features);
	let msg = kernel.msg_to_sign().map_err(|e| format!("{:?}", e))?;
	let nonce = secret_from("nonce", id);
	kernel.excess = secp.commit(0, skey.clone()).map_err(|e| format!("{:?}", e))?;
	let pubkey = kernel.excess.to_pubkey(secp).map_err(|e| format!("{:?}", e))?;
	kernel.excess_sig = aggsig::sign_single(secp, &msg, &skey, Some(&nonce), Some(&pubkey)).map_err(|e| format!("{:?}", e))?;
	let t = build::transaction_with_kernel(elems, kernel, BlindingFactor::from_secret_key(skey), kc, builder).map_err(|e| format!("{:?}", e))?;
	if t.offset != *want_offset {
		return Err("offset of the built transaction is not the wanted one".into());
	}
	Ok(t)
}

/// spend the coinbase with key `from` entirely into plain outputs `to` (amounts), fee = rest
pub fn spend_coinbase(kc: &ExtKeychain, from: u32, in_value: u64, to: &[(u32, u64)], id: u64) -> Transaction {
	let pb = ProofBuilder::new(kc);
	let mut elems: Vec<Box<Append<ExtKeychain, ProofBuilder<'_, ExtKeychain>>>> =
		vec![build::coinbase_input(in_value, kid(from))];
	let mut out_sum = 0;
	for (k, v) in to {
		elems.push(build::output(*v, kid(*k)));
		out_sum += v;
	}
	let fee = in_value - out_sum;
	tx(kc, KernelFeatures::Plain { fee: (fee as u32).into() }, &elems, &pb, id).expect("tx")
}

/// one transaction spending several coinbase outputs
pub fn spend_coinbases(kc: &ExtKeychain, from: &[(u32, u64)], to: &[(u32, u64)], id: u64) -> Transaction {
	let pb = ProofBuilder::new(kc);
	let mut elems: Vec<Box<Append<ExtKeychain, ProofBuilder<'_, ExtKeychain>>>> = vec![];
	let mut in_sum = 0;
	for (k, v) in from {
		elems.push(build::coinbase_input(*v, kid(*k)));
		in_sum += v;
	}
	let mut out_sum = 0;
	for (k, v) in to {
		elems.push(build::output(*v, kid(*k)));
		out_sum += v;
	}
	let fee = in_sum - out_sum;
	tx(kc, KernelFeatures::Plain { fee: (fee as u32).into() }, &elems, &pb, id).expect("tx")
}

/// spend plain outputs into plain outputs
pub fn spend_plain(kc: &ExtKeychain, from: &[(u32, u64)], to: &[(u32, u64)], features: Option<KernelFeatures>, id: u64) -> Transaction {
	let pb = ProofBuilder::new(kc);
	let mut elems: Vec<Box<Append<ExtKeychain, ProofBuilder<'_, ExtKeychain>>>> = vec![];
	let (mut i, mut o) = (0, 0);
	for (k, v) in from {
		elems.push(build::input(*v, kid(*k)));
		i += v;
	}
	for (k, v) in to {
		elems.push(build::output(*v, kid(*k)));
		o += v;
	}
	let fee = i - o;
	let f = features.unwrap_or(KernelFeatures::Plain { fee: (fee as u32).into() });
	tx(kc, f, &elems, &pb, id).expect("tx")
}

pub fn commit_of(kc: &ExtKeychain, key: u32, value: u64) -> grin_util::secp::pedersen::Commitment {
	kc.commit(value, &kid(key), grin_keychain::SwitchCommitmentType::Regular)
		.unwrap()
}
