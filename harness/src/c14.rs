//! C14 — The transaction pool always holds a jointly valid, fee-paying, mineable set.
//! Part `pool-mc`: breadth-first exploration with memoisation of every operation sequence up to a
//! depth over a real `TransactionPool` on a real `Chain` (each state is materialised by replaying
//! its operation prefix on fresh objects). Part `c13-pool`: the pool clauses of C13 evaluated at
//! every state of a two-fork universe, header-only states included.
//! Worker processes are persistent children of the part (`gv C14 --child worker ..`), fed one
//! state at a time by a level-synchronous coordinator that owns the memo.
use crate::ev::{hash64, hex, unhex, Report, Tier};
use crate::fp;
use crate::ledger::{cbytes, InputCommits, State, Tree, MATURITY};
use crate::uni::{self, BlockSpec, REWARD};
use crate::{Engine, Meta};
use chrono::{Duration, Utc};
use grin_chain::types::{BlockStatus, Options};
use grin_chain::{Chain, ChainAdapter};
use grin_core::consensus;
use grin_core::core::hash::{Hash, Hashed};
use grin_core::core::transaction::{self, Transaction, Weighting};
use grin_core::core::{Block, BlockHeader, BlockSums, Inputs, KernelFeatures, OutputIdentifier};
use grin_core::libtx::{build, reward, ProofBuilder};
use grin_core::ser::{self, DeserializationMode, ProtocolVersion};
use grin_keychain::{BlindingFactor, ExtKeychain, Keychain};
use grin_pool::types::{BlockChain, NoopPoolAdapter, PoolConfig, PoolError, TxSource};
use grin_pool::TransactionPool;
use grin_util::secp::pedersen::Commitment;
use serde_json::{json, Value};
use std::cell::RefCell;
use std::collections::{BTreeMap, BTreeSet, HashMap, HashSet};
use std::io::{BufRead, BufReader, Write};
use std::path::{Path, PathBuf};
use std::process::{Command, Stdio};
use std::rc::Rc;
use std::sync::{mpsc, Arc, Mutex};
use std::time::Instant;

pub struct C14;

// ---------------------------------------------------------------------------------------------
// Adapters (shape of pool/tests/common.rs `ChainAdapter`; node glue of servers/src/common/adapters.rs)

struct PoolChain {
	chain: Arc<Chain>,
}

impl BlockChain for PoolChain {
	fn chain_head(&self) -> Result<BlockHeader, PoolError> {
		self.chain.head_header().map_err(|_| PoolError::Other("failed to get chain head".into()))
	}
	fn get_block_header(&self, hash: &Hash) -> Result<BlockHeader, PoolError> {
		self.chain.get_block_header(hash).map_err(|_| PoolError::Other("failed to get block header".into()))
	}
	fn get_block_sums(&self, hash: &Hash) -> Result<BlockSums, PoolError> {
		self.chain.get_block_sums(hash).map_err(|_| PoolError::Other("failed to get block sums".into()))
	}
	fn validate_tx(&self, tx: &Transaction) -> Result<(), PoolError> {
		self.chain.validate_tx(tx).map_err(|e| match e {
			grin_chain::Error::Transaction { source: txe } => txe.into(),
			grin_chain::Error::NRDRelativeHeight => PoolError::NRDKernelRelativeHeight,
			_ => PoolError::Other("failed to validate tx".into()),
		})
	}
	fn validate_inputs(&self, inputs: &Inputs) -> Result<Vec<OutputIdentifier>, PoolError> {
		self.chain
			.validate_inputs(inputs)
			.map(|outputs| outputs.into_iter().map(|(out, _)| out).collect::<Vec<_>>())
			.map_err(|_| PoolError::Other("failed to validate inputs".into()))
	}
	fn verify_coinbase_maturity(&self, inputs: &Inputs) -> Result<(), PoolError> {
		self.chain.verify_coinbase_maturity(inputs).map_err(|_| PoolError::ImmatureCoinbase)
	}
	fn verify_tx_lock_height(&self, tx: &Transaction) -> Result<(), PoolError> {
		self.chain.verify_tx_lock_height(tx).map_err(|_| PoolError::ImmatureTransaction)
	}
}

type Pool = TransactionPool<PoolChain, NoopPoolAdapter>;

#[derive(Clone, Copy, PartialEq, Debug)]
enum St {
	Next,
	Fork,
	Reorg,
}

/// Records `block_accepted` so that the node's glue can be run after `process_block` returns.
#[derive(Default)]
struct Rec {
	log: Mutex<Vec<(Block, St)>>,
}
impl ChainAdapter for Rec {
	fn block_accepted(&self, b: &Block, status: BlockStatus, _opts: Options) {
		let s = if status.is_next() {
			St::Next
		} else if status.is_reorg() {
			St::Reorg
		} else {
			St::Fork
		};
		self.log.lock().unwrap().push((b.clone(), s));
	}
}

fn pool_config(mc: bool) -> PoolConfig {
	if mc {
		PoolConfig {
			accept_fee_base: 1,
			reorg_cache_period: 30,
			max_pool_size: 2,
			max_stempool_size: 2,
			mineable_max_weight: MINEABLE_MAX_WEIGHT,
		}
	} else {
		PoolConfig {
			accept_fee_base: 1,
			reorg_cache_period: 30,
			max_pool_size: 50,
			max_stempool_size: 50,
			mineable_max_weight: 10_000,
		}
	}
}

/// miner's own weight limit of the explored node (below the consensus limit of 250 so that
/// `prepare_mineable_transactions` has to leave transactions out in reachable states)
const MINEABLE_MAX_WEIGHT: u64 = 100;

fn new_pool(chain: Arc<Chain>, mc: bool) -> Pool {
	TransactionPool::new(pool_config(mc), Arc::new(PoolChain { chain }), Arc::new(NoopPoolAdapter {}))
}

// ---------------------------------------------------------------------------------------------
// Universe

#[derive(Clone, Copy, PartialEq, Debug)]
enum Kind {
	Plain,
	Agg,
	LowFee,
	Heavy,
	BadSum,
	Immature,
	Locked,
}
impl Kind {
	fn name(&self) -> &'static str {
		match self {
			Kind::Plain => "plain",
			Kind::Agg => "agg",
			Kind::LowFee => "lowfee",
			Kind::Heavy => "heavy",
			Kind::BadSum => "badsum",
			Kind::Immature => "immature",
			Kind::Locked => "locked",
		}
	}
	fn parse(s: &str) -> Kind {
		match s {
			"agg" => Kind::Agg,
			"lowfee" => Kind::LowFee,
			"heavy" => Kind::Heavy,
			"badsum" => Kind::BadSum,
			"immature" => Kind::Immature,
			"locked" => Kind::Locked,
			_ => Kind::Plain,
		}
	}
}

struct UTx {
	name: String,
	tx: Transaction,
	kind: Kind,
}

struct Uni {
	mc: bool,
	/// pool-capacity: pool operations only, deeper
	cap: bool,
	/// pool-reorg: narrow alphabet around the reorg cache, deeper
	reorg: bool,
	tier: Tier,
	kc: ExtKeychain,
	tree: Tree,
	/// chain directory of the root state (closed)
	base: PathBuf,
	udir: PathBuf,
	txs: Vec<UTx>,
	main: Vec<usize>,
	fork: Vec<usize>,
	hashes: Vec<Hash>,
	commits: Vec<Commitment>,
	/// universe blocks and blocks built during exploration, for the reference replay
	by_hash: RefCell<HashMap<Hash, Block>>,
	ref_cache: RefCell<HashMap<Hash, Rc<State>>>,
	/// memo of pure verdicts of the code's own judges: validate() of one entry (by tx hash),
	/// aggregate+validate+validate_tx of an entry list (by chain digest and tx hashes)
	memo_entry: RefCell<HashMap<Hash, Option<String>>>,
	memo_agg: RefCell<HashMap<(String, Vec<Hash>), Vec<(String, String)>>>,
}

fn tx_hex(tx: &Transaction) -> String {
	// protocol version 2 keeps the input features; commit-only inputs need version 3; a
	// transaction that the binary reader refuses (over weight) travels as JSON
	if tx.validate_read().is_err() {
		return format!("J{}", serde_json::to_string(tx).expect("json tx"));
	}
	match ser::ser_vec(tx, ProtocolVersion(2)) {
		Ok(b) => format!("2{}", hex(&b)),
		Err(_) => format!("3{}", hex(&ser::ser_vec(tx, ProtocolVersion(3)).expect("ser tx"))),
	}
}
fn tx_unhex(h: &str) -> Transaction {
	if let Some(j) = h.strip_prefix('J') {
		return serde_json::from_str(j).expect("json tx");
	}
	let v = if h.starts_with('2') { 2 } else { 3 };
	let b = unhex(&h[1..]);
	ser::deserialize(&mut &b[..], ProtocolVersion(v), DeserializationMode::default()).expect("deser tx")
}
fn block_hex(b: &Block) -> String {
	hex(&ser::ser_vec(b, ProtocolVersion::local()).expect("ser block"))
}
fn block_unhex(h: &str) -> Block {
	let b = unhex(h);
	ser::deserialize(&mut &b[..], ProtocolVersion::local(), DeserializationMode::default()).expect("deser block")
}

fn short(h: &Hash) -> String {
	use grin_util::ToHex;
	h.to_hex()[..12].to_string()
}

impl Uni {
	fn save(&self) {
		self.tree.save(&self.udir.join("tree.json"));
		let j = json!({
			"mc": self.mc,
			"tier": self.tier.name(),
			"main": self.main,
			"fork": self.fork,
			"txs": self.txs.iter().map(|t| json!({"name": t.name, "kind": t.kind.name(), "hex": tx_hex(&t.tx)})).collect::<Vec<_>>(),
		});
		std::fs::write(self.udir.join("meta.json"), serde_json::to_vec(&j).unwrap()).expect("write meta");
	}

	fn load(udir: &Path, seed: u8) -> Uni {
		let tree = Tree::load(&udir.join("tree.json"));
		let j: Value = serde_json::from_slice(&std::fs::read(udir.join("meta.json")).expect("meta")).expect("meta json");
		let idx = |k: &str| -> Vec<usize> { j[k].as_array().unwrap().iter().map(|x| x.as_u64().unwrap() as usize).collect() };
		let txs = j["txs"]
			.as_array()
			.unwrap()
			.iter()
			.map(|t| UTx { name: t["name"].as_str().unwrap().to_string(), kind: Kind::parse(t["kind"].as_str().unwrap()), tx: tx_unhex(t["hex"].as_str().unwrap()) })
			.collect();
		let tier = if j["tier"].as_str() == Some("quick") { Tier::Quick } else { Tier::Thorough };
		Uni::assemble(j["mc"].as_bool().unwrap(), tier, seed, tree, udir, txs, idx("main"), idx("fork"))
	}

	#[allow(clippy::too_many_arguments)]
	fn assemble(mc: bool, tier: Tier, seed: u8, tree: Tree, udir: &Path, txs: Vec<UTx>, main: Vec<usize>, fork: Vec<usize>) -> Uni {
		let hashes: Vec<Hash> = tree.blocks.iter().map(|b| b.block.hash()).collect();
		let mut commits = tree.all_commits();
		for t in &txs {
			for o in t.tx.outputs() {
				if !commits.contains(&o.commitment()) {
					commits.push(o.commitment());
				}
			}
		}
		let mut by_hash = HashMap::new();
		for b in &tree.blocks {
			by_hash.insert(b.block.hash(), b.block.clone());
		}
		Uni {
			mc,
			cap: false,
			reorg: false,
			tier,
			kc: uni::keychain(seed),
			tree,
			base: udir.join("base"),
			udir: udir.to_path_buf(),
			txs,
			main,
			fork,
			hashes,
			commits,
			by_hash: RefCell::new(by_hash),
			ref_cache: RefCell::new(HashMap::new()),
			memo_entry: RefCell::new(HashMap::new()),
			memo_agg: RefCell::new(HashMap::new()),
		}
	}

	fn tx_index(&self, name: &str) -> Option<usize> {
		self.txs.iter().position(|t| t.name == name)
	}

	/// Reference unspent set after the block with hash `h` (pure replay of block data along the
	/// parent links; never reads chain state).
	fn ref_at(&self, h: Hash) -> Rc<State> {
		if let Some(s) = self.ref_cache.borrow().get(&h) {
			return s.clone();
		}
		let s = if h == self.tree.gen.hash() {
			State::genesis(&self.tree.gen)
		} else {
			let b = self.by_hash.borrow().get(&h).cloned().unwrap_or_else(|| panic!("reference: unknown block {}", short(&h)));
			let mut s = (*self.ref_at(b.header.prev_hash)).clone();
			s.apply_unchecked(&b);
			s
		};
		let s = Rc::new(s);
		self.ref_cache.borrow_mut().insert(h, s.clone());
		s
	}

	/// name of the pool transaction (by kernel set), for descriptions
	fn tx_name(&self, tx: &Transaction) -> String {
		for t in &self.txs {
			if t.tx.kernels() == tx.kernels() {
				if t.tx.inputs().len() == tx.inputs().len() && t.tx.outputs().len() == tx.outputs().len() {
					return t.name.clone();
				}
				return format!("{}~", t.name);
			}
		}
		// a remainder after deaggregation keeps the kernels of a subset
		for t in &self.txs {
			if tx.kernels().len() == 1 && t.tx.kernels().len() == 1 && t.tx.kernels()[0].excess == tx.kernels()[0].excess {
				return format!("{}'", t.name);
			}
		}
		format!("tx:{}", short(&tx.hash()))
	}
}

const SEED_MC: u8 = 41;
const SEED_13: u8 = 42;

/// coinbase-spending transaction with any number of outputs
fn cb_spend(kc: &ExtKeychain, from: u32, in_value: u64, outs: &[(u32, u64)], id: u64) -> Transaction {
	uni::spend_coinbase(kc, from, in_value, outs, id)
}

/// pool-mc universe: main b1..b8, fork from b5 (f6 carries T3, f9 carries T10; f6..f8 are known
/// bodies of a losing fork in the root state, f9..f11 arrive during exploration).
fn build_mc(udir: &Path, tier: Tier, sc: &uni::Scratch) -> Uni {
	let kc = uni::keychain(SEED_MC);
	let mut txs: Vec<UTx> = vec![];
	let t1 = cb_spend(&kc, 1, REWARD, &[(101, REWARD - 30)], 1);
	let t2 = cb_spend(&kc, 2, REWARD, &[(102, REWARD - 2000)], 2);
	let t3 = cb_spend(&kc, 1, REWARD, &[(103, REWARD - 500)], 3);
	let t4 = uni::spend_plain(&kc, &[(101, REWARD - 30)], &[(104, REWARD - 130)], None, 4);
	let t5 = transaction::aggregate(&[t1.clone(), t4.clone()]).expect("aggregate T1 T4");
	let t6 = cb_spend(&kc, 4, REWARD, &[(106, REWARD - 10)], 6);
	let heavy_outs: Vec<(u32, u64)> = (0..11u32).map(|k| (120 + k, if k == 0 { REWARD - 5000 - 10 * 1_000_000 } else { 1_000_000 })).collect();
	let t7 = cb_spend(&kc, 5, REWARD, &heavy_outs, 7);
	let mut t8 = cb_spend(&kc, 6, REWARD, &[(108, REWARD - 1000)], 8);
	t8.offset = t2.offset.clone();
	let t9 = cb_spend(&kc, 7, REWARD, &[(109, REWARD - 1000)], 9);
	let t10 = cb_spend(&kc, 3, REWARD, &[(110, REWARD - 1000)], 10);
	let t11 = cb_spend(&kc, 4, REWARD, &[(111, REWARD - 700)], 11);
	// an aggregate whose total fee is fine although one member (T6) pays too little: once the
	// overpaying member T2 is pooled, what remains to be admitted is T6 alone
	let t12 = transaction::aggregate(&[t2.clone(), t6.clone()]).expect("aggregate T2 T6");
	// a child of TWO pooled parents (spends the outputs of T1 and of T2)
	let t13 = uni::spend_plain(&kc, &[(101, REWARD - 30), (102, REWARD - 2000)], &[(113, 2 * REWARD - 2030 - 400)], None, 13);
	// two coinbase inputs (2 and 4): shares one with T2 and the other with T11
	let t14 = {
		let pb = ProofBuilder::new(&kc);
		uni::tx(&kc, KernelFeatures::Plain { fee: 900u32.into() }, &[build::coinbase_input(REWARD, uni::kid(2)), build::coinbase_input(REWARD, uni::kid(4)), build::output(2 * REWARD - 900, uni::kid(114))], &pb, 14).expect("T14")
	};
	// a valid transaction whose offset is minus T1's (the split between kernel excess and offset is the sender's
	// choice): in a block on top of one that carried only T1 the running total of kernel offsets comes back to zero
	let t15 = {
		let pb = ProofBuilder::new(&kc);
		let secp = kc.secp();
		let minus_t1 = secp.blind_sum(vec![], vec![t1.offset.secret_key(secp).expect("T1 offset")]).expect("negate");
		uni::tx_with_offset(&kc, KernelFeatures::Plain { fee: 700u32.into() }, &[build::coinbase_input(REWARD, uni::kid(5)), build::output(REWARD - 700, uni::kid(115))], &pb, 15, &grin_keychain::BlindingFactor::from_secret_key(minus_t1)).expect("T15")
	};
	// a valid transaction whose kernel uses the fee-shift bits (a "priority" fee: wallets leave them at 0); what a
	// block claims for it is the fee itself, not the shifted fee
	let t16 = {
		let pb = ProofBuilder::new(&kc);
		let fee = grin_core::core::FeeFields::new(2, 5000).expect("fee fields");
		uni::tx(&kc, KernelFeatures::Plain { fee }, &[build::coinbase_input(REWARD, uni::kid(3)), build::output(REWARD - 5000, uni::kid(116))], &pb, 16).expect("T16")
	};
	for (n, t, k) in [
		("T15", &t15, Kind::Plain),
		("T16", &t16, Kind::Plain),
		("T1", &t1, Kind::Plain),
		("T2", &t2, Kind::Plain),
		("T3", &t3, Kind::Plain),
		("T4", &t4, Kind::Plain),
		("T5", &t5, Kind::Agg),
		("T6", &t6, Kind::LowFee),
		("T7", &t7, Kind::Heavy),
		("T8", &t8, Kind::BadSum),
		("T9", &t9, Kind::Immature),
		("T10", &t10, Kind::Plain),
		("T11", &t11, Kind::Plain),
		("T12", &t12, Kind::Agg),
		("T13", &t13, Kind::Plain),
		("T14", &t14, Kind::Plain),
	] {
		txs.push(UTx { name: n.to_string(), tx: t.clone(), kind: k });
	}
	let mut tb = crate::chainx::TreeBuilder::new(sc, SEED_MC, false);
	let mut main = vec![];
	let mut prev = None;
	for h in 1..=8u32 {
		let i = tb.add(&format!("b{}", h), prev, &BlockSpec::empty(h));
		prev = Some(i);
		main.push(i);
	}
	let mut fork = vec![];
	let mut fprev = Some(main[4]);
	for h in 6..=11u32 {
		let spec = match h {
			6 => BlockSpec::with(50 + h, vec![t3.clone()]),
			9 => BlockSpec::with(50 + h, vec![t10.clone()]),
			_ => BlockSpec::empty(50 + h),
		};
		let i = tb.add(&format!("f{}", h), fprev, &spec);
		fprev = Some(i);
		fork.push(i);
	}
	let tree = tb.finish();
	let u = Uni::assemble(true, tier, SEED_MC, tree, udir, txs, main, fork);
	// root state: main bodies, then the first three fork bodies (equal work: main stays head)
	{
		let c = uni::open_chain(&u.base, &u.tree.gen);
		for i in u.main.iter().chain(u.fork.iter().take(3)) {
			c.process_block(u.tree.blocks[*i].block.clone(), Options::NONE).unwrap_or_else(|e| panic!("builder refused {}: {:?}", u.tree.blocks[*i].name, e));
		}
		assert_eq!(c.head().unwrap().last_block_h, u.tree.blocks[u.main[7]].block.hash(), "root head must be b8");
	}
	std::fs::create_dir_all(udir.join("blocks")).expect("blocks dir");
	u.save();
	u
}

/// c13-pool universe: main m1..mN (m3 spends the genesis coinbase into two outputs), fork from m2
/// g3..gK (g3 spends it into four outputs): output counts per height differ between the forks.
/// Probe transactions: a spend of every coinbase of both forks and of genesis, and height-locked
/// spends of a plain output of each fork for every lock height around the reachable heights.
fn build_13(udir: &Path, tier: Tier, sc: &uni::Scratch) -> Uni {
	let kc = uni::keychain(SEED_13);
	let m = 1_000_000u64;
	let main_len = tier.pick(5u32, 8u32);
	let fork_tip = tier.pick(6u32, 9u32);
	let gid = ExtKeychain::derive_key_id(0, 1, 0, 0, 0);
	let pb = ProofBuilder::new(&kc);
	let gtx_main = uni::tx(&kc, KernelFeatures::Plain { fee: (m as u32).into() }, &[build::coinbase_input(REWARD, gid.clone()), build::output(REWARD / 2, uni::kid(200)), build::output(REWARD / 2 - m, uni::kid(201))], &pb, 50).expect("gtx main");
	let q = REWARD / 4;
	let gtx_fork = uni::tx(
		&kc,
		KernelFeatures::Plain { fee: (m as u32).into() },
		&[build::coinbase_input(REWARD, gid.clone()), build::output(q, uni::kid(210)), build::output(q, uni::kid(211)), build::output(q, uni::kid(212)), build::output(q - m, uni::kid(213))],
		&pb,
		51,
	)
	.expect("gtx fork");
	let gtx_probe = uni::tx(&kc, KernelFeatures::Plain { fee: (m as u32).into() }, &[build::coinbase_input(REWARD, gid), build::output(REWARD - m, uni::kid(290))], &pb, 52).expect("gtx probe");
	let mut tb = crate::chainx::TreeBuilder::new(sc, SEED_13, false);
	let mut main = vec![];
	let mut prev = None;
	for h in 1..=main_len {
		let spec = if h == 3 { BlockSpec::with(h, vec![gtx_main.clone()]) } else { BlockSpec::empty(h) };
		let i = tb.add(&format!("m{}", h), prev, &spec);
		prev = Some(i);
		main.push(i);
	}
	let mut fork = vec![];
	let mut fprev = Some(main[1]);
	for h in 3..=fork_tip {
		let spec = if h == 3 { BlockSpec::with(60 + h, vec![gtx_fork.clone()]) } else { BlockSpec::empty(60 + h) };
		let i = tb.add(&format!("g{}", h), fprev, &spec);
		fprev = Some(i);
		fork.push(i);
	}
	let tree = tb.finish();
	let mut txs = vec![UTx { name: "cb:gen".into(), tx: gtx_probe, kind: Kind::Immature }];
	let mut id = 100u64;
	for h in 1..=main_len {
		let v = if h == 3 { REWARD + m } else { REWARD };
		id += 1;
		txs.push(UTx { name: format!("cb:m{}", h), tx: cb_spend(&kc, h, v, &[(300 + h, v - m)], id), kind: Kind::Immature });
	}
	for h in 3..=fork_tip {
		let v = if h == 3 { REWARD + m } else { REWARD };
		id += 1;
		txs.push(UTx { name: format!("cb:g{}", h), tx: cb_spend(&kc, 60 + h, v, &[(400 + h, v - m)], id), kind: Kind::Immature });
	}
	// two coinbases of the main chain in one transaction, one or two blocks apart (inputs are sorted by commitment,
	// not by age: over the pairs both orders of the younger and the older one occur)
	for h in 1..=main_len {
		for d in [2u32] {
			if h + d <= main_len {
				let val = |x: u32| if x == 3 { REWARD + m } else { REWARD };
				id += 1;
				txs.push(UTx { name: format!("cb:m{}+m{}", h, h + d), tx: uni::spend_coinbases(&kc, &[(h, val(h)), (h + d, val(h + d))], &[(700 + h * 4 + d, val(h) + val(h + d) - m)], id), kind: Kind::Immature });
			}
		}
	}
	for l in 3..=(main_len as u64 + 2) {
		id += 1;
		txs.push(UTx {
			name: format!("lock{}:main", l),
			tx: uni::spend_plain(&kc, &[(200, REWARD / 2)], &[(500 + l as u32, REWARD / 2 - m)], Some(KernelFeatures::HeightLocked { fee: (m as u32).into(), lock_height: l }), id),
			kind: Kind::Locked,
		});
	}
	for l in 3..=(fork_tip as u64 + 2) {
		id += 1;
		txs.push(UTx {
			name: format!("lock{}:fork", l),
			tx: uni::spend_plain(&kc, &[(210, q)], &[(600 + l as u32, q - m)], Some(KernelFeatures::HeightLocked { fee: (m as u32).into(), lock_height: l }), id),
			kind: Kind::Locked,
		});
	}
	let u = Uni::assemble(false, tier, SEED_13, tree, udir, txs, main, fork);
	{
		let c = uni::open_chain(&u.base, &u.tree.gen);
		drop(c);
	}
	u.save();
	u
}

// ---------------------------------------------------------------------------------------------
// Operations

#[derive(Clone, Debug, PartialEq)]
enum Op {
	/// TransactionPool::add_to_pool(tx, stem)
	Submit(usize, bool),
	/// a valid block on the current head carrying the named set, then the node glue
	Connect(usize),
	/// the node mines its own block from prepare_mineable_transactions(), then the node glue
	Mine,
	/// body of the next fork block (process_block + glue): a reorg once the fork is heavier
	ForkBlock,
	/// header of the next fork block only (process_block_header)
	ForkHeader,
	/// TransactionPool::evict_from_txpool
	Evict,
	/// c13-pool: next main / fork body, next main / fork header
	Body(bool),
	Header(bool),
}

const CONNECT_SETS: &[(&str, &[&str])] = &[("{}", &[]), ("{T1}", &["T1"]), ("{T3}", &["T3"]), ("{T1,T4}", &["T1", "T4"]), ("{T11}", &["T11"])];

impl Op {
	fn show(&self, u: &Uni) -> String {
		match self {
			Op::Submit(i, stem) => format!("submit({},{})", u.txs[*i].name, if *stem { "stem" } else { "fluff" }),
			Op::Connect(s) => format!("connect({})", CONNECT_SETS[*s].0),
			Op::Mine => "mine".into(),
			Op::ForkBlock => "fork-block".into(),
			Op::ForkHeader => "fork-header".into(),
			Op::Evict => "evict".into(),
			Op::Body(main) => format!("B({})", if *main { "main" } else { "fork" }),
			Op::Header(main) => format!("H({})", if *main { "main" } else { "fork" }),
		}
	}
	fn parse(s: &str, u: &Uni) -> Option<Op> {
		if let Some(o) = alphabet(u, Tier::Thorough).into_iter().find(|o| o.show(u) == s) {
			return Some(o);
		}
		// a submission outside the part's alphabet (replay of a case of another part)
		for i in 0..u.txs.len() {
			for stem in [false, true] {
				if Op::Submit(i, stem).show(u) == s {
					return Some(Op::Submit(i, stem));
				}
			}
		}
		None
	}
	fn kind(&self) -> &'static str {
		match self {
			Op::Submit(_, true) => "submit-stem",
			Op::Submit(_, false) => "submit-fluff",
			Op::Connect(_) => "connect",
			Op::Mine => "mine",
			Op::ForkBlock => "fork-block",
			Op::ForkHeader => "fork-header",
			Op::Evict => "evict",
			Op::Body(_) => "body",
			Op::Header(_) => "header",
		}
	}
}

fn alphabet(u: &Uni, tier: Tier) -> Vec<Op> {
	if !u.mc {
		return vec![Op::Body(true), Op::Body(false), Op::Header(true), Op::Header(false)];
	}
	if u.reorg {
		// the reorg cache: a two-input transaction (T14: coinbases 2 and 4) that a main-chain block carrying T11
		// (coinbase 4) pushes out of the txpool but not out of the cache, transactions spending its other input
		// (T2: coinbase 2) submitted stem and fluff meanwhile, and the fork that brings T14 back
		let mut v = vec![
			Op::Submit(u.tx_index("T14").unwrap(), false),
			Op::Submit(u.tx_index("T2").unwrap(), true),
			Op::Submit(u.tx_index("T2").unwrap(), false),
			Op::Connect(4),
			Op::ForkBlock,
		];
		if tier == Tier::Thorough {
			v.push(Op::Submit(u.tx_index("T14").unwrap(), true));
			v.push(Op::Connect(0));
			v.push(Op::Mine);
		}
		return v;
	}
	if u.cap {
		let mut v = vec![];
		let full = tier == Tier::Thorough;
		for n in ["T1", "T2", "T3", "T4", "T5", "T10", "T11"] {
			if full || (n != "T3" && n != "T5" && n != "T4") {
				v.push(Op::Submit(u.tx_index(n).unwrap(), false));
			}
		}
		for n in ["T1", "T4"] {
			if full || n == "T4" {
				v.push(Op::Submit(u.tx_index(n).unwrap(), true));
			}
		}
		// a child of two pooled parents
		v.push(Op::Submit(u.tx_index("T13").unwrap(), false));
		// the admission rules at capacity
		v.push(Op::Submit(u.tx_index("T6").unwrap(), false));
		if full {
			v.push(Op::Submit(u.tx_index("T7").unwrap(), false));
			v.push(Op::Submit(u.tx_index("T8").unwrap(), false));
		}
		return v;
	}
	let full = tier == Tier::Thorough;
	let mut v = vec![];
	for i in 0..u.txs.len() {
		// T11 belongs to the capacity part, T14 to the reorg part
		if u.txs[i].name == "T11" || u.txs[i].name == "T14" || u.txs[i].name == "T16" || (u.txs[i].name == "T13" && !full) {
			continue;
		}
		if u.txs[i].name == "T15" {
			// fluff only (after the others, so that the shortest counterexamples name the plain transactions)
			continue;
			continue;
		}
		v.push(Op::Submit(i, false));
		// quick: stem submissions of the 0-conf pair and of the immature spend only
		if full || ["T1", "T4", "T9"].contains(&u.txs[i].name.as_str()) {
			v.push(Op::Submit(i, true));
		}
	}
	v.push(Op::Submit(u.tx_index("T15").unwrap(), false));
	for s in 0..4 {
		if full || s != 3 {
			v.push(Op::Connect(s));
		}
	}
	v.push(Op::Mine);
	v.push(Op::ForkBlock);
	v.push(Op::ForkHeader);
	// (no direct `evict_from_txpool()` operation: the node only evicts from inside add_to_pool,
	// which the pool-capacity part reaches; the helper is `pub` but has no other caller)
	v
}

#[derive(Debug, Clone, Default)]
struct Out {
	enabled: bool,
	ok: bool,
	err: String,
}

fn err_class(e: &str) -> String {
	let s: String = e.chars().take_while(|c| c.is_alphanumeric() || *c == '_').collect();
	let rest: String = e.chars().skip(s.len()).take(30).collect();
	if s == "InvalidTx" || s == "Other" || s == "Committed" || s == "InvalidBlock" || s == "Transaction" || s == "Block" {
		format!("{}{}", s, rest.replace('"', "").replace(' ', ""))
	} else {
		s
	}
}

// ---------------------------------------------------------------------------------------------
// Live object: a real Chain on its own directory + a real TransactionPool on it

struct Live<'u> {
	u: &'u Uni,
	dir: PathBuf,
	owns_dir: bool,
	chain: Arc<Chain>,
	rec: Arc<Rec>,
	pool: Pool,
}

impl<'u> Drop for Live<'u> {
	fn drop(&mut self) {
		if self.owns_dir {
			let _ = std::fs::remove_dir_all(&self.dir);
		}
	}
}

fn open_with_rec(dir: &Path, gen: &Block) -> (Arc<Chain>, Arc<Rec>) {
	let rec = Arc::new(Rec::default());
	let chain = uni::open_chain_with(dir, gen, rec.clone()).unwrap_or_else(|e| panic!("Chain::init on {:?}: {:?}", dir, e));
	(Arc::new(chain), rec)
}

impl<'u> Live<'u> {
	/// the root state on a private copy of the base directory
	fn root(u: &'u Uni, sc: &uni::Scratch) -> Live<'u> {
		let dir = sc.fresh("l");
		uni::copy_dir(&u.base, &dir);
		let (chain, rec) = open_with_rec(&dir, &u.tree.gen);
		let pool = new_pool(chain.clone(), u.mc);
		Live { u, dir, owns_dir: true, chain, rec, pool }
	}

	fn clone_pool_onto(&self, chain: Arc<Chain>) -> Pool {
		let mut p = new_pool(chain, self.u.mc);
		p.txpool.entries = self.pool.txpool.entries.clone();
		p.stempool.entries = self.pool.stempool.entries.clone();
		*p.reorg_cache.write() = self.pool.reorg_cache.read().clone();
		p
	}

	/// same chain object, private copy of the pool (pool operations never write to the chain)
	fn fork_pool(&self) -> Live<'u> {
		Live { u: self.u, dir: self.dir.clone(), owns_dir: false, chain: self.chain.clone(), rec: self.rec.clone(), pool: self.clone_pool_onto(self.chain.clone()) }
	}

	/// private copy of the chain directory (a second Chain object on it) and of the pool
	fn fork_chain(&self, sc: &uni::Scratch) -> Live<'u> {
		let dir = sc.fresh("l");
		uni::copy_dir(&self.dir, &dir);
		let (chain, rec) = open_with_rec(&dir, &self.u.tree.gen);
		let pool = self.clone_pool_onto(chain.clone());
		Live { u: self.u, dir, owns_dir: true, chain, rec, pool }
	}

	fn head_header(&self) -> BlockHeader {
		self.chain.head_header().expect("head_header")
	}

	fn chain_digest(&self) -> String {
		fp::chain_fp(&self.chain, &self.u.hashes, &self.u.commits).digest()
	}

	fn key(&self) -> String {
		let mut s = self.chain_digest();
		if self.u.mc {
			for (tag, txs) in [("|T", self.pool.txpool.all_transactions()), ("|S", self.pool.stempool.all_transactions()), ("|R", self.pool.reorg_cache.read().iter().map(|e| e.tx.clone()).collect())] {
				s.push_str(tag);
				for t in txs {
					s.push(' ');
					s.push_str(&short(&t.hash()));
					s.push_str(&t.inputs().version_str());
				}
			}
		}
		hex(blake2_rfc::blake2b::blake2b(16, &[], s.as_bytes()).as_bytes())
	}

	fn describe(&self) -> String {
		let head = self.chain.head().expect("head");
		let hh = self.chain.header_head().expect("header_head");
		let names = |txs: Vec<Transaction>| txs.iter().map(|t| self.u.tx_name(t)).collect::<Vec<_>>().join(",");
		let hn = |h: &Hash| self.u.tree.index_of(h).map(|i| self.u.tree.blocks[i].name.clone()).unwrap_or_else(|| short(h));
		format!(
			"head {}@{} header_head {}@{} txpool[{}] stempool[{}] reorg_cache[{}]",
			hn(&head.last_block_h),
			head.height,
			hn(&hh.last_block_h),
			hh.height,
			names(self.pool.txpool.all_transactions()),
			names(self.pool.stempool.all_transactions()),
			names(self.pool.reorg_cache.read().iter().map(|e| e.tx.clone()).collect())
		)
	}

	/// servers/src/common/adapters.rs `block_accepted`, pool part
	fn glue(&mut self, b: &Block, st: St) {
		if st == St::Next || st == St::Reorg {
			let _ = self.pool.reconcile_block(b);
			let cutoff = Utc::now() - Duration::minutes(self.pool.config.reorg_cache_period as i64);
			self.pool.truncate_reorg_cache(cutoff);
		}
		if st == St::Reorg {
			let _ = self.pool.reconcile_reorg_cache(&b.header);
		}
	}

	fn deliver(&mut self, b: &Block, opts: Options) -> Result<Vec<St>, String> {
		self.rec.log.lock().unwrap().clear();
		let r = self.chain.process_block(b.clone(), opts);
		let evs: Vec<(Block, St)> = self.rec.log.lock().unwrap().drain(..).collect();
		let mut sts = vec![];
		for (blk, st) in &evs {
			self.u.by_hash.borrow_mut().insert(blk.hash(), blk.clone());
			self.glue(blk, *st);
			sts.push(*st);
		}
		r.map(|_| sts).map_err(|e| format!("{:?}", e))
	}

	/// next fork block whose body (or header) is not yet known to the chain
	fn next_fork(&self, body: bool) -> Option<usize> {
		for i in &self.u.fork {
			let h = self.u.tree.blocks[*i].block.hash();
			let known = if body { self.chain.block_exists(h).unwrap_or(false) } else { self.chain.get_block_header(&h).is_ok() };
			if !known {
				return Some(*i);
			}
		}
		None
	}

	fn next_line(&self, main: bool, body: bool) -> Option<usize> {
		let line = if main { &self.u.main } else { &self.u.fork };
		let known = |i: usize| {
			let h = self.u.tree.blocks[i].block.hash();
			if body {
				self.chain.block_exists(h).unwrap_or(false)
			} else {
				self.chain.get_block_header(&h).is_ok()
			}
		};
		for i in line {
			if !known(*i) {
				// parent first: the parent's body (header) must be known
				return match self.u.tree.blocks[*i].parent {
					Some(p) if !known(p) => None,
					_ => Some(*i),
				};
			}
		}
		None
	}

	/// Is the set of transactions applicable as a block body on the current head according to
	/// the reference ledger? (connect() only delivers valid blocks)
	fn ref_block_ok(&self, txs: &[Transaction]) -> bool {
		let head = self.head_header();
		let rs = self.u.ref_at(head.hash());
		joint_problems(&txs.iter().collect::<Vec<_>>(), &[], &rs, head.height + 1).is_empty()
	}

	/// cheap enabledness test on the unforked object (saves the directory copy for disabled operations)
	fn enabled(&self, op: &Op) -> bool {
		match op {
			Op::Submit(..) => true,
			Op::Evict => self.pool.txpool.size() > 0,
			Op::Connect(s) => {
				let txs: Vec<Transaction> = CONNECT_SETS[*s].1.iter().map(|n| self.u.txs[self.u.tx_index(n).unwrap()].tx.clone()).collect();
				self.ref_block_ok(&txs)
			}
			Op::Mine => self.pool.txpool.size() > 0 && matches!(self.pool.prepare_mineable_transactions(), Ok(t) if !t.is_empty()),
			Op::ForkBlock => self.next_fork(true).is_some(),
			Op::ForkHeader => self.next_fork(false).is_some(),
			Op::Body(m) => self.next_line(*m, true).is_some(),
			Op::Header(m) => self.next_line(*m, false).is_some(),
		}
	}

	fn apply(&mut self, op: &Op) -> Out {
		let dis = Out::default();
		match op {
			Op::Submit(i, stem) => {
				let header = self.head_header();
				let r = self.pool.add_to_pool(TxSource::Broadcast, self.u.txs[*i].tx.clone(), *stem, &header);
				Out { enabled: true, ok: r.is_ok(), err: r.err().map(|e| format!("{:?}", e)).unwrap_or_default() }
			}
			Op::Evict => {
				if self.pool.txpool.size() == 0 {
					return dis;
				}
				self.pool.evict_from_txpool();
				Out { enabled: true, ok: true, err: String::new() }
			}
			Op::Connect(s) => {
				let txs: Vec<Transaction> = CONNECT_SETS[*s].1.iter().map(|n| self.u.txs[self.u.tx_index(n).unwrap()].tx.clone()).collect();
				if !self.ref_block_ok(&txs) {
					return dis;
				}
				let head = self.head_header();
				let label = format!("c{}", s);
				let b = match cached_block(self.u, &head, &label, || assemble_like_miner(&self.chain, &self.u.kc, &txs, 3000 + (head.height as u32 + 1) * 10 + *s as u32).map(|mut b| {
					uni::remine(&mut b, &head);
					b
				})) {
					Ok(b) => b,
					Err(e) => return Out { enabled: true, ok: false, err: format!("assemble: {}", e) },
				};
				match self.deliver(&b, Options::NONE) {
					Ok(_) => Out { enabled: true, ok: true, err: String::new() },
					Err(e) => Out { enabled: true, ok: false, err: e },
				}
			}
			Op::Mine => {
				let txs = match self.pool.prepare_mineable_transactions() {
					Ok(t) if !t.is_empty() => t,
					_ => return dis,
				};
				let b = match self.mined_block(&txs) {
					Ok(b) => b,
					Err(e) => return Out { enabled: true, ok: false, err: format!("assemble: {}", e) },
				};
				match self.deliver(&b, Options::MINE) {
					Ok(_) => Out { enabled: true, ok: true, err: String::new() },
					Err(e) => Out { enabled: true, ok: false, err: e },
				}
			}
			Op::ForkBlock => {
				let i = match self.next_fork(true) {
					Some(i) => i,
					None => return dis,
				};
				let b = self.u.tree.blocks[i].block.clone();
				match self.deliver(&b, Options::NONE) {
					Ok(sts) => Out { enabled: true, ok: true, err: format!("{:?}", sts) },
					Err(e) => Out { enabled: true, ok: false, err: e },
				}
			}
			Op::ForkHeader => {
				let i = match self.next_fork(false) {
					Some(i) => i,
					None => return dis,
				};
				let r = self.chain.process_block_header(&self.u.tree.blocks[i].block.header, Options::NONE);
				Out { enabled: true, ok: r.is_ok(), err: r.err().map(|e| format!("{:?}", e)).unwrap_or_default() }
			}
			Op::Body(main) => {
				let i = match self.next_line(*main, true) {
					Some(i) => i,
					None => return dis,
				};
				let b = self.u.tree.blocks[i].block.clone();
				match self.deliver(&b, Options::NONE) {
					Ok(sts) => Out { enabled: true, ok: true, err: format!("{:?}", sts) },
					Err(e) => Out { enabled: true, ok: false, err: e },
				}
			}
			Op::Header(main) => {
				let i = match self.next_line(*main, false) {
					Some(i) => i,
					None => return dis,
				};
				let r = self.chain.process_block_header(&self.u.tree.blocks[i].block.header, Options::NONE);
				Out { enabled: true, ok: r.is_ok(), err: r.err().map(|e| format!("{:?}", e)).unwrap_or_default() }
			}
		}
	}

	/// the block the node's miner would build from these transactions (servers/src/mining/mine_block.rs)
	fn mined_block(&self, txs: &[Transaction]) -> Result<Block, String> {
		let head = self.head_header();
		let mut ids: Vec<String> = txs.iter().flat_map(|t| t.kernels().iter().map(|k| hex(&k.excess.0[..6])).collect::<Vec<_>>()).collect();
		ids.sort();
		let label = format!("m{:x}", hash64(&ids));
		cached_block(self.u, &head, &label, || {
			assemble_like_miner(&self.chain, &self.u.kc, txs, 4000 + head.height as u32 + 1).map(|mut b| {
				uni::remine(&mut b, &head);
				b
			})
		})
	}
}

/// servers/src/mining/mine_block.rs `build_block`, with a deterministic nonce start and the
/// timestamp one minute after the head instead of the wall clock.
fn assemble_like_miner(chain: &Chain, kc: &ExtKeychain, txs: &[Transaction], key: u32) -> Result<Block, String> {
	let head = chain.head_header().map_err(|e| format!("head_header: {:?}", e))?;
	let difficulty = consensus::next_difficulty(head.height + 1, chain.difficulty_iter().map_err(|e| format!("difficulty_iter: {:?}", e))?);
	let fees = txs.iter().map(|tx| tx.fee()).sum();
	let (output, kernel) = reward::output(kc, &ProofBuilder::new(kc), &uni::kid(key), fees, true).map_err(|e| format!("reward: {:?}", e))?;
	let mut b = Block::from_reward(&head, txs, output, kernel, difficulty.difficulty).map_err(|e| format!("from_reward: {:?}", e))?;
	b.validate(&head.total_kernel_offset).map_err(|e| format!("validate: {:?}", e))?;
	b.header.pow.nonce = 0;
	b.header.pow.secondary_scaling = difficulty.secondary_scaling;
	b.header.timestamp = head.timestamp + Duration::seconds(60);
	chain.set_txhashset_roots(&mut b).map_err(|e| format!("set_txhashset_roots: {:?}", e))?;
	Ok(b)
}

/// Blocks built during exploration are shared between the workers through the universe
/// directory (first writer wins), so that every worker sees the same block for the same
/// (parent, content) whatever the builder's determinism.
fn cached_block<F: FnOnce() -> Result<Block, String>>(u: &Uni, prev: &BlockHeader, label: &str, build: F) -> Result<Block, String> {
	let path = u.udir.join("blocks").join(format!("{}-{}.hex", short(&prev.hash()), label));
	if let Ok(s) = std::fs::read_to_string(&path) {
		let b = block_unhex(s.trim());
		u.by_hash.borrow_mut().insert(b.hash(), b.clone());
		return Ok(b);
	}
	let b = build()?;
	let tmp = u.udir.join("blocks").join(format!("tmp-{}-{}-{}", std::process::id(), short(&prev.hash()), label));
	std::fs::write(&tmp, block_hex(&b)).map_err(|e| format!("write block: {}", e))?;
	let _ = std::fs::hard_link(&tmp, &path);
	let _ = std::fs::remove_file(&tmp);
	let s = std::fs::read_to_string(&path).map_err(|e| format!("read block: {}", e))?;
	let b = block_unhex(s.trim());
	u.by_hash.borrow_mut().insert(b.hash(), b.clone());
	Ok(b)
}

// ---------------------------------------------------------------------------------------------
// Reference checks (written from the property statement; they read block/transaction data only)

fn input_commits(tx: &Transaction) -> Vec<Commitment> {
	tx.inputs().into_iter_commits()
}

/// Can `txs` all be applied together on top of the reference unspent set `rs` in a block of
/// height `next`, inputs being allowed to come from `extra` too? Returns (class, description).
fn joint_problems(txs: &[&Transaction], extra: &[&Transaction], rs: &State, next: u64) -> Vec<(String, String)> {
	let mut out = vec![];
	let mut produced: BTreeMap<Vec<u8>, usize> = BTreeMap::new();
	let mut produced_extra: BTreeSet<Vec<u8>> = BTreeSet::new();
	for t in extra {
		for o in t.outputs() {
			produced_extra.insert(cbytes(&o.commitment()));
		}
	}
	for (k, t) in txs.iter().enumerate() {
		for o in t.outputs() {
			let c = cbytes(&o.commitment());
			if produced.insert(c.clone(), k).is_some() || produced_extra.contains(&c) {
				out.push(("duplicate-output".to_string(), format!("output {} is created twice", &hex(&c)[..16])));
			}
			if rs.utxo.contains_key(&c) {
				out.push(("output-duplicates-unspent".to_string(), format!("output {} already exists unspent on the chain", &hex(&c)[..16])));
			}
		}
	}
	let mut spent: BTreeMap<Vec<u8>, usize> = BTreeMap::new();
	for t in extra {
		for c in input_commits(t) {
			spent.insert(cbytes(&c), usize::MAX);
		}
	}
	for (k, t) in txs.iter().enumerate() {
		for c in input_commits(t) {
			let c = cbytes(&c);
			if let Some(o) = spent.insert(c.clone(), k) {
				out.push(("shared-input".to_string(), format!("input {} is spent by two entries (#{} and #{})", &hex(&c)[..16], if o == usize::MAX { "public pool".to_string() } else { o.to_string() }, k)));
			}
			match rs.utxo.get(&c) {
				Some(u) => {
					if u.coinbase && next < u.height + MATURITY {
						out.push(("immature-coinbase-input".to_string(), format!("input {} is a coinbase of height {} and the next block has height {} < {}", &hex(&c)[..16], u.height, next, u.height + MATURITY)));
					}
				}
				None => {
					let by_other = produced.get(&c).map(|p| *p != k).unwrap_or(false) || produced_extra.contains(&c);
					if !by_other {
						out.push(("input-not-spendable".to_string(), format!("input {} is neither unspent on the chain at the head nor created by another entry", &hex(&c)[..16])));
					}
				}
			}
		}
		if t.lock_height() > next {
			out.push(("lock-height".to_string(), format!("kernel lock height {} > next block height {}", t.lock_height(), next)));
		}
		match sums_balance(t) {
			Ok(true) => {}
			Ok(false) => out.push(("sums-unbalanced".to_string(), "outputs - inputs + fee*H != kernel excesses + offset*G".to_string())),
			Err(e) => out.push(("sums-unbalanced".to_string(), format!("sum could not be computed: {}", e))),
		}
	}
	out
}

/// outputs − inputs + fee·H == Σ kernel excess + offset·G, computed with the group operations only
fn sums_balance(tx: &Transaction) -> Result<bool, String> {
	let secp = grin_util::static_secp_instance();
	let secp = secp.lock();
	let mut pos: Vec<Commitment> = tx.outputs().iter().map(|o| o.commitment()).collect();
	let fee = own_fee(tx).0;
	if fee > 0 {
		pos.push(secp.commit_value(fee).map_err(|e| format!("{:?}", e))?);
	}
	let neg = input_commits(tx);
	let lhs = secp.commit_sum(pos, neg).map_err(|e| format!("{:?}", e))?;
	let mut kpos: Vec<Commitment> = tx.kernels().iter().map(|k| k.excess).collect();
	if tx.offset != BlindingFactor::zero() {
		let sk = tx.offset.secret_key(&secp).map_err(|e| format!("{:?}", e))?;
		kpos.push(secp.commit(0, sk).map_err(|e| format!("{:?}", e))?);
	}
	let rhs = secp.commit_sum(kpos, vec![]).map_err(|e| format!("{:?}", e))?;
	Ok(lhs == rhs)
}

/// (total fee, max fee shift) from the kernel features
fn own_fee(tx: &Transaction) -> (u64, u8) {
	let mut fee = 0u64;
	let mut shift = 0u8;
	for k in tx.kernels() {
		let f = match k.features {
			KernelFeatures::Plain { fee } => Some(fee),
			KernelFeatures::HeightLocked { fee, .. } => Some(fee),
			KernelFeatures::NoRecentDuplicate { fee, .. } => Some(fee),
			KernelFeatures::Coinbase => None,
		};
		if let Some(f) = f {
			fee += f.fee();
			shift = shift.max(f.fee_shift());
		}
	}
	(fee, shift)
}

fn own_weight(ni: usize, no: usize, nk: usize) -> u64 {
	ni as u64 + 21 * no as u64 + 3 * nk as u64
}

const MAX_BLOCK_WEIGHT: u64 = 250; // AutomatedTesting
const COINBASE_WEIGHT: u64 = 24;

struct Viol {
	key: String,
	what: String,
}

/// verdicts of the mined-block oracle, per (chain state, txpool entries) and per (chain state, block)
#[derive(Default)]
struct MineCache {
	by_pool: HashMap<(String, Vec<String>), Vec<(String, String)>>,
	by_block: HashMap<(String, Hash), Option<String>>,
}

impl<'u> Live<'u> {
	/// All state invariants except the mined-block oracle.
	fn check_pool(&self, rep: &mut Report) -> Vec<Viol> {
		let mut v: Vec<Viol> = vec![];
		let head = self.head_header();
		let next = head.height + 1;
		let rs = self.u.ref_at(head.hash());
		let txp = self.pool.txpool.all_transactions();
		let stp = self.pool.stempool.all_transactions();
		rep.evaluations += 1;
		// reference: joint applicability of the public pool, and of the stem pool on top of it
		let tr: Vec<&Transaction> = txp.iter().collect();
		for (c, w) in joint_problems(&tr, &[], &rs, next) {
			v.push(Viol { key: format!("state:txpool:{}", c), what: format!("public pool cannot be applied on the head: {}", w) });
		}
		let sr: Vec<&Transaction> = stp.iter().collect();
		for (c, w) in joint_problems(&sr, &tr, &rs, next) {
			v.push(Viol { key: format!("state:stempool:{}", c), what: format!("stem pool is not jointly valid with the public pool on the head: {}", w) });
		}
		// the code's own judges: aggregate validates, Chain::validate_tx accepts it
		let digest = self.chain_digest();
		for (label, set) in [("txpool", txp.clone()), ("txpool+stempool", txp.iter().chain(stp.iter()).cloned().collect::<Vec<_>>())] {
			if set.is_empty() || (label == "txpool+stempool" && stp.is_empty()) {
				continue;
			}
			let mk = (digest.clone(), set.iter().map(|t| t.hash()).collect::<Vec<_>>());
			let cached = self.u.memo_agg.borrow().get(&mk).cloned();
			let found = match cached {
				Some(f) => f,
				None => {
					let mut f: Vec<(String, String)> = vec![];
					match transaction::aggregate(&set) {
						Err(e) => f.push(("aggregate-fails".into(), format!("transaction::aggregate(..) = {:?}", e))),
						Ok(agg) => {
							if let Err(e) = agg.validate(Weighting::NoLimit) {
								f.push(("aggregate-invalid".into(), format!("aggregate(..).validate(NoLimit) = {:?}", e)));
							}
							if let Err(e) = self.chain.validate_tx(&agg) {
								f.push(("validate_tx-rejects".into(), format!("Chain::validate_tx(aggregate(..)) = {:?}", e)));
							}
						}
					}
					self.u.memo_agg.borrow_mut().insert(mk, f.clone());
					f
				}
			};
			for (c, w) in found {
				v.push(Viol { key: format!("state:{}:{}", label, c), what: format!("{} over {}", w, label) });
			}
		}
		// admission rules hold for every entry
		for (label, set) in [("txpool", &txp), ("stempool", &stp)] {
			for t in set.iter() {
				let (fee, shift) = own_fee(t);
				let w = own_weight(t.inputs().len(), t.outputs().len(), t.kernels().len());
				if (fee >> shift) < w {
					v.push(Viol { key: format!("state:{}:entry-below-minimum-fee", label), what: format!("entry {} pays {} (shift {}) for weight {}", self.u.tx_name(t), fee, shift, w) });
				}
				if w > MAX_BLOCK_WEIGHT - COINBASE_WEIGHT {
					v.push(Viol { key: format!("state:{}:entry-over-weight", label), what: format!("entry {} has weight {} > {}", self.u.tx_name(t), w, MAX_BLOCK_WEIGHT - COINBASE_WEIGHT) });
				}
				let th = t.hash();
				let cached = self.u.memo_entry.borrow().get(&th).cloned();
				let verdict = match cached {
					Some(x) => x,
					None => {
						let x = t.validate(Weighting::AsTransaction).err().map(|e| format!("{:?}", e));
						self.u.memo_entry.borrow_mut().insert(th, x.clone());
						x
					}
				};
				if let Some(e) = verdict {
					v.push(Viol { key: format!("state:{}:entry-invalid", label), what: format!("entry {} fails validate: {}", self.u.tx_name(t), e) });
				}
				for b in self.u.txs.iter().filter(|b| matches!(b.kind, Kind::LowFee | Kind::Heavy | Kind::BadSum)) {
					// the entry *is* the bad transaction (same kernel set), e.g. what is left of an
					// aggregate after the pooled part was stripped off; an aggregate that contains its
					// kernel next to others is judged as a whole by the per-entry rules above
					if t.kernels().len() == b.tx.kernels().len() && t.kernels().iter().all(|k| b.tx.kernels().iter().any(|bk| bk.excess == k.excess)) {
						v.push(Viol { key: format!("state:{}:holds-{}", label, b.name), what: format!("{} ({}) is in the {}", b.name, b.kind.name(), label) });
					}
				}
			}
		}
		rep.outcome(&format!("pool-size:tx{}:stem{}", txp.len(), stp.len()));
		v
	}

	/// prepare_mineable_transactions → block as the miner builds it → weight within the limits →
	/// process_block accepts it on `judge`, a chain object on a private copy of this state's chain
	/// directory (sibling candidates of one state may be judged by the same twin: each is
	/// validated in full against its parent, whichever of them became the twin's head).
	fn check_mineable(&self, digest: &str, judge: &Chain, cache: &mut MineCache, rep: &mut Report) -> Vec<Viol> {
		let digest = digest.to_string();
		let ids: Vec<String> = self.pool.txpool.all_transactions().iter().map(|t| short(&t.hash())).collect();
		let ck = (digest, ids);
		if let Some(r) = cache.by_pool.get(&ck) {
			rep.outcome("mineable:cached-verdict");
			return r.iter().map(|(k, w)| Viol { key: k.clone(), what: w.clone() }).collect();
		}
		// verdicts are shared between the workers (same chain state and txpool entries, other
		// stempool / reorg cache)
		let vpath = self.u.udir.join("verdicts").join(format!("{:016x}", hash64(&ck)));
		if let Ok(sv) = std::fs::read_to_string(&vpath) {
			if let Ok(j) = serde_json::from_str::<Value>(&sv) {
				if j["ck"] == json!([ck.0, ck.1]) {
					let r: Vec<(String, String)> = j["v"].as_array().cloned().unwrap_or_default().iter().map(|x| (x[0].as_str().unwrap_or("").to_string(), x[1].as_str().unwrap_or("").to_string())).collect();
					rep.outcome("mineable:shared-verdict");
					cache.by_pool.insert(ck, r.clone());
					return r.into_iter().map(|(k, w)| Viol { key: k, what: w }).collect();
				}
			}
		}
		let mut v: Vec<(String, String)> = vec![];
		let pool_n = self.pool.txpool.size();
		match self.pool.prepare_mineable_transactions() {
			Err(e) => v.push(("mineable:prepare-failed".into(), format!("prepare_mineable_transactions() = {:?}", e))),
			Ok(txs) => {
				rep.outcome(&format!("mineable:{}-of-{}", txs.len(), pool_n));
				match self.mined_block(&txs) {
					Err(e) => v.push((format!("mineable:assemble-failed:{}", e.split(':').next().unwrap_or("")), format!("the miner cannot build a block from the {} offered transactions [{}]: {}", txs.len(), txs.iter().map(|t| self.u.tx_name(t)).collect::<Vec<_>>().join(","), e))),
					Ok(b) => {
						let w = own_weight(b.inputs().len(), b.outputs().len(), b.kernels().len());
						let limit = MAX_BLOCK_WEIGHT.min(MINEABLE_MAX_WEIGHT);
						if w > limit {
							v.push(("mineable:over-weight".into(), format!("block from the offered set weighs {} > {}", w, limit)));
						}
						let bk = (ck.0.clone(), b.hash());
						let verdict = match cache.by_block.get(&bk) {
							Some(x) => {
								rep.outcome("mineable:cached-block-verdict");
								x.clone()
							}
							None => {
								rep.evaluations += 1;
								let x = judge.process_block(b.clone(), Options::MINE).err().map(|e| format!("{:?}", e));
								cache.by_block.insert(bk, x.clone());
								x
							}
						};
						match verdict {
							None => rep.outcome("mineable:block-accepted"),
							Some(es) => {
								rep.outcome("mineable:block-rejected");
								v.push((format!("mineable:block-rejected:{}", err_class(&es)), format!("the block mined from the offered set [{}] is refused by the chain: {}", txs.iter().map(|t| self.u.tx_name(t)).collect::<Vec<_>>().join(","), es)));
							}
						}
					}
				}
			}
		}
		let tmp = self.u.udir.join("verdicts").join(format!("tmp-{}-{:016x}", std::process::id(), hash64(&ck)));
		if std::fs::write(&tmp, serde_json::to_string(&json!({"ck": [ck.0, ck.1], "v": v})).unwrap()).is_ok() {
			let _ = std::fs::rename(&tmp, &vpath);
		}
		cache.by_pool.insert(ck, v.clone());
		v.into_iter().map(|(k, w)| Viol { key: k, what: w }).collect()
	}

	/// oracle of one submission: what must never be admitted
	fn check_submit(&self, before: &Live<'u>, i: usize, stem: bool, out: &Out) -> Vec<Viol> {
		let mut v = vec![];
		let t = &self.u.txs[i];
		if !out.ok {
			return v;
		}
		match t.kind {
			Kind::LowFee | Kind::Heavy | Kind::BadSum => {
				// the capacity test of is_acceptable runs before the fee test: name the situation
				let over = before.pool.txpool.size() > before.pool.config.max_pool_size;
				v.push(Viol {
					key: format!("admit:{}:{}{}", t.name, t.kind.name(), if over { ":txpool-over-capacity" } else { "" }),
					what: format!("add_to_pool({}, {}) = Ok although the transaction is {} (txpool size {} / max_pool_size {})", t.name, if stem { "stem" } else { "fluff" }, t.kind.name(), before.pool.txpool.size(), before.pool.config.max_pool_size),
				})
			}
			_ => {
				let head = before.head_header();
				let rs = self.u.ref_at(head.hash());
				for c in input_commits(&t.tx) {
					if let Some(u) = rs.utxo.get(&cbytes(&c)) {
						if u.coinbase && head.height + 1 < u.height + MATURITY {
							v.push(Viol { key: format!("admit:{}:immature-coinbase:headers-{}", t.name, header_relation(self.u, &before.chain)), what: format!("add_to_pool({}, {}) = Ok although its coinbase input (height {}) matures at height {} and the next block has height {}", t.name, if stem { "stem" } else { "fluff" }, u.height, u.height + MATURITY, head.height + 1) });
						}
					}
				}
			}
		}
		v
	}
}

// ---------------------------------------------------------------------------------------------
// Workers

struct Task {
	ops: Vec<String>,
	key: String,
	expand: bool,
	snap: Option<String>,
}

fn case_json(u: &Uni, ops: &[String], extra: Option<String>, key: &str, probe: Option<&str>) -> Value {
	let mut o: Vec<String> = ops.to_vec();
	if let Some(e) = extra {
		o.push(e);
	}
	json!({"part": if u.reorg { "pool-reorg" } else if u.cap { "pool-capacity" } else if u.mc { "pool-mc" } else { "c13-pool" }, "tier": u.tier.name(), "ops": o, "key": key, "probe": probe})
}

fn viol_json(u: &Uni, ops: &[String], extra: Option<String>, v: &Viol, state: &str) -> Value {
	json!({"key": v.key, "what": format!("{} :: after [{}]{} :: {}", v.what, ops.join(" "), extra.as_ref().map(|e| format!(" {}", e)).unwrap_or_default(), state), "case": case_json(u, ops, extra, &v.key, None), "len": ops.len()})
}

fn add_ms(rep: &mut Report, k: &str, t0: Instant) {
	let ms = t0.elapsed().as_millis() as u64;
	let cur = rep.extra.get(k).and_then(|v| v.as_u64()).unwrap_or(0);
	rep.extra.insert(k.to_string(), json!(cur + ms));
}

fn is_chain_op(op: &Op) -> bool {
	!matches!(op, Op::Submit(..) | Op::Evict)
}

fn replay_mc<'u>(u: &'u Uni, sc: &uni::Scratch, ops: &[String]) -> Live<'u> {
	let mut live = Live::root(u, sc);
	for s in ops {
		let op = Op::parse(s, u).unwrap_or_else(|| panic!("unknown op {}", s));
		live.apply(&op);
	}
	live
}

/// Claim a state for checking: the first worker to create the marker file checks it.
fn claim(u: &Uni, key: &str) -> bool {
	std::fs::OpenOptions::new().write(true).create_new(true).open(u.udir.join("seen").join(key)).is_ok()
}

fn handle_mc(u: &Uni, sc: &uni::Scratch, task: &Task, rep: &mut Report, cache: &mut MineCache) -> Value {
	let t0 = Instant::now();
	let live = replay_mc(u, sc, &task.ops);
	let key = live.key();
	let digest = live.chain_digest();
	let state = live.describe();
	add_ms(rep, "ms_replay", t0);
	let mut viols: Vec<Value> = vec![];
	if !task.key.is_empty() && key != task.key {
		viols.push(viol_json(u, &task.ops, None, &Viol { key: "determinism:replay-reaches-different-state".into(), what: format!("replaying the operation prefix on fresh objects gives state {} but the state reached by the last operation from its predecessor was {}", key, task.key) }, &state));
	}
	// judge of the mined-block oracle for this state and its pool-operation successors
	let mut twin: Option<Live> = None;
	if task.ops.is_empty() && claim(u, &key) {
		let ctx = context(u, None, &live);
		for v in live.check_pool(rep) {
			viols.push(viol_json(u, &task.ops, None, &qualified(v, &ctx), &state));
		}
		let tw = twin.get_or_insert_with(|| live.fork_chain(sc));
		for v in live.check_mineable(&digest, &tw.chain, cache, rep) {
			viols.push(viol_json(u, &task.ops, None, &qualified(v, &ctx), &state));
		}
	}
	let mut succ: Vec<Value> = vec![];
	// violations already present in this state: successors report only what an operation introduces
	let mut present: BTreeSet<(String, String)> = BTreeSet::new();
	if task.expand {
		let t0 = Instant::now();
		let mut scratch = Report::new();
		for v in live.check_pool(&mut scratch) {
			present.insert((v.key, v.what));
		}
		let tw = twin.get_or_insert_with(|| live.fork_chain(sc));
		for v in live.check_mineable(&digest, &tw.chain, cache, &mut scratch) {
			// identity of a mined-block verdict is its class, not the offered set
			present.insert((v.key, String::new()));
		}
		add_ms(rep, "ms_recheck_predecessor", t0);
	}
	if task.expand {
		for op in alphabet(u, u.tier) {
			if !live.enabled(&op) {
				rep.outcome(&format!("disabled:{}", op.kind()));
				continue;
			}
			let shown_op = op.show(u);
			let r = std::panic::catch_unwind(std::panic::AssertUnwindSafe(|| {
				let t0 = Instant::now();
				let mut l2 = if is_chain_op(&op) { live.fork_chain(sc) } else { live.fork_pool() };
				let out = l2.apply(&op);
				add_ms(rep, if is_chain_op(&op) { "ms_chain_ops" } else { "ms_pool_ops" }, t0);
				if !out.enabled {
					rep.outcome(&format!("disabled:{}", op.kind()));
					return;
				}
				rep.transitions += 1;
				let shown = op.show(u);
				let res = if out.ok { "ok".to_string() } else { err_class(&out.err) };
				match &op {
					Op::Submit(i, stem) => {
						rep.outcome(&format!("submit:{}:{}:{}", u.txs[*i].name, if *stem { "stem" } else { "fluff" }, res));
						for v in l2.check_submit(&live, *i, *stem, &out) {
							viols.push(viol_json(u, &task.ops, Some(shown.clone()), &v, &l2.describe()));
						}
						if task.ops.is_empty() && !*stem {
							// vacuity guard: the never-admissible transactions fail for the intended reason
							let want = match u.txs[*i].kind {
								Kind::LowFee => Some("LowFeeTransaction"),
								Kind::Heavy => Some("TooHeavy"),
								Kind::BadSum => Some("KernelSumMismatch"),
								Kind::Immature => Some("ImmatureCoinbase"),
								_ => None,
							};
							if let Some(w) = want {
								if !out.err.contains(w) {
									viols.push(viol_json(u, &task.ops, Some(shown.clone()), &Viol { key: format!("universe:misclassified:{}", u.txs[*i].name), what: format!("{} should be refused with {} at the root state but add_to_pool = {}", u.txs[*i].name, w, if out.ok { "Ok".to_string() } else { out.err.clone() }) }, &state));
								}
							} else if !out.ok && u.txs[*i].name != "T4" && u.txs[*i].name != "T13" {
								viols.push(viol_json(u, &task.ops, Some(shown.clone()), &Viol { key: format!("universe:misclassified:{}", u.txs[*i].name), what: format!("{} should be admissible at the root state but add_to_pool = {}", u.txs[*i].name, out.err) }, &state));
							}
						}
					}
					Op::ForkBlock => rep.outcome(&format!("fork-block:{}", if out.ok { out.err.clone() } else { res.clone() })),
					_ => rep.outcome(&format!("{}:{}", op.kind(), res)),
				}
				// (a refused own block of `mine` is the verdict of the mined-block oracle, already
				// reported for the state it was mined in)
				if !out.ok && matches!(op, Op::Connect(_) | Op::ForkBlock | Op::ForkHeader) {
					viols.push(viol_json(u, &task.ops, Some(shown.clone()), &Viol { key: format!("chain:valid-block-refused:{}", op.kind()), what: format!("{} delivers a block that is valid on the head according to the reference ledger but the chain answers {}", shown, out.err) }, &state));
				}
				let k2 = l2.key();
				if k2 == key {
					rep.outcome("transition:state-unchanged");
				} else {
					rep.outcome("transition:state-changed");
				}
				succ.push(json!({"op": shown, "key": k2}));
				// a state is checked once, by the worker that discovers it first
				if k2 != key && claim(u, &k2) {
					let t0 = Instant::now();
					let st2 = l2.describe();
					let mut ops2 = task.ops.clone();
					ops2.push(shown.clone());
					let ctx = context(u, Some((&live, &op)), &l2);
					for v in l2.check_pool(rep) {
						if present.contains(&(v.key.clone(), v.what.clone())) {
							rep.outcome("violation-persists-from-predecessor");
							continue;
						}
						viols.push(viol_json(u, &ops2, None, &qualified(v, &ctx), &st2));
					}
					add_ms(rep, "ms_check_pool", t0);
					let t0 = Instant::now();
					let found = if is_chain_op(&op) {
						// the successor owns a private chain copy that is not needed afterwards
						let d2 = l2.chain_digest();
						l2.check_mineable(&d2, &l2.chain, cache, rep)
					} else {
						let tw = twin.get_or_insert_with(|| live.fork_chain(sc));
						l2.check_mineable(&digest, &tw.chain, cache, rep)
					};
					for v in found {
						if present.contains(&(v.key.clone(), String::new())) {
							rep.outcome("violation-persists-from-predecessor");
							continue;
						}
						viols.push(viol_json(u, &ops2, None, &qualified(v, &ctx), &st2));
					}
					add_ms(rep, "ms_mineable", t0);
					if rep.samples.len() < 3 && ops2.len() >= 3 && l2.pool.txpool.size() + l2.pool.stempool.size() >= 2 {
						rep.sample(json!({"ops": ops2, "state": st2}));
					}
				}
			}));
			if let Err(e) = r {
				// a panic of the code under test during an operation or a check of its result
				let msg = e.downcast_ref::<String>().cloned().or_else(|| e.downcast_ref::<&str>().map(|s| s.to_string())).unwrap_or_else(|| "panic".to_string());
				let class: String = msg.chars().take(40).map(|c| if c.is_alphanumeric() { c } else { '-' }).collect();
				rep.outcome("panic");
				viols.push(viol_json(u, &task.ops, Some(shown_op.clone()), &Viol { key: format!("panic:{}:{}", op.kind(), class), what: format!("{} panicked: {}", shown_op, msg) }, &state));
			}
		}
	}
	json!({"key": key, "succ": succ, "viol": viols})
}

/// position of the header head relative to the body head
fn header_relation(u: &Uni, chain: &Chain) -> &'static str {
	let head = chain.head().expect("head");
	let hh = chain.header_head().expect("header_head");
	if head.last_block_h == hh.last_block_h {
		return "with-body-head";
	}
	// walk back from the header head to the height of the body head
	let mut cur = hh.last_block_h;
	loop {
		if cur == u.tree.gen.hash() {
			break;
		}
		let (height, prev) = match u.by_hash.borrow().get(&cur) {
			Some(b) => (b.header.height, b.header.prev_hash),
			None => break,
		};
		if height <= head.height {
			break;
		}
		cur = prev;
	}
	if cur == head.last_block_h {
		"ahead-on-same-fork"
	} else {
		"on-other-fork"
	}
}

/// Context appended to the key of every state violation: the kind of the operation that led
/// into the state (a submission that made the pool evict is its own kind) and where the header
/// head stands relative to the body head.
fn context(u: &Uni, before: Option<(&Live<'_>, &Op)>, after: &Live<'_>) -> (String, String) {
	let rel = format!(":headers-{}", header_relation(u, &after.chain));
	match before {
		None => (":initial".to_string(), rel),
		Some((b, op)) => {
			let mut k = op.kind().to_string();
			if let Op::Submit(..) = op {
				let now = after.pool.txpool.all_transactions();
				if b.pool.txpool.all_transactions().iter().any(|t| !now.iter().any(|n| n.kernels() == t.kernels())) {
					k.push_str("-evicting");
				}
			}
			(format!(":after-{}", k), rel)
		}
	}
}

/// the header relation only qualifies maturity verdicts (the only ones read through the header MMR)
fn qualified(v: Viol, ctx: &(String, String)) -> Viol {
	let rel = if v.key.contains("mmature") { ctx.1.as_str() } else { "" };
	Viol { key: format!("{}{}{}", v.key, ctx.0, rel), what: v.what }
}

/// One pool probe of c13-pool: a fresh pool on this chain, add_to_pool(tx), compared with the
/// rule model (creation height on the body head's fork, next block height).
fn probe_13(u: &Uni, chain: &Arc<Chain>, t: &UTx, rep: &mut Report) -> Option<Viol> {
	let head = chain.head().expect("head");
	let rel = header_relation(u, chain);
	let tip = u.tree.index_of(&head.last_block_h);
	let rs = u.tree.state_at(tip).expect("reference state of the body head");
	let next = head.height + 1;
	let mut reason: Option<String> = None;
	let mut delta: Option<i64> = None;
	for c in input_commits(&t.tx) {
		match rs.utxo.get(&cbytes(&c)) {
			None => reason = Some("unknown-input".into()),
			Some(x) => {
				if x.coinbase {
					delta = Some(next as i64 - (x.height + MATURITY) as i64);
					if next < x.height + MATURITY && reason.is_none() {
						reason = Some("immature-coinbase".into());
					}
				}
			}
		}
	}
	if t.tx.lock_height() > 0 && reason.as_deref() != Some("unknown-input") {
		delta = Some(next as i64 - t.tx.lock_height() as i64);
		if t.tx.lock_height() > next {
			reason = Some("height-locked".into());
		}
	}
	let mut pool = new_pool(chain.clone(), false);
	let header = chain.head_header().expect("head_header");
	let got = pool.add_to_pool(TxSource::Broadcast, t.tx.clone(), false, &header);
	rep.evaluations += 1;
	// the same offer to a pool that sees the chain through the node's own PoolToChainAdapter
	{
		let a = Arc::new(PoolToChainAdapter::new());
		a.set_chain(chain.clone());
		let mut p2: RealPool = TransactionPool::new(pool_config(false), a, Arc::new(NoopPoolAdapter {}));
		let got2 = p2.add_to_pool(TxSource::Broadcast, t.tx.clone(), false, &header);
		rep.evaluations += 1;
		if got2.is_ok() != got.is_ok() {
			return Some(Viol {
				key: format!("c13:pool:real-adapter-differs:{}", if t.kind == Kind::Locked { "height-locked-tx" } else { "coinbase-spend" }),
				what: format!("add_to_pool({}) at body head height {}: through the engine's view of the chain = {:?}, through servers' PoolToChainAdapter = {:?}", t.name, head.height, got.as_ref().map_err(|e| format!("{:?}", e)), got2.as_ref().map_err(|e| format!("{:?}", e))),
			});
		}
	}
	let cls = match delta {
		Some(d) => format!("{}:threshold{:+}", t.kind.name(), d.clamp(-3, 3)),
		None => format!("{}:input-not-on-this-fork", t.kind.name()),
	};
	rep.outcome(&format!("probe:{}:{}:headers-{}", cls, if got.is_ok() { "admitted" } else { "refused" }, rel));
	let expect_ok = reason.is_none();
	if got.is_ok() == expect_ok {
		return None;
	}
	let kind = if t.kind == Kind::Locked { "height-locked-tx" } else { "coinbase-spend" };
	Some(if got.is_ok() {
		let r = reason.unwrap();
		Viol {
			key: format!("c13:pool:{}-admitted:{}:headers-{}", kind, r, rel),
			what: format!("add_to_pool({}) = Ok at body head height {} (next block {}), header head {}: the rule model refuses it ({}, threshold {:+})", t.name, head.height, next, rel, r, delta.unwrap_or(0)),
		}
	} else {
		Viol {
			key: format!("c13:pool:{}-refused-at-or-above-threshold:headers-{}", kind, rel),
			what: format!("add_to_pool({}) = {:?} at body head height {} (next block {}), header head {}: the rule model admits it (threshold {:+})", t.name, got.err(), head.height, next, rel, delta.unwrap_or(0)),
		}
	})
}

fn open_copy<'u>(u: &'u Uni, src: &Path, dst: PathBuf, owns: bool) -> Live<'u> {
	uni::copy_dir(src, &dst);
	let (chain, rec) = open_with_rec(&dst, &u.tree.gen);
	let pool = new_pool(chain.clone(), u.mc);
	Live { u, dir: dst, owns_dir: owns, chain, rec, pool }
}

fn handle_13(u: &Uni, sc: &uni::Scratch, task: &Task, rep: &mut Report, ctr: &mut u64) -> Value {
	let src: PathBuf = task.snap.as_ref().map(PathBuf::from).unwrap_or_else(|| u.base.clone());
	let live = open_copy(u, &src, sc.fresh("c"), true);
	let key = live.key();
	let state = live.describe();
	let mut viols: Vec<Value> = vec![];
	if !task.key.is_empty() && key != task.key {
		viols.push(viol_json(u, &task.ops, None, &Viol { key: "determinism:reopened-snapshot-differs".into(), what: format!("reopening the stored chain directory gives state {} but it was stored as {}", key, task.key) }, &state));
	}
	// transactions whose input does not exist on the body head's fork are no threshold cases:
	// one of each kind is offered per state, the others are skipped
	let rs = {
		let head = live.chain.head().expect("head");
		u.tree.state_at(u.tree.index_of(&head.last_block_h)).expect("reference state of the body head")
	};
	let mut foreign: BTreeSet<&'static str> = BTreeSet::new();
	for t in &u.txs {
		if input_commits(&t.tx).iter().any(|c| !rs.utxo.contains_key(&cbytes(c))) && !foreign.insert(t.kind.name()) {
			rep.outcome("probe:skipped:input-not-on-this-fork");
			continue;
		}
		if let Some(v) = probe_13(u, &live.chain, t, rep) {
			let mut j = viol_json(u, &task.ops, None, &v, &state);
			j["case"]["probe"] = json!(t.name);
			viols.push(j);
		}
	}
	if rep.samples.len() < 2 && header_relation(u, &live.chain) == "on-other-fork" {
		rep.sample(json!({"ops": task.ops, "state": state, "probes": u.txs.len()}));
	}
	let mut succ: Vec<Value> = vec![];
	if task.expand {
		for op in alphabet(u, u.tier) {
			if !live.enabled(&op) {
				rep.outcome(&format!("disabled:{}", op.kind()));
				continue;
			}
			*ctr += 1;
			let d2 = u.udir.join("snaps").join(format!("{}-{}", std::process::id(), ctr));
			let mut l2 = open_copy(u, &src, d2.clone(), false);
			let out = l2.apply(&op);
			if !out.enabled {
				drop(l2);
				let _ = std::fs::remove_dir_all(&d2);
				rep.outcome(&format!("disabled:{}", op.kind()));
				continue;
			}
			rep.transitions += 1;
			rep.outcome(&format!("{}:{}", op.show(u), if out.ok { if out.err.is_empty() { "ok".to_string() } else { out.err.clone() } } else { err_class(&out.err) }));
			if !out.ok {
				viols.push(viol_json(u, &task.ops, Some(op.show(u)), &Viol { key: format!("chain:valid-input-refused:{}", op.kind()), what: format!("{} delivers valid universe data in parent-first order but the chain answers {}", op.show(u), out.err) }, &state));
			}
			let k2 = l2.key();
			drop(l2);
			succ.push(json!({"op": op.show(u), "key": k2, "snap": d2.to_str().unwrap()}));
		}
	}
	json!({"key": key, "succ": succ, "viol": viols})
}

fn worker(part: &str, udir: &Path) -> i32 {
	uni::init_thread();
	let mc = part != "c13-pool";
	let mut u = Uni::load(udir, if mc { SEED_MC } else { SEED_13 });
	u.cap = part == "pool-capacity";
	u.reorg = part == "pool-reorg";
	let sc = uni::Scratch::new(if mc { "c14w" } else { "c13w" });
	let mut rep = Report::new();
	let mut cache = MineCache::default();
	let mut ctr = 0u64;
	let stdin = std::io::stdin();
	let stdout = std::io::stdout();
	for line in stdin.lock().lines() {
		let line = match line {
			Ok(l) => l,
			Err(_) => break,
		};
		if line.trim() == "quit" {
			break;
		}
		let j: Value = match serde_json::from_str(&line) {
			Ok(j) => j,
			Err(_) => continue,
		};
		let task = Task {
			ops: j["ops"].as_array().map(|a| a.iter().map(|x| x.as_str().unwrap_or("").to_string()).collect()).unwrap_or_default(),
			key: j["key"].as_str().unwrap_or("").to_string(),
			expand: j["expand"].as_bool().unwrap_or(false),
			snap: j["snap"].as_str().map(|s| s.to_string()),
		};
		let r = if mc { handle_mc(&u, &sc, &task, &mut rep, &mut cache) } else { handle_13(&u, &sc, &task, &mut rep, &mut ctr) };
		let mut o = stdout.lock();
		let _ = writeln!(o, "R {}", serde_json::to_string(&r).unwrap());
		let _ = o.flush();
	}
	let mut o = stdout.lock();
	let _ = writeln!(o, "REPORT {}", serde_json::to_string(&rep.to_json()).unwrap());
	let _ = o.flush();
	0
}

// ---------------------------------------------------------------------------------------------
// Coordinator: level-synchronous breadth-first search; the memo lives here

struct Item {
	ops: Vec<String>,
	key: String,
	snap: Option<String>,
}

struct Bounds {
	/// states are checked by the worker that discovers them (no tasks for the last depth)
	at_discovery: bool,
	workers: usize,
	max_depth: usize,
	budget_s: f64,
}

fn machinery(msg: &str) -> ! {
	eprintln!("MACHINERY: C14 {}", msg);
	std::process::exit(2);
}

fn bfs(part: &'static str, udir: &Path, b: &Bounds) -> Report {
	let start = Instant::now();
	let exe = std::env::current_exe().expect("current_exe");
	let (tx, rx) = mpsc::channel::<(usize, Option<String>)>();
	let mut stdins = vec![];
	let mut children = vec![];
	for i in 0..b.workers {
		let mut c = Command::new(&exe)
			.arg("C14")
			.arg("--child")
			.arg("worker")
			.arg(part)
			.arg(udir.to_str().unwrap())
			.stdin(Stdio::piped())
			.stdout(Stdio::piped())
			.stderr(Stdio::inherit())
			.spawn()
			.expect("spawn worker");
		stdins.push(c.stdin.take().unwrap());
		let so = c.stdout.take().unwrap();
		let txc = tx.clone();
		std::thread::spawn(move || {
			for l in BufReader::new(so).lines().flatten() {
				let _ = txc.send((i, Some(l)));
			}
			let _ = txc.send((i, None));
		});
		children.push(c);
	}
	let mut rep = Report::new();
	let mut seen: HashSet<String> = HashSet::new();
	let mut viols: BTreeMap<String, (usize, String, String, Value)> = BTreeMap::new();
	let mut frontier = vec![Item { ops: vec![], key: String::new(), snap: None }];
	let mut depth = 0usize;
	let mut level_sizes: Vec<u64> = vec![];
	let mut completed_depth: i64 = -1;
	let mut checked = 0u64;
	loop {
		if b.at_discovery && depth >= b.max_depth {
			break;
		}
		let expand = b.at_discovery || depth < b.max_depth;
		let total = frontier.len();
		let mut queue: Vec<Item> = frontier.drain(..).rev().collect();
		let mut next: Vec<Item> = vec![];
		let mut busy: Vec<Option<Item>> = (0..b.workers).map(|_| None).collect();
		let mut pending = 0usize;
		let mut done = 0usize;
		let mut stopped = false;
		loop {
			if !stopped && start.elapsed().as_secs_f64() > b.budget_s {
				stopped = true;
			}
			if !stopped {
				for w in 0..b.workers {
					if busy[w].is_none() {
						if let Some(it) = queue.pop() {
							let t = json!({"ops": it.ops, "key": it.key, "expand": expand, "snap": it.snap});
							if writeln!(stdins[w], "{}", serde_json::to_string(&t).unwrap()).is_err() {
								machinery("worker pipe closed");
							}
							let _ = stdins[w].flush();
							busy[w] = Some(it);
							pending += 1;
						}
					}
				}
			}
			if pending == 0 {
				break;
			}
			let (w, line) = rx.recv().expect("worker channel");
			let line = match line {
				Some(l) => l,
				None => machinery(&format!("worker {} of part {} died", w, part)),
			};
			let body = match line.strip_prefix("R ") {
				Some(b) => b,
				None => continue,
			};
			let r: Value = serde_json::from_str(body).unwrap_or_else(|_| machinery("unparsable worker result"));
			let it = busy[w].take().expect("result from an idle worker");
			pending -= 1;
			done += 1;
			checked += 1;
			let key = r["key"].as_str().unwrap_or("").to_string();
			seen.insert(key.clone());
			rep.state_keys.insert(hash64(&(part, &key)));
			if let Some(s) = &it.snap {
				let _ = std::fs::remove_dir_all(s);
			}
			for s in r["succ"].as_array().cloned().unwrap_or_default() {
				let k2 = s["key"].as_str().unwrap_or("").to_string();
				let snap = s["snap"].as_str().map(|x| x.to_string());
				if seen.insert(k2.clone()) {
					if b.at_discovery {
						rep.state_keys.insert(hash64(&(part, &k2)));
					}
					let mut ops = it.ops.clone();
					ops.push(s["op"].as_str().unwrap_or("").to_string());
					next.push(Item { ops, key: k2, snap });
				} else if let Some(sn) = snap {
					let _ = std::fs::remove_dir_all(sn);
				}
			}
			for v in r["viol"].as_array().cloned().unwrap_or_default() {
				let k = v["key"].as_str().unwrap_or("").to_string();
				let len = v["case"]["ops"].as_array().map(|a| a.len()).unwrap_or(0);
				let order = serde_json::to_string(&v["case"]["ops"]).unwrap_or_default();
				let better = match viols.get(&k) {
					None => true,
					Some((l, o, _, _)) => (len, &order) < (*l, o),
				};
				if better {
					viols.insert(k, (len, order, v["what"].as_str().unwrap_or("").to_string(), v["case"].clone()));
				}
			}
		}
		level_sizes.push(done as u64);
		if stopped && done < total {
			rep.capped = Some(if b.at_discovery {
				format!("{}: time budget {:.0}s reached while expanding depth {} ({} of {} states expanded): every sequence of <= {} operations is covered, sequences of {} operations partially", part, b.budget_s, depth, done, total, depth, depth + 1)
			} else {
				format!("{}: time budget {:.0}s reached at depth {} after {} of {} states of that depth (all states of depth <= {} checked)", part, b.budget_s, depth, done, total, depth as i64 - 1)
			});
			for it in queue.iter().chain(next.iter()) {
				if let Some(s) = &it.snap {
					let _ = std::fs::remove_dir_all(s);
				}
			}
			break;
		}
		completed_depth = if b.at_discovery { depth as i64 + 1 } else { depth as i64 };
		if !expand || next.is_empty() {
			if expand && next.is_empty() {
				rep.extra.insert("exhausted".into(), json!(true));
			}
			for it in next.iter() {
				if let Some(s) = &it.snap {
					let _ = std::fs::remove_dir_all(s);
				}
			}
			break;
		}
		// deterministic order of the next level
		next.sort_by(|a, b| a.ops.cmp(&b.ops));
		frontier = next;
		depth += 1;
	}
	for s in stdins.iter_mut() {
		let _ = writeln!(s, "quit");
		let _ = s.flush();
	}
	drop(stdins);
	let mut reports = 0;
	let mut eofs = 0;
	while eofs < b.workers {
		match rx.recv() {
			Ok((_, Some(l))) => {
				if let Some(j) = l.strip_prefix("REPORT ") {
					if let Ok(v) = serde_json::from_str::<Value>(j) {
						rep.merge(Report::from_json(&v));
						reports += 1;
					}
				}
			}
			Ok((_, None)) => eofs += 1,
			Err(_) => break,
		}
	}
	for mut c in children {
		let _ = c.wait();
	}
	if reports != b.workers {
		machinery(&format!("{} of {} workers of part {} delivered a report", reports, b.workers, part));
	}
	for (k, (_, _, what, case)) in viols {
		rep.violation(k, what, case);
	}
	if b.at_discovery {
		checked = seen.len() as u64;
	}
	rep.states = checked;
	rep.distinct = checked;
	rep.extra.insert("bound_depth".into(), json!(b.max_depth));
	rep.extra.insert("depth_fully_completed".into(), json!(completed_depth));
	rep.extra.insert("states_per_depth".into(), json!(level_sizes));
	rep.extra.insert("states_discovered".into(), json!(seen.len()));
	rep.extra.insert("workers".into(), json!(b.workers));
	rep.extra.insert("wall_s".into(), json!((start.elapsed().as_secs_f64() * 10.0).round() / 10.0));
	rep
}

pub fn run_part(part: &'static str, tier: Tier) -> Report {
	uni::init_thread();
	let sc = uni::Scratch::new(match part {
		"pool-mc" => "c14",
		"pool-capacity" => "c14-cap",
		"pool-reorg" => "c14-reorg",
		_ => "c14-13",
	});
	let udir = sc.fresh("universe");
	std::fs::create_dir_all(udir.join("snaps")).expect("universe dir");
	std::fs::create_dir_all(udir.join("seen")).expect("universe dir");
	std::fs::create_dir_all(udir.join("verdicts")).expect("universe dir");
	let mut pre = Report::new();
	let mut bounds = None;
	let scr = &sc;
	let ud = udir.clone();
	crate::chainx::guarded(part, &mut pre, |rep| {
		let t0 = Instant::now();
		let mut u = if part != "c13-pool" { build_mc(&ud, tier, scr) } else { build_13(&ud, tier, scr) };
		u.cap = part == "pool-capacity";
		u.reorg = part == "pool-reorg";
		rep.extra.insert("universe_build_s".into(), json!((t0.elapsed().as_secs_f64() * 10.0).round() / 10.0));
		rep.extra.insert("universe_blocks".into(), json!(u.tree.blocks.len()));
		rep.extra.insert("universe_txs".into(), json!(u.txs.iter().map(|t| format!("{}:{}", t.name, t.kind.name())).collect::<Vec<_>>()));
		rep.extra.insert("alphabet".into(), json!(alphabet(&u, tier).iter().map(|o| o.show(&u)).collect::<Vec<_>>()));
	});
	if pre.violations.is_empty() {
		bounds = Some(if part == "pool-mc" {
			Bounds { at_discovery: true, workers: tier.pick(7, 9), max_depth: tier.pick(3, 6), budget_s: tier.pick(45.0, 720.0) }
		} else if part == "pool-capacity" {
			Bounds { at_discovery: true, workers: tier.pick(3, 2), max_depth: tier.pick(5, 7), budget_s: tier.pick(45.0, 600.0) }
		} else if part == "pool-reorg" {
			Bounds { at_discovery: true, workers: tier.pick(3, 3), max_depth: tier.pick(6, 8), budget_s: tier.pick(45.0, 600.0) }
		} else {
			Bounds { at_discovery: false, workers: tier.pick(6, 5), max_depth: 64, budget_s: tier.pick(45.0, 720.0) }
		});
	}
	let mut rep = match bounds {
		Some(b) => bfs(part, &udir, &b),
		None => Report::new(),
	};
	rep.merge(pre);
	rep
}

impl Engine for C14 {
	fn id(&self) -> &'static str {
		"C14"
	}
	fn meta(&self, tier: Tier) -> Meta {
		Meta {
			level: "model_checking",
			rule: "pool-mc: breadth-first exploration with memoisation (state = canonical chain fingerprint + ordered entries of txpool, stempool and reorg cache) of EVERY sequence of operations up to the depth bound over a real TransactionPool on a real Chain; every state is materialised by replaying its operation prefix on fresh objects. Alphabet: add_to_pool(Ti, stem|fluff) for 10 transactions (independent, conflicting, 0-conf child, aggregate of pooled ones, below minimum fee, over weight, bad sum, immature coinbase spend); a valid block on the head carrying {} / {T1} / {T3} / {T1,T4} or the pool's own mineable set, followed by the node's reconcile_block / reconcile_reorg_cache glue; the next body of a fork that conflicts with the pool (reorg once heavier); the next header of that fork only (header head leaves the body head); evict. On every state: reference-ledger check that the txpool entries (and the stempool on top of them) can be applied together on the head (no shared input, inputs unspent or created by another entry, coinbase maturity, sums), aggregate validates and Chain::validate_tx accepts it, every entry pays the minimum fee / is within weight / validates, never-admissible transactions absent; prepare_mineable_transactions -> block assembled as mine_block.rs does, real PoW -> weight within limits and process_block accepts it on a private copy of the state's chain directory. Violations are reported for the operation that introduces them (key = class + kind of that operation; maturity verdicts also carry the position of the header head). pool-capacity: the same engine and invariants with pool operations only (fluff T1 T2 T3 T4 T5 T10 T11 T6 T7 T8, stem T1 T4; quick: a subset) to a greater depth, so that evictions made by add_to_pool itself at capacity and the admission rules at capacity are reached. c13-pool: every state (all interleavings of next main body / next fork body / next main header / next fork header) of a two-fork universe with different output counts per height; at each state every coinbase spend and every height-locked spend is offered to a fresh pool and add_to_pool must answer exactly as the rule model (creation height on the body head's fork + maturity, lock height, next block height).",
			assumptions: vec![
				"AutomatedTesting: coinbase maturity 3, max block weight 250, accept fee base 1; pool max_pool_size 2, max_stempool_size 2, mineable_max_weight 100".into(),
				"blocks delivered by connect() are valid on the head (the reference ledger disables the others); fork blocks arrive parent first".into(),
				"the miner's wall-clock timestamp and random nonce start are replaced by head+60s and 0; reorg-cache ageing (30 min) is never reached".into(),
				"the dandelion monitor's own fluff aggregation is not part of the alphabet".into(),
				format!("depth bounds ({}): pool-mc {}, pool-capacity {}, c13-pool unbounded (exhausts its universe); a time budget may stop the last depth early (reported as capped, with the depth completed)", tier.name(), tier.pick(3, 6), tier.pick(5, 7)),
				"quick uses a reduced alphabet in pool-mc (stem submissions of T1 T4 T9 only, no connect({T1,T4})) and in pool-capacity (fluff T1 T2 T10 T11 T6, stem T4)".into(),
				"the design's depth 4 (quick) / 6 (thorough) is not reachable in the time budgets: the state space is about 7x per operation (insertion order of pool entries and reorg cache are part of the state)".into(),
			],
			exhaustive: true,
		}
	}
	fn parts(&self, _tier: Tier) -> Vec<(&'static str, usize)> {
		vec![("pool-mc", 1), ("pool-capacity", 1), ("pool-reorg", 1), ("c13-pool", 1), ("node-glue", 8)]
	}
	fn run_part(&self, part: &str, tier: Tier, shard: usize, n: usize) -> Report {
		if part == "node-glue" {
			return node_glue(tier, shard, n);
		}
		run_part(
			match part {
				"pool-mc" => "pool-mc",
				"pool-capacity" => "pool-capacity",
				"pool-reorg" => "pool-reorg",
				_ => "c13-pool",
			},
			tier,
		)
	}
	fn child(&self, args: &[String]) -> i32 {
		if args.len() >= 3 && args[0] == "worker" {
			return worker(&args[1], Path::new(&args[2]));
		}
		2
	}
	fn replay(&self, case: &Value) -> Result<String, String> {
		uni::init_thread();
		let part = case["part"].as_str().unwrap_or("pool-mc");
		let tier = if case["tier"].as_str() == Some("quick") { Tier::Quick } else { Tier::Thorough };
		let sc = uni::Scratch::new("c14-replay");
		let udir = sc.fresh("universe");
		std::fs::create_dir_all(udir.join("snaps")).expect("universe dir");
		std::fs::create_dir_all(udir.join("seen")).expect("universe dir");
		std::fs::create_dir_all(udir.join("verdicts")).expect("universe dir");
		let ops: Vec<String> = case["ops"].as_array().map(|a| a.iter().map(|x| x.as_str().unwrap_or("").to_string()).collect()).unwrap_or_default();
		let want = case["key"].as_str().unwrap_or("");
		let mut rep = Report::new();
		let mut found: Vec<(String, String)> = vec![];
		let mut obs = vec![];
		if part == "node-glue" {
			let u = build_mc(&udir, tier, &sc);
			let alpha = glue_alphabet(&u, Tier::Thorough);
			let mut live = Live::root(&u, &sc);
			let sh = Shadow::open(&u, &sc);
			for s in &ops {
				let op = alpha.iter().find(|o| o.show(&u) == *s).ok_or(format!("unknown op {}", s))?;
				let (out, same) = glue_step(&mut live, &sh, op);
				obs.push(format!("{} -> {}", s, if !out.enabled { "disabled".to_string() } else if out.ok { "Ok".to_string() } else { out.err.clone() }));
				if let Err(d) = same {
					found.push((format!("node-glue:nodes-differ:{}", op.kind()), d));
					break;
				}
			}
			if found.is_empty() && case["miner"].as_bool() == Some(true) {
				if let Err((k, w)) = glue_miner(&live, &sh, &sc) {
					found.push((format!("node-glue:miner:{}", k), w));
				}
			}
			let summary = format!("{} ;; violations: {:?}", obs.join("; "), found.iter().map(|(k, _)| k.clone()).collect::<Vec<_>>());
			if let Some((_, w)) = found.iter().find(|(k, _)| k == want) {
				return Err(format!("{} :: {}", w, summary));
			}
			if want.is_empty() && !found.is_empty() {
				return Err(summary);
			}
			return Ok(summary);
		}
		if part != "c13-pool" {
			let mut u = build_mc(&udir, tier, &sc);
			u.cap = part == "pool-capacity";
			u.reorg = part == "pool-reorg";
			let mut live = Live::root(&u, &sc);
			let mut cache = MineCache::default();
			let mut ctx = context(&u, None, &live);
			let mut present: BTreeSet<(String, String)> = BTreeSet::new();
			for (k, s) in ops.iter().enumerate() {
				let op = Op::parse(s, &u).ok_or(format!("unknown op {}", s))?;
				let before = live.fork_pool();
				if k + 1 == ops.len() {
					let tw = live.fork_chain(&sc);
					let d = live.chain_digest();
					let mut scratch = Report::new();
					for v in before.check_pool(&mut scratch) {
						present.insert((v.key, v.what));
					}
					for v in before.check_mineable(&d, &tw.chain, &mut MineCache::default(), &mut scratch) {
						present.insert((v.key, String::new()));
					}
				}
				let out = live.apply(&op);
				obs.push(format!("{} -> {}", s, if !out.enabled { "disabled".to_string() } else if out.ok { "Ok".to_string() } else { out.err.clone() }));
				if k + 1 == ops.len() {
					ctx = context(&u, Some((&before, &op)), &live);
					if let Op::Submit(i, stem) = &op {
						for v in live.check_submit(&before, *i, *stem, &out) {
							found.push((v.key, v.what));
						}
					}
					if out.enabled && !out.ok && is_chain_op(&op) && op != Op::Mine {
						found.push((format!("chain:valid-block-refused:{}", op.kind()), out.err.clone()));
					}
				}
			}
			obs.push(live.describe());
			let d = live.chain_digest();
			let all: Vec<Viol> = live.check_pool(&mut rep).into_iter().chain(live.check_mineable(&d, &live.chain, &mut cache, &mut rep)).collect();
			for v in all {
				let id = if v.key.starts_with("mineable:") { String::new() } else { v.what.clone() };
				if !present.contains(&(v.key.clone(), id)) {
					let q = qualified(v, &ctx);
					found.push((q.key, q.what));
				}
			}
		} else {
			let u = build_13(&udir, tier, &sc);
			let mut live = Live::root(&u, &sc);
			for s in &ops {
				let op = Op::parse(s, &u).ok_or(format!("unknown op {}", s))?;
				let out = live.apply(&op);
				obs.push(format!("{} -> {}", s, if !out.enabled { "disabled".to_string() } else if out.ok { "Ok".to_string() } else { out.err.clone() }));
			}
			obs.push(live.describe());
			for t in &u.txs {
				if case["probe"].as_str().map(|p| p == t.name).unwrap_or(true) {
					if let Some(v) = probe_13(&u, &live.chain, t, &mut rep) {
						found.push((v.key, v.what));
					}
				}
			}
		}
		let summary = format!("{} ;; violations: {:?}", obs.join("; "), found.iter().map(|(k, _)| k.clone()).collect::<Vec<_>>());
		if let Some((_, w)) = found.iter().find(|(k, _)| k == want) {
			return Err(format!("{} :: {}", w, summary));
		}
		if want.is_empty() && !found.is_empty() {
			return Err(summary);
		}
		Ok(summary)
	}
}

// ---------------------------------------------------------------------------------------------
// node-glue: the node's own adapters (servers/src/common/adapters.rs) and miner (servers/src/mining/mine_block.rs)
//
// A second node is wired exactly as `Server::new` wires it - PoolToChainAdapter as the pool's view of the chain,
// ChainToPoolAndNetAdapter as the chain's adapter (with a Peers object that has no connected peer, so that the
// broadcasts go nowhere) - and driven in lock step with the engine's node, whose glue is the specification the
// other parts check the invariants on. After every operation both nodes must hold the same pools on the same head;
// in every state the real miner's `build_block` must assemble the pool's mineable set into a block the chain accepts.

use grin_servers::common::adapters::{ChainToPoolAndNetAdapter, PoolToChainAdapter, PoolToNetAdapter};

type RealPool = TransactionPool<PoolToChainAdapter, NoopPoolAdapter>;

struct Shadow {
	dir: PathBuf,
	chain: Arc<Chain>,
	pool: Arc<grin_util::RwLock<RealPool>>,
	to_chain: Arc<PoolToChainAdapter>,
	_peers: Arc<grin_p2p::Peers>,
}

impl Drop for Shadow {
	fn drop(&mut self) {
		let _ = std::fs::remove_dir_all(&self.dir);
	}
}

impl Shadow {
	fn open(u: &Uni, sc: &uni::Scratch) -> Shadow {
		let dir = sc.fresh("sh");
		uni::copy_dir(&u.base, &dir);
		let to_chain = Arc::new(PoolToChainAdapter::new());
		let pool: Arc<grin_util::RwLock<RealPool>> = Arc::new(grin_util::RwLock::new(TransactionPool::new(pool_config(u.mc), to_chain.clone(), Arc::new(NoopPoolAdapter {}))));
		let adapter = Arc::new(ChainToPoolAndNetAdapter::new(pool.clone(), vec![]));
		let chain = Arc::new(uni::open_chain_with(&dir, &u.tree.gen, adapter.clone()).unwrap_or_else(|e| panic!("Chain::init on {:?}: {:?}", dir, e)));
		to_chain.set_chain(chain.clone());
		let pdir = dir.join("peers");
		std::fs::create_dir_all(&pdir).expect("peers dir");
		let store = grin_p2p::store::PeerStore::new(pdir.to_str().unwrap()).expect("peer store");
		let peers = Arc::new(grin_p2p::Peers::new(store, Arc::new(grin_p2p::DummyAdapter {}), grin_p2p::P2PConfig::default()));
		adapter.init(peers.clone());
		Shadow { dir, chain, pool, to_chain, _peers: peers }
	}

	fn pools(&self) -> (Vec<Hash>, Vec<Hash>, Vec<Hash>) {
		let p = self.pool.read();
		let r = (p.txpool.all_transactions().iter().map(|t| t.hash()).collect(), p.stempool.all_transactions().iter().map(|t| t.hash()).collect(), p.reorg_cache.read().iter().map(|e| e.tx.hash()).collect());
		r
	}
}

#[derive(Clone, Copy, Debug, PartialEq)]
enum Del {
	None,
	Sync,
	Mine,
}
impl Del {
	fn opts(&self) -> Options {
		match self {
			Del::None => Options::NONE,
			Del::Sync => Options::SYNC,
			Del::Mine => Options::MINE,
		}
	}
}

#[derive(Clone, Debug, PartialEq)]
enum GOp {
	Submit(usize, bool),
	Connect(usize, Del),
	Fork(Del),
	ForkHeader,
	Mine,
}

impl GOp {
	fn show(&self, u: &Uni) -> String {
		match self {
			GOp::Submit(i, stem) => Op::Submit(*i, *stem).show(u),
			GOp::Connect(s, d) => format!("connect({},{:?})", CONNECT_SETS[*s].0, d),
			GOp::Fork(d) => format!("fork-block({:?})", d),
			GOp::ForkHeader => "fork-header".into(),
			GOp::Mine => "mine".into(),
		}
	}
	fn kind(&self) -> String {
		match self {
			GOp::Submit(_, true) => "submit-stem".into(),
			GOp::Submit(_, false) => "submit-fluff".into(),
			GOp::Connect(_, d) => format!("connect-{:?}", d).to_lowercase(),
			GOp::Fork(d) => format!("fork-block-{:?}", d).to_lowercase(),
			GOp::ForkHeader => "fork-header".into(),
			GOp::Mine => "mine".into(),
		}
	}
}

fn glue_alphabet(u: &Uni, tier: Tier) -> Vec<GOp> {
	let t = |n: &str| u.tx_index(n).unwrap();
	let mut v = vec![
		GOp::Submit(t("T1"), false),
		GOp::Submit(t("T2"), false),
		GOp::Submit(t("T4"), false),
		GOp::Submit(t("T4"), true),
		GOp::Submit(t("T9"), false),
		GOp::Submit(t("T16"), false),
		GOp::Connect(1, Del::None),
		GOp::Connect(1, Del::Sync),
		GOp::Connect(0, Del::Sync),
		GOp::Fork(Del::None),
		GOp::Fork(Del::Sync),
		GOp::Mine,
	];
	if tier == Tier::Thorough {
		v.push(GOp::Submit(t("T3"), false));
		v.push(GOp::Submit(t("T1"), true));
		v.push(GOp::Connect(2, Del::Mine));
		v.push(GOp::Connect(3, Del::None));
		v.push(GOp::ForkHeader);
	}
	v
}

/// one operation on both nodes; Err(text) = the nodes differ
fn glue_step(live: &mut Live<'_>, sh: &Shadow, op: &GOp) -> (Out, Result<(), String>) {
	let u = live.u;
	// the block (if any) is built once, by the engine's node, and handed to both
	let mut block: Option<(Block, Options)> = None;
	let out = match op {
		GOp::Submit(i, stem) => live.apply(&Op::Submit(*i, *stem)),
		GOp::ForkHeader => live.apply(&Op::ForkHeader),
		GOp::Connect(s, d) => {
			let txs: Vec<Transaction> = CONNECT_SETS[*s].1.iter().map(|n| u.txs[u.tx_index(n).unwrap()].tx.clone()).collect();
			if !live.ref_block_ok(&txs) {
				return (Out::default(), Ok(()));
			}
			let head = live.head_header();
			let label = format!("c{}", s);
			match cached_block(u, &head, &label, || assemble_like_miner(&live.chain, &u.kc, &txs, 3000 + (head.height as u32 + 1) * 10 + *s as u32).map(|mut b| {
				uni::remine(&mut b, &head);
				b
			})) {
				Ok(b) => {
					block = Some((b.clone(), d.opts()));
					match live.deliver(&b, d.opts()) {
						Ok(_) => Out { enabled: true, ok: true, err: String::new() },
						Err(e) => Out { enabled: true, ok: false, err: e },
					}
				}
				Err(e) => Out { enabled: true, ok: false, err: format!("assemble: {}", e) },
			}
		}
		GOp::Fork(d) => match live.next_fork(true) {
			None => return (Out::default(), Ok(())),
			Some(i) => {
				let b = u.tree.blocks[i].block.clone();
				block = Some((b.clone(), d.opts()));
				match live.deliver(&b, d.opts()) {
					Ok(sts) => Out { enabled: true, ok: true, err: format!("{:?}", sts) },
					Err(e) => Out { enabled: true, ok: false, err: e },
				}
			}
		},
		GOp::Mine => {
			let txs = match live.pool.prepare_mineable_transactions() {
				Ok(t) if !t.is_empty() => t,
				_ => return (Out::default(), Ok(())),
			};
			match live.mined_block(&txs) {
				Ok(b) => {
					block = Some((b.clone(), Options::MINE));
					match live.deliver(&b, Options::MINE) {
						Ok(_) => Out { enabled: true, ok: true, err: String::new() },
						Err(e) => Out { enabled: true, ok: false, err: e },
					}
				}
				Err(e) => Out { enabled: true, ok: false, err: format!("assemble: {}", e) },
			}
		}
	};
	if !out.enabled {
		return (out, Ok(()));
	}
	// the same on the node wired with the real adapters
	let sres: Result<(), String> = match op {
		GOp::Submit(i, stem) => {
			let header = sh.chain.head_header().expect("head_header");
			sh.pool.write().add_to_pool(TxSource::Broadcast, u.txs[*i].tx.clone(), *stem, &header).map_err(|e| format!("{:?}", e))
		}
		GOp::ForkHeader => {
			let i = live.u.fork.iter().cloned().find(|i| sh.chain.get_block_header(&u.tree.blocks[*i].block.hash()).is_err());
			match i {
				Some(i) => sh.chain.process_block_header(&u.tree.blocks[i].block.header, Options::NONE).map_err(|e| format!("{:?}", e)),
				None => Ok(()),
			}
		}
		_ => match &block {
			Some((b, o)) => sh.chain.process_block(b.clone(), *o).map(|_| ()).map_err(|e| format!("{:?}", e)),
			None => Ok(()),
		},
	};
	let mut diffs = vec![];
	if sres.is_ok() != out.ok {
		diffs.push(format!("verdict: engine node {} / node with the real adapters {}", if out.ok { "Ok".to_string() } else { out.err.clone() }, match &sres { Ok(_) => "Ok".to_string(), Err(e) => e.clone() }));
	}
	let h1 = live.chain.head().expect("head").last_block_h;
	let h2 = sh.chain.head().expect("head").last_block_h;
	if h1 != h2 {
		diffs.push(format!("head: {} / {}", short(&h1), short(&h2)));
	}
	let names = |hs: &Vec<Hash>| hs.iter().map(|h| u.txs.iter().find(|t| t.tx.hash() == *h).map(|t| t.name.clone()).unwrap_or_else(|| short(h))).collect::<Vec<_>>().join(",");
	let (a, b, c) = sh.pools();
	let p = &live.pool;
	let mine: (Vec<Hash>, Vec<Hash>, Vec<Hash>) = (p.txpool.all_transactions().iter().map(|t| t.hash()).collect(), p.stempool.all_transactions().iter().map(|t| t.hash()).collect(), p.reorg_cache.read().iter().map(|e| e.tx.hash()).collect());
	for (what, x, y) in [("txpool", &mine.0, &a), ("stempool", &mine.1, &b), ("reorg cache", &mine.2, &c)] {
		if x != y {
			diffs.push(format!("{}: [{}] / [{}]", what, names(x), names(y)));
		}
	}
	(out, if diffs.is_empty() { Ok(()) } else { Err(diffs.join("; ")) })
}

/// the real miner on the state of the node with the real adapters
fn glue_miner(live: &Live<'_>, sh: &Shadow, sc: &uni::Scratch) -> Result<String, (String, String)> {
	let net = Arc::new(PoolToNetAdapter::new(grin_pool::DandelionConfig::default()));
	let mut sp: TransactionPool<PoolToChainAdapter, PoolToNetAdapter> = TransactionPool::new(pool_config(live.u.mc), sh.to_chain.clone(), net);
	{
		let p = sh.pool.read();
		sp.txpool.entries = p.txpool.entries.clone();
		sp.stempool.entries = p.stempool.entries.clone();
	}
	let want: BTreeSet<Vec<u8>> = match sp.prepare_mineable_transactions() {
		Ok(txs) => txs.iter().flat_map(|t| t.kernels().iter().map(|k| k.excess.0.to_vec()).collect::<Vec<_>>()).collect(),
		Err(_) => BTreeSet::new(),
	};
	let server_pool: grin_servers::ServerTxPool = Arc::new(grin_util::RwLock::new(sp));
	let mut b = grin_servers::verif_export::verif_build_block(&sh.chain, &server_pool).map_err(|e| ("build_block-failed".to_string(), format!("mine_block::build_block on a pool of {} = Err({})", sh.pool.read().txpool.size(), e)))?;
	let got: BTreeSet<Vec<u8>> = b.kernels().iter().filter(|k| !k.is_coinbase()).map(|k| k.excess.0.to_vec()).collect();
	if got != want {
		return Err(("other-set".to_string(), format!("the block built by the miner carries {} transaction kernels, prepare_mineable_transactions offers {}", got.len(), want.len())));
	}
	let head = sh.chain.head_header().expect("head_header");
	uni::remine(&mut b, &head);
	let w = b.body.weight();
	if w > MAX_BLOCK_WEIGHT {
		return Err(("too-heavy".to_string(), format!("the block built by the miner weighs {} (limit {})", w, MAX_BLOCK_WEIGHT)));
	}
	let judge = live.fork_chain(sc);
	match judge.chain.process_block(b.clone(), Options::MINE) {
		Ok(_) => Ok(format!("miner:{}-kernels", got.len())),
		Err(e) => Err(("own-block-refused".to_string(), format!("the block built by mine_block::build_block from the pool is refused by the chain: {:?}", e))),
	}
}

fn node_glue(tier: Tier, shard: usize, n: usize) -> Report {
	uni::init_thread();
	let mut rep = Report::new();
	let sc = uni::Scratch::new("c14g");
	let udir = sc.fresh("universe");
	for d in ["snaps", "seen", "verdicts"] {
		std::fs::create_dir_all(udir.join(d)).expect("universe dir");
	}
	let u = build_mc(&udir, tier, &sc);
	// quick: every sequence of 3 operations over the quick alphabet; thorough: every sequence of 3 over the larger
	// alphabet, then every sequence of 4 over the quick one
	let passes: Vec<(Vec<GOp>, usize)> = if tier == Tier::Quick { vec![(glue_alphabet(&u, Tier::Quick), 3)] } else { vec![(glue_alphabet(&u, Tier::Thorough), 3), (glue_alphabet(&u, Tier::Quick), 4)] };
	if shard == 0 {
		rep.extra.insert("alphabets".into(), json!(passes.iter().map(|(al, d)| json!({"depth": d, "ops": al.iter().map(|o| o.show(&u)).collect::<Vec<_>>()})).collect::<Vec<_>>()));
		rep.extra.insert("bound_depth".into(), json!(passes.iter().map(|p| p.1).max().unwrap_or(0)));
	}
	let mut mined: HashSet<String> = HashSet::new();
	for (alpha, depth) in passes {
	let a = alpha.len();
	let total = a.pow(depth as u32);
	let mut seen_prefix: HashSet<Vec<usize>> = HashSet::new();
	for code in 0..total {
		if !crate::par::mine(code as u64, shard, n) {
			continue;
		}
		let seq: Vec<usize> = (0..depth).map(|k| (code / a.pow((depth - 1 - k) as u32)) % a).collect();
		let mut live = Live::root(&u, &sc);
		let sh = Shadow::open(&u, &sc);
		let mut shown: Vec<String> = vec![];
		for (k, oi) in seq.iter().enumerate() {
			let op = &alpha[*oi];
			let (out, same) = glue_step(&mut live, &sh, op);
			if !out.enabled {
				rep.outcome(&format!("disabled:{}", op.kind()));
				break;
			}
			shown.push(op.show(&u));
			let first_visit = seen_prefix.insert(seq[..=k].to_vec());
			if first_visit {
				rep.transitions += 1;
				rep.evaluations += 1;
				rep.outcome(&format!("{}:{}", op.kind(), if out.ok { "ok".to_string() } else { err_class(&out.err) }));
			}
			if let Err(d) = same {
				rep.violation(format!("node-glue:nodes-differ:{}", op.kind()), format!("after {:?} the node wired with ChainToPoolAndNetAdapter / PoolToChainAdapter differs from the engine's node (engine / real): {}", shown, d), json!({"part": "node-glue", "tier": tier.name(), "ops": shown.clone()}));
				break;
			}
			let key = live.key();
			if mined.insert(key.clone()) {
				rep.states += 1;
				rep.distinct += 1;
				rep.state_keys.insert(hash64(&key));
				match glue_miner(&live, &sh, &sc) {
					Ok(c) => rep.outcome(&c),
					Err((k, w)) => rep.violation(format!("node-glue:miner:{}", k), format!("after {:?}: {}", shown, w), json!({"part": "node-glue", "tier": tier.name(), "ops": shown.clone(), "miner": true})),
				}
			}
		}
	}
	}
	rep
}
