//! Canonical chain-state fingerprints (DESIGN §2.3): everything the anchored code reads when it
//! processes a later event, rendered into a sorted text form and hashed.
use grin_chain::Chain;
use grin_core::core::hash::{Hash, Hashed};
use grin_util::secp::pedersen::Commitment;
use grin_util::ToHex;
use std::collections::BTreeMap;

#[derive(Clone, Debug, PartialEq, Eq)]
pub struct Fp {
	pub lines: BTreeMap<String, String>,
}

impl Fp {
	pub fn digest(&self) -> String {
		let mut s = String::new();
		for (k, v) in &self.lines {
			s.push_str(k);
			s.push('=');
			s.push_str(v);
			s.push('\n');
		}
		let h = blake2_rfc::blake2b::blake2b(16, &[], s.as_bytes());
		crate::ev::hex(h.as_bytes())
	}
	/// keys whose values differ (for diagnostics)
	pub fn diff(&self, o: &Fp) -> Vec<String> {
		let mut out = vec![];
		for (k, v) in &self.lines {
			match o.lines.get(k) {
				Some(w) if w == v => {}
				Some(w) => out.push(format!("{}: {} != {}", k, v, w)),
				None => out.push(format!("{}: {} != <absent>", k, v)),
			}
		}
		for (k, w) in &o.lines {
			if !self.lines.contains_key(k) {
				out.push(format!("{}: <absent> != {}", k, w));
			}
		}
		out
	}
	/// restriction to best-chain state (C06): keys starting with one of the prefixes
	pub fn only(&self, prefixes: &[&str]) -> Fp {
		Fp {
			lines: self
				.lines
				.iter()
				.filter(|(k, _)| prefixes.iter().any(|p| *k == p || (p.ends_with('.') && k.starts_with(p))))
				.map(|(k, v)| (k.clone(), v.clone()))
				.collect(),
		}
	}
}

fn short(h: &Hash) -> String {
	h.to_hex()[..16].to_string()
}

pub fn chain_fp(chain: &Chain, blocks: &[Hash], commits: &[Commitment]) -> Fp {
	let mut m = BTreeMap::new();
	let head = chain.head().expect("head");
	let hh = chain.header_head().expect("header_head");
	m.insert(
		"head".into(),
		format!("{}@{} td{}", short(&head.last_block_h), head.height, head.total_difficulty.to_num()),
	);
	m.insert(
		"header_head".into(),
		format!("{}@{} td{}", short(&hh.last_block_h), hh.height, hh.total_difficulty.to_num()),
	);
	if let Ok(t) = chain.tail() {
		m.insert("tail".into(), format!("{}@{}", short(&t.last_block_h), t.height));
	}
	{
		let ts = chain.txhashset();
		let ts = ts.read();
		match ts.roots() {
			Ok(r) => {
				m.insert(
					"roots".into(),
					format!(
						"o{} b{} r{} k{}",
						short(&r.output_roots.pmmr_root),
						short(&r.output_roots.bitmap_root),
						short(&r.rproof_root),
						short(&r.kernel_root)
					),
				);
			}
			Err(e) => {
				m.insert("roots".into(), format!("ERR {:?}", e));
			}
		}
		m.insert(
			"sizes".into(),
			format!(
				"{} {} {}",
				ts.output_mmr_size(),
				ts.rangeproof_mmr_size(),
				ts.kernel_mmr_size()
			),
		);
	}
	{
		let hp = chain.header_pmmr();
		let hp = hp.read();
		m.insert("hmmr.size".into(), format!("{}", hp.size));
		let mut s = String::new();
		for h in 0..=hh.height + 1 {
			match hp.get_header_hash_by_height(h) {
				Ok(x) => s.push_str(&short(&x)[..8]),
				Err(_) => s.push_str("--------"),
			}
			s.push(' ');
		}
		m.insert("hmmr.by_height".into(), s);
	}
	let store = chain.store();
	for (i, b) in blocks.iter().enumerate() {
		let hdr = store.get_block_header(b).is_ok();
		let blk = store.block_exists(b).unwrap_or(false);
		let mut v = format!("hdr{} blk{}", hdr as u8, blk as u8);
		if blk {
			if let Ok(s) = store.get_block_sums(b) {
				v.push_str(&format!(" sums{}/{}", &crate::ev::hex(&s.utxo_sum.0)[..12], &crate::ev::hex(&s.kernel_sum.0)[..12]));
			} else {
				v.push_str(" sums-");
			}
			if let Ok(batch) = store.batch() {
				match batch.get_spent_index(b) {
					Ok(sp) => {
						let mut t: Vec<String> = sp.iter().map(|c| format!("{}@{}", c.pos, c.height)).collect();
						t.sort();
						v.push_str(&format!(" spent[{}]", t.join(",")));
					}
					Err(_) => v.push_str(" spent-"),
				}
			}
		}
		m.insert(format!("blk.{:03}.{}", i, &short(b)[..8]), v);
	}
	// full output_pos index
	{
		let mut v: Vec<String> = vec![];
		if let Ok(batch) = store.batch() {
			if let Ok(it) = batch.output_pos_iter() {
				for (k, cp) in it.flatten() {
					v.push(format!("{}:{}@{}", crate::ev::hex(&k[..k.len().min(9)]), cp.pos, cp.height));
				}
			}
		}
		v.sort();
		m.insert("outpos".into(), v.join(" "));
	}
	// unspent view over the universe commitments
	for (i, c) in commits.iter().enumerate() {
		let v = match chain.get_unspent(*c) {
			Ok(Some((_, cp))) => format!("unspent pos{} h{}", cp.pos, cp.height),
			Ok(None) => "none".to_string(),
			Err(e) => format!("ERR {:?}", e),
		};
		m.insert(format!("utxo.{:03}", i), v);
	}
	m.insert("orphans".into(), format!("{}", chain.orphans_len()));
	for (i, b) in blocks.iter().enumerate() {
		if chain.is_orphan(b) {
			m.insert(format!("orphan.{:03}", i), "1".into());
		}
	}
	Fp { lines: m }
}

/// Lines `nrd.NNN` = the recent-kernel (NRD) index list of each given excess, newest first, walked
/// through the linked-list entries (what `apply_kernel_rules` peeks at and a rewind pops).
pub fn add_nrd_lines(fp: &mut Fp, chain: &Chain, excesses: &[Commitment]) {
	use grin_chain::linked_list::{ListEntry, ListIndex, ListWrapper};
	let store = chain.store();
	let idx = grin_chain::store::nrd_recent_kernel_index();
	let batch = match store.batch() {
		Ok(b) => b,
		Err(e) => {
			fp.lines.insert("nrd".into(), format!("ERR {:?}", e));
			return;
		}
	};
	for (i, ex) in excesses.iter().enumerate() {
		let v = match idx.get_list(&batch, *ex) {
			Ok(None) => "-".to_string(),
			Ok(Some(ListWrapper::Single { pos })) => format!("[{}@{}]", pos.pos, pos.height),
			Ok(Some(ListWrapper::Multi { head, tail })) => {
				let mut out = vec![];
				let mut cur = head;
				for _ in 0..64 {
					match idx.get_entry(&batch, *ex, cur) {
						Ok(Some(ListEntry::Head { pos, next })) => {
							out.push(format!("{}@{}", pos.pos, pos.height));
							cur = next;
						}
						Ok(Some(ListEntry::Middle { pos, next, .. })) => {
							out.push(format!("{}@{}", pos.pos, pos.height));
							cur = next;
						}
						Ok(Some(ListEntry::Tail { pos, .. })) => {
							out.push(format!("{}@{}", pos.pos, pos.height));
							break;
						}
						Ok(None) => {
							out.push(format!("missing-entry@{}", cur));
							break;
						}
						Err(e) => {
							out.push(format!("ERR {:?}", e));
							break;
						}
					}
				}
				format!("[{}] tail{}", out.join(","), tail)
			}
			Err(e) => format!("ERR {:?}", e),
		};
		fp.lines.insert(format!("nrd.{:03}", i), v);
	}
}

/// the part of the fingerprint that describes best-chain state (C06)
pub const BEST_CHAIN_KEYS: &[&str] = &["head", "roots", "sizes", "utxo.", "outpos", "tail", "nrd."];
