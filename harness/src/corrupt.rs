//! Closed catalogue of single-field block corruptions, one per validation stage (C06, C15, C01).
use crate::chainx::refmmr_size;
use crate::uni;
use grin_core::core::hash::Hash;
use grin_core::core::{Block, BlockHeader, Output, OutputFeatures, TransactionBody, TxKernel};
use grin_keychain::BlindingFactor;
use grin_util::secp::Signature;

pub struct Corruption {
	pub name: &'static str,
	/// the header on its own still satisfies every header rule (so it may be remembered)
	pub header_valid: bool,
	/// the header hash is unchanged (the corrupted block impersonates the original)
	pub same_hash: bool,
}

pub const CATALOGUE: &[Corruption] = &[
	Corruption { name: "pow:nonce+1", header_valid: false, same_hash: true },
	Corruption { name: "hdr:timestamp=parent", header_valid: false, same_hash: false },
	Corruption { name: "hdr:version+1", header_valid: false, same_hash: false },
	Corruption { name: "hdr:total_difficulty+1", header_valid: false, same_hash: false },
	Corruption { name: "hdr:height+1", header_valid: false, same_hash: false },
	Corruption { name: "hdr:prev_root-flip", header_valid: false, same_hash: false },
	Corruption { name: "body:kernel-sig-flip", header_valid: true, same_hash: true },
	Corruption { name: "body:rangeproof-corrupt", header_valid: true, same_hash: true },
	Corruption { name: "body:offset+1", header_valid: true, same_hash: false },
	Corruption { name: "body:coinbase-output-flag-cleared", header_valid: true, same_hash: true },
	Corruption { name: "body:coinbase-kernel-flag-cleared", header_valid: true, same_hash: true },
	Corruption { name: "late:output_root-flip", header_valid: true, same_hash: false },
	Corruption { name: "late:range_proof_root-flip", header_valid: true, same_hash: false },
	Corruption { name: "late:kernel_root-flip", header_valid: true, same_hash: false },
	Corruption { name: "late:output_mmr_size+leaf", header_valid: true, same_hash: false },
	Corruption { name: "late:kernel_mmr_size+leaf", header_valid: true, same_hash: false },
];

fn flip(h: &Hash) -> Hash {
	let mut v = h.to_vec();
	v[31] ^= 1;
	Hash::from_vec(&v)
}

fn n_leaves_of(size: u64) -> u64 {
	grin_core::core::pmmr::n_leaves(size)
}

/// Apply corruption `name` to a copy of the valid block `b` (child of `prev`); re-mine where the
/// mutation would otherwise be caught by the PoW check instead of the targeted rule.
pub fn apply(name: &str, b: &Block, prev: &BlockHeader) -> Option<Block> {
	let mut c = b.clone();
	let mut remine = true;
	match name {
		"pow:nonce+1" => {
			c.header.pow.nonce = c.header.pow.nonce.wrapping_add(1);
			remine = false;
		}
		"hdr:timestamp=parent" => c.header.timestamp = prev.timestamp,
		"hdr:version+1" => c.header.version = grin_core::core::HeaderVersion(c.header.version.0 + 1),
		"hdr:total_difficulty+1" => {
			// claims one more than the network difficulty; mined at the claimed difficulty
			c.header.pow.total_difficulty = c.header.pow.total_difficulty + grin_core::pow::Difficulty::from_num(1);
		}
		"hdr:height+1" => c.header.height += 1,
		"hdr:prev_root-flip" => c.header.prev_root = flip(&c.header.prev_root),
		"body:kernel-sig-flip" => {
			let mut ks: Vec<TxKernel> = c.kernels().to_vec();
			let k = ks.last_mut()?;
			let mut raw = [0u8; 64];
			raw.copy_from_slice(&k.excess_sig.to_raw_data());
			raw[5] ^= 0x10;
			k.excess_sig = Signature::from_raw_data(&raw).ok()?;
			c.body = TransactionBody::init(c.inputs(), c.outputs(), &ks, false).ok()?;
			remine = false;
		}
		"body:rangeproof-corrupt" => {
			let mut os: Vec<Output> = c.outputs().to_vec();
			let o = os.last_mut()?;
			let mut p = o.proof();
			p.proof[17] ^= 0x40;
			*o = Output::new(o.features(), o.commitment(), p);
			c.body = TransactionBody::init(c.inputs(), &os, c.kernels(), false).ok()?;
			remine = false;
		}
		"body:offset+1" => {
			let one = {
				let mut b = [0u8; 32];
				b[31] = 1;
				BlindingFactor::from_slice(&b)
			};
			c.header.total_kernel_offset = grin_core::core::committed::sum_kernel_offsets(vec![c.header.total_kernel_offset.clone(), one], vec![]).ok()?;
		}
		"body:coinbase-output-flag-cleared" => {
			let mut os: Vec<Output> = c.outputs().to_vec();
			let o = os.iter_mut().find(|o| o.is_coinbase())?;
			*o = Output::new(OutputFeatures::Plain, o.commitment(), o.proof());
			os.sort_unstable();
			c.body = TransactionBody::init(c.inputs(), &os, c.kernels(), false).ok()?;
			remine = false;
		}
		"body:coinbase-kernel-flag-cleared" => {
			let mut ks: Vec<TxKernel> = c.kernels().to_vec();
			let k = ks.iter_mut().find(|k| k.is_coinbase())?;
			k.features = grin_core::core::KernelFeatures::Plain { fee: 0u32.into() };
			ks.sort_unstable();
			c.body = TransactionBody::init(c.inputs(), c.outputs(), &ks, false).ok()?;
			remine = false;
		}
		"late:output_root-flip" => c.header.output_root = flip(&c.header.output_root),
		"late:range_proof_root-flip" => c.header.range_proof_root = flip(&c.header.range_proof_root),
		"late:kernel_root-flip" => c.header.kernel_root = flip(&c.header.kernel_root),
		"late:output_mmr_size+leaf" => c.header.output_mmr_size = refmmr_size(n_leaves_of(c.header.output_mmr_size) + 1),
		"late:kernel_mmr_size+leaf" => c.header.kernel_mmr_size = refmmr_size(n_leaves_of(c.header.kernel_mmr_size) + 1),
		_ => return None,
	}
	if remine {
		uni::remine(&mut c, prev);
	}
	Some(c)
}
