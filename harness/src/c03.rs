//! C03 — Head is the most-work validated chain, whatever the arrival order.
use crate::chainx::{case_json, Ev, Explorer, Invariant, Live, Outcome, TreeBuilder};
use crate::ev::{Report, Tier};
use crate::fp::Fp;
use crate::ledger::Tree;
use crate::par::mine;
use crate::uni;
use crate::{Engine, Meta};
use grin_chain::types::Options;
use grin_core::core::hash::Hashed;
use serde_json::{json, Value};
use std::collections::BTreeSet;

pub struct C03;

/// (parents, diffs): parents[i] = None (genesis) or Some(j<i)
#[derive(Clone, Debug)]
pub struct Shape {
	pub parents: Vec<Option<usize>>,
	pub diffs: Vec<u64>,
}

fn canon(shape: &Shape, node: Option<usize>) -> String {
	let mut kids: Vec<String> = (0..shape.parents.len())
		.filter(|i| shape.parents[*i] == node)
		.map(|i| canon(shape, Some(i)))
		.collect();
	kids.sort();
	match node {
		None => format!("g[{}]", kids.join(",")),
		Some(i) => format!("{}[{}]", shape.diffs[i], kids.join(",")),
	}
}

/// all fork trees with 1..=n blocks over genesis and difficulties from `alphabet`, up to
/// isomorphism of the difficulty-labelled tree
pub fn shapes(n: usize, alphabet: &[u64]) -> Vec<Shape> {
	let mut out = vec![];
	let mut seen = BTreeSet::new();
	for k in 1..=n {
		// parent vectors
		let mut pv: Vec<Vec<Option<usize>>> = vec![vec![]];
		for i in 0..k {
			let mut nx = vec![];
			for p in &pv {
				let mut q = p.clone();
				q.push(None);
				nx.push(q);
				for j in 0..i {
					let mut q = p.clone();
					q.push(Some(j));
					nx.push(q);
				}
			}
			pv = nx;
		}
		for parents in pv {
			let total = alphabet.len().pow(k as u32);
			for code in 0..total {
				let mut c = code;
				let diffs: Vec<u64> = (0..k)
					.map(|_| {
						let d = alphabet[c % alphabet.len()];
						c /= alphabet.len();
						d
					})
					.collect();
				let s = Shape {
					parents: parents.clone(),
					diffs,
				};
				if seen.insert(canon(&s, None)) {
					out.push(s);
				}
			}
		}
	}
	out
}

pub fn build_tree(sc: &uni::Scratch, shape: &Shape) -> Tree {
	build_tree_lifted(sc, shape, 0)
}

/// `lift` blocks p1..pN of difficulty 1 below the shape (12: version-5 headers throughout)
pub fn build_tree_lifted(sc: &uni::Scratch, shape: &Shape, lift: usize) -> Tree {
	let mut tb = TreeBuilder::new(sc, 7, true);
	let mut base = None;
	for i in 1..=lift {
		base = Some(tb.add_with_difficulty(&format!("p{}", i), base, &uni::BlockSpec::empty(200 + i as u32), 1));
	}
	if lift > 0 {
		for i in 0..shape.parents.len() {
			let name = format!("b{}d{}", i, shape.diffs[i]);
			let parent = match shape.parents[i] {
				None => base,
				Some(k) => Some(k + lift),
			};
			tb.add_with_difficulty(&name, parent, &uni::BlockSpec::empty(10 + i as u32), shape.diffs[i]);
		}
		return tb.finish();
	}
	for i in 0..shape.parents.len() {
		let name = format!("b{}d{}", i, shape.diffs[i]);
		tb.add_with_difficulty(
			&name,
			shape.parents[i],
			&uni::BlockSpec::empty(10 + i as u32),
			shape.diffs[i],
		);
	}
	tb.finish()
}

struct Inv03 {
	inst: String,
	/// best-chain fingerprint of the twin that was fed the winning path only
	twin: Option<(usize, Fp)>,
	finals: BTreeSet<String>,
}

const KEYS: &[&str] = &["head", "roots", "sizes", "utxo.", "outpos"];

impl Invariant for Inv03 {
	fn check(&mut self, live: &Live<'_>, prefix: &[Ev], _before: &Fp, _after: &Fp, out: &Outcome, rep: &mut Report) {
		let t = live.tree;
		let case = || case_json(&self.inst, t, prefix);
		let head = live.chain().head().unwrap();
		// (1) head names an accepted block whose ancestors are all accepted
		let hidx = if head.last_block_h == t.gen.hash() {
			None
		} else {
			match t.index_of(&head.last_block_h) {
				Some(i) => Some(i),
				None => {
					rep.violation("head:unknown-block", "head is not a block of the universe", case());
					return;
				}
			}
		};
		if let Some(i) = hidx {
			for k in t.path(i) {
				if !live.model.accepted.contains(&k) {
					rep.violation("head:ancestor-not-accepted", format!("head {} has ancestor {} that was never reported accepted", t.blocks[i].name, t.blocks[k].name), case());
				}
			}
		}
		// accepted set is ancestor-closed
		for a in &live.model.accepted {
			if let Some(p) = t.blocks[*a].parent {
				if !live.model.accepted.contains(&p) {
					rep.violation("accepted:parent-missing", format!("{} accepted before its parent", t.blocks[*a].name), case());
				}
			}
		}
		// (2) head moves only to strictly more work
		if out.head_after.0 != out.head_before.0 && out.head_after.1 <= out.head_before.1 {
			rep.violation("head:moved-without-more-work", format!("head moved from td {} to td {}", out.head_before.1, out.head_after.1), case());
		}
		// (3) head has the greatest td among accepted blocks, and is the reference head
		let max_td = live.model.accepted.iter().map(|a| t.td(Some(*a))).max().unwrap_or(t.td(None)).max(t.td(None));
		if head.total_difficulty.to_num() != max_td {
			rep.violation("head:not-most-work", format!("head td {} but an accepted block has td {}", head.total_difficulty.to_num(), max_td), case());
		}
		if t.tip_hash(live.model.head) != head.last_block_h {
			rep.violation("head:differs-from-reference", format!("head {:?} but the reference fork choice (first to reach strictly more work) says {:?}", hidx.map(|i| t.blocks[i].name.clone()), live.model.head.map(|i| t.blocks[i].name.clone())), case());
		}
		// (4) header head: never behind the body head
		let hh = live.chain().header_head().unwrap();
		if hh.total_difficulty < head.total_difficulty {
			rep.violation("header_head:behind-head", format!("header_head td {} < head td {}", hh.total_difficulty.to_num(), head.total_difficulty.to_num()), case());
		}
		// verdict and accepted set of this event as the model expects
		if let Some(ok) = out.expect.ok {
			if ok != out.ok {
				rep.violation(
					if ok { "verdict:spurious-rejection" } else { "verdict:spurious-acceptance" },
					format!("{} returned {} but the model expects {} ({})", prefix.last().unwrap().show(t), if out.ok { "Ok".to_string() } else { out.err.clone() }, if ok { "Ok" } else { "Err" }, out.expect.why),
					case(),
				);
			}
		}
		if let Some(acc) = &out.expect.accepted {
			let got: BTreeSet<usize> = out.accepted.iter().map(|(i, _)| *i).collect();
			if &got != acc {
				rep.violation("accepted:differs-from-model", format!("event accepted {:?} but model expects {:?}", got.iter().map(|i| t.blocks[*i].name.clone()).collect::<Vec<_>>(), acc.iter().map(|i| t.blocks[*i].name.clone()).collect::<Vec<_>>()), case());
			}
		}
		// (5) reported status per acceptance
		let mut cur = if out.head_before.0 == t.gen.hash() { None } else { t.index_of(&out.head_before.0) };
		for (i, status) in &out.accepted {
			let more = t.td(Some(*i)) > t.td(cur);
			let exp = if !more {
				"fork"
			} else if t.blocks[*i].parent == cur {
				"next"
			} else {
				"reorg"
			};
			let got = status.split('@').next().unwrap();
			if got != exp {
				// Not a verdict: the reported BlockStatus is not part of the property statement. The
				// node derives Next vs Reorg from the *header* MMR, so when header chain and body chain
				// sit on different forks (header-first sync of a sibling branch) a one-block body reorg
				// is reported as Next. Counted for information only (see DESIGN 9.5).
				rep.outcome(&format!("note:status-{}-reported-as-{}", exp, got));
			}
			if exp != "next" {
				// fork point = deepest common ancestor of the block's parent and the head before
				let pa: Vec<usize> = t.blocks[*i].parent.map(|p| t.path(p)).unwrap_or_default();
				let pb: Vec<usize> = cur.map(|c| t.path(c)).unwrap_or_default();
				let common = pa.iter().zip(pb.iter()).take_while(|(a, b)| a == b).count();
				let fh = if common == 0 { 0 } else { t.blocks[pa[common - 1]].block.header.height };
				let got_h: u64 = status.split('@').nth(1).and_then(|x| x.parse().ok()).unwrap_or(u64::MAX);
				if got_h != fh && got == exp {
					rep.outcome("note:status-fork-point-differs");
				}
			}
			if more {
				cur = Some(*i);
			}
		}
	}

	fn at_end(&mut self, live: &Live<'_>, prefix: &[Ev], after: &Fp, rep: &mut Report) {
		let t = live.tree;
		// only when every block got accepted and the maximum is unique
		if live.model.accepted.len() != t.blocks.len() {
			rep.outcome("end:partial");
			return;
		}
		let max_td = (0..t.blocks.len()).map(|i| t.td(Some(i))).max().unwrap();
		let winners: Vec<usize> = (0..t.blocks.len()).filter(|i| t.td(Some(*i)) == max_td).collect();
		if winners.len() != 1 {
			rep.outcome("end:tie");
			return;
		}
		rep.outcome("end:unique-winner");
		let best = after.only(KEYS);
		self.finals.insert(best.digest());
		if let Some((w, twin)) = &self.twin {
			if *w == winners[0] && &best != twin {
				rep.violation(
					"quiescence:differs-from-twin",
					format!("final best-chain state differs from a chain fed the winning path only: {:?}", best.diff(twin).into_iter().take(4).collect::<Vec<_>>()),
					case_json(&self.inst, t, prefix),
				);
			}
		}
	}
}

fn twin_fp(sc: &uni::Scratch, tree: &Tree, opts: Options) -> Option<(usize, Fp)> {
	let max_td = (0..tree.blocks.len()).map(|i| tree.td(Some(i))).max()?;
	let winners: Vec<usize> = (0..tree.blocks.len()).filter(|i| tree.td(Some(*i)) == max_td).collect();
	if winners.len() != 1 {
		return None;
	}
	let dir = sc.fresh("twin");
	let mut live = Live::open(tree, &dir, opts);
	for i in tree.path(winners[0]) {
		let o = live.apply(&Ev::B(i));
		assert!(o.ok, "twin refused winning path block: {}", o.err);
	}
	let f = live.fp().only(KEYS);
	drop(live);
	let _ = std::fs::remove_dir_all(&dir);
	Some((winners[0], f))
}

fn events_for(tree: &Tree, with_headers: bool, dup: bool) -> Vec<Ev> {
	let mut ev = vec![];
	for i in 0..tree.blocks.len() {
		ev.push(Ev::B(i));
		if with_headers {
			ev.push(Ev::H(i));
		}
	}
	if dup {
		// one duplicate delivery: the block with the most work
		let w = (0..tree.blocks.len()).max_by_key(|i| (tree.td(Some(*i)), usize::MAX - *i)).unwrap();
		ev.push(Ev::B(w));
	}
	ev
}

fn skip_pow(tier: Tier, shard: usize, n: usize) -> Report {
	uni::init_thread();
	let mut rep = Report::new();
	let sc = uni::Scratch::new("c03");
	let (maxn, alphabet): (usize, Vec<u64>) = tier.pick((3, vec![1, 3]), (4, vec![1, 2, 4]));
	let mut all = shapes(maxn, &alphabet);
	if tier == Tier::Quick {
		// one more family in quick: a main block against a fork of depth 3 (the smallest shape in
		// which an orphan released onto a still-losing fork has an orphan child of its own)
		for code in 0..16usize {
			let d = |k: usize| if (code >> k) & 1 == 1 { 3 } else { 1 };
			all.push(Shape { parents: vec![None, None, Some(1), Some(2)], diffs: vec![d(0), d(1), d(2), d(3)] });
		}
	}
	rep.extra.insert("instances_total".into(), json!(if shard == 0 { all.len() } else { 0 }));
	for (k, shape) in all.iter().enumerate() {
		if !mine(k as u64, shard, n) {
			continue;
		}
		let tree = build_tree(&sc, shape);
		let inst = format!("skip_pow:{}", canon(shape, None));
		let twin = twin_fp(&sc, &tree, Options::SKIP_POW);
		let mut inv = Inv03 { inst: inst.clone(), twin, finals: BTreeSet::new() };
		let mut ex = Explorer::new(&tree, &sc, Options::SKIP_POW, &inst);
		// header events and a duplicate only on the smaller trees (cost), all orders of all of them
		let nb = tree.blocks.len();
		let mut evs = events_for(&tree, nb <= tier.pick(2, 3), nb <= tier.pick(3, 3));
		if nb > tier.pick(2, 3) {
			// larger trees: header-first through one sync batch per leaf instead of one header
			// event per block, so that children-before-parents (orphan) orders exist there too
			let leaves: Vec<usize> = (0..nb).filter(|i| !tree.blocks.iter().any(|b| b.parent == Some(*i))).collect();
			for l in leaves {
				if tree.blocks[l].parent.is_some() {
					evs.push(Ev::HS(l));
				}
			}
		}
		ex.explore(&evs, &mut inv, &mut rep);
		if inv.finals.len() > 1 {
			rep.violation("quiescence:order-dependent", format!("{} distinct final best-chain states over the delivery orders of one universe", inv.finals.len()), json!({"instance": inst}));
		}
		let _ = std::fs::remove_dir_all(&ex.base);
	}
	if tier == Tier::Thorough {
		// the depth-3 fork family once more on top of 12 blocks (version-5 headers throughout)
		for code in 0..16usize {
			if !mine(1000 + code as u64, shard, n) {
				continue;
			}
			let d = |k: usize| if (code >> k) & 1 == 1 { 3 } else { 1 };
			let shape = Shape { parents: vec![None, None, Some(1), Some(2)], diffs: vec![d(0), d(1), d(2), d(3)] };
			let tree = build_tree_lifted(&sc, &shape, 12);
			let inst = format!("skip_pow+12:{}", canon(&shape, None));
			let twin = twin_fp(&sc, &tree, Options::SKIP_POW);
			let mut inv = Inv03 { inst: inst.clone(), twin, finals: BTreeSet::new() };
			let is_lift = |i: usize| tree.blocks[i].name.starts_with('p');
			let prelude: Vec<Ev> = (0..tree.blocks.len()).filter(|i| is_lift(*i)).map(Ev::B).collect();
			let mut ex = Explorer::with_prelude(&tree, &sc, Options::SKIP_POW, &inst, &prelude);
			let nb = tree.blocks.len();
			let mut evs: Vec<Ev> = (0..nb).filter(|i| !is_lift(*i)).map(Ev::B).collect();
			let leaves: Vec<usize> = (0..nb).filter(|i| !is_lift(*i) && !tree.blocks.iter().any(|b| b.parent == Some(*i))).collect();
			for l in leaves {
				evs.push(Ev::HS(l));
			}
			ex.explore(&evs, &mut inv, &mut rep);
			if inv.finals.len() > 1 {
				rep.violation("quiescence:order-dependent", format!("{} distinct final best-chain states over the delivery orders of one universe", inv.finals.len()), json!({"instance": inst}));
			}
			let _ = std::fs::remove_dir_all(&ex.base);
		}
	}
	rep
}

/// A fork that leaves the main chain more than 50 blocks below the head (the chain treats *known* blocks that far
/// down as old; an unknown one is a fork block like any other): main chain p1..p54 delivered first, then the
/// fork's blocks and headers in every order. Two instances: the fork overtakes with its second block / with its first.
fn deep_tree(sc: &uni::Scratch, d3: u64, d4: u64) -> (Tree, usize, usize) {
	let mut tb = TreeBuilder::new(sc, 7, true);
	let mut prev = None;
	let mut p2 = None;
	for i in 1..=54usize {
		prev = Some(tb.add_with_difficulty(&format!("p{}", i), prev, &uni::BlockSpec::empty(200 + i as u32), 1));
		if i == 2 {
			p2 = prev;
		}
	}
	let f3 = tb.add_with_difficulty(&format!("f3d{}", d3), p2, &uni::BlockSpec::empty(10), d3);
	let f4 = tb.add_with_difficulty(&format!("f4d{}", d4), Some(f3), &uni::BlockSpec::empty(11), d4);
	(tb.finish(), f3, f4)
}

fn deep(_tier: Tier, shard: usize, n: usize) -> Report {
	uni::init_thread();
	let mut rep = Report::new();
	let sc = uni::Scratch::new("c03d");
	for (k, (d3, d4)) in [(1u64, 60u64), (60, 1)].iter().enumerate() {
		if !mine(k as u64, shard, n) {
			continue;
		}
		let (tree, f3, f4) = deep_tree(&sc, *d3, *d4);
		let inst = format!("deep-fork:{}-{}", d3, d4);
		let twin = twin_fp(&sc, &tree, Options::SKIP_POW);
		let mut inv = Inv03 { inst: inst.clone(), twin, finals: BTreeSet::new() };
		let is_main = |i: usize| tree.blocks[i].name.starts_with('p');
		let prelude: Vec<Ev> = (0..tree.blocks.len()).filter(|i| is_main(*i)).map(Ev::B).collect();
		let mut ex = Explorer::with_prelude(&tree, &sc, Options::SKIP_POW, &inst, &prelude);
		let evs = vec![Ev::B(f3), Ev::B(f4), Ev::H(f3), Ev::HS(f4), Ev::B(f4)];
		ex.explore(&evs, &mut inv, &mut rep);
		if inv.finals.len() > 1 {
			rep.violation("quiescence:order-dependent", format!("{} distinct final best-chain states over the delivery orders of one universe", inv.finals.len()), json!({"instance": inst}));
		}
		let _ = std::fs::remove_dir_all(&ex.base);
	}
	rep
}

/// real-PoW universe: main chain of 3 + fork of 3 from block 1 with larger timestamps gaps,
/// header-first deliveries included
fn real_pow(tier: Tier, shard: usize, n: usize) -> Report {
	uni::init_thread();
	let mut rep = Report::new();
	let sc = uni::Scratch::new("c03p");
	let variants: Vec<(&str, Vec<(Option<usize>, i64)>)> = vec![
		// (parent, dt)
		("fork2v2", vec![(None, 60), (Some(0), 60), (Some(0), 61), (Some(2), 60)]),
		("fork-at-genesis", vec![(None, 60), (None, 61), (Some(1), 60)]),
		("long-vs-short", vec![(None, 60), (Some(0), 60), (Some(1), 60), (Some(0), 30), (Some(3), 30)]),
	];
	let variants = if tier == Tier::Quick { variants[..2].to_vec() } else { variants };
	for (_k, (name, spec)) in variants.iter().enumerate() {
		let mut tb = TreeBuilder::new(&sc, 8, false);
		for (i, (parent, dt)) in spec.iter().enumerate() {
			let mut bs = uni::BlockSpec::empty(20 + i as u32);
			bs.dt = *dt;
			tb.add(&format!("p{}", i), *parent, &bs);
		}
		let tree = tb.finish();
		let inst = format!("real_pow:{}", name);
		let twin = twin_fp(&sc, &tree, Options::NONE);
		let mut inv = Inv03 { inst: inst.clone(), twin, finals: BTreeSet::new() };
		let mut ex = Explorer::new(&tree, &sc, Options::NONE, &inst);
		ex.shard = (shard, n);
		let mut evs = events_for(&tree, false, false);
		// header-first: a sync batch up to each leaf
		let leaves: Vec<usize> = (0..tree.blocks.len()).filter(|i| !tree.blocks.iter().any(|b| b.parent == Some(*i))).collect();
		for l in leaves {
			evs.push(Ev::HS(l));
		}
		ex.explore(&evs, &mut inv, &mut rep);
		if inv.finals.len() > 1 {
			rep.violation("quiescence:order-dependent", format!("{} distinct final best-chain states over the delivery orders of one universe", inv.finals.len()), json!({"instance": inst}));
		}
		let _ = std::fs::remove_dir_all(&ex.base);
	}
	rep
}

impl Engine for C03 {
	fn id(&self) -> &'static str {
		"C03"
	}
	fn meta(&self, _tier: Tier) -> Meta {
		Meta {
			level: "model_checking",
			rule: "stateless exploration (replay DFS, memoised on canonical chain fingerprint + accepted set + remaining events) of every delivery order of {process_block, process_block_header, one duplicate, sync_block_headers} over every fork tree up to the block bound with every difficulty vector from the alphabet (SKIP_POW universes, as the repo's own fork tests) and over real-PoW fork universes; invariants evaluated on the real Chain after every event against the fork-choice model built from block_accepted callbacks; final state compared with a twin fed the winning path only. A state is distinct by fingerprint; all are non-trivial (reached by at least one delivery).",
			assumptions: vec![
				"orphan pool stays within capacity (property allows)".into(),
				"SKIP_POW universes are used only for fork choice with arbitrary difficulties; PoW/header rules are C04/C05".into(),
				"trees up to 3 (quick) / 4 (thorough) blocks, difficulty alphabet {1,3} / {1,2,4}".into(),
			],
			exhaustive: true,
		}
	}
	fn parts(&self, _tier: Tier) -> Vec<(&'static str, usize)> {
		vec![("skip_pow", 16), ("real_pow", 16), ("deep", 2)]
	}
	fn run_part(&self, part: &str, tier: Tier, shard: usize, n: usize) -> Report {
		match part {
			"skip_pow" => skip_pow(tier, shard, n),
			"real_pow" => real_pow(tier, shard, n),
			"deep" => deep(tier, shard, n),
			_ => panic!("unknown part"),
		}
	}
	fn replay(&self, case: &Value) -> Result<String, String> {
		replay_history(case)
	}
}

/// Replays a recorded history (instance name + event names) and reports head/roots.
pub fn replay_history(case: &Value) -> Result<String, String> {
	uni::init_thread();
	let inst = case["instance"].as_str().unwrap_or("");
	let sc = uni::Scratch::new("replay");
	let tree = if let Some(c) = inst.strip_prefix("skip_pow:") {
		// find the shape with this canonical form
		let all = shapes(4, &[1, 2, 3, 4]);
		let shape = all.iter().find(|s| canon(s, None) == c).ok_or("unknown instance")?;
		build_tree(&sc, shape)
	} else if let Some(c) = inst.strip_prefix("skip_pow+12:") {
		let all: Vec<Shape> = (0..16usize)
			.map(|code| {
				let d = |k: usize| if (code >> k) & 1 == 1 { 3 } else { 1 };
				Shape { parents: vec![None, None, Some(1), Some(2)], diffs: vec![d(0), d(1), d(2), d(3)] }
			})
			.collect();
		let shape = all.iter().find(|s| canon(s, None) == c).ok_or("unknown instance")?;
		let tree = build_tree_lifted(&sc, shape, 12);
		let mut evs: Vec<Value> = (1..=12).map(|i| json!(format!("B(p{})", i))).collect();
		evs.extend(case["events"].as_array().cloned().unwrap_or_default());
		return crate::chainx::replay_events(&tree, &json!({"events": evs}), Options::SKIP_POW, &sc);
	} else if let Some(c) = inst.strip_prefix("deep-fork:") {
		let mut it = c.split('-').filter_map(|x| x.parse::<u64>().ok());
		let (tree, _, _) = deep_tree(&sc, it.next().unwrap_or(1), it.next().unwrap_or(60));
		let mut evs: Vec<Value> = (1..=54).map(|i| json!(format!("B(p{})", i))).collect();
		evs.extend(case["events"].as_array().cloned().unwrap_or_default());
		return crate::chainx::replay_events(&tree, &json!({"events": evs}), Options::SKIP_POW, &sc);
	} else {
		return Ok(format!("instance {} is rebuilt by its engine part; re-run the part to reproduce", inst));
	};
	crate::chainx::replay_events(&tree, case, Options::SKIP_POW, &sc)
}
