//! C09 — A crash at any persistence step never bricks or corrupts the chain.
//! Fault enumeration: for every crash point (hook H1/H2) a scenario executes, a child process
//! runs the scenario and is killed (abort) at that point; a second child reopens the directory
//! and judges it.
use crate::chainx::{Ev, Live, TreeBuilder};
use crate::ev::{Report, Tier};
use crate::ledger::{cbytes, Tree};
use crate::par::mine;
use crate::uni::{self, BlockSpec, REWARD};
use crate::{Engine, Meta};
use grin_chain::types::Options;
use grin_core::core::hash::Hashed;
use grin_util::verif;
use serde_json::{json, Value};
use std::path::{Path, PathBuf};
use std::process::{Command, Stdio};

pub struct C09;

const BEST: &[&str] = &["head", "roots", "sizes", "utxo.", "outpos"];

struct Scenario {
	name: &'static str,
	universe: &'static str,
	prelude: Vec<&'static str>,
	op: Vec<&'static str>,
}

fn scenarios(tier: Tier) -> Vec<Scenario> {
	let mut v = vec![
		Scenario { name: "extend", universe: "forks", prelude: vec!["B(m1)", "B(m2)", "B(m3)", "B(m4)"], op: vec!["B(m5)"] },
		Scenario { name: "fork-block", universe: "forks", prelude: vec!["B(m1)", "B(m2)", "B(m3)", "B(m4)", "B(m5)"], op: vec!["B(f5)"] },
		Scenario { name: "reorg-spends", universe: "forks", prelude: vec!["B(m1)", "B(m2)", "B(m3)", "B(m4)", "B(m5)", "B(m6)", "B(f5)", "B(f6)"], op: vec!["B(f7)"] },
		Scenario { name: "header-reorg", universe: "forks", prelude: vec!["B(m1)", "B(m2)", "B(m3)", "B(m4)", "B(m5)", "B(m6)"], op: vec!["H(f5)", "H(f6)", "H(f7)"] },
		Scenario { name: "header-batch-reorg", universe: "forks", prelude: vec!["B(m1)", "B(m2)", "B(m3)", "B(m4)", "B(m5)", "B(m6)"], op: vec!["HS(..f7)"] },
		Scenario { name: "compact", universe: "long", prelude: vec!["*main"], op: vec!["compact"] },
		// the same plain steps where headers are version 5 (output root merged with the bitmap root):
		// a coinbase-only extension and one with a spend
		Scenario { name: "extend-plain-v5", universe: "long", prelude: vec!["*upto:x20"], op: vec!["B(x21)"] },
		Scenario { name: "extend-spend-v5", universe: "long", prelude: vec!["*upto:x11"], op: vec!["B(x12)"] },
		// and a fork block / a reorganisation with spends on both sides under version-5 headers
		// (x90 spends coinbase 4, y90 spends coinbase 80; y91 makes the fork heavier)
		// the block spends the very last node of the head's output MMR (a lone leaf peak)
		Scenario { name: "extend-spend-last-leaf-v5", universe: "lastleaf", prelude: vec!["B(p1)", "B(p2)", "B(p3)", "B(p4)", "B(p5)", "B(p6)", "B(p7)", "B(p8)", "B(p9)", "B(p10)", "B(p11)", "B(p12)", "B(n13)"], op: vec!["B(n14)"] },
		Scenario { name: "fork-block-v5", universe: "long", prelude: vec!["*upto:x90"], op: vec!["B(y90)"] },
		Scenario { name: "reorg-spends-v5", universe: "long", prelude: vec!["*upto:x90", "B(y90)"], op: vec!["B(y91)"] },
	];
	if tier == Tier::Thorough {
		v.push(Scenario { name: "compact-then-block", universe: "long", prelude: vec!["*main"], op: vec!["compact", "B(x91)"] });
		v.push(Scenario { name: "first-start", universe: "forks", prelude: vec![], op: vec!["init"] });
		v.push(Scenario { name: "reorg-after-compact", universe: "long", prelude: vec!["*main", "compact"], op: vec!["B(y90)", "B(y91)", "B(y92)"] });
		// a plain restart of a consistent node (whatever Chain::init writes must be crash-safe too)
		v.push(Scenario { name: "restart", universe: "forks", prelude: vec!["B(m1)", "B(m2)", "B(m3)", "B(m4)", "B(m5)", "B(m6)", "B(f5)", "B(f6)"], op: vec!["init"] });
		v.push(Scenario { name: "restart-compacted", universe: "long", prelude: vec!["*main", "compact"], op: vec!["init"] });
		// a child arrives before its parent (headers known: only then is it kept as an orphan): the
		// parent's acceptance cascades into the orphan
		v.push(Scenario { name: "orphan-cascade", universe: "forks", prelude: vec!["B(m1)", "B(m2)", "B(m3)", "B(m4)", "HS(..m6)"], op: vec!["B(m6)", "B(m5)"] });
		// headers of the heavier fork are known first, its bodies arrive afterwards
		v.push(Scenario { name: "body-sync-reorg", universe: "forks", prelude: vec!["B(m1)", "B(m2)", "B(m3)", "B(m4)", "B(m5)", "HS(..f7)"], op: vec!["B(f5)", "B(f6)"] });
	}
	v
}

pub fn universe(sc: &uni::Scratch, name: &str) -> Tree {
	match name {
		"forks" => {
			let mut tb = TreeBuilder::new(sc, 21, false);
			let kc = uni::keychain(21);
			let m = 1_000_000u64;
			let m1 = tb.add("m1", None, &BlockSpec::empty(1));
			let m2 = tb.add("m2", Some(m1), &BlockSpec::empty(2));
			let m3 = tb.add("m3", Some(m2), &BlockSpec::empty(3));
			let m4 = tb.add("m4", Some(m3), &BlockSpec::empty(4));
			let xv = REWARD - m;
			let m5 = tb.add("m5", Some(m4), &BlockSpec::with(5, vec![uni::spend_coinbase(&kc, 1, REWARD, &[(100, xv)], 1)]));
			let _m6 = tb.add("m6", Some(m5), &BlockSpec::with(6, vec![uni::spend_plain(&kc, &[(100, xv)], &[(101, xv - m)], None, 2)]));
			let f5 = tb.add("f5", Some(m4), &BlockSpec::with(55, vec![uni::spend_coinbase(&kc, 2, REWARD, &[(102, REWARD - 2 * m)], 3)]));
			let f6 = tb.add("f6", Some(f5), &BlockSpec::with(56, vec![uni::spend_coinbase(&kc, 1, REWARD, &[(103, REWARD - 3 * m)], 4)]));
			let _f7 = tb.add("f7", Some(f6), &BlockSpec::empty(57));
			tb.finish()
		}
		"long" | "long+w" => {
			// 90-block main chain (Chain::compact needs head >= tail + horizon + 60) with spends
			// of early coinbases both before and inside the horizon, then a short extension and a fork
			let mut tb = TreeBuilder::new(sc, 22, false);
			let kc = uni::keychain(22);
			let m = 1_000_000u64;
			let mut prev = None;
			for h in 1..=90u32 {
				let mut spec = BlockSpec::empty(h);
				// spend coinbases 1,2,3,5 early; 60 and 75 late (75 inside the horizon of 20)
				let spend: Option<u32> = match h {
					8 => Some(1),
					9 => Some(2),
					10 => Some(3),
					12 => Some(5),
					70 => Some(60),
					85 => Some(75),
					// the head at compaction time spends an old output whose MMR sibling (coinbase 5,
					// spent at 12) is already spent: after the compaction that data must survive a reorg
					90 => Some(4),
					_ => None,
				};
				if let Some(cb) = spend {
					spec.txs = vec![uni::spend_coinbase(&kc, cb, REWARD, &[(1000 + cb, REWARD - m)], 100 + cb as u64)];
				}
				if h == 71 && name == "long+w" {
					// long+w: the first block above the horizon of head x90 spends two sibling leaves from far below
					// (coinbases 6 and 7): a compaction whose horizon is one block too recent removes their data
					spec.txs = vec![uni::spend_coinbase(&kc, 6, REWARD, &[(1006, REWARD - m)], 106), uni::spend_coinbase(&kc, 7, REWARD, &[(1007, REWARD - m)], 107)];
				}
				let i = tb.add(&format!("x{}", h), prev, &spec);
				prev = Some(i);
			}
			let x90 = prev.unwrap();
			let _x91 = tb.add("x91", Some(x90), &BlockSpec::empty(91));
			// an alternative block 91 that spends two sibling leaves far below the horizon
			// (coinbases 6 and 7); the fork y90..y92 reorgs it out again (used by C17)
			if name != "long+w" {
				let _z91 = tb.add(
					"z91",
					Some(x90),
					&BlockSpec::with(291, vec![uni::spend_coinbase(&kc, 6, REWARD, &[(1006, REWARD - m)], 106), uni::spend_coinbase(&kc, 7, REWARD, &[(1007, REWARD - m)], 107)]),
				);
			}
			// fork from x89 inside the horizon: y90 y91 y92
			let x89 = tb.tree.blocks.iter().position(|b| b.name == "x89").unwrap();
			let y90 = tb.add("y90", Some(x89), &BlockSpec::with(190, vec![uni::spend_coinbase(&kc, 80, REWARD, &[(1080, REWARD - m)], 180)]));
			let y91 = tb.add("y91", Some(y90), &BlockSpec::empty(191));
			let _y92 = tb.add("y92", Some(y91), &BlockSpec::empty(192));
			if name == "long+w" {
				// a fork that starts exactly at the horizon of head x90 (its parent is x70, the block a
				// compaction at x90 keeps as the body tail) and overtakes the main chain at height 91;
				// w75 spends a coinbase from below the horizon that the main chain never spends
				let mut prev = tb.tree.blocks.iter().position(|b| b.name == "x70");
				for h in 71..=91u32 {
					let spec = if h == 75 { BlockSpec::with(300 + h, vec![uni::spend_coinbase(&kc, 20, REWARD, &[(1020, REWARD - m)], 120)]) } else { BlockSpec::empty(300 + h) };
					prev = Some(tb.add(&format!("w{}", h), prev, &spec));
				}
			}
			tb.finish()
		}
		"lastleaf" => {
			// version-5 headers (12 empty blocks first); block n13 creates a plain output X that is the LAST node
			// of its output MMR (it sorts after the block's coinbase and the leaf count, 15, is odd: a lone
			// peak, position == output_mmr_size); n14 spends X at once
			let mut tb = TreeBuilder::new(sc, 23, false);
			let kc = uni::keychain(23);
			let m = 1_000_000u64;
			let mut prev = None;
			for h in 1..=12u32 {
				prev = Some(tb.add(&format!("p{}", h), prev, &BlockSpec::empty(h)));
			}
			let cb13 = uni::coinbase(&kc, 13, m).0;
			let mut key = 2000u32;
			let tx13 = loop {
				let t = uni::spend_coinbase(&kc, 1, REWARD, &[(key, REWARD - m)], 300);
				if t.outputs()[0] > cb13 {
					break t;
				}
				key += 1;
				assert!(key < 2100, "no key sorts the plain output after the coinbase");
			};
			let n13 = tb.add("n13", prev, &BlockSpec::with(13, vec![tx13]));
			{
				let b = &tb.tree.blocks[n13].block;
				assert!(!b.outputs().last().unwrap().is_coinbase(), "the plain output must be the last of block n13");
				assert_eq!(b.header.output_mmr_size, 2 * 15 - 4, "15 leaves: 26 nodes, the last one a lone leaf");
			}
			let tx14 = uni::spend_plain(&kc, &[(key, REWARD - m)], &[(key + 500, REWARD - 2 * m)], None, 301);
			let _n14 = tb.add("n14", Some(n13), &BlockSpec::with(14, vec![tx14]));
			tb.finish()
		}
		_ => panic!("unknown universe"),
	}
}

pub fn parse_events(tree: &Tree, names: &[&str]) -> Vec<Ev> {
	let mut out = vec![];
	for s in names {
		if *s == "*main" {
			for (i, b) in tree.blocks.iter().enumerate() {
				if b.name.starts_with('x') && b.name != "x91" {
					out.push(Ev::B(i));
				}
			}
			continue;
		}
		if let Some(last) = s.strip_prefix("*upto:") {
			for (i, b) in tree.blocks.iter().enumerate() {
				if b.name.starts_with('x') {
					out.push(Ev::B(i));
				}
				if b.name == last {
					break;
				}
			}
			continue;
		}
		if *s == "compact" {
			out.push(Ev::Compact);
			continue;
		}
		if *s == "init" {
			continue;
		}
		let mut found = None;
		for i in 0..tree.blocks.len() {
			for c in [Ev::B(i), Ev::H(i), Ev::HS(i)] {
				if c.show(tree) == *s {
					found = Some(c);
				}
			}
		}
		out.push(found.unwrap_or_else(|| panic!("unknown event {}", s)));
	}
	out
}

fn no_core() {
	unsafe {
		let r = libc::rlimit { rlim_cur: 0, rlim_max: 0 };
		libc::setrlimit(libc::RLIMIT_CORE, &r);
	}
}

/// child: run the interrupted operation in `dir`, armed to die at crash point `n` (0 = count)
fn child_run(tree_file: &Path, dir: &Path, ops: &[String], n: u64) -> i32 {
	uni::init_thread();
	no_core();
	let tree = Tree::load(tree_file);
	let names: Vec<&str> = ops.iter().map(|s| s.as_str()).collect();
	let first_start = names.first() == Some(&"init");
	if first_start {
		if n == 0 {
			verif::crash_record(true);
		} else {
			verif::crash_arm(n);
		}
	}
	let mut live = Live::open(&tree, dir, Options::NONE);
	if !first_start {
		if n == 0 {
			verif::crash_record(true);
		} else {
			verif::crash_arm(n);
		}
	}
	let evs = parse_events(&tree, &names);
	let mut results = vec![];
	for e in &evs {
		let o = live.apply(e);
		results.push(json!({"ev": e.show(&tree), "ok": o.ok, "err": o.err}));
	}
	if n == 0 {
		println!("LABELS {}", serde_json::to_string(&json!({"labels": verif::crash_labels(), "results": results})).unwrap());
		return 0;
	}
	// armed but never reached: machinery error for the caller
	3
}

/// child: reopen the directory left by the victim, judge it, re-deliver, fingerprint
fn child_judge(tree_file: &Path, dir: &Path, ops: &[String]) -> i32 {
	uni::init_thread();
	no_core();
	let tree = Tree::load(tree_file);
	let names: Vec<&str> = ops.iter().map(|s| s.as_str()).collect();
	let mut j = serde_json::Map::new();
	let r = std::panic::catch_unwind(|| uni::open_chain_with(dir, &tree.gen, std::sync::Arc::new(grin_chain::types::NoopAdapter {})));
	let chain = match r {
		Err(_) => {
			j.insert("init".into(), json!("PANIC"));
			println!("JUDGE {}", serde_json::to_string(&Value::Object(j)).unwrap());
			return 0;
		}
		Ok(Err(e)) => {
			j.insert("init".into(), json!(format!("Err({:?})", e)));
			println!("JUDGE {}", serde_json::to_string(&Value::Object(j)).unwrap());
			return 0;
		}
		Ok(Ok(c)) => c,
	};
	j.insert("init".into(), json!("Ok"));
	// everything after a successful init runs under catch_unwind: a panic of the reopened
	// chain is a verdict, reported with the phase it happened in
	let phase_cell = std::cell::RefCell::new("head");
	let jcell = std::cell::RefCell::new(j);
	let res = std::panic::catch_unwind(std::panic::AssertUnwindSafe(|| {
	let mut j = jcell.borrow_mut();
	let head = chain.head().unwrap();
	let hidx = if head.last_block_h == tree.gen.hash() { Some(None) } else { tree.index_of(&head.last_block_h).map(Some) };
	j.insert("head_height".into(), json!(head.height));
	j.insert("head".into(), json!(match hidx { Some(None) => "genesis".to_string(), Some(Some(i)) => tree.blocks[i].name.clone(), None => "UNKNOWN".to_string() }));
	let hh = chain.header_head().unwrap();
	j.insert("header_head_height".into(), json!(hh.height));
	*phase_cell.borrow_mut() = "validate";
	j.insert("validate".into(), json!(match chain.validate(false) { Ok(_) => "Ok".to_string(), Err(e) => format!("Err({:?})", e) }));
	*phase_cell.borrow_mut() = "get_unspent";
	// unspent map vs reference replay to that head
	if let Some(h) = hidx {
		match tree.state_at(h) {
			Ok(st) => {
				let mut bad = vec![];
				for c in tree.all_commits() {
					let exp = st.utxo.get(&cbytes(&c));
					let got = chain.get_unspent(c);
					let ok = match (&got, exp) {
						(Ok(Some((_, cp))), Some(u)) => cp.pos == u.pos1 && cp.height == u.height,
						(Ok(None), None) => true,
						_ => false,
					};
					if !ok {
						bad.push(format!("{}: got {:?} expected {:?}", &crate::ev::hex(&c.0)[..12], got.as_ref().map(|o| o.as_ref().map(|(_, cp)| (cp.pos, cp.height))), exp.map(|u| (u.pos1, u.height))));
					}
				}
				j.insert("utxo_mismatches".into(), json!(bad));
			}
			Err(e) => {
				j.insert("utxo_mismatches".into(), json!([format!("head path invalid in reference: {:?}", e)]));
			}
		}
	}
	drop(j);
	drop(chain);
	// re-deliver the interrupted input
	*phase_cell.borrow_mut() = "reopen-for-redelivery";
	let mut live = Live::open(&tree, dir, Options::NONE);
	*phase_cell.borrow_mut() = "redelivery";
	let mut j = jcell.borrow_mut();
	let evs = parse_events(&tree, &names);
	let mut redeliver = vec![];
	for e in &evs {
		let o = live.apply(e);
		redeliver.push(json!({"ev": e.show(&tree), "ok": o.ok, "err": o.err}));
	}
	j.insert("redeliver".into(), json!(redeliver));
	let f = live.fp().only(BEST);
	j.insert("fp".into(), json!(f.digest()));
	j.insert("fp_lines".into(), json!(f.lines));
	j.insert("validate_after".into(), json!(match live.chain().validate(false) { Ok(_) => "Ok".to_string(), Err(e) => format!("Err({:?})", e) }));
	}));
	let mut j = match jcell.try_borrow_mut() {
		Ok(g) => g.clone(),
		Err(_) => serde_json::Map::new(),
	};
	if res.is_err() {
		j.insert("init".into(), json!("Ok"));
		j.insert("panic".into(), json!(*phase_cell.borrow()));
	}
	println!("JUDGE {}", serde_json::to_string(&Value::Object(j)).unwrap());
	0
}

fn spawn_child(mode: &str, tree_file: &Path, dir: &Path, ops: &[&str], n: u64) -> (String, Option<i32>, Option<i32>) {
	use std::os::unix::process::ExitStatusExt;
	let exe = std::env::current_exe().unwrap();
	let out = Command::new(exe)
		.arg("C09")
		.arg("--child")
		.arg(mode)
		.arg(tree_file)
		.arg(dir)
		.arg(n.to_string())
		.args(ops)
		.stdin(Stdio::null())
		.stderr(Stdio::null())
		.output()
		.expect("spawn child");
	(String::from_utf8_lossy(&out.stdout).to_string(), out.status.code(), out.status.signal())
}

/// Coarse crash window of a crash-point label (call-site class), used in violation keys so that
/// a known finding names (scenario, window, failure kind) rather than one of dozens of
/// adjacent labels with the same root cause.
pub fn phase(label: &str) -> String {
	let parts: Vec<&str> = label.split(':').collect();
	let backend = |p: &str| -> String {
		// "output/pmmr_hash.bin" -> output ; "txhashset/output" -> output
		let comps: Vec<&str> = p.split('/').collect();
		let dir = if comps.len() >= 2 && (comps[1].starts_with("pmmr_")) { comps[0] } else { comps.last().cloned().unwrap_or("") };
		dir.to_string()
	};
	match parts[0] {
		"lmdb.commit" => format!("db-commit:{}", parts.get(1).unwrap_or(&"")),
		"lmdb.child-commit" => "child-commit".to_string(),
		"extending" | "header_extending" => format!("{}:between-syncs", parts[0]),
		"aof.flush" | "tmpfile" => format!("file-sync:{}", backend(parts.last().unwrap_or(&""))),
		"aof.replace" => format!("file-replace:{}:{}", parts.get(1).unwrap_or(&""), backend(parts.last().unwrap_or(&""))),
		"compact" => format!("compact-step:{}", backend(parts.last().unwrap_or(&""))),
		_ => parts[0].to_string(),
	}
}

fn line_json(out: &str, tag: &str) -> Option<Value> {
	out.lines().find_map(|l| l.strip_prefix(tag).and_then(|j| serde_json::from_str(j.trim()).ok()))
}

/// Judges what the reopening process reported: (class, violation text if any).  One verdict per
/// case: the most severe failed clause (init > panic > head > validate > utxo > redelivery).
fn classify(jv: Option<&Value>, twin: &Value, twin_fp: &str, allowed: &[String], op: &[&str], exit: (Option<i32>, Option<i32>)) -> (&'static str, Option<String>) {
	let jv = match jv {
		Some(v) => v,
		// the judge itself died: the reopened chain aborts or hangs the process
		None => return ("reopen-kills-process", Some(format!("reopening killed the judging process (code {:?} signal {:?})", exit.0, exit.1))),
	};
	let init = jv["init"].as_str().unwrap_or("");
	if init != "Ok" {
		return ("init-failed", Some(format!("Chain::init = {}", init)));
	}
	let head = jv["head"].as_str().unwrap_or("").to_string();
	if jv.get("panic").is_some() {
		return ("panic-after-reopen", Some(format!("the reopened chain panicked in {}", jv["panic"])));
	}
	if !allowed.contains(&head) {
		return ("head-not-allowed", Some(format!("head after restart is {} (allowed: old head, new head or an ancestor)", head)));
	}
	if jv["validate"].as_str() != Some("Ok") {
		return (
			"validate-failed",
			Some(format!("validate(false) after restart = {} (head {}); utxo mismatches {}; redelivery {}", jv["validate"], head, jv["utxo_mismatches"].as_array().map(|a| a.len()).unwrap_or(0), jv["redeliver"])),
		);
	}
	if jv["utxo_mismatches"].as_array().map(|a| !a.is_empty()).unwrap_or(false) {
		return ("utxo-differs", Some(format!("unspent set after restart differs from the replay of the chain to head {}: {}", head, jv["utxo_mismatches"][0])));
	}
	if jv["fp"].as_str() != Some(twin_fp) {
		let a = jv["fp_lines"].as_object().cloned().unwrap_or_default();
		let b = twin["fp_lines"].as_object().cloned().unwrap_or_default();
		let cut = |v: &Value| -> String {
			let t = v.to_string();
			t[..t.len().min(60)].to_string()
		};
		let diff: Vec<String> = a.iter().filter(|(k, v)| b.get(*k) != Some(v)).map(|(k, v)| format!("{}: {} != {}", k, cut(v), cut(&b.get(k).cloned().unwrap_or(Value::Null)))).take(3).collect();
		return ("redelivery-differs", Some(format!("after restart (head {}) and re-delivery of {:?} the state differs from an uninterrupted node: {:?}; redelivery results {}", head, op, diff, jv["redeliver"])));
	}
	if jv["validate_after"].as_str() != Some("Ok") {
		return ("validate-after-redelivery-failed", Some(format!("validate(false) after re-delivery = {}", jv["validate_after"])));
	}
	("ok", None)
}

fn run(tier: Tier, shard: usize, n: usize) -> Report {
	uni::init_thread();
	let mut rep = Report::new();
	rep.violation_cap = 5000;
	let sc = uni::Scratch::new("c09");
	let mut built: std::collections::HashMap<&'static str, (Tree, PathBuf)> = Default::default();
	let scs = scenarios(tier);
	// long universe is expensive: only the shards that need it build it (all do, in parallel)
	for s in &scs {
		if !built.contains_key(s.universe) {
			let t = universe(&sc, s.universe);
			let f = sc.fresh("tree").with_extension("json");
			t.save(&f);
			built.insert(s.universe, (t, f));
		}
		let (tree, tree_file) = built.get(s.universe).unwrap();
		// base directory: state just before the interrupted operation
		let base = sc.fresh("base");
		if !(s.op.first() == Some(&"init") && s.prelude.is_empty()) {
			let mut live = Live::open(tree, &base, Options::NONE);
			for e in parse_events(tree, &s.prelude) {
				let o = live.apply(&e);
				assert!(o.ok, "prelude {} failed: {}", e.show(tree), o.err);
			}
		} else {
			std::fs::create_dir_all(&base).unwrap();
		}
		// heads allowed after a crash: ancestors-or-self of the old head and of the new head
		let old_head: Option<Option<usize>> = if s.op.first() == Some(&"init") && s.prelude.is_empty() {
			Some(None)
		} else {
			let live = Live::open(tree, &base, Options::NONE);
			let h = live.chain().head().unwrap();
			if h.last_block_h == tree.gen.hash() { Some(None) } else { tree.index_of(&h.last_block_h).map(Some) }
		};
		// count run (child) and uninterrupted twin (child judge on a completed copy)
		let cdir = sc.fresh("count");
		uni::copy_dir(&base, &cdir);
		let (o, code, sig) = spawn_child("run", tree_file, &cdir, &s.op, 0);
		let lj = match line_json(&o, "LABELS ") {
			Some(v) => v,
			None => {
				eprintln!("MACHINERY: count run of {} failed code {:?} sig {:?}", s.name, code, sig);
				std::process::exit(2);
			}
		};
		let labels: Vec<String> = lj["labels"].as_array().unwrap().iter().map(|x| x.as_str().unwrap().to_string()).collect();
		// twin: judge the completed directory (re-delivery on it must be a no-op in effect)
		let (tj, _, _) = spawn_child("judge", tree_file, &cdir, &s.op, 0);
		let twin = line_json(&tj, "JUDGE ").expect("twin judge");
		let twin_fp = twin["fp"].as_str().unwrap_or("").to_string();
		let new_head_name = twin["head"].as_str().unwrap_or("").to_string();
		let new_head: Option<usize> = tree.blocks.iter().position(|b| b.name == new_head_name);
		let mut allowed: Vec<String> = vec!["genesis".to_string()];
		if let Some(Some(i)) = old_head {
			for k in tree.path(i) {
				allowed.push(tree.blocks[k].name.clone());
			}
		}
		if let Some(i) = new_head {
			for k in tree.path(i) {
				allowed.push(tree.blocks[k].name.clone());
			}
		}
		let _ = std::fs::remove_dir_all(&cdir);
		if shard == 0 {
			rep.extra.insert(format!("crash_points_{}", s.name), json!(labels.len()));
			rep.sample(json!({"scenario": s.name, "op": s.op, "crash_points": labels.len(), "first_labels": labels.iter().take(6).collect::<Vec<_>>(), "twin_head": new_head_name}));
		}
		// k-th occurrence of a label within the operation: label#k identifies the call site
		let mut occ: std::collections::HashMap<String, usize> = Default::default();
		let labels: Vec<String> = labels
			.iter()
			.map(|l| {
				let c = occ.entry(l.clone()).or_insert(0);
				*c += 1;
				format!("{}#{}", l, c)
			})
			.collect();
		for (k, label) in labels.iter().enumerate() {
			let nn = (k + 1) as u64;
			if !mine(nn, shard, n) {
				continue;
			}
			let d = sc.fresh("victim");
			uni::copy_dir(&base, &d);
			let (_, code, sig) = spawn_child("run", tree_file, &d, &s.op, nn);
			if sig != Some(libc::SIGABRT) {
				eprintln!("MACHINERY: victim of {}#{} ({}) did not die by SIGABRT: code {:?} sig {:?}", s.name, nn, label, code, sig);
				std::process::exit(2);
			}
			// (thorough) keep the directory as the kill left it: the second-crash exploration starts from it
			let d0 = if tier == Tier::Thorough && s.op.first() != Some(&"init") {
				let d0 = sc.fresh("victim0");
				uni::copy_dir(&d, &d0);
				Some(d0)
			} else {
				None
			};
			let (jo, jcode, jsig) = spawn_child("judge", tree_file, &d, &s.op, 0);
			rep.evaluations += 1;
			rep.distinct += 1;
			let case = json!({"scenario": s.name, "crash_at": nn, "label": label, "op": s.op});
			let (class, msg) = classify(line_json(&jo, "JUDGE ").as_ref(), &twin, &twin_fp, &allowed, &s.op, (jcode, jsig));
			if let Some(m) = msg {
				rep.violation(format!("{}|{}|{}", s.name, label, class), format!("killed at #{} {}: {}", nn, label, m), case);
			}
			rep.outcome(&format!("{}|{}|{}", s.name, phase(label), class));
			// second crash: the restart after the kill is itself killed at every crash point it executes
			if let Some(d0) = d0 {
				if class == "ok" {
					let c1 = sc.fresh("count2");
					uni::copy_dir(&d0, &c1);
					let init_op = ["init"];
					let (o2, code2, sig2) = spawn_child("run", tree_file, &c1, &init_op, 0);
					let l2: Vec<String> = match line_json(&o2, "LABELS ") {
						Some(v) => v["labels"].as_array().unwrap().iter().map(|x| x.as_str().unwrap().to_string()).collect(),
						None => {
							eprintln!("MACHINERY: restart count run after {}#{} failed code {:?} sig {:?}", s.name, nn, code2, sig2);
							std::process::exit(2);
						}
					};
					let _ = std::fs::remove_dir_all(&c1);
					let mut occ2: std::collections::HashMap<String, usize> = Default::default();
					for (k2, l) in l2.iter().enumerate() {
						let c = occ2.entry(l.clone()).or_insert(0);
						*c += 1;
						let label2 = format!("{}#{}", l, c);
						let d2 = sc.fresh("victim2");
						uni::copy_dir(&d0, &d2);
						let (_, code3, sig3) = spawn_child("run", tree_file, &d2, &init_op, (k2 + 1) as u64);
						if sig3 != Some(libc::SIGABRT) {
							eprintln!("MACHINERY: second victim of {}#{}>>{} did not die by SIGABRT: code {:?} sig {:?}", s.name, nn, label2, code3, sig3);
							std::process::exit(2);
						}
						let (jo2, jc2, js2) = spawn_child("judge", tree_file, &d2, &s.op, 0);
						rep.evaluations += 1;
						rep.distinct += 1;
						let case2 = json!({"scenario": s.name, "crash_at": nn, "label": label, "op": s.op, "second_crash_at": k2 + 1, "second_label": label2});
						let (class2, msg2) = classify(line_json(&jo2, "JUDGE ").as_ref(), &twin, &twin_fp, &allowed, &s.op, (jc2, js2));
						if let Some(m) = msg2 {
							rep.violation(format!("{}|{}>>{}|{}", s.name, label, label2, class2), format!("killed at #{} {}, restarted and killed again at #{} {}: {}", nn, label, k2 + 1, label2, m), case2);
						}
						rep.outcome(&format!("{}|{}>>restart:{}|{}", s.name, phase(label), phase(&label2), class2));
						let _ = std::fs::remove_dir_all(&d2);
					}
					*rep.extra.entry("second_crash_points".to_string()).or_insert(json!(0)) = json!(rep.extra.get("second_crash_points").and_then(|v| v.as_u64()).unwrap_or(0) + l2.len() as u64);
				}
				let _ = std::fs::remove_dir_all(&d0);
			}
			let _ = std::fs::remove_dir_all(&d);
		}
		let _ = std::fs::remove_dir_all(&base);
	}
	rep
}

impl Engine for C09 {
	fn id(&self) -> &'static str {
		"C09"
	}
	fn meta(&self, _tier: Tier) -> Meta {
		Meta {
			level: "fault_enumeration",
			rule: "for each scenario (plain extension, fork block, reorg with spends, header-by-header reorg, header-batch reorg, compaction, and under version-5 headers a coinbase-only extension, a spending extension, a fork block and a reorganisation with spends; thorough adds compaction+block, first start, reorg after compaction, restart of a consistent node (plain / compacted), orphan cascade, bodies of a fork whose headers are already known, and for every crash point that recovers a SECOND kill at every crash point of the restart) a counting run records every crash point (hook calls at every file flush step, temp-file rename, file replace, LMDB commit, and between the backend syncs of an extension) the interrupted operation executes; then for EVERY crash point n a child process is killed (abort, no destructors) at it and a second process reopens the directory: Chain::init must be Ok, the head an allowed block, validate(false) Ok, the unspent set equal to the reference replay, and after re-delivering the interrupted input the best-chain fingerprint must equal that of an uninterrupted twin. One case = one (scenario, crash point); all distinct.",
			assumptions: vec![
				"kill = process death (page cache survives); power-loss reordering of unsynced pages is outside the property".into(),
				"crash points are the hook call sites listed in MANIFEST.hooks / DESIGN §3 (every durable step of store/src/{types,lib,pmmr,lmdb}.rs and the sync sequence of txhashset extending/header_extending)".into(),
			],
			exhaustive: true,
		}
	}
	fn parts(&self, _tier: Tier) -> Vec<(&'static str, usize)> {
		vec![("crash", 16)]
	}
	fn run_part(&self, _part: &str, tier: Tier, shard: usize, n: usize) -> Report {
		run(tier, shard, n)
	}
	fn child(&self, args: &[String]) -> i32 {
		// <mode> <tree_file> <dir> <n> <ops...>
		let mode = &args[0];
		let tree_file = PathBuf::from(&args[1]);
		let dir = PathBuf::from(&args[2]);
		let n: u64 = args[3].parse().unwrap();
		let ops: Vec<String> = args[4..].to_vec();
		match mode.as_str() {
			"run" => child_run(&tree_file, &dir, &ops, n),
			"judge" => child_judge(&tree_file, &dir, &ops),
			_ => 2,
		}
	}
	fn replay(&self, case: &Value) -> Result<String, String> {
		uni::init_thread();
		let sname = case["scenario"].as_str().ok_or("no scenario")?;
		let nn = case["crash_at"].as_u64().ok_or("no crash_at")?;
		let scs = scenarios(Tier::Thorough);
		let s = scs.iter().find(|s| s.name == sname).ok_or("unknown scenario")?;
		let sc = uni::Scratch::new("c09r");
		let tree = universe(&sc, s.universe);
		let tf = sc.fresh("tree").with_extension("json");
		tree.save(&tf);
		let base = sc.fresh("base");
		if !(s.op.first() == Some(&"init") && s.prelude.is_empty()) {
			let mut live = Live::open(&tree, &base, Options::NONE);
			for e in parse_events(&tree, &s.prelude) {
				live.apply(&e);
			}
		} else {
			std::fs::create_dir_all(&base).unwrap();
		}
		if std::env::var("GV_DEBUG").is_ok() {
			let c = sc.fresh("dbgcount");
			uni::copy_dir(&base, &c);
			let (o, _, _) = spawn_child("run", &tf, &c, &s.op, 0);
			eprintln!("{}", o);
		}
		let (_, _, mut sig) = spawn_child("run", &tf, &base, &s.op, nn);
		if let Some(n2) = case["second_crash_at"].as_u64() {
			let (_, _, sig2) = spawn_child("run", &tf, &base, &["init"], n2);
			if sig2 != Some(libc::SIGABRT) {
				return Err(format!("second victim did not die at crash point {}: signal {:?}", n2, sig2));
			}
			sig = sig2;
		}
		let (jo, _, _) = spawn_child("judge", &tf, &base, &s.op, 0);
		if std::env::var("GV_DEBUG").is_ok() {
			eprintln!("{}", jo);
		}
		let jv = line_json(&jo, "JUDGE ").unwrap_or(json!({"judge": "died"}));
		let summary = format!("victim signal {:?}; panic={} init={} head={} validate={} utxo_mismatches={} redeliver={} validate_after={}", sig, jv["panic"], jv["init"], jv["head"], jv["validate"], jv["utxo_mismatches"].as_array().map(|a| a.len()).unwrap_or(0), jv["redeliver"], jv["validate_after"]);
		if jv["init"] != "Ok" || jv.get("panic").is_some() || jv["validate"] != "Ok" || jv["utxo_mismatches"].as_array().map(|a| !a.is_empty()).unwrap_or(true) {
			Err(summary)
		} else {
			Ok(summary)
		}
	}
}
