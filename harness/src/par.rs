//! Shard an engine part over worker *processes* (the secp context is one global mutex, and
//! a worker that aborts must not take the explorer down).
use crate::ev::{Report, Tier};
use serde_json::Value;
use std::io::{BufRead, BufReader};
use std::process::{Command, Stdio};

pub struct ShardResult {
	pub report: Option<Report>,
	pub status: String,
	pub ok: bool,
	pub stderr_tail: String,
}

pub fn spawn_shards(prop: &str, part: &str, tier: Tier, n: usize) -> Vec<ShardResult> {
	let exe = std::env::current_exe().expect("current_exe");
	let mut children = vec![];
	for i in 0..n {
		let c = Command::new(&exe)
			.arg(prop)
			.arg(tier.name())
			.arg("--part")
			.arg(part)
			.arg("--shard")
			.arg(i.to_string())
			.arg(n.to_string())
			.stdin(Stdio::null())
			.stdout(Stdio::piped())
			.stderr(Stdio::piped())
			.spawn()
			.expect("spawn shard");
		children.push(c);
	}
	let mut out = vec![];
	// read all children concurrently (pipes could fill otherwise)
	let handles: Vec<_> = children
		.into_iter()
		.map(|mut c| {
			std::thread::spawn(move || {
				let so = c.stdout.take().unwrap();
				let se = c.stderr.take().unwrap();
				let eh = std::thread::spawn(move || {
					let mut tail: Vec<String> = vec![];
					for l in BufReader::new(se).lines().flatten() {
						tail.push(l);
						if tail.len() > 30 {
							tail.remove(0);
						}
					}
					tail.join("\n")
				});
				let mut report = None;
				for l in BufReader::new(so).lines().flatten() {
					if let Some(j) = l.strip_prefix("REPORT ") {
						if let Ok(v) = serde_json::from_str::<Value>(j) {
							report = Some(Report::from_json(&v));
						}
					}
				}
				let st = c.wait().expect("wait");
				let stderr_tail = eh.join().unwrap_or_default();
				ShardResult {
					report,
					ok: st.success(),
					status: format!("{:?}", st),
					stderr_tail,
				}
			})
		})
		.collect();
	for h in handles {
		out.push(h.join().expect("join reader"));
	}
	out
}

/// Run a part over n shards and merge; any shard that fails is a machinery error (exit 2).
pub fn run_sharded(prop: &str, part: &str, tier: Tier, n: usize) -> Report {
	let mut total = Report::new();
	for (i, r) in spawn_shards(prop, part, tier, n).into_iter().enumerate() {
		match (r.ok, r.report) {
			(true, Some(rep)) => total.merge(rep),
			(_, _) => {
				eprintln!(
					"MACHINERY: shard {}/{} of {}:{} failed ({})\n{}",
					i, n, prop, part, r.status, r.stderr_tail
				);
				std::process::exit(2);
			}
		}
	}
	total
}

/// The slice of 0..total that shard i of n owns (strided so that load is even).
pub fn mine(idx: u64, shard: usize, n: usize) -> bool {
	(idx % n as u64) as usize == shard
}

pub fn emit(r: &Report) {
	println!("REPORT {}", serde_json::to_string(&r.to_json()).unwrap());
}
