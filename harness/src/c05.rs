//! C05 — PoW verification accepts exactly the simple cycles of the header-seeded graph.
//!
//! Reference model (written from the Cuckoo-family graph definitions, not from the verifiers):
//! own siphash-2-4 (round function checked against the official SipHash-2-4 vector), own
//! siphash-block chaining, explicit edge -> (end, end) tables, "exactly one simple cycle" decided
//! by degree-2 + joinability + connectivity, and an independent DFS cycle enumerator that must
//! agree with the decision procedure on every exhaustively enumerated tuple.
use crate::ev::{hex, unhex, Report, Tier};
use crate::par::mine;
use crate::uni;
use crate::{Engine, Meta};
use blake2_rfc::blake2b::blake2b;
use grin_core::core::hash::Hashed;
use grin_core::core::BlockHeader;
use grin_core::global::{self, ChainTypes};
use grin_core::pow::{self, Difficulty, PoWContext, Proof, ProofOfWork};
use grin_core::ser::{self, DeserializationMode, ProtocolVersion};
use serde_json::{json, Value};
use std::collections::{BTreeMap, HashSet};

pub struct C05;

// ---------------------------------------------------------------------------------------------
// variants
// ---------------------------------------------------------------------------------------------

#[derive(Clone, Copy, PartialEq, Eq, Debug, Hash, PartialOrd, Ord)]
enum Var {
	Toot,
	Roo,
	Rood,
	Room,
	Rooz,
}
const VARS: [Var; 5] = [Var::Toot, Var::Roo, Var::Rood, Var::Room, Var::Rooz];

impl Var {
	fn name(self) -> &'static str {
		match self {
			Var::Toot => "cuckatoo",
			Var::Roo => "cuckaroo",
			Var::Rood => "cuckarood",
			Var::Room => "cuckaroom",
			Var::Rooz => "cuckarooz",
		}
	}
	fn from_name(s: &str) -> Option<Var> {
		VARS.iter().cloned().find(|v| v.name() == s)
	}
	/// the real verifier for this graph definition
	fn real_ctx(self, eb: u8, proof_size: usize) -> Box<dyn PoWContext> {
		match self {
			Var::Toot => pow::new_cuckatoo_ctx(eb, proof_size, 10),
			Var::Roo => pow::new_cuckaroo_ctx(eb, proof_size),
			Var::Rood => pow::new_cuckarood_ctx(eb, proof_size),
			Var::Room => pow::new_cuckaroom_ctx(eb, proof_size),
			Var::Rooz => pow::new_cuckarooz_ctx(eb, proof_size),
		}
		.expect("pow context")
	}
	/// two ends meeting in a vertex can be chained only if their flags differ
	fn need_diff(self) -> bool {
		match self {
			Var::Toot | Var::Rood | Var::Room => true,
			Var::Roo | Var::Rooz => false,
		}
	}
	/// total number of (loose) vertices of the graph
	fn nvtx(self, eb: u8) -> u64 {
		match self {
			Var::Toot => 1u64 << eb,       // 2 sides x 2^(eb-1) node pairs
			Var::Roo => 2u64 << eb,        // 2 sides x 2^eb nodes
			Var::Rood => 1u64 << eb,       // 2 sides x 2^(eb-1) nodes
			Var::Room => 1u64 << eb,       // one set of 2^eb nodes
			Var::Rooz => 2u64 << eb,       // one set of 2^(eb+1) nodes
		}
	}
}

// ---------------------------------------------------------------------------------------------
// reference siphash
// ---------------------------------------------------------------------------------------------

#[derive(Clone, Copy)]
struct Sip {
	v0: u64,
	v1: u64,
	v2: u64,
	v3: u64,
}

impl Sip {
	/// SipRound as printed in the SipHash paper, with the third rotation constant a parameter
	/// (21 in the standard; Cuckarood uses 25)
	#[inline(always)]
	fn round(&mut self, rot: u32) {
		self.v0 = self.v0.wrapping_add(self.v1);
		self.v1 = self.v1.rotate_left(13);
		self.v1 ^= self.v0;
		self.v0 = self.v0.rotate_left(32);
		self.v2 = self.v2.wrapping_add(self.v3);
		self.v3 = self.v3.rotate_left(16);
		self.v3 ^= self.v2;
		self.v0 = self.v0.wrapping_add(self.v3);
		self.v3 = self.v3.rotate_left(rot);
		self.v3 ^= self.v0;
		self.v2 = self.v2.wrapping_add(self.v1);
		self.v1 = self.v1.rotate_left(17);
		self.v1 ^= self.v2;
		self.v2 = self.v2.rotate_left(32);
	}
	/// absorb one 64-bit word and finalise (2 compression + 4 finalisation rounds)
	#[inline(always)]
	fn hash24(&mut self, word: u64, rot: u32) {
		self.v3 ^= word;
		self.round(rot);
		self.round(rot);
		self.v0 ^= word;
		self.v2 ^= 0xff;
		for _ in 0..4 {
			self.round(rot);
		}
	}
	#[inline(always)]
	fn lanes(&self) -> u64 {
		self.v0 ^ self.v1 ^ self.v2 ^ self.v3
	}
}

/// the official SipHash-2-4 (for the self test of the round function only)
fn std_siphash24(k0: u64, k1: u64, msg: &[u8]) -> u64 {
	let mut s = Sip {
		v0: k0 ^ 0x736f6d6570736575,
		v1: k1 ^ 0x646f72616e646f6d,
		v2: k0 ^ 0x6c7967656e657261,
		v3: k1 ^ 0x7465646279746573,
	};
	let mut chunks = msg.chunks_exact(8);
	for c in &mut chunks {
		let mut b = [0u8; 8];
		b.copy_from_slice(c);
		let m = u64::from_le_bytes(b);
		s.v3 ^= m;
		s.round(21);
		s.round(21);
		s.v0 ^= m;
	}
	let rem = chunks.remainder();
	let mut b = [0u8; 8];
	b[..rem.len()].copy_from_slice(rem);
	b[7] = msg.len() as u8;
	let m = u64::from_le_bytes(b);
	s.v3 ^= m;
	s.round(21);
	s.round(21);
	s.v0 ^= m;
	s.v2 ^= 0xff;
	for _ in 0..4 {
		s.round(21);
	}
	s.lanes()
}

fn selftest_reference() {
	let key: Vec<u8> = (0u8..16).collect();
	let mut k = [0u8; 8];
	k.copy_from_slice(&key[..8]);
	let k0 = u64::from_le_bytes(k);
	k.copy_from_slice(&key[8..]);
	let k1 = u64::from_le_bytes(k);
	let msg: Vec<u8> = (0u8..15).collect();
	assert_eq!(std_siphash24(k0, k1, &msg), 0xa129ca6149be45e5, "reference SipRound is wrong");
	assert_eq!(std_siphash24(k0, k1, &[]), 0x726fdb47dd0e0e31, "reference SipRound is wrong");
}

/// the four siphash state words: blake2b-256 of the header (with the last four bytes replaced
/// by the little-endian nonce when one is given), read as little-endian u64s
fn ref_keys(header: &[u8], nonce: Option<u32>) -> [u64; 4] {
	let mut h = header.to_vec();
	if let Some(n) = nonce {
		let l = h.len();
		h.truncate(l - 4);
		h.extend_from_slice(&n.to_le_bytes());
	}
	let d = blake2b(32, &[], &h);
	let b = d.as_bytes();
	let mut out = [0u64; 4];
	for i in 0..4 {
		let mut w = [0u8; 8];
		w.copy_from_slice(&b[8 * i..8 * i + 8]);
		out[i] = u64::from_le_bytes(w);
	}
	out
}

fn sip24(keys: &[u64; 4], word: u64) -> u64 {
	let mut s = Sip { v0: keys[0], v1: keys[1], v2: keys[2], v3: keys[3] };
	s.hash24(word, 21);
	s.lanes()
}

/// the 64 edge words of the block that starts at `start` (a multiple of 64): the state is carried
/// from one nonce to the next; word i is xored with the last word (Cuckaroo, Cuckarood) or with
/// all later words (Cuckaroom, Cuckarooz)
fn sip_block(keys: &[u64; 4], start: u64, rot: u32, xor_all: bool) -> [u64; 64] {
	let mut s = Sip { v0: keys[0], v1: keys[1], v2: keys[2], v3: keys[3] };
	let mut buf = [0u64; 64];
	for i in 0..64 {
		s.hash24(start + i as u64, rot);
		buf[i] = s.lanes();
	}
	if xor_all {
		for i in (0..63).rev() {
			buf[i] ^= buf[i + 1];
		}
	} else {
		let last = buf[63];
		for i in 0..63 {
			buf[i] ^= last;
		}
	}
	buf
}

// ---------------------------------------------------------------------------------------------
// reference graphs
// ---------------------------------------------------------------------------------------------

/// one end of an edge: the (loose) vertex it touches and the flag that decides whether two ends in
/// the same vertex may be chained (Cuckatoo: node parity; directed variants: head/tail)
#[derive(Clone, Copy, PartialEq, Eq, Debug, Default)]
struct End {
	vtx: u64,
	flag: u8,
}

fn ends_from_word(var: Var, eb: u8, nonce: u64, w0: u64, w1: u64) -> [End; 2] {
	match var {
		Var::Toot => {
			// w0 = siphash(2e), w1 = siphash(2e+1); node x and its partner x^1 form one vertex
			let m = (1u64 << eb) - 1;
			let (u, v) = (w0 & m, w1 & m);
			let half = 1u64 << (eb - 1);
			[End { vtx: u >> 1, flag: (u & 1) as u8 }, End { vtx: half + (v >> 1), flag: (v & 1) as u8 }]
		}
		Var::Roo => {
			let m = (1u64 << eb) - 1;
			let (u, v) = (w0 & m, (w0 >> 32) & m);
			[End { vtx: u, flag: 0 }, End { vtx: (1u64 << eb) + v, flag: 0 }]
		}
		Var::Rood => {
			// half as many nodes per side; even nonces run U -> V, odd nonces V -> U
			let nb = eb - 1;
			let m = (1u64 << nb) - 1;
			let (u, v) = (w0 & m, (w0 >> 32) & m);
			let odd = (nonce & 1) as u8;
			// flag = 1 where the edge arrives (its head)
			[End { vtx: u, flag: odd }, End { vtx: (1u64 << nb) + v, flag: 1 - odd }]
		}
		Var::Room => {
			// one node set, edge runs from u (tail) to v (head)
			let m = (1u64 << eb) - 1;
			let (u, v) = (w0 & m, (w0 >> 32) & m);
			[End { vtx: u, flag: 0 }, End { vtx: v, flag: 1 }]
		}
		Var::Rooz => {
			// one node set of twice the size, undirected
			let m = (2u64 << eb) - 1;
			let (u, v) = (w0 & m, (w0 >> 32) & m);
			[End { vtx: u, flag: 0 }, End { vtx: v, flag: 0 }]
		}
	}
}

fn block_params(var: Var) -> (u32, bool) {
	match var {
		Var::Roo => (21, false),
		Var::Rood => (25, false),
		Var::Room | Var::Rooz => (21, true),
		Var::Toot => (21, false),
	}
}

/// ends of a single edge (any edge_bits up to 63)
fn edge_ends(var: Var, eb: u8, keys: &[u64; 4], nonce: u64) -> [End; 2] {
	if var == Var::Toot {
		ends_from_word(var, eb, nonce, sip24(keys, 2 * nonce), sip24(keys, 2 * nonce + 1))
	} else {
		let (rot, all) = block_params(var);
		let b = sip_block(keys, nonce & !63, rot, all);
		ends_from_word(var, eb, nonce, b[(nonce & 63) as usize], 0)
	}
}

/// the whole graph, explicitly
struct Graph {
	var: Var,
	eb: u8,
	keys: [u64; 4],
	ends: Vec<[End; 2]>,
	// CSR adjacency: vertex -> end ids (2 * edge + end)
	adj_start: Vec<u32>,
	adj: Vec<u32>,
}

impl Graph {
	fn build(var: Var, eb: u8, keys: [u64; 4]) -> Graph {
		Graph::build_ext(var, eb, keys, 0)
	}
	/// the graph continued `ext` bits beyond its edge range (nodes still masked for `eb`): what a
	/// verifier that forgot the range check would be looking at
	fn build_ext(var: Var, eb: u8, keys: [u64; 4], ext: u8) -> Graph {
		assert!(eb >= 2 && eb + ext <= 20);
		let n = 1u64 << (eb + ext);
		let mut ends = Vec::with_capacity(n as usize);
		if var == Var::Toot {
			for e in 0..n {
				ends.push(ends_from_word(var, eb, e, sip24(&keys, 2 * e), sip24(&keys, 2 * e + 1)));
			}
		} else {
			let (rot, all) = block_params(var);
			let mut e = 0u64;
			while e < n {
				let b = sip_block(&keys, e, rot, all);
				for i in 0..64u64 {
					if e + i < n {
						ends.push(ends_from_word(var, eb, e + i, b[i as usize], 0));
					}
				}
				e += 64;
			}
		}
		let nv = var.nvtx(eb) as usize;
		let mut deg = vec![0u32; nv + 1];
		for en in &ends {
			deg[en[0].vtx as usize + 1] += 1;
			deg[en[1].vtx as usize + 1] += 1;
		}
		for i in 0..nv {
			deg[i + 1] += deg[i];
		}
		let adj_start = deg.clone();
		let mut fill = deg;
		let mut adj = vec![0u32; 2 * n as usize];
		for (e, en) in ends.iter().enumerate() {
			for k in 0..2 {
				let v = en[k].vtx as usize;
				adj[fill[v] as usize] = (2 * e + k) as u32;
				fill[v] += 1;
			}
		}
		Graph { var, eb, keys, ends, adj_start, adj }
	}
	fn n(&self) -> u64 {
		1u64 << self.eb
	}
	#[inline]
	fn end(&self, id: u32) -> End {
		self.ends[(id >> 1) as usize][(id & 1) as usize]
	}
	#[inline]
	fn at(&self, v: u64) -> &[u32] {
		&self.adj[self.adj_start[v as usize] as usize..self.adj_start[v as usize + 1] as usize]
	}
}

#[derive(Clone, Copy, PartialEq, Eq, Debug)]
enum Shape {
	/// exactly one simple cycle through all edges
	Cycle,
	/// every vertex has two chainable ends, but the edges fall into several cycles
	Union,
	/// every vertex has exactly two ends but somewhere they cannot be chained
	/// (same node instead of partner node; two heads or two tails)
	Loose,
	/// some vertex has one end or more than two
	Other,
}
impl Shape {
	fn name(self) -> &'static str {
		match self {
			Shape::Cycle => "cycle",
			Shape::Union => "union-of-cycles",
			Shape::Loose => "degree2-not-chainable",
			Shape::Other => "open-or-branching",
		}
	}
}

/// degree-2 + chainability + connectivity over the selected edges
fn shape_of(ends: &[[End; 2]], need_diff: bool) -> Shape {
	let k = ends.len();
	let mut l: Vec<(u64, u8, usize)> = Vec::with_capacity(2 * k);
	for (i, e) in ends.iter().enumerate() {
		l.push((e[0].vtx, e[0].flag, 2 * i));
		l.push((e[1].vtx, e[1].flag, 2 * i + 1));
	}
	l.sort_unstable();
	let mut partner = vec![usize::MAX; 2 * k];
	let mut chain_ok = true;
	let mut i = 0;
	while i < l.len() {
		let mut j = i;
		while j < l.len() && l[j].0 == l[i].0 {
			j += 1;
		}
		if j - i != 2 {
			return Shape::Other;
		}
		if need_diff && l[i].1 == l[i + 1].1 {
			chain_ok = false;
		}
		partner[l[i].2] = l[i + 1].2;
		partner[l[i + 1].2] = l[i].2;
		i = j;
	}
	if !chain_ok {
		return Shape::Loose;
	}
	// walk: enter an edge at one end, leave at the other, hop to the end sharing that vertex
	let mut cur = 0usize;
	let mut steps = 0usize;
	loop {
		cur = partner[cur ^ 1];
		steps += 1;
		if cur == 0 || steps > k {
			break;
		}
	}
	if steps == k {
		Shape::Cycle
	} else {
		Shape::Union
	}
}

/// the property's acceptance condition
fn ref_verify_with<F: Fn(u64) -> [End; 2]>(var: Var, eb: u8, nonces: &[u64], proof_size: usize, ends_of: F) -> bool {
	if nonces.len() != proof_size || proof_size == 0 {
		return false;
	}
	let n_edges = 1u128 << eb;
	for i in 0..nonces.len() {
		if (nonces[i] as u128) >= n_edges {
			return false;
		}
		if i > 0 && nonces[i] <= nonces[i - 1] {
			return false;
		}
	}
	let ends: Vec<[End; 2]> = nonces.iter().map(|n| ends_of(*n)).collect();
	shape_of(&ends, var.need_diff()) == Shape::Cycle
}

fn ref_verify_keys(var: Var, eb: u8, keys: &[u64; 4], nonces: &[u64], proof_size: usize) -> bool {
	ref_verify_with(var, eb, nonces, proof_size, |n| edge_ends(var, eb, keys, n))
}

fn ref_verify_graph(g: &Graph, nonces: &[u64], proof_size: usize) -> bool {
	ref_verify_with(g.var, g.eb, nonces, proof_size, |n| g.ends[n as usize])
}

// ---------------------------------------------------------------------------------------------
// reference enumerators (independent of shape_of)
// ---------------------------------------------------------------------------------------------

struct Dfs<'a> {
	g: &'a Graph,
	strict: bool,
	alive: Option<&'a [bool]>,
	len: usize,
	start_edge: u32,
	start_vtx: u64,
	start_flag: u8,
	visited: Vec<bool>,
	path: Vec<u32>,
	out: Vec<Vec<u64>>,
	steps: u64,
	step_cap: u64,
}

impl<'a> Dfs<'a> {
	fn chain(&self, a: u8, b: u8) -> bool {
		!self.strict || !self.g.var.need_diff() || a != b
	}
	/// we are leaving the last path edge through an end in vertex `w` with flag `f`
	fn go(&mut self, w: u64, f: u8) {
		if self.steps > self.step_cap {
			return;
		}
		let g = self.g;
		let (lo, hi) = (g.adj_start[w as usize] as usize, g.adj_start[w as usize + 1] as usize);
		for ix in lo..hi {
			let id = g.adj[ix];
			let e = id >> 1;
			if e <= self.start_edge {
				continue;
			}
			if let Some(al) = self.alive {
				if !al[e as usize] {
					continue;
				}
			}
			let en = g.end(id);
			if !self.chain(en.flag, f) {
				continue;
			}
			if self.path.contains(&e) {
				continue;
			}
			self.steps += 1;
			let other = g.end(id ^ 1);
			if self.path.len() + 1 == self.len {
				if other.vtx == self.start_vtx && self.chain(other.flag, self.start_flag) {
					let mut c: Vec<u64> = self.path.iter().map(|x| *x as u64).collect();
					c.push(e as u64);
					c.sort_unstable();
					self.out.push(c);
				}
				continue;
			}
			if self.visited[other.vtx as usize] {
				continue;
			}
			self.visited[other.vtx as usize] = true;
			self.path.push(e);
			self.go(other.vtx, other.flag);
			self.path.pop();
			self.visited[other.vtx as usize] = false;
		}
	}
}

/// all simple cycles of exactly `len` edges (strict: chainable at every vertex; loose: vertex
/// sharing only). Each cycle is reported once, as its sorted nonce list. Returns (cycles, capped).
fn enum_cycles(g: &Graph, len: usize, strict: bool, alive: Option<&[bool]>, step_cap: u64) -> (Vec<Vec<u64>>, bool) {
	let mut out = vec![];
	if len == 1 {
		for (e, en) in g.ends.iter().enumerate() {
			if en[0].vtx == en[1].vtx && (!strict || !g.var.need_diff() || en[0].flag != en[1].flag) {
				out.push(vec![e as u64]);
			}
		}
		return (out, false);
	}
	let mut d = Dfs {
		g,
		strict,
		alive,
		len,
		start_edge: 0,
		start_vtx: 0,
		start_flag: 0,
		visited: vec![false; g.var.nvtx(g.eb) as usize],
		path: Vec::with_capacity(len),
		out: vec![],
		steps: 0,
		step_cap,
	};
	for s in 0..g.ends.len() as u32 {
		if let Some(al) = alive {
			if !al[s as usize] {
				continue;
			}
		}
		let en = g.ends[s as usize];
		if en[0].vtx == en[1].vtx {
			continue;
		}
		d.start_edge = s;
		d.start_vtx = en[0].vtx;
		d.start_flag = en[0].flag;
		d.visited[en[0].vtx as usize] = true;
		d.visited[en[1].vtx as usize] = true;
		d.path.push(s);
		d.go(en[1].vtx, en[1].flag);
		d.path.pop();
		d.visited[en[0].vtx as usize] = false;
		d.visited[en[1].vtx as usize] = false;
	}
	let capped = d.steps > d.step_cap;
	(d.out, capped)
}

/// edges that can lie on a strict cycle: repeatedly drop edges with an end that has nothing to be
/// chained to
fn trim(g: &Graph) -> Vec<bool> {
	let n = g.ends.len();
	let nd = g.var.need_diff();
	let nv = g.var.nvtx(g.eb) as usize;
	let mut cnt = vec![[0u32; 2]; nv];
	for en in &g.ends {
		cnt[en[0].vtx as usize][en[0].flag as usize] += 1;
		cnt[en[1].vtx as usize][en[1].flag as usize] += 1;
	}
	let mut alive = vec![true; n];
	let mut list: Vec<u32> = (0..n as u32).collect();
	loop {
		let mut next = Vec::with_capacity(list.len());
		let mut changed = false;
		for &e in &list {
			let en = g.ends[e as usize];
			let ok = |x: End, c: &Vec<[u32; 2]>| {
				if nd {
					c[x.vtx as usize][1 - x.flag as usize] >= 1
				} else {
					c[x.vtx as usize][0] >= 2
				}
			};
			if ok(en[0], &cnt) && ok(en[1], &cnt) {
				next.push(e);
			} else {
				alive[e as usize] = false;
				cnt[en[0].vtx as usize][en[0].flag as usize] -= 1;
				cnt[en[1].vtx as usize][en[1].flag as usize] -= 1;
				changed = true;
			}
		}
		list = next;
		if !changed {
			break;
		}
	}
	alive
}

/// reference solver: all strict `len`-cycles of the graph
fn solve(g: &Graph, len: usize) -> (Vec<Vec<u64>>, bool) {
	if g.eb >= 9 {
		let alive = trim(g);
		enum_cycles(g, len, true, Some(&alive), 20_000_000)
	} else {
		enum_cycles(g, len, true, None, 200_000_000)
	}
}

/// all strict simple open paths of `len` edges (len + 1 distinct vertices), each once
fn enum_paths(g: &Graph, len: usize, cap: usize) -> (Vec<Vec<u64>>, bool) {
	struct P<'a> {
		g: &'a Graph,
		len: usize,
		visited: Vec<bool>,
		path: Vec<u32>,
		out: Vec<Vec<u64>>,
		cap: usize,
	}
	impl<'a> P<'a> {
		fn go(&mut self, w: u64, f: u8) {
			if self.out.len() >= self.cap {
				return;
			}
			let g = self.g;
			let (lo, hi) = (g.adj_start[w as usize] as usize, g.adj_start[w as usize + 1] as usize);
			for ix in lo..hi {
				let id = g.adj[ix];
				let e = id >> 1;
				let en = g.end(id);
				if (g.var.need_diff() && en.flag == f) || self.path.contains(&e) {
					continue;
				}
				let other = g.end(id ^ 1);
				if self.visited[other.vtx as usize] {
					continue;
				}
				if self.path.len() + 1 == self.len {
					// report from the terminal edge with the smaller index only
					if self.path[0] < e {
						let mut c: Vec<u64> = self.path.iter().map(|x| *x as u64).collect();
						c.push(e as u64);
						c.sort_unstable();
						self.out.push(c);
					}
					continue;
				}
				self.visited[other.vtx as usize] = true;
				self.path.push(e);
				self.go(other.vtx, other.flag);
				self.path.pop();
				self.visited[other.vtx as usize] = false;
			}
		}
	}
	let mut p = P { g, len, visited: vec![false; g.var.nvtx(g.eb) as usize], path: vec![], out: vec![], cap };
	for s in 0..g.ends.len() as u32 {
		let en = g.ends[s as usize];
		if en[0].vtx == en[1].vtx {
			continue;
		}
		for dir in 0..2usize {
			let (a, b) = (en[dir], en[1 - dir]);
			p.visited[a.vtx as usize] = true;
			p.visited[b.vtx as usize] = true;
			p.path.push(s);
			p.go(b.vtx, b.flag);
			p.path.pop();
			p.visited[a.vtx as usize] = false;
			p.visited[b.vtx as usize] = false;
		}
	}
	let capped = p.out.len() >= cap;
	(p.out, capped)
}

fn vertices_of(g: &Graph, cyc: &[u64]) -> Vec<u64> {
	let mut v: Vec<u64> = cyc.iter().flat_map(|e| g.ends[*e as usize].iter().map(|x| x.vtx).collect::<Vec<_>>()).collect();
	v.sort_unstable();
	v.dedup();
	v
}

/// composite shapes with `total` edges built from shorter strict cycles: vertex-disjoint unions
/// (4+4, 6+2, 4+2+2, 3+5 ...) and pairs sharing exactly one vertex (figure-eights)
fn enum_composites(g: &Graph, total: usize, cap: usize) -> (Vec<Vec<u64>>, Vec<Vec<u64>>) {
	let mut short: Vec<(Vec<u64>, Vec<u64>)> = vec![];
	for l in 1..total {
		let (cs, _) = enum_cycles(g, l, true, None, 2_000_000);
		for c in cs {
			let v = vertices_of(g, &c);
			short.push((c, v));
		}
		if short.len() > 400 {
			break;
		}
	}
	let disjoint = |a: &Vec<u64>, b: &Vec<u64>| a.iter().all(|x| !b.contains(x));
	let mut unions = vec![];
	// unions by recursive choice of increasing indices
	fn rec(short: &[(Vec<u64>, Vec<u64>)], from: usize, left: usize, edges: &mut Vec<u64>, vts: &mut Vec<u64>, parts: usize, out: &mut Vec<Vec<u64>>, cap: usize) {
		if left == 0 {
			if parts >= 2 {
				let mut c = edges.clone();
				c.sort_unstable();
				out.push(c);
			}
			return;
		}
		for i in from..short.len() {
			if out.len() >= cap {
				return;
			}
			let (c, v) = &short[i];
			if c.len() > left || v.iter().any(|x| vts.contains(x)) {
				continue;
			}
			let (el, vl) = (edges.len(), vts.len());
			edges.extend_from_slice(c);
			vts.extend_from_slice(v);
			rec(short, i + 1, left - c.len(), edges, vts, parts + 1, out, cap);
			edges.truncate(el);
			vts.truncate(vl);
		}
	}
	rec(&short, 0, total, &mut vec![], &mut vec![], 0, &mut unions, cap);
	let mut eights = vec![];
	for i in 0..short.len() {
		for j in i + 1..short.len() {
			if eights.len() >= cap {
				break;
			}
			let (a, b) = (&short[i], &short[j]);
			if a.0.len() + b.0.len() != total || !disjoint(&a.0, &b.0) {
				continue;
			}
			let shared = a.1.iter().filter(|x| b.1.contains(x)).count();
			if shared == 1 {
				let mut c = a.0.clone();
				c.extend_from_slice(&b.0);
				c.sort_unstable();
				eights.push(c);
			}
		}
	}
	(unions, eights)
}

// ---------------------------------------------------------------------------------------------
// shared helpers
// ---------------------------------------------------------------------------------------------

/// deterministic header bytes for a seed (84 bytes so that the "nonce in the last four bytes"
/// form of seeding can be exercised too)
fn header_of(seed: u64, tag: u8) -> Vec<u8> {
	let mut h = vec![0u8; 84];
	for i in 0..84 {
		h[i] = (i as u8).wrapping_mul(37).wrapping_add(11) ^ tag;
	}
	h[..8].copy_from_slice(&seed.to_le_bytes());
	h[8] = tag;
	h
}
/// odd seeds use the header + nonce form
fn nonce_of(seed: u64) -> Option<u32> {
	if seed % 2 == 1 {
		Some((seed.wrapping_mul(2654435761) >> 3) as u32)
	} else {
		None
	}
}

fn chain_of(name: &str) -> ChainTypes {
	match name {
		"AutomatedTesting" => ChainTypes::AutomatedTesting,
		"UserTesting" => ChainTypes::UserTesting,
		"Testnet" => ChainTypes::Testnet,
		"Mainnet" => ChainTypes::Mainnet,
		_ => panic!("chain type {}", name),
	}
}
fn chain_name(c: ChainTypes) -> &'static str {
	match c {
		ChainTypes::AutomatedTesting => "AutomatedTesting",
		ChainTypes::UserTesting => "UserTesting",
		ChainTypes::Testnet => "Testnet",
		ChainTypes::Mainnet => "Mainnet",
	}
}
fn proofsize_of(c: ChainTypes) -> usize {
	match c {
		ChainTypes::AutomatedTesting => 8,
		_ => 42,
	}
}

/// outcome counters kept locally (hot loops) and flushed into the report at the end
#[derive(Default)]
struct Counts(BTreeMap<String, u64>);
impl Counts {
	fn add(&mut self, k: String, n: u64) {
		if n > 0 {
			*self.0.entry(k).or_insert(0) += n;
		}
	}
	fn flush(self, r: &mut Report) {
		for (k, v) in self.0 {
			*r.outcomes.entry(k).or_insert(0) += v;
		}
	}
}

fn err_class(e: &pow::Error) -> String {
	match e {
		pow::Error::Verification(s) => s.replace(' ', "-").replace('\'', ""),
		other => format!("{:?}", other).replace(' ', "-"),
	}
}

// ---- verdict bytes written by the executor child
const PENDING: u8 = 0;
const ACCEPT: u8 = 1;
const REJECT0: u8 = 2; // + index into REJECTS
const CRASH: u8 = 254;
const HANG: u8 = 255;
const REJECTS: [&str; 10] = [
	"wrong-cycle-length",
	"edge-too-big",
	"edges-not-ascending",
	"endpoints-dont-match-up",
	"branch-in-cycle",
	"cycle-dead-ends",
	"cycle-too-short",
	"edges-not-balanced",
	"no-cuckaroo-past-HardFork4",
	"other-error",
];
fn verdict_of(res: &Result<(), pow::Error>) -> u8 {
	match res {
		Ok(()) => ACCEPT,
		Err(e) => {
			let c = err_class(e);
			REJECT0 + REJECTS.iter().position(|x| *x == c).unwrap_or(REJECTS.len() - 1) as u8
		}
	}
}
fn verdict_name(v: u8) -> String {
	match v {
		ACCEPT => "accept".into(),
		HANG => "NO-VERDICT-does-not-terminate".into(),
		CRASH => "NO-VERDICT-crashes".into(),
		PENDING => "pending".into(),
		x => format!("reject:{}", REJECTS.get((x - REJECT0) as usize).unwrap_or(&"unknown")),
	}
}

/// CPU time a single call may burn without returning before it is declared non-terminating
/// (a verify of 42 nonces takes ~50 us)
const STALL_CPU_NS: u64 = 4_000_000;
/// ... confirmed by running the suspected call alone until it has burnt this much
const CONFIRM_CPU_NS: u64 = 150_000_000;

/// Runs `n` evaluations of the real code in a forked child so that a call that never returns (or
/// aborts the process) costs one child, not the explorer. `make(start)` builds, inside the child,
/// the evaluator; it is then called for item start, start+1, ... in order. The child publishes the
/// index it is working on; the parent kills it when that index does not advance while the child
/// burns more than `stall_ns` of CPU time, records HANG for that item and resumes after it.
fn fork_eval(n: usize, stall_ns: u64, make: &dyn Fn(usize) -> Box<dyn FnMut(usize) -> u8>) -> Vec<u8> {
	use std::sync::atomic::{AtomicU64, Ordering};
	if n == 0 {
		return vec![];
	}
	let len = 16 + n;
	let ptr = unsafe {
		libc::mmap(std::ptr::null_mut(), len, libc::PROT_READ | libc::PROT_WRITE, libc::MAP_SHARED | libc::MAP_ANONYMOUS, -1, 0)
	};
	assert!(ptr != libc::MAP_FAILED, "mmap");
	let base = ptr as *mut u8;
	let cursor: &AtomicU64 = unsafe { &*(base as *const AtomicU64) };
	let done: &AtomicU64 = unsafe { &*(base.add(8) as *const AtomicU64) };
	let res = |i: usize| unsafe { base.add(16 + i) };
	let mut start = 0usize;
	const SETUP: u64 = u64::MAX;
	while start < n {
		cursor.store(SETUP, Ordering::SeqCst);
		done.store(0, Ordering::SeqCst);
		let pid = unsafe { libc::fork() };
		assert!(pid >= 0, "fork");
		if pid == 0 {
			// ---- child
			let r = std::panic::catch_unwind(std::panic::AssertUnwindSafe(|| {
				let mut f = make(start);
				for i in start..n {
					cursor.store(i as u64, Ordering::SeqCst);
					let v = f(i);
					unsafe { *res(i) = v };
				}
			}));
			done.store(if r.is_ok() { 1 } else { 2 }, Ordering::SeqCst);
			unsafe { libc::_exit(if r.is_ok() { 0 } else { 3 }) };
		}
		// ---- parent
		let mut clk: libc::clockid_t = 0;
		let have_clk = unsafe { libc::clock_getcpuclockid(pid, &mut clk) } == 0;
		let cpu_now = |wall: &std::time::Instant| -> u64 {
			if have_clk {
				let mut ts = libc::timespec { tv_sec: 0, tv_nsec: 0 };
				if unsafe { libc::clock_gettime(clk, &mut ts) } == 0 {
					return ts.tv_sec as u64 * 1_000_000_000 + ts.tv_nsec as u64;
				}
			}
			// fall back to wall time with a generous factor
			wall.elapsed().as_nanos() as u64 / 8
		};
		let wall = std::time::Instant::now();
		let mut last = SETUP;
		let mut mark = 0u64;
		let mut nap = 20u64;
		loop {
			let mut status = 0i32;
			let w = unsafe { libc::waitpid(pid, &mut status, libc::WNOHANG) };
			if w == pid {
				let ok = libc::WIFEXITED(status) && libc::WEXITSTATUS(status) == 0 && done.load(Ordering::SeqCst) == 1;
				if ok {
					start = n;
				} else {
					let c = cursor.load(Ordering::SeqCst);
					assert!(c != SETUP, "executor child died during setup (status {})", status);
					unsafe { *res(c as usize) = CRASH };
					start = c as usize + 1;
				}
				break;
			}
			let c = cursor.load(Ordering::SeqCst);
			let cpu = cpu_now(&wall);
			if c != last {
				last = c;
				mark = cpu;
			} else if cpu.saturating_sub(mark) > if c == SETUP { 20_000_000_000 } else { stall_ns } {
				unsafe {
					libc::kill(pid, libc::SIGKILL);
					libc::waitpid(pid, &mut status, 0);
				}
				assert!(c != SETUP, "executor child stalled during setup");
				// the child may have finished the item in the very moment it was killed
				let c2 = cursor.load(Ordering::SeqCst);
				if c2 == c {
					if unsafe { *res(c as usize) } == PENDING {
						// suspected: run that item alone, with a threshold far above any scheduling noise
						let v = if stall_ns < CONFIRM_CPU_NS { fork_eval(1, CONFIRM_CPU_NS, &|_| { let mut f = make(c as usize); Box::new(move |_| f(c as usize)) })[0] } else { HANG };
						unsafe { *res(c as usize) = v };
					}
					start = c as usize + 1;
				} else {
					start = c2 as usize;
				}
				break;
			}
			std::thread::sleep(std::time::Duration::from_micros(nap));
			nap = (nap * 2).min(500);
		}
	}
	let out = unsafe { std::slice::from_raw_parts(base.add(16), n) }.to_vec();
	unsafe { libc::munmap(ptr, len) };
	out
}

/// one seeded (variant, edge_bits, header) pair: the explicit graph and how to run the real verifier
struct Pair {
	var: Var,
	eb: u8,
	chain: ChainTypes,
	header: Vec<u8>,
	nonce: Option<u32>,
	g: Graph,
	hangs: u64,
}

/// the evaluator that runs the real verifier over a list of nonce lists (built in the child)
fn list_evaluator(var: Var, eb: u8, chain: ChainTypes, header: Vec<u8>, nonce: Option<u32>, items: &[Vec<u64>]) -> Box<dyn FnMut(usize) -> u8> {
	global::set_local_chain_type(chain);
	let mut ctx = var.real_ctx(eb, proofsize_of(chain));
	ctx.set_header_nonce(header, nonce, false).expect("set_header_nonce");
	let items: Vec<Vec<u64>> = items.to_vec();
	Box::new(move |i| verdict_of(&ctx.verify(&Proof { edge_bits: eb, nonces: items[i].clone() })))
}

impl Pair {
	fn new(var: Var, eb: u8, chain: ChainTypes, header: Vec<u8>, nonce: Option<u32>) -> Pair {
		let g = Graph::build(var, eb, ref_keys(&header, nonce));
		Pair { var, eb, chain, header, nonce, g, hangs: 0 }
	}
	fn case(&self, nonces: &[u64], class: &str) -> Value {
		json!({
			"kind": "verify", "class": class, "variant": self.var.name(), "edge_bits": self.eb,
			"chain": chain_name(self.chain), "header": hex(&self.header), "header_nonce": self.nonce,
			"nonces": nonces,
		})
	}
	/// the real verifier on each nonce list
	fn real_list(&self, items: &[Vec<u64>], stall_ns: u64) -> Vec<u8> {
		fork_eval(items.len(), stall_ns, &|_start| list_evaluator(self.var, self.eb, self.chain, self.header.clone(), self.nonce, items))
	}
	/// the real verifier on every ascending completion of `pre` (lexicographic order)
	fn real_prefix(&self, pre: &[u64], count: usize) -> Vec<u8> {
		let (var, eb, chain) = (self.var, self.eb, self.chain);
		let ps = proofsize_of(chain);
		let ne = self.g.n();
		fork_eval(count, STALL_CPU_NS, &|start| {
			global::set_local_chain_type(chain);
			let mut ctx = var.real_ctx(eb, ps);
			ctx.set_header_nonce(self.header.clone(), self.nonce, false).expect("set_header_nonce");
			let mut proof = Proof { edge_bits: eb, nonces: vec![0; ps] };
			let d = pre.len();
			proof.nonces[..d].copy_from_slice(pre);
			for j in d..ps {
				proof.nonces[j] = if j == 0 { 0 } else { proof.nonces[j - 1] + 1 };
			}
			for _ in 0..start {
				next_comb(&mut proof.nonces, d, ne, ps);
			}
			let mut first = true;
			Box::new(move |_i| {
				if !first {
					next_comb(&mut proof.nonces, d, ne, ps);
				}
				first = false;
				verdict_of(&ctx.verify(&proof))
			})
		})
	}
	/// judge one real verdict against the property; returns the expected verdict
	fn judge(&mut self, r: &mut Report, cnt: &mut Counts, class: &str, nonces: &[u64], got: u8) -> bool {
		let ps = proofsize_of(self.chain);
		let exp = ref_verify_graph(&self.g, nonces, ps);
		r.evaluations += 1;
		cnt.add(format!("{}:{}:{}", self.var.name(), class, verdict_name(got).split(':').next().unwrap()), 1);
		self.report(r, class, nonces, got, exp, &format!("{}", if exp { "one simple cycle" } else { shape_name(&self.g, nonces, ps) }));
		exp
	}
	fn report(&mut self, r: &mut Report, class: &str, nonces: &[u64], got: u8, exp: bool, is: &str) {
		let ps = proofsize_of(self.chain);
		let v = self.var.name();
		if got == HANG || got == CRASH {
			self.hangs += 1;
			let (key, verb) = if got == HANG { ("verify-does-not-terminate", "did not return (killed after burning 150 ms of CPU in that one call; a call normally takes microseconds)") } else { ("verify-crashes", "aborted the process") };
			r.violation(
				format!("{}:{}", v, key),
				format!("{} verify {} on nonces {:?} (edge_bits {}, cycle length {}, found as {}); these edges are {}, the expected verdict is {}", v, verb, nonces, self.eb, ps, class, is, if exp { "accept" } else { "reject" }),
				self.case(nonces, class),
			);
		} else if (got == ACCEPT) != exp {
			let (key, what) = if exp {
				(format!("{}:rejects-cycle:{}", v, class), format!("{} verify answered {} for a proof whose edges form one simple {}-cycle [{}; edge_bits {}; nonces {:?}]", v, verdict_name(got), ps, class, self.eb, nonces))
			} else {
				(format!("{}:accepts-non-cycle:{}", v, class), format!("{} verify accepted a proof that is not one simple {}-cycle of strictly ascending in-range nonces (it is: {}) [{}; edge_bits {}; nonces {:?}]", v, ps, is, class, self.eb, nonces))
			};
			r.violation(key, what, self.case(nonces, class));
		}
	}
	/// real verifier vs the property on a batch of classified nonce lists
	fn check_all(&mut self, r: &mut Report, cnt: &mut Counts, items: &[(&'static str, Vec<u64>)]) {
		let lists: Vec<Vec<u64>> = items.iter().map(|x| x.1.clone()).collect();
		let got = self.real_list(&lists, STALL_CPU_NS);
		for (i, (class, v)) in items.iter().enumerate() {
			self.judge(r, cnt, class, v, got[i]);
		}
	}
}

/// what a list of nonces is, in words (for messages)
fn shape_name(g: &Graph, nonces: &[u64], ps: usize) -> &'static str {
	if nonces.len() != ps {
		return "the wrong number of nonces";
	}
	for i in 0..nonces.len() {
		if nonces[i] >= g.n() {
			return "out of the edge range";
		}
		if i > 0 && nonces[i] <= nonces[i - 1] {
			return "not strictly ascending";
		}
	}
	let ends: Vec<[End; 2]> = nonces.iter().map(|n| g.ends[*n as usize]).collect();
	shape_of(&ends, g.var.need_diff()).name()
}

/// advance c[fixed..] to the next strictly ascending completion with c[i] <= n - k + i
fn next_comb(c: &mut [u64], fixed: usize, n: u64, k: usize) -> bool {
	let len = c.len();
	let mut i = len;
	while i > fixed {
		i -= 1;
		if c[i] < n - (k - i) as u64 {
			c[i] += 1;
			for j in i + 1..len {
				c[j] = c[j - 1] + 1;
			}
			return true;
		}
	}
	false
}

fn binom(n: u64, k: u64) -> u128 {
	if k > n {
		return 0;
	}
	let mut x = 1u128;
	for i in 0..k as u128 {
		x = x * (n as u128 - i) / (i + 1);
	}
	x
}

// ---------------------------------------------------------------------------------------------
// part tiny: every strictly ascending tuple of tiny graphs
// ---------------------------------------------------------------------------------------------

/// (edge_bits, consecutive header seeds, further seeds whose graph holds an 8-cycle, prefix depth of a work unit)
fn tiny_plan(tier: Tier) -> Vec<(u8, u64, u64, usize)> {
	if let Ok(s) = std::env::var("GV_C05_TINY") {
		// experiments only: "eb:seeds:cyclic:depth,..."
		return s.split(',').map(|x| { let a: Vec<u64> = x.split(':').map(|y| y.parse().unwrap()).collect(); (a[0] as u8, a[1], a[2], a[3] as usize) }).collect();
	}
	match tier {
		Tier::Quick => vec![(3, 64, 0, 0), (4, 32, 6, 0)],
		Tier::Thorough => vec![(3, 256, 0, 0), (4, 384, 32, 0), (5, 8, 1, 2)],
	}
}

/// the seeds explored for one definition: 0..plain, then the next `cyclic` seeds whose graph (by the
/// reference enumerator) contains at least one 8-cycle, so that the accepting side is populated
fn tiny_seeds(var: Var, eb: u8, plain: u64, cyclic: u64) -> Vec<u64> {
	let mut out: Vec<u64> = (0..plain).collect();
	let mut s = plain;
	while (out.len() as u64) < plain + cyclic && s < plain + 200_000 {
		let g = Graph::build(var, eb, ref_keys(&header_of(s, eb), nonce_of(s)));
		if !enum_cycles(&g, 8, true, None, u64::MAX).0.is_empty() {
			out.push(s);
		}
		s += 1;
	}
	out
}

fn tiny(tier: Tier, shard: usize, n: usize) -> Report {
	let mut r = Report::new();
	let mut cnt = Counts::default();
	let ps = 8usize;
	let mut unit = 0u64;
	let mut bounds = vec![];
	for (eb, seeds, cyclic, depth) in tiny_plan(tier) {
		let ne = 1u64 << eb;
		let mut tuples = 0u64;
		let mut accepted = [0u64; 5];
		let mut no_verdict = [0u64; 5];
		for (vi, var) in VARS.iter().cloned().enumerate() {
			for seed in tiny_seeds(var, eb, seeds, cyclic) {
				let mut pair: Option<Pair> = None;
				let mut cycles: HashSet<Vec<u64>> = HashSet::new();
				let mut verdicts = [0u64; 256];
				let mut shapes = [0u64; 4];
				let mut pre: Vec<u64> = (0..depth as u64).collect();
				loop {
					let owned = mine(unit, shard, n);
					unit += 1;
					if owned {
						if pair.is_none() {
							let p = Pair::new(var, eb, ChainTypes::AutomatedTesting, header_of(seed, eb), nonce_of(seed));
							let (cs, capped) = enum_cycles(&p.g, ps, true, None, u64::MAX);
							assert!(!capped);
							cycles = cs.into_iter().collect();
							pair = Some(p);
						}
						let p = pair.as_mut().unwrap();
						let count = if depth == 0 { binom(ne, ps as u64) } else { binom(ne - 1 - pre[depth - 1], (ps - depth) as u64) } as usize;
						// the real verifier on every completion of the prefix
						let got = p.real_prefix(&pre, count);
						let mut c = [0u64; 8];
						c[..depth].copy_from_slice(&pre);
						for j in depth..ps {
							c[j] = if j == 0 { 0 } else { c[j - 1] + 1 };
						}
						let mut ref_acc = 0u64;
						let mut i = 0usize;
						loop {
							let ends: [[End; 2]; 8] = [
								p.g.ends[c[0] as usize], p.g.ends[c[1] as usize], p.g.ends[c[2] as usize], p.g.ends[c[3] as usize],
								p.g.ends[c[4] as usize], p.g.ends[c[5] as usize], p.g.ends[c[6] as usize], p.g.ends[c[7] as usize],
							];
							let sh = shape_of(&ends, var.need_diff());
							let exp = sh == Shape::Cycle;
							shapes[sh as usize] += 1;
							if exp {
								ref_acc += 1;
								// the two reference procedures must agree (else the machinery is broken)
								assert!(cycles.contains(&c.to_vec()), "reference inconsistency: decision accepts {:?} but the enumerator does not list it ({} eb{} seed{})", c, var.name(), eb, seed);
							}
							let g = got[i];
							verdicts[g as usize] += 1;
							tuples += 1;
							if g == HANG || g == CRASH || (g == ACCEPT) != exp {
								if g == HANG || g == CRASH {
									no_verdict[vi] += 1;
									if r.samples.len() < 4 {
										r.sample(json!({"variant": var.name(), "edge_bits": eb, "seed": seed, "no_verdict": verdict_name(g), "nonces": c.to_vec(), "edges_are": sh.name(), "vertices": ends.iter().map(|e| json!([e[0].vtx, e[1].vtx])).collect::<Vec<_>>()}));
									}
								}
								p.report(&mut r, "exhaustive", &c, g, exp, sh.name());
							}
							if exp && r.samples.len() < 3 {
								r.sample(json!({"variant": var.name(), "edge_bits": eb, "seed": seed, "accepted_cycle": c.to_vec(), "vertices": ends.iter().map(|e| json!([e[0].vtx, e[1].vtx])).collect::<Vec<_>>()}));
							}
							i += 1;
							if !next_comb(&mut c, depth, ne, ps) {
								break;
							}
						}
						assert_eq!(i, count, "completion count");
						let listed = cycles.iter().filter(|x| x[..depth] == pre[..]).count() as u64;
						assert_eq!(listed, ref_acc, "reference inconsistency: enumerator lists {} cycles with prefix {:?}, decision accepted {}", listed, pre, ref_acc);
						accepted[vi] += ref_acc;
					}
					if depth == 0 || !next_comb(&mut pre, 0, ne, ps) {
						break;
					}
				}
				for g in (0..256usize).filter(|g| verdicts[*g] > 0) {
					cnt.add(format!("{}:eb{}:real:{}", var.name(), eb, verdict_name(g as u8)), verdicts[g]);
				}
				for (i, s) in [Shape::Cycle, Shape::Union, Shape::Loose, Shape::Other].iter().enumerate() {
					cnt.add(format!("{}:eb{}:ref:{}", var.name(), eb, s.name()), shapes[i]);
				}
			}
		}
		r.evaluations += tuples;
		r.distinct += tuples;
		bounds.push(json!({"edge_bits": eb, "header_seeds": seeds, "further_seeds_with_a_cycle": cyclic, "variants": 5, "tuples_per_graph": binom(ne, 8).to_string()}));
		for (vi, var) in VARS.iter().enumerate() {
			r.extra.insert(format!("accepted_eb{}_{}", eb, var.name()), json!(accepted[vi]));
			if no_verdict[vi] > 0 {
				r.extra.insert(format!("no_verdict_eb{}_{}", eb, var.name()), json!(no_verdict[vi]));
			}
		}
	}
	if shard == 0 {
		r.extra.insert("plan".into(), json!(bounds));
	}
	cnt.flush(&mut r);
	r
}

// ---------------------------------------------------------------------------------------------
// near misses of a cycle (closed list)
// ---------------------------------------------------------------------------------------------

fn sorted(mut v: Vec<u64>) -> Vec<u64> {
	v.sort_unstable();
	v
}

/// every near miss of `cyc` from the closed list; `repl` = the edges used as replacements /
/// insertions (all edges of the graph for small graphs)
fn near_misses<F: FnMut(&'static str, Vec<u64>)>(cyc: &[u64], eb: u8, repl: &[u64], f: &mut F) {
	let k = cyc.len();
	let ne = 1u64 << eb;
	// each nonce replaced by each other edge: in place, and re-sorted
	for i in 0..k {
		for &e in repl {
			if e == cyc[i] {
				continue;
			}
			let mut v = cyc.to_vec();
			v[i] = e;
			let s = sorted(v.clone());
			if cyc.contains(&e) {
				f("duplicate-inplace", v);
				f("duplicate-sorted", s);
			} else {
				if s != v {
					f("replace-inplace", v);
				}
				f("replace-sorted", s);
			}
		}
	}
	// every transposition
	for i in 0..k {
		for j in i + 1..k {
			let mut v = cyc.to_vec();
			v.swap(i, j);
			f("transpose", v);
		}
	}
	// reversal and rotation by one
	let mut v = cyc.to_vec();
	v.reverse();
	f("reorder", v);
	let mut v = cyc.to_vec();
	v.rotate_left(1);
	f("reorder", v);
	// out of range by one and by the whole range
	let mut v = cyc.to_vec();
	v[k - 1] = ne;
	f("out-of-range", v);
	for i in 0..k {
		// same low bits, one bit above the range (re-sorted: lands at the end)
		let mut v = cyc.to_vec();
		v[i] = cyc[i] + ne;
		f("out-of-range", sorted(v));
	}
	let mut v = cyc.to_vec();
	v[k - 1] = u64::MAX;
	f("out-of-range", v);
	// wrong count
	for i in 0..k {
		let mut v = cyc.to_vec();
		v.remove(i);
		f("count-minus-one", v);
	}
	for &e in repl {
		if !cyc.contains(&e) {
			let mut v = cyc.to_vec();
			v.push(e);
			f("count-plus-one", sorted(v));
		}
	}
	let mut v = cyc.to_vec();
	v.push(cyc[k - 1]);
	f("count-plus-one", v);
	f("count-zero", vec![]);
}

/// the repository's Cuckatoo solver (run in the calling process; it terminates on every graph)
fn repo_solve(eb: u8, ps: usize, header: &[u8], nonce: Option<u32>) -> Result<Vec<Proof>, pow::Error> {
	let mut sctx = pow::new_cuckatoo_ctx(eb, ps, 10)?;
	sctx.set_header_nonce(header.to_vec(), nonce, true)?;
	sctx.find_cycles()
}

// ---------------------------------------------------------------------------------------------
// a crafted near miss for the direction-balanced graph: a short directed cycle plus one edge
// running into it, padded with unrelated edges so that every node is met an even number of
// times per bit (the cheap endpoint test cannot see it). Built by the reference only.
// ---------------------------------------------------------------------------------------------

fn craft_lollipop(g: &Graph, ps: usize) -> Option<Vec<u64>> {
	assert!(g.var == Var::Rood);
	let nv = 1u64 << (g.eb - 1);
	let uv = |e: u64| (g.ends[e as usize][0].vtx, g.ends[e as usize][1].vtx - nv);
	let (c2, _) = enum_cycles(g, 2, true, None, u64::MAX);
	for c in c2 {
		let (ev, od) = if c[0] & 1 == 0 { (c[0], c[1]) } else { (c[1], c[0]) };
		if ev & 1 != 0 || od & 1 != 1 {
			continue;
		}
		let (a, b) = uv(ev);
		// the edge running into the cycle: even, meets the cycle in its U node, smallest even nonce
		let s = match g.at(a).iter().map(|id| (*id >> 1) as u64).find(|e| *e & 1 == 0 && *e < ev && uv(*e).0 == a && uv(*e).1 != b) {
			Some(s) => s,
			None => continue,
		};
		let usable = |e: u64| -> bool {
			let (u, v) = uv(e);
			e != ev && e != od && e != s && u != a && v != b && (e & 1 == 1 || e > s)
		};
		let mut evens_needed = ps / 2 - 2;
		let mut odds_needed = ps / 2 - 1;
		// three free edges (even, odd, odd) are chosen last to cancel the endpoints
		evens_needed -= 1;
		odds_needed -= 2;
		let mut proof = vec![ev, od, s];
		let mut used: HashSet<u64> = proof.iter().cloned().collect();
		for e in (0..g.n()).rev() {
			if !usable(e) || used.contains(&e) {
				continue;
			}
			if e & 1 == 0 && evens_needed > 0 {
				evens_needed -= 1;
			} else if e & 1 == 1 && odds_needed > 0 {
				odds_needed -= 1;
			} else {
				continue;
			}
			proof.push(e);
			used.insert(e);
			if evens_needed == 0 && odds_needed == 0 {
				break;
			}
		}
		if evens_needed != 0 || odds_needed != 0 {
			continue;
		}
		let (mut xu, mut xv) = (0u64, 0u64);
		for e in &proof {
			let (u, v) = uv(*e);
			xu ^= u;
			xv ^= v;
		}
		let mut odd_by_uv: std::collections::HashMap<(u64, u64), u64> = Default::default();
		for e in (0..g.n()).filter(|e| e & 1 == 1 && usable(*e) && !used.contains(e)) {
			odd_by_uv.insert(uv(e), e);
		}
		let evens: Vec<u64> = (0..g.n()).filter(|e| e & 1 == 0 && usable(*e) && !used.contains(e)).take(2500).collect();
		let odds: Vec<u64> = (0..g.n()).filter(|e| e & 1 == 1 && usable(*e) && !used.contains(e)).take(2500).collect();
		for &p in &evens {
			let (pu, pv) = uv(p);
			for &q in &odds {
				let (qu, qv) = uv(q);
				if let Some(&t) = odd_by_uv.get(&(xu ^ pu ^ qu, xv ^ pv ^ qv)) {
					if t != q {
						proof.extend_from_slice(&[p, q, t]);
						proof.sort_unstable();
						return Some(proof);
					}
				}
			}
		}
	}
	None
}

// ---------------------------------------------------------------------------------------------
// part graphs: solver-found 8-cycles, their near misses, and near-miss shapes, edge_bits 4..12
// ---------------------------------------------------------------------------------------------

/// (edge_bits, header seeds given the full treatment, further seeds searched for composite shapes only)
fn graphs_plan(tier: Tier) -> Vec<(u8, u64, u64)> {
	match tier {
		Tier::Quick => vec![(4, 48, 2000), (5, 48, 2000), (6, 48, 1000), (7, 48, 0), (8, 32, 0), (9, 32, 0), (10, 24, 0), (11, 12, 0), (12, 8, 0)],
		Tier::Thorough => vec![(4, 256, 30000), (5, 256, 30000), (6, 256, 20000), (7, 256, 10000), (8, 256, 0), (9, 192, 0), (10, 160, 0), (11, 96, 0), (12, 64, 0)],
	}
}

fn graphs(tier: Tier, shard: usize, n: usize) -> Report {
	let mut r = Report::new();
	let mut cnt = Counts::default();
	let mut unit = 0u64;
	let ps = 8usize;
	let mut found = BTreeMap::<String, u64>::new();
	for (eb, seeds, more) in graphs_plan(tier) {
		for seed in 0..seeds + more {
			for var in VARS.iter().cloned() {
				let owned = mine(unit, shard, n);
				unit += 1;
				if !owned {
					continue;
				}
				let mut p = Pair::new(var, eb, ChainTypes::AutomatedTesting, header_of(seed, 0x40 + eb), nonce_of(seed));
				let mut items: Vec<(&'static str, Vec<u64>)> = vec![];
				if seed >= seeds {
					// composite shapes only
					let (unions, eights) = enum_composites(&p.g, ps, 100);
					for c in unions {
						*found.entry(format!("unions_{}", var.name())).or_insert(0) += 1;
						items.push(("union-of-cycles", c));
					}
					for c in eights {
						*found.entry(format!("figure_eights_{}", var.name())).or_insert(0) += 1;
						items.push(("figure-eight", c));
					}
					if !items.is_empty() {
						r.distinct += 1;
						p.check_all(&mut r, &mut cnt, &items);
						*found.entry("no_verdict".into()).or_insert(0) += p.hangs;
					}
					continue;
				}
				let all: Vec<u64> = (0..p.g.n()).collect();
				let (cycles, capped) = solve(&p.g, ps);
				if capped {
					*found.entry("solver_step_cap_hit".into()).or_insert(0) += 1;
				}
				r.distinct += 1;
				for cyc in &cycles {
					*found.entry(format!("cycles_{}", var.name())).or_insert(0) += 1;
					items.push(("solver-cycle", cyc.clone()));
					assert!(ref_verify_graph(&p.g, cyc, ps), "reference inconsistency: solver cycle {:?} is not accepted by the decision procedure", cyc);
					if r.samples.len() < 2 && eb >= 10 {
						r.sample(json!({"variant": var.name(), "edge_bits": eb, "seed": seed, "solver_cycle": cyc}));
					}
					near_misses(cyc, eb, &all, &mut |c, v| items.push((c, v)));
				}
				// shapes that are close to an 8-cycle without being one
				let (loose, _) = if eb <= 8 || var == Var::Roo || var == Var::Room || var == Var::Rooz {
					enum_cycles(&p.g, ps, false, None, 3_000_000)
				} else {
					// node-pair / half-size graphs are dense when chaining is ignored
					enum_cycles(&p.g, ps, false, None, 300_000)
				};
				for c in loose.iter().take(2000) {
					if !cycles.contains(c) {
						*found.entry(format!("loose_cycles_{}", var.name())).or_insert(0) += 1;
						items.push(("loose-8-cycle", c.clone()));
					}
				}
				if eb <= 10 {
					let (unions, eights) = enum_composites(&p.g, ps, 500);
					for c in &unions {
						*found.entry(format!("unions_{}", var.name())).or_insert(0) += 1;
						items.push(("union-of-cycles", c.clone()));
					}
					for c in &eights {
						*found.entry(format!("figure_eights_{}", var.name())).or_insert(0) += 1;
						items.push(("figure-eight", c.clone()));
					}
				}
				let (paths, _) = enum_paths(&p.g, ps, 4000);
				for c in &paths {
					*found.entry(format!("paths_{}", var.name())).or_insert(0) += 1;
					items.push(("8-path", c.clone()));
				}
				// Cuckatoo: the repository's own solver as a second source of cycles
				if var == Var::Toot {
					match repo_solve(eb, ps, &p.header, p.nonce) {
						Ok(sols) => {
							for s in &sols {
								*found.entry("repo_solver_cycles".into()).or_insert(0) += 1;
								items.push(("repo-solver-cycle", s.nonces.clone()));
							}
							if sols.len() < 10 && sols.len() != cycles.len() {
								*found.entry("repo_solver_count_differs".into()).or_insert(0) += 1;
							}
						}
						Err(pow::Error::NoSolution) => {
							if !cycles.is_empty() {
								*found.entry("repo_solver_count_differs".into()).or_insert(0) += 1;
							}
						}
						Err(e) => {
							// find_cycles verifies what it found: an error here means the solver produced
							// something its own verifier refuses
							*found.entry(format!("repo_solver_error_{}", err_class(&e))).or_insert(0) += 1;
							if r.notes.len() < 4 {
								r.notes.push(format!("side observation (solver, not part of the property): the repository's Cuckatoo find_cycles returned Err({}) on edge_bits {} header seed {} although the graph holds {} 8-cycle(s)", err_class(&e), eb, seed, cycles.len()));
							}
						}
					}
				}
				// cycles that need an edge just beyond the edge range
				if eb <= 10 {
					let gx = Graph::build_ext(var, eb, p.g.keys, 1);
					let (cx, _) = solve(&gx, ps);
					for c in cx.iter().filter(|c| c[ps - 1] >= p.g.n()).take(50) {
						*found.entry(format!("cycles_beyond_range_{}", var.name())).or_insert(0) += 1;
						items.push(("cycle-through-out-of-range-edge", c.clone()));
					}
				}
				p.check_all(&mut r, &mut cnt, &items);
				*found.entry("no_verdict".into()).or_insert(0) += p.hangs;
			}
		}
	}
	for (k, v) in found {
		r.extra.insert(k, json!(v));
	}
	r.extra.insert("plan".into(), json!(graphs_plan(tier).iter().map(|(e, s, m)| json!({"edge_bits": e, "header_seeds": s, "further_seeds_shapes_only": m})).collect::<Vec<_>>()));
	cnt.flush(&mut r);
	r
}

// ---------------------------------------------------------------------------------------------
// part big42: 42-cycles of 2^15-edge graphs (UserTesting parameters)
// ---------------------------------------------------------------------------------------------

fn big42(tier: Tier, shard: usize, n: usize) -> Report {
	global::set_local_chain_type(ChainTypes::UserTesting);
	let mut r = Report::new();
	let mut cnt = Counts::default();
	let seeds: u64 = tier.pick(96, 640);
	let (eb, ps) = (15u8, 42usize);
	let mut found = BTreeMap::<String, u64>::new();
	let mut unit = 0u64;
	for seed in 0..seeds {
		for var in VARS.iter().cloned() {
			let owned = mine(unit, shard, n);
			unit += 1;
			if !owned {
				continue;
			}
			let mut p = Pair::new(var, eb, ChainTypes::UserTesting, header_of(seed, 0x80), nonce_of(seed));
			let mut items: Vec<(&'static str, Vec<u64>)> = vec![];
			let (cycles, capped) = solve(&p.g, ps);
			r.distinct += 1;
			if capped {
				*found.entry("solver_step_cap_hit".into()).or_insert(0) += 1;
			}
			for cyc in &cycles {
				*found.entry(format!("cycles_{}", var.name())).or_insert(0) += 1;
				items.push(("solver-cycle", cyc.clone()));
				assert!(ref_verify_graph(&p.g, cyc, ps), "reference inconsistency: solver 42-cycle not accepted by the decision procedure");
				if r.samples.is_empty() {
					r.sample(json!({"variant": var.name(), "edge_bits": eb, "seed": seed, "solver_cycle": cyc}));
				}
				// replacements: every edge touching a vertex of the cycle, and the numeric neighbours
				let vts = vertices_of(&p.g, cyc);
				let mut repl: Vec<u64> = vec![];
				for v in &vts {
					for id in p.g.at(*v) {
						repl.push((*id >> 1) as u64);
					}
				}
				for c in cyc {
					repl.push(c.wrapping_sub(1) & (p.g.n() - 1));
					repl.push((c + 1) & (p.g.n() - 1));
					repl.push(c ^ 1);
					repl.push(c ^ 64);
				}
				repl.sort_unstable();
				repl.dedup();
				near_misses(cyc, eb, &repl, &mut |c, v| items.push((c, v)));
			}
			// a 42-cycle found for this header presented under the next header
			if let Some(cyc) = cycles.first() {
				let mut q = Pair::new(var, eb, ChainTypes::UserTesting, header_of(seed + 1, 0x80), nonce_of(seed + 1));
				q.check_all(&mut r, &mut cnt, &[("other-header", cyc.clone())]);
			}
			// Cuckatoo: the repository's solver on the first seeds
			if var == Var::Toot && (seed < tier.pick(6, 40) || !cycles.is_empty()) {
				match repo_solve(eb, ps, &p.header, p.nonce) {
					Ok(sols) => {
						for s in &sols {
							*found.entry("repo_solver_cycles".into()).or_insert(0) += 1;
							items.push(("repo-solver-cycle", s.nonces.clone()));
						}
						if sols.len() < 10 && sols.len() != cycles.len() {
							*found.entry("repo_solver_count_differs".into()).or_insert(0) += 1;
						}
					}
					Err(pow::Error::NoSolution) => {
						if !cycles.is_empty() {
							*found.entry("repo_solver_count_differs".into()).or_insert(0) += 1;
						}
					}
					Err(e) => {
						*found.entry(format!("repo_solver_error_{}", err_class(&e))).or_insert(0) += 1;
					}
				}
			}
			if var == Var::Rood && seed < 4 {
				if let Some(c) = craft_lollipop(&p.g, ps) {
					*found.entry("crafted_lollipops".into()).or_insert(0) += 1;
					r.sample(json!({"variant": var.name(), "edge_bits": eb, "seed": seed, "crafted_lollipop": c}));
					items.push(("crafted-lollipop", c));
				}
			}
			p.check_all(&mut r, &mut cnt, &items);
			*found.entry("no_verdict".into()).or_insert(0) += p.hangs;
		}
	}
	for (k, v) in found {
		r.extra.insert(k, json!(v));
	}
	r.extra.insert("bound_header_seeds".into(), json!(seeds));
	cnt.flush(&mut r);
	uni::init_thread();
	r
}

// ---------------------------------------------------------------------------------------------
// part select: which graph definition verify_size / create_pow_context use
// ---------------------------------------------------------------------------------------------

const BLOCKS_PER_WEEK: u64 = 7 * 24 * 60; // one block a minute
const BLOCKS_PER_YEAR: u64 = 52 * BLOCKS_PER_WEEK;
const HF: u64 = BLOCKS_PER_YEAR / 2; // Mainnet: a hard fork every six months for two years
const TESTNET_FORKS: [u64; 4] = [185_040, 298_080, 552_960, 642_240];

/// header version by the published schedule
fn sched_version(chain: ChainTypes, height: u64) -> u64 {
	match chain {
		ChainTypes::Mainnet => std::cmp::min(5, 1 + height / HF),
		ChainTypes::Testnet => 1 + TESTNET_FORKS.iter().filter(|f| height >= **f).count() as u64,
		_ => std::cmp::min(5, 1 + height / 3),
	}
}

/// None = no proof of work of that size is acceptable at that height
fn sched_variant(chain: ChainTypes, height: u64, eb: u8) -> Option<Var> {
	match chain {
		ChainTypes::Mainnet | ChainTypes::Testnet => {
			if eb > 29 {
				Some(Var::Toot)
			} else {
				match sched_version(chain, height) {
					1 => Some(Var::Roo),
					2 => Some(Var::Rood),
					3 => Some(Var::Room),
					4 => Some(Var::Rooz),
					_ => None,
				}
			}
		}
		_ => Some(Var::Toot),
	}
}

// Cuckatoo solutions published with the reference miner (header = 76 zero bytes + LE nonce);
// used as inputs only: the reference decides what they are under each definition
const T29: (u32, [u64; 42]) = (20, [
	0x48a9e2, 0x9cf043, 0x155ca30, 0x18f4783, 0x248f86c, 0x2629a64, 0x5bad752, 0x72e3569,
	0x93db760, 0x97d3b37, 0x9e05670, 0xa315d5a, 0xa3571a1, 0xa48db46, 0xa7796b6, 0xac43611,
	0xb64912f, 0xbb6c71e, 0xbcc8be1, 0xc38a43a, 0xd4faa99, 0xe018a66, 0xe37e49c, 0xfa975fa,
	0x11786035, 0x1243b60a, 0x12892da0, 0x141b5453, 0x1483c3a0, 0x1505525e, 0x1607352c,
	0x16181fe3, 0x17e3a1da, 0x180b651e, 0x1899d678, 0x1931b0bb, 0x19606448, 0x1b041655,
	0x1b2c20ad, 0x1bd7a83c, 0x1c05d5b0, 0x1c0b9caa,
]);
const T31: (u32, [u64; 42]) = (99, [
	0x1128e07, 0xc181131, 0x110fad36, 0x1135ddee, 0x1669c7d3, 0x1931e6ea, 0x1c0005f3,
	0x1dd6ecca, 0x1e29ce7e, 0x209736fc, 0x2692bf1a, 0x27b85aa9, 0x29bb7693, 0x2dc2a047,
	0x2e28650a, 0x2f381195, 0x350eb3f9, 0x3beed728, 0x3e861cbc, 0x41448cc1, 0x41f08f6d,
	0x42fbc48a, 0x4383ab31, 0x4389c61f, 0x4540a5ce, 0x49a17405, 0x50372ded, 0x512f0db0,
	0x588b6288, 0x5a36aa46, 0x5c29e1fe, 0x6118ab16, 0x634705b5, 0x6633d190, 0x6683782f,
	0x6728b6e1, 0x67adfb45, 0x68ae2306, 0x6d60f5e1, 0x78af3c4f, 0x7dde51ab, 0x7faced21,
]);
const T32: (u32, [u64; 42]) = (17, [
	0x6da0bbf, 0xb175276, 0xf978803, 0x187bea71, 0x2074a1a6, 0x22270923, 0x2c70b560,
	0x411d193f, 0x417c55d4, 0x4ebbda62, 0x5238584a, 0x545efac9, 0x569e98e1, 0x57040b66,
	0x5e16153e, 0x5e749d2e, 0x60b771c2, 0x68e63420, 0x74a2825e, 0x755790ac, 0x7d5e280f,
	0x7fe4d148, 0x934b32c8, 0x94a0c441, 0x9643fb25, 0x9718e41d, 0x982e6b8b, 0x9c47d21c,
	0xa1f64135, 0xa90e209c, 0xabb868cb, 0xafef989e, 0xb0fc021e, 0xb20a7b56, 0xb5e59931,
	0xb63e46b9, 0xb8823ed5, 0xd11e966c, 0xd95e515d, 0xe0245efe, 0xf3edc79a, 0xfb8a29ce,
]);

/// a proof offered to whatever verifier the cell selects
struct Disc {
	eb: u8,
	header: Vec<u8>,
	nonce: Option<u32>,
	nonces: Vec<u64>,
	made_for: &'static str,
}

fn find_disc(var: Var, eb: u8, ps: usize, tag: u8) -> Disc {
	for seed in 0..100_000u64 {
		let header = header_of(seed, tag);
		let g = Graph::build(var, eb, ref_keys(&header, None));
		let (c, _) = solve(&g, ps);
		if let Some(c) = c.into_iter().next() {
			return Disc { eb, header, nonce: None, nonces: c, made_for: var.name() };
		}
	}
	panic!("no {}-cycle found for {}", ps, var.name());
}

fn select_heights(chain: ChainTypes) -> Vec<u64> {
	let mut h = vec![0, 1, 2, 3, 5, 6, 8, 9, 11, 12, 13, 14, 15, 100, 1 << 20, 1 << 32];
	match chain {
		ChainTypes::Mainnet => {
			for k in 1..=6u64 {
				h.extend_from_slice(&[k * HF - 1, k * HF, k * HF + 1]);
			}
			h.push(100 * HF);
		}
		ChainTypes::Testnet => {
			for f in TESTNET_FORKS.iter() {
				h.extend_from_slice(&[f - 1, *f, f + 1]);
			}
			for k in 1..=4u64 {
				h.extend_from_slice(&[k * HF - 1, k * HF]);
			}
		}
		_ => {
			for k in 1..=4u64 {
				h.extend_from_slice(&[k * HF - 1, k * HF]);
			}
		}
	}
	h.sort_unstable();
	h.dedup();
	h
}

/// heights at which a 16-bit fork counter would have wrapped (probe; far beyond any reachable height)
fn wrap_heights() -> Vec<u64> {
	vec![65535 * HF - 1, 65535 * HF, 65536 * HF, 65537 * HF, 65538 * HF, 65539 * HF, 65540 * HF, u64::MAX / 2, u64::MAX]
}

fn select_cell(r: &mut Report, cnt: &mut Counts, chain: ChainTypes, height: u64, d: &Disc, class: &str) {
	let ps = proofsize_of(chain);
	let exp_var = sched_variant(chain, height, d.eb);
	let keys = ref_keys(&d.header, d.nonce);
	let exp = match exp_var {
		Some(v) => ref_verify_keys(v, d.eb, &keys, &d.nonces, ps),
		None => false,
	};
	global::set_local_chain_type(chain);
	let got = fork_eval(1, 50_000_000, &|_| {
		let (eb, header, nonce, nonces) = (d.eb, d.header.clone(), d.nonce, d.nonces.clone());
		Box::new(move |_| {
			let res: Result<(), pow::Error> = global::create_pow_context::<u64>(height, eb, nonces.len(), 10).and_then(|mut ctx| {
				ctx.set_header_nonce(header.clone(), nonce, false)?;
				ctx.verify(&Proof { edge_bits: eb, nonces: nonces.clone() })
			});
			verdict_of(&res)
		})
	})[0];
	r.evaluations += 1;
	let vname = exp_var.map(|v| v.name()).unwrap_or("none");
	cnt.add(format!("{}:{}:{}", chain_name(chain), vname, verdict_name(got).split(':').next().unwrap()), 1);
	let case = json!({
		"kind": "select", "chain": chain_name(chain), "height": height.to_string(), "edge_bits": d.eb,
		"header": hex(&d.header), "header_nonce": d.nonce, "nonces": d.nonces, "made_for": d.made_for,
	});
	if got == HANG || got == CRASH {
		r.violation(
			format!("{}:{}", vname, if got == HANG { "verify-does-not-terminate" } else { "verify-crashes" }),
			format!("create_pow_context({} height {}, edge_bits {}) + verify of a {} cycle: {}", chain_name(chain), height, d.eb, d.made_for, verdict_name(got)),
			case,
		);
	} else if (got == ACCEPT) != exp {
		let key = format!("select:{}:{}", chain_name(chain), class);
		let what = format!(
			"create_pow_context({} height {}, edge_bits {}) + verify of a {} cycle: got {}, the schedule selects {} which {} it",
			chain_name(chain), height, d.eb, d.made_for, verdict_name(got), vname, if exp { "accepts" } else { "rejects" }
		);
		r.violation(key, what, case);
	}
}

const PROBE_HEIGHT_WRAP: bool = false; // heights >= 65536 hard-fork intervals (~32 000 years) are outside the domain

fn select(tier: Tier, shard: usize, n: usize) -> Report {
	let mut r = Report::new();
	let mut cnt = Counts::default();
	let chains = [ChainTypes::AutomatedTesting, ChainTypes::UserTesting, ChainTypes::Testnet, ChainTypes::Mainnet];
	// discriminating proofs: one cycle per definition and size; a shard owns whole proofs (it has to
	// find them first) and offers them to every cell
	let mut specs: Vec<(usize, String, Box<dyn Fn() -> Disc>)> = vec![];
	for var in VARS.iter().cloned() {
		for eb in [10u8, 12] {
			specs.push((8, format!("{}@{}x8", var.name(), eb), Box::new(move || find_disc(var, eb, 8, 0xa0))));
		}
		for eb in tier.pick(vec![15u8], vec![13u8, 15, 16]) {
			specs.push((42, format!("{}@{}x42", var.name(), eb), Box::new(move || find_disc(var, eb, 42, 0xa1))));
		}
	}
	for (eb, t) in [(29u8, &T29), (31, &T31), (32, &T32)] {
		specs.push((42, format!("published-cuckatoo@{}x42", eb), Box::new(move || Disc { eb, header: vec![0u8; 80], nonce: Some(t.0), nonces: t.1.to_vec(), made_for: "cuckatoo" })));
	}
	// the published solution with a wrong size label, and garbage at sizes nobody can solve here
	specs.push((42, "published-cuckatoo29-labelled-30x42".into(), Box::new(|| Disc { eb: 30, header: vec![0u8; 80], nonce: Some(T29.0), nonces: T29.1.to_vec(), made_for: "cuckatoo29-as-30" })));
	for eb in [29u8, 30, 31, 63] {
		specs.push((8, format!("arbitrary@{}x8", eb), Box::new(move || Disc { eb, header: header_of(7, 0xa2), nonce: None, nonces: (0..8).map(|i| 1000 + 77 * i).collect(), made_for: "arbitrary" })));
	}
	let mut idx = 0u64;
	let mut cells = 0u64;
	global::set_local_chain_type(ChainTypes::UserTesting);
	let mine_discs: Vec<(usize, bool, Disc)> = specs
		.iter()
		.enumerate()
		.filter(|(di, _)| mine(*di as u64, shard, n))
		.map(|(di, (len, _, mk))| (*len, di % 5 == 0, mk()))
		.collect();
	for chain in chains.iter().cloned() {
		global::set_local_chain_type(chain);
		let ps = proofsize_of(chain);
		for height in select_heights(chain) {
			if shard == 0 {
				cells += 1;
			}
			for (len, also_wrong_length, d) in &mine_discs {
				if *len == ps {
					r.distinct += 1;
					select_cell(&mut r, &mut cnt, chain, height, d, "variant-by-height");
				} else if *also_wrong_length {
					// a proof of the other network's length
					select_cell(&mut r, &mut cnt, chain, height, d, "wrong-length");
				}
			}
		}
		if PROBE_HEIGHT_WRAP {
			for height in wrap_heights() {
				for (len, _, d) in &mine_discs {
					if *len == ps && d.eb <= 16 {
						r.distinct += 1;
						select_cell(&mut r, &mut cnt, chain, height, d, "height-beyond-16-bit-fork-counter");
					}
				}
			}
		}
	}
	// verify_size on real headers (AutomatedTesting: Cuckatoo, 8-cycles): the graph is seeded by pre_pow()
	uni::init_thread();
	let mut hdr_cycles = 0u64;
	let mut last: Option<Vec<u64>> = None;
	for eb in [9u8, 10, 11] {
		for height in [0u64, 1, 4, 7, 13, 1000] {
			for nonce in 0..tier.pick(12u64, 64) {
				let owned = mine(idx, shard, n);
				idx += 1;
				if !owned {
					continue;
				}
				let mut bh = BlockHeader::default();
				bh.height = height;
				bh.pow.nonce = nonce;
				bh.pow.proof = Proof { edge_bits: eb, nonces: vec![0; 8] };
				let pre = bh.pre_pow();
				let g = Graph::build(Var::Toot, eb, ref_keys(&pre, None));
				let (cycles, _) = solve(&g, 8);
				let mut cands: Vec<(&'static str, Vec<u64>)> = vec![];
				for c in &cycles {
					hdr_cycles += 1;
					cands.push(("header-cycle", c.clone()));
					let mut v = c.clone();
					v.swap(2, 5);
					cands.push(("header-transpose", v));
					let mut v = c.clone();
					v[7] = (v[7] + 1) & (g.n() - 1);
					cands.push(("header-replace", sorted(v)));
					cands.push(("header-count", c[..7].to_vec()));
					let mut v = c.clone();
					v.push(g.n() - 1);
					cands.push(("header-count", sorted(v)));
				}
				if let Some(l) = &last {
					cands.push(("header-other-header", l.clone()));
				}
				if let Some(c) = cycles.first() {
					last = Some(c.clone());
				}
				let verdicts = fork_eval(cands.len(), 50_000_000, &|_| {
					let mut bh = bh.clone();
					let lists: Vec<Vec<u64>> = cands.iter().map(|x| x.1.clone()).collect();
					Box::new(move |i| {
						bh.pow.proof = Proof { edge_bits: eb, nonces: lists[i].clone() };
						verdict_of(&pow::verify_size(&bh))
					})
				});
				for (i, (class, v)) in cands.iter().enumerate() {
					let exp = ref_verify_graph(&g, v, 8);
					let got = verdicts[i];
					r.evaluations += 1;
					r.distinct += 1;
					cnt.add(format!("verify_size:{}:{}", class, verdict_name(got).split(':').next().unwrap()), 1);
					if (got == ACCEPT) != exp || got == HANG || got == CRASH {
						r.violation(
							format!("verify_size:{}:{}", class, if got == HANG || got == CRASH { "no-verdict" } else if exp { "rejects-cycle" } else { "accepts-non-cycle" }),
							format!("verify_size(header height {} nonce {} edge_bits {}) = {} for nonces {:?}; expected {}", height, nonce, eb, verdict_name(got), v, if exp { "accept" } else { "reject" }),
							json!({"kind": "verify_size", "height": height, "pow_nonce": nonce, "edge_bits": eb, "nonces": v}),
						);
					}
				}
			}
		}
	}
	// the crafted near miss through the consensus entry point: Mainnet rules, a height in the
	// Cuckarood era, graph seeded by the header's pre_pow()
	if shard == n - 1 {
		global::set_local_chain_type(ChainTypes::Mainnet);
		for pn in 0..64u64 {
			let mut bh = BlockHeader::default();
			bh.height = HF + 7;
			bh.pow.nonce = pn;
			bh.pow.proof = Proof { edge_bits: 15, nonces: vec![0; 42] };
			let g = Graph::build(Var::Rood, 15, ref_keys(&bh.pre_pow(), None));
			if let Some(c) = craft_lollipop(&g, 42) {
				let exp = ref_verify_graph(&g, &c, 42);
				bh.pow.proof.nonces = c.clone();
				let got = fork_eval(1, STALL_CPU_NS, &|_| {
					let bh = bh.clone();
					Box::new(move |_| verdict_of(&pow::verify_size(&bh)))
				})[0];
				r.evaluations += 1;
				r.distinct += 1;
				cnt.add(format!("verify_size:Mainnet-cuckarood-crafted-lollipop:{}", verdict_name(got).split(':').next().unwrap()), 1);
				if got == HANG || got == CRASH || (got == ACCEPT) != exp {
					r.violation(
						if got == HANG { "cuckarood:verify-does-not-terminate".to_string() } else { "verify_size:crafted-lollipop".to_string() },
						format!("pow::verify_size(Mainnet header, height {}, pow nonce {}, edge_bits 15) = {} for a crafted 42-nonce proof (2-cycle + edge running into it + padding); expected {}", bh.height, pn, verdict_name(got), if exp { "accept" } else { "reject" }),
						json!({"kind": "verify_size", "chain": "Mainnet", "height": bh.height, "pow_nonce": pn, "edge_bits": 15, "nonces": c, "variant": "cuckarood"}),
					);
				}
				break;
			}
		}
		uni::init_thread();
	}
	r.extra.insert("header_cycles".into(), json!(hdr_cycles));
	if shard == 0 {
		r.extra.insert("bound_cells".into(), json!(cells));
		r.extra.insert("discriminators".into(), json!(specs.iter().map(|x| x.1.clone()).collect::<Vec<_>>()));
	}
	cnt.flush(&mut r);
	r
}

// ---------------------------------------------------------------------------------------------
// part ser: packing, serialisation round trip, padding bits, hash and difficulty
// ---------------------------------------------------------------------------------------------

/// nonce i occupies bits i*eb .. (i+1)*eb-1 of a little-endian bit string padded with zero bits
/// to a whole number of bytes
fn ref_pack(eb: u8, nonces: &[u64]) -> Vec<u8> {
	let bits = eb as usize * nonces.len();
	let mut out = vec![0u8; (bits + 7) / 8];
	for (i, n) in nonces.iter().enumerate() {
		for b in 0..eb as usize {
			if (n >> b) & 1 == 1 {
				let pos = i * eb as usize + b;
				out[pos / 8] |= 1 << (pos % 8);
			}
		}
	}
	out
}

fn ref_graph_weight(chain: ChainTypes, height: u64, eb: u8) -> u128 {
	let base: u32 = match chain {
		ChainTypes::AutomatedTesting => 10,
		ChainTypes::UserTesting => 15,
		_ => 24,
	};
	let mut xpr = eb as u128;
	if eb == 31 && height >= BLOCKS_PER_YEAR {
		// Cuckatoo31 is phased out linearly over 31 weeks after the first year
		xpr = xpr.saturating_sub(1 + ((height - BLOCKS_PER_YEAR) / BLOCKS_PER_WEEK) as u128);
	}
	(2u128 << (eb as u32 - base)) * xpr
}

/// difficulty = scale * 2^64 / (first 8 bytes of blake2b-256(packed nonces), big endian),
/// saturated to 1 ..= u64::MAX
fn ref_difficulty(chain: ChainTypes, height: u64, eb: u8, secondary_scaling: u32, packed: &[u8]) -> u64 {
	let d = blake2b(32, &[], packed);
	let mut w = [0u8; 8];
	w.copy_from_slice(&d.as_bytes()[..8]);
	let h = std::cmp::max(1, u64::from_be_bytes(w)) as u128;
	let scale = if eb == 29 { secondary_scaling as u128 } else { ref_graph_weight(chain, height, eb) & (u64::MAX as u128) };
	let q = (scale << 64) / h;
	std::cmp::max(1, std::cmp::min(q, u64::MAX as u128)) as u64
}

fn patterns(eb: u8, ps: usize) -> Vec<Vec<u64>> {
	let max = if eb == 64 { u64::MAX } else { (1u64 << eb) - 1 };
	let mut out: Vec<Vec<u64>> = vec![
		vec![0; ps],
		vec![max; ps],
		(0..ps as u64).map(|i| i & max).collect(),
		(0..ps as u64).map(|i| max - (ps as u64 - 1 - i).min(max)).collect(),
		(0..ps).map(|i| if i % 2 == 0 { 0xaaaa_aaaa_aaaa_aaaa & max } else { 0x5555_5555_5555_5555 & max }).collect(),
		(0..ps as u64).map(|i| (i.wrapping_mul(0x9e37_79b9_7f4a_7c15) >> (64 - eb as u32)) & max).collect(),
	];
	// one single bit set in the whole proof: pins every bit position of the packing
	for i in 0..ps {
		for b in 0..eb {
			let mut v = vec![0u64; ps];
			v[i] = 1u64 << b;
			out.push(v);
		}
	}
	// one single bit clear
	for i in 0..ps {
		let b = (i as u8 * 5) % eb;
		let mut v = vec![max; ps];
		v[i] = max & !(1u64 << b);
		out.push(v);
	}
	out
}

fn ser_part(_tier: Tier, shard: usize, n: usize) -> Report {
	let mut r = Report::new();
	let mut cnt = Counts::default();
	let v = ProtocolVersion::local();
	let mut idx = 0u64;
	for chain in [ChainTypes::Mainnet, ChainTypes::UserTesting, ChainTypes::AutomatedTesting] {
		global::set_local_chain_type(chain);
		let ps = proofsize_of(chain);
		let cn = chain_name(chain);
		for eb in 1u8..=63 {
			let owned = mine(idx, shard, n);
			idx += 1;
			if !owned {
				continue;
			}
			let bits = eb as usize * ps;
			let bytes = (bits + 7) / 8;
			let pad = bytes * 8 - bits;
			let base: u8 = match chain {
				ChainTypes::AutomatedTesting => 10,
				ChainTypes::UserTesting => 15,
				_ => 24,
			};
			for (pi, nonces) in patterns(eb, ps).into_iter().enumerate() {
				let proof = Proof { edge_bits: eb, nonces: nonces.clone() };
				let case = json!({"kind": "ser", "chain": cn, "edge_bits": eb, "nonces": nonces});
				let packed = ref_pack(eb, &nonces);
				r.evaluations += 1;
				r.distinct += 1;
				// packing
				if proof.pack_nonces() != packed {
					r.violation(format!("ser:pack:{}", cn), format!("pack_nonces differs from the bit layout (edge_bits {}, {} nonces): got {} expected {}", eb, ps, hex(&proof.pack_nonces()), hex(&packed)), case.clone());
				}
				// hash = blake2b-256 of the packed nonces
				let hd = blake2b(32, &[], &packed);
				if proof.hash().to_vec() != hd.as_bytes().to_vec() {
					r.violation(format!("ser:hash:{}", cn), format!("proof hash is not blake2b-256 of the packed nonces (edge_bits {})", eb), case.clone());
				}
				// write
				let mut wire = vec![eb];
				wire.extend_from_slice(&packed);
				let w = ser::ser_vec(&proof, v).expect("ser_vec");
				if w != wire {
					r.violation(format!("ser:write:{}", cn), format!("serialised proof differs (edge_bits {}): got {} expected {}", eb, hex(&w), hex(&wire)), case.clone());
				}
				// read back; proofs shorter than 8 bytes are not representable on the wire
				let rd: Result<Proof, ser::Error> = ser::deserialize(&mut &wire[..], v, DeserializationMode::default());
				if bytes >= 8 {
					match &rd {
						Ok(p) if *p == proof => cnt.add(format!("{}:roundtrip-ok:pad{}", cn, pad), 1),
						other => r.violation(format!("ser:roundtrip:{}", cn), format!("proof does not survive write/read (edge_bits {}): {:?}", eb, other), case.clone()),
					}
				} else {
					cnt.add(format!("{}:short-proof-{}", cn, if rd.is_ok() { "read" } else { "refused" }), 1);
				}
				// every non-zero padding pattern must be refused
				if bytes >= 8 {
					for p in 1u32..(1 << pad) {
						let mut bad = wire.clone();
						let l = bad.len();
						bad[l - 1] |= (p << (8 - pad)) as u8;
						r.evaluations += 1;
						let rd: Result<Proof, ser::Error> = ser::deserialize(&mut &bad[..], v, DeserializationMode::default());
						if rd.is_ok() {
							if !r.violations.iter().any(|x| x.key == format!("ser:padding-accepted:{}", cn)) {
								r.violation(format!("ser:padding-accepted:{}", cn), format!("proof with non-zero padding bits {:#b} accepted (edge_bits {}, {} nonces)", p, eb, ps), json!({"kind": "ser-read", "chain": cn, "wire": hex(&bad)}));
							}
							cnt.add(format!("{}:padding-ACCEPTED:pad{}", cn, pad), 1);
						} else {
							cnt.add(format!("{}:padding-refused:pad{}", cn, pad), 1);
						}
					}
					// truncated by one byte
					let rd: Result<Proof, ser::Error> = ser::deserialize(&mut &wire[..wire.len() - 1], v, DeserializationMode::default());
					r.evaluations += 1;
					if rd.is_ok() {
						r.violation(format!("ser:truncated-accepted:{}", cn), format!("truncated proof accepted (edge_bits {})", eb), json!({"kind": "ser-read", "chain": cn, "wire": hex(&wire[..wire.len() - 1])}));
					} else {
						cnt.add(format!("{}:truncated-refused", cn), 1);
					}
				}
				// difficulty: a function of the packed nonces (+ height / scaling as stated)
				if eb >= base && pi < 40 {
					for height in [0u64, 1, BLOCKS_PER_YEAR - 1, BLOCKS_PER_YEAR, BLOCKS_PER_YEAR + BLOCKS_PER_WEEK - 1, BLOCKS_PER_YEAR + BLOCKS_PER_WEEK, BLOCKS_PER_YEAR + 29 * BLOCKS_PER_WEEK, BLOCKS_PER_YEAR + 30 * BLOCKS_PER_WEEK, BLOCKS_PER_YEAR + 31 * BLOCKS_PER_WEEK, 4 * BLOCKS_PER_YEAR] {
						for scaling in [0u32, 1, 13, 1856, u32::MAX] {
							let exp = ref_difficulty(chain, height, eb, scaling, &packed);
							let mut got = vec![];
							for (td, pn) in [(1u64, 0u64), (u64::MAX / 3, 0xdead_beef)] {
								let pw = ProofOfWork { total_difficulty: Difficulty::from_num(td), secondary_scaling: scaling, nonce: pn, proof: proof.clone() };
								got.push(pw.to_difficulty(height).to_num());
								r.evaluations += 1;
							}
							if got[0] != exp || got[1] != exp {
								r.violation(format!("difficulty:{}", cn), format!("to_difficulty(height {}) = {:?} expected {} (edge_bits {}, scaling {})", height, got, exp, eb, scaling), json!({"kind": "difficulty", "chain": cn, "edge_bits": eb, "nonces": nonces, "height": height, "scaling": scaling}));
							}
							cnt.add(format!("{}:difficulty:{}", cn, if exp == 1 { "floor" } else if exp == u64::MAX { "saturated" } else { "plain" }), 1);
						}
					}
				}
				if pi == 5 && eb == 19 && chain == ChainTypes::Mainnet {
					r.sample(json!({"edge_bits": eb, "nonces": nonces[..4].to_vec(), "wire_prefix": hex(&wire[..12]), "padding_bits": pad, "difficulty_h0": ref_difficulty(chain, 0, eb, 1, &packed).to_string()}));
				}
			}
			// edge_bits outside 1..=63 cannot be read
			if eb == 1 {
				for bad_eb in [0u8, 64, 65, 128, 255] {
					let mut wire = vec![bad_eb];
					wire.extend_from_slice(&vec![0u8; 400]);
					let rd: Result<Proof, ser::Error> = ser::deserialize(&mut &wire[..], v, DeserializationMode::default());
					r.evaluations += 1;
					cnt.add(format!("{}:edge-bits-out-of-range-{}", cn, if rd.is_ok() { "read" } else { "refused" }), 1);
				}
			}
		}
	}
	cnt.flush(&mut r);
	uni::init_thread();
	r
}

// ---------------------------------------------------------------------------------------------
// engine
// ---------------------------------------------------------------------------------------------

impl Engine for C05 {
	fn id(&self) -> &'static str {
		"C05"
	}
	fn meta(&self, tier: Tier) -> Meta {
		Meta {
			level: "exploration",
			rule: "exhaustive enumeration against an explicit-graph reference, every real call executed in a forked child under a CPU-time watchdog: tiny = every strictly ascending 8-tuple of every graph (5 definitions x header seeds x edge_bits per plan; consecutive seeds plus the next seeds whose graph holds an 8-cycle) through the real verify, accept sets compared in both directions; graphs = every 8-cycle the reference solver finds at edge_bits 4..12 plus EVERY near miss of a closed list (each nonce replaced by each other edge in place and re-sorted, duplicates, all transpositions, reversal/rotation, out of range, 7/9/0 nonces) plus every loose 8-cycle, union of shorter cycles, figure-eight, open 8-path and cycle through an out-of-range edge the reference enumerators find (further seeds at edge_bits 4..7 are searched for unions / figure-eights only); big42 = 42-cycles of 2^15-edge graphs with the replacement list restricted to edges touching the cycle, plus a crafted even-degree lollipop; select = chain type x height x edge_bits table of create_pow_context, verify_size on real headers; ser = edge_bits 1..63 x bit-pinning nonce patterns x all padding patterns, hash and difficulty formula. A case is one (definition, edge_bits, header, nonce list); near misses of distinct cycles may coincide, `distinct` counts tuples (tiny), graphs (graphs/big42) and cells/patterns (select/ser)",
			assumptions: vec![
				"blake2b-256 (blake2-rfc crate) is the header hash; siphash (round function checked against the official SipHash-2-4 vectors), block chaining, node extraction and cycle decision are re-implemented from the graph definitions; the decision procedure and an independent DFS enumerator must agree on every enumerated tuple".into(),
				"cycle length is 8 (AutomatedTesting) for the exhaustive parts and 42 (UserTesting/Mainnet/Testnet) for big42/select".into(),
				format!("exhaustive tuple enumeration is bounded to edge_bits {} (C(2^eb, 8) tuples per graph)", match tier { Tier::Quick => "3..4", Tier::Thorough => "3..5" }),
				"a real call that burns 150 ms of CPU without returning (normal: 1-50 us) is recorded as 'no verdict: does not terminate'; one that kills its process as 'crashes'".into(),
				"variant selection at edge_bits 29..32 on 42-cycle networks is observed with the published Cuckatoo29/31/32 solutions only; no 8-cycle of a 2^29+ graph can be produced, so AutomatedTesting cells at those sizes are observed through rejection only".into(),
				"to_difficulty is checked for edge_bits >= the network's base edge bits (the graph weight is undefined below)".into(),
				"nonces handed to pack_nonces / write are within the edge range (the property's own precondition)".into(),
				"proofs whose packed form is shorter than 8 bytes cannot be read back (edge_bits 1 with 42 nonces, edge_bits < 8 with 8 nonces): counted, not judged".into(),
			],
			exhaustive: true,
		}
	}
	fn parts(&self, _tier: Tier) -> Vec<(&'static str, usize)> {
		vec![("tiny", 16), ("graphs", 16), ("big42", 16), ("select", 16), ("ser", 16)]
	}
	fn run_part(&self, part: &str, tier: Tier, shard: usize, n: usize) -> Report {
		uni::init_thread();
		selftest_reference();
		match part {
			"tiny" => tiny(tier, shard, n),
			"graphs" => graphs(tier, shard, n),
			"big42" => big42(tier, shard, n),
			"select" => select(tier, shard, n),
			"ser" => ser_part(tier, shard, n),
			_ => panic!("unknown part"),
		}
	}
	fn replay(&self, case: &Value) -> Result<String, String> {
		uni::init_thread();
		let nonces = |c: &Value| -> Vec<u64> { c["nonces"].as_array().map(|a| a.iter().map(|x| x.as_u64().unwrap()).collect()).unwrap_or_default() };
		let res = match case["kind"].as_str().unwrap_or("") {
			"verify" => {
				let var = Var::from_name(case["variant"].as_str().unwrap()).unwrap();
				let chain = chain_of(case["chain"].as_str().unwrap());
				global::set_local_chain_type(chain);
				let eb = case["edge_bits"].as_u64().unwrap() as u8;
				let header = unhex(case["header"].as_str().unwrap());
				let hn = case["header_nonce"].as_u64().map(|x| x as u32);
				let ns = nonces(case);
				let got = fork_eval(1, 1_000_000_000, &|_| list_evaluator(var, eb, chain, header.clone(), hn, &[ns.clone()]))[0];
				let exp = ref_verify_keys(var, eb, &ref_keys(&header, hn), &ns, proofsize_of(chain));
				let obs = format!("{} verify = {}; one simple cycle by the reference = {}", var.name(), if got == HANG { "NO VERDICT: did not return within 1 s of CPU time".to_string() } else { verdict_name(got) }, exp);
				if (got == ACCEPT) != exp || got == HANG || got == CRASH { Err(obs) } else { Ok(obs) }
			}
			"select" => {
				let chain = chain_of(case["chain"].as_str().unwrap());
				global::set_local_chain_type(chain);
				let height: u64 = case["height"].as_str().unwrap().parse().unwrap();
				let d = Disc {
					eb: case["edge_bits"].as_u64().unwrap() as u8,
					header: unhex(case["header"].as_str().unwrap()),
					nonce: case["header_nonce"].as_u64().map(|x| x as u32),
					nonces: nonces(case),
					made_for: "replay",
				};
				let mut r = Report::new();
				let mut cnt = Counts::default();
				select_cell(&mut r, &mut cnt, chain, height, &d, "replay");
				let obs = format!("{:?}", cnt.0);
				match r.violations.first() {
					Some(v) => Err(v.what.clone()),
					None => Ok(obs),
				}
			}
			"verify_size" => {
				let chain = chain_of(case["chain"].as_str().unwrap_or("AutomatedTesting"));
				global::set_local_chain_type(chain);
				let var = Var::from_name(case["variant"].as_str().unwrap_or("cuckatoo")).unwrap();
				let eb = case["edge_bits"].as_u64().unwrap() as u8;
				let mut bh = BlockHeader::default();
				bh.height = case["height"].as_u64().unwrap();
				bh.pow.nonce = case["pow_nonce"].as_u64().unwrap();
				bh.pow.proof = Proof { edge_bits: eb, nonces: nonces(case) };
				let got = fork_eval(1, 1_000_000_000, &|_| {
					let bh = bh.clone();
					Box::new(move |_| verdict_of(&pow::verify_size(&bh)))
				})[0];
				let exp = ref_verify_keys(var, eb, &ref_keys(&bh.pre_pow(), None), &bh.pow.proof.nonces, proofsize_of(chain));
				let obs = format!("verify_size = {}; reference = {}", if got == HANG { "NO VERDICT: did not return within 1 s of CPU time".to_string() } else { verdict_name(got) }, exp);
				if (got == ACCEPT) != exp || got == HANG || got == CRASH { Err(obs) } else { Ok(obs) }
			}
			"ser-read" => {
				global::set_local_chain_type(chain_of(case["chain"].as_str().unwrap()));
				let wire = unhex(case["wire"].as_str().unwrap());
				let rd: Result<Proof, ser::Error> = ser::deserialize(&mut &wire[..], ProtocolVersion::local(), DeserializationMode::default());
				match rd {
					Ok(p) => Err(format!("malformed proof bytes were read as {:?}", p)),
					Err(e) => Ok(format!("refused: {:?}", e)),
				}
			}
			"ser" | "difficulty" => {
				let chain = chain_of(case["chain"].as_str().unwrap());
				global::set_local_chain_type(chain);
				let eb = case["edge_bits"].as_u64().unwrap() as u8;
				let ns = nonces(case);
				let proof = Proof { edge_bits: eb, nonces: ns.clone() };
				let packed = ref_pack(eb, &ns);
				let mut wire = vec![eb];
				wire.extend_from_slice(&packed);
				let w = ser::ser_vec(&proof, ProtocolVersion::local()).unwrap();
				let rd: Result<Proof, ser::Error> = ser::deserialize(&mut &wire[..], ProtocolVersion::local(), DeserializationMode::default());
				let height = case["height"].as_u64().unwrap_or(0);
				let scaling = case["scaling"].as_u64().unwrap_or(1) as u32;
				let pw = ProofOfWork { total_difficulty: Difficulty::from_num(1), secondary_scaling: scaling, nonce: 0, proof: proof.clone() };
				let (gd, ed) = (pw.to_difficulty(height).to_num(), ref_difficulty(chain, height, eb, scaling, &packed));
				let ok = w == wire && (packed.len() < 8 || rd.as_ref().ok() == Some(&proof)) && proof.hash().to_vec() == blake2b(32, &[], &packed).as_bytes().to_vec() && gd == ed;
				let obs = format!("write {} expected {}; read back ok = {}; difficulty {} expected {}", hex(&w), hex(&wire), rd.is_ok(), gd, ed);
				if ok { Ok(obs) } else { Err(obs) }
			}
			_ => Ok(format!("no single-case replay for {}", case)),
		};
		uni::init_thread();
		res
	}
}
