//! C12 — Aggregation, cut-through and compact-block hydration are faithful.
//!
//! Universe: 9 valid transactions with known openings spending outputs of a real chain
//! (A..G as in the design, plus H whose offset is the negation of A's, plus X which spends the
//! same output of A as C does). Every sub-multiset up to the tier bound x every distinct
//! permutation x every bracketing is pushed through the real `transaction::aggregate`; every
//! node of every bracketing is judged against a multiset model over the openings (offsets
//! summed mod n by the harness). De-aggregation and compact-block hydration are enumerated
//! the same way. See `meta()` for the exact space.
use crate::ev::{hex, unhex, Report, Tier};
use crate::uni;
use crate::{Engine, Meta};
use grin_chain::types::Options;
use grin_core::core::hash::Hashed;
use grin_core::core::id::ShortIdentifiable;
use grin_core::core::transaction::{self, Error as TxError};
use grin_core::core::{
	Block, BlockHeader, CommitWrapper, CompactBlock, Input, Inputs, KernelFeatures, NRDRelativeHeight,
	Output, OutputFeatures, ShortId, Transaction, TxKernel, Weighting,
};
use grin_core::global;
use grin_core::libtx::build::{self, Append};
use grin_core::libtx::{aggsig, ProofBuilder};
use grin_core::pow::Difficulty;
use grin_core::ser::{self, DeserializationMode, ProtocolVersion, Writeable};
use grin_keychain::{BlindingFactor, ExtKeychain, Keychain, SwitchCommitmentType};
use grin_util::secp::key::SecretKey;
use serde_json::{json, Value};
use std::collections::{BTreeMap, HashMap};
use std::convert::TryFrom;

pub struct C12;

const V3: ProtocolVersion = ProtocolVersion(3);
const V2: ProtocolVersion = ProtocolVersion(2);

// ------------------------------------------------------------------------------------------
// scalars mod n (order of the secp256k1 group), big-endian, plain Rust
// ------------------------------------------------------------------------------------------
type Sc = [u8; 32];
const ZERO: Sc = [0u8; 32];
const ORDER: Sc = [
	0xFF, 0xFF, 0xFF, 0xFF, 0xFF, 0xFF, 0xFF, 0xFF, 0xFF, 0xFF, 0xFF, 0xFF, 0xFF, 0xFF, 0xFF, 0xFE,
	0xBA, 0xAE, 0xDC, 0xE6, 0xAF, 0x48, 0xA0, 0x3B, 0xBF, 0xD2, 0x5E, 0x8C, 0xD0, 0x36, 0x41, 0x41,
];

fn sc_from(b: &[u8]) -> Sc {
	let mut s = [0u8; 32];
	s.copy_from_slice(&b[..32]);
	assert!(s < ORDER, "scalar out of range");
	s
}

/// a - b over 256 bits (caller guarantees a >= b or wants the wrapped value)
fn raw_sub(a: &Sc, b: &Sc) -> Sc {
	let mut out = [0u8; 32];
	let mut borrow = 0i16;
	for i in (0..32).rev() {
		let mut d = a[i] as i16 - b[i] as i16 - borrow;
		if d < 0 {
			d += 256;
			borrow = 1;
		} else {
			borrow = 0;
		}
		out[i] = d as u8;
	}
	out
}

fn sc_add(a: &Sc, b: &Sc) -> Sc {
	let mut out = [0u8; 32];
	let mut carry = 0u16;
	for i in (0..32).rev() {
		let s = a[i] as u16 + b[i] as u16 + carry;
		out[i] = (s & 0xff) as u8;
		carry = s >> 8;
	}
	// a, b < n < 2^256 so a+b < 2n: one conditional subtraction (wrapping if carry)
	if carry == 1 || out >= ORDER {
		out = raw_sub(&out, &ORDER);
	}
	out
}

fn sc_neg(a: &Sc) -> Sc {
	if *a == ZERO {
		ZERO
	} else {
		raw_sub(&ORDER, a)
	}
}

fn sc_sub(a: &Sc, b: &Sc) -> Sc {
	sc_add(a, &sc_neg(b))
}

// ------------------------------------------------------------------------------------------
// reference short id (blake2b + SipHash-2-4 written here)
// ------------------------------------------------------------------------------------------
fn blake(data: &[u8]) -> [u8; 32] {
	let h = blake2_rfc::blake2b::blake2b(32, &[], data);
	let mut o = [0u8; 32];
	o.copy_from_slice(h.as_bytes());
	o
}

fn le64(b: &[u8]) -> u64 {
	let mut x = [0u8; 8];
	x.copy_from_slice(&b[..8]);
	u64::from_le_bytes(x)
}

fn siphash24(k0: u64, k1: u64, data: &[u8]) -> u64 {
	let mut v = [
		k0 ^ 0x736f6d6570736575u64,
		k1 ^ 0x646f72616e646f6du64,
		k0 ^ 0x6c7967656e657261u64,
		k1 ^ 0x7465646279746573u64,
	];
	fn round(v: &mut [u64; 4]) {
		v[0] = v[0].wrapping_add(v[1]);
		v[1] = v[1].rotate_left(13);
		v[1] ^= v[0];
		v[0] = v[0].rotate_left(32);
		v[2] = v[2].wrapping_add(v[3]);
		v[3] = v[3].rotate_left(16);
		v[3] ^= v[2];
		v[0] = v[0].wrapping_add(v[3]);
		v[3] = v[3].rotate_left(21);
		v[3] ^= v[0];
		v[2] = v[2].wrapping_add(v[1]);
		v[1] = v[1].rotate_left(17);
		v[1] ^= v[2];
		v[2] = v[2].rotate_left(32);
	}
	let full = data.len() / 8 * 8;
	for c in data[..full].chunks(8) {
		let m = le64(c);
		v[3] ^= m;
		round(&mut v);
		round(&mut v);
		v[0] ^= m;
	}
	let mut b = (data.len() as u64) << 56;
	for (i, x) in data[full..].iter().enumerate() {
		b |= (*x as u64) << (8 * i);
	}
	v[3] ^= b;
	round(&mut v);
	round(&mut v);
	v[0] ^= b;
	v[2] ^= 0xff;
	for _ in 0..4 {
		round(&mut v);
	}
	v[0] ^ v[1] ^ v[2] ^ v[3]
}

/// 6 low-order bytes (little-endian) of SipHash-2-4 of the kernel hash, keyed with the first
/// two little-endian u64 of blake2b(block hash || nonce as big-endian u64).
fn ref_short_id(block_hash: &[u8], nonce: u64, kernel_hash: &[u8]) -> [u8; 6] {
	let mut pre = block_hash.to_vec();
	pre.extend_from_slice(&nonce.to_be_bytes());
	let hn = blake(&pre);
	let s = siphash24(le64(&hn[0..8]), le64(&hn[8..16]), kernel_hash).to_le_bytes();
	let mut o = [0u8; 6];
	o.copy_from_slice(&s[..6]);
	o
}

// ------------------------------------------------------------------------------------------
// universe
// ------------------------------------------------------------------------------------------
type C33 = [u8; 33];

/// a transaction of the model: what the openings say it is
#[derive(Clone)]
struct MTx {
	ins: Vec<C33>,
	/// (commitment, full serialised output incl. range proof)
	outs: Vec<(C33, Vec<u8>)>,
	/// full serialised kernels
	kers: Vec<Vec<u8>>,
	offset: Sc,
}

struct Member {
	name: &'static str,
	tx: Transaction,
	/// the same transaction with features-and-commit inputs (`tx` has commit-only inputs)
	tx_alt: Transaction,
	m: MTx,
	fee: u64,
}

struct Universe {
	kc: ExtKeychain,
	members: Vec<Member>,
	/// head of the real chain (height 10), when taken from the cache file
	head: Option<BlockHeader>,
}

fn c33(c: &grin_util::secp::pedersen::Commitment) -> C33 {
	c.0
}

fn bytes_of<W: Writeable>(w: &W) -> Vec<u8> {
	ser::ser_vec(w, V3).expect("serialize")
}

fn secret_from(tag: &str, n: u64) -> Sc {
	let mut i = 0u64;
	loop {
		let h = blake(format!("c12/{}/{}/{}", tag, n, i).as_bytes());
		if h < ORDER && h != ZERO {
			return h;
		}
		i += 1;
	}
}

#[derive(Clone, Copy)]
enum OffsetMode {
	/// kernel excess fixed by the tx id, offset = blinding sum - excess
	Natural,
	/// the whole blinding sum goes into the kernel: offset = 0
	Zero,
	/// this offset exactly
	Fixed(Sc),
}

/// (key index, value, is coinbase)
type In = (u32, u64, bool);
type Out = (u32, u64);

struct Built {
	tx: Transaction,
	/// secret kernel excess
	excess: Sc,
}

fn blind_of(kc: &ExtKeychain, key: u32, value: u64) -> Sc {
	let k = kc
		.derive_key(value, &uni::kid(key), SwitchCommitmentType::Regular)
		.expect("derive_key");
	sc_from(&k.0)
}

/// (secret kernel excess, offset) of a single-kernel transaction, from the openings alone
fn plan(kc: &ExtKeychain, ins: &[In], outs: &[Out], id: u64, mode: OffsetMode) -> (Sc, Sc) {
	// blinding sum on harness scalars
	let mut sum = ZERO;
	for (k, v, _) in ins {
		sum = sc_sub(&sum, &blind_of(kc, *k, *v));
	}
	for (k, v) in outs {
		sum = sc_add(&sum, &blind_of(kc, *k, *v));
	}
	match mode {
		OffsetMode::Natural => {
			let e = secret_from("excess", id);
			(e, sc_sub(&sum, &e))
		}
		OffsetMode::Zero => (sum, ZERO),
		OffsetMode::Fixed(o) => (sc_sub(&sum, &o), o),
	}
}

/// the kernel of that transaction without its signature
fn kernel_stub(kc: &ExtKeychain, features: KernelFeatures, excess: &Sc) -> (TxKernel, SecretKey) {
	let mut kernel = TxKernel::with_features(features);
	let skey = SecretKey::from_slice(kc.secp(), excess).expect("excess key");
	kernel.excess = kc.secp().commit(0, skey.clone()).expect("commit");
	(kernel, skey)
}

/// One single-kernel transaction from openings; kernel excess and signature nonce are fixed.
fn mk_tx(kc: &ExtKeychain, features: KernelFeatures, ins: &[In], outs: &[Out], id: u64, mode: OffsetMode) -> Built {
	let pb = ProofBuilder::new(kc);
	let mut elems: Vec<Box<Append<ExtKeychain, ProofBuilder<'_, ExtKeychain>>>> = vec![];
	for (k, v, cb) in ins {
		elems.push(if *cb { build::coinbase_input(*v, uni::kid(*k)) } else { build::input(*v, uni::kid(*k)) });
	}
	for (k, v) in outs {
		elems.push(build::output(*v, uni::kid(*k)));
	}
	let (body_tx, bsum) = build::partial_transaction(Transaction::empty(), &elems, kc, &pb).expect("partial tx");
	let (excess, offset) = plan(kc, ins, outs, id, mode);
	assert_eq!(bsum.as_ref(), &sc_add(&excess, &offset)[..], "harness blinding sum differs from keychain's");
	let (mut kernel, skey) = kernel_stub(kc, features, &excess);
	let msg = kernel.msg_to_sign().expect("msg");
	let secp = kc.secp();
	let nonce = SecretKey::from_slice(secp, &secret_from("nonce", id)).expect("nonce key");
	let pubkey = kernel.excess.to_pubkey(secp).expect("pubkey");
	kernel.excess_sig = aggsig::sign_single(secp, &msg, &skey, Some(&nonce), Some(&pubkey)).expect("sign");
	let mut tx = body_tx.replace_kernel(kernel);
	tx.offset = BlindingFactor::from_slice(&offset);
	Built { tx, excess }
}

/// the same transaction with features-and-commit inputs (as a protocol v2 peer sends it)
fn with_features(kc: &ExtKeychain, tx: &Transaction, ins: &[In]) -> Transaction {
	let v: Vec<Input> = ins
		.iter()
		.map(|(k, val, cb)| Input::new(if *cb { OutputFeatures::Coinbase } else { OutputFeatures::Plain }, uni::commit_of(kc, *k, *val)))
		.collect();
	Transaction::new(Inputs::FeaturesAndCommit(v), tx.outputs(), tx.kernels()).with_offset(tx.offset.clone())
}

/// The model of a member, from its openings; output/kernel bytes are taken from the built tx
/// (they must be carried unchanged by every operation), commitments from the keychain.
fn model_of(kc: &ExtKeychain, tx: &Transaction, ins: &[In], outs: &[Out], excesses: &[Sc]) -> Result<MTx, String> {
	let mut m = MTx { ins: vec![], outs: vec![], kers: vec![], offset: ZERO };
	let mut sum = ZERO;
	for (k, v, _) in ins {
		m.ins.push(c33(&uni::commit_of(kc, *k, *v)));
		sum = sc_sub(&sum, &blind_of(kc, *k, *v));
	}
	for (k, v) in outs {
		let c = uni::commit_of(kc, *k, *v);
		let o = tx.outputs().iter().find(|o| o.commitment() == c).ok_or("output of an opening is missing")?;
		m.outs.push((c33(&c), bytes_of(o)));
		sum = sc_add(&sum, &blind_of(kc, *k, *v));
	}
	for e in excesses {
		sum = sc_sub(&sum, e);
	}
	for k in tx.kernels() {
		m.kers.push(bytes_of(k));
	}
	// the offset is what the openings leave over once the kernel excesses are taken out
	m.offset = sum;
	if tx.offset.as_ref() != &sum[..] {
		return Err("tx offset differs from openings".into());
	}
	let ti: Vec<CommitWrapper> = tx.inputs().into();
	let mut ti: Vec<C33> = ti.iter().map(|c| c33(c.as_ref())).collect();
	ti.sort();
	m.ins.sort();
	m.outs.sort();
	m.kers.sort();
	if ti != m.ins || tx.outputs().len() != outs.len() || tx.kernels().len() != excesses.len() {
		return Err("tx inputs/outputs/kernels differ from openings".into());
	}
	Ok(m)
}

fn cache_path() -> std::path::PathBuf {
	// shared only between the worker processes of one run (never across runs: the universe must
	// be rebuilt from the current tree)
	let dir = std::env::var("GV_RUN_DIR").unwrap_or_else(|_| format!("{}/run-{}", uni::scratch_base(), std::process::id()));
	let _ = std::fs::create_dir_all(&dir);
	std::path::Path::new(&dir).join("c12-universe.json")
}

fn cache_write(u: &Universe, head: &BlockHeader) {
	let v = json!({
		"txs": u.members.iter().map(|m| hex(&bytes_of(&m.tx))).collect::<Vec<_>>(),
		"head": hex(&bytes_of(head)),
	});
	let tmp = cache_path().with_extension(format!("{}.tmp", std::process::id()));
	if std::fs::write(&tmp, v.to_string()).is_ok() {
		let _ = std::fs::rename(&tmp, cache_path());
	}
}

fn cache_read() -> Option<(Vec<Transaction>, BlockHeader)> {
	global::set_local_nrd_enabled(true);
	let v: Value = serde_json::from_str(&std::fs::read_to_string(cache_path()).ok()?).ok()?;
	let mut txs = vec![];
	for h in v["txs"].as_array()? {
		let b = unhex(h.as_str()?);
		txs.push(ser::deserialize::<Transaction, _>(&mut &b[..], V3, DeserializationMode::default()).ok()?);
	}
	let b = unhex(v["head"].as_str()?);
	let head = ser::deserialize::<BlockHeader, _>(&mut &b[..], V3, DeserializationMode::default()).ok()?;
	Some((txs, head))
}

const FEE: u64 = 2_000_000;
const G9: u64 = 1_000_000_000;

fn plain() -> KernelFeatures {
	KernelFeatures::Plain { fee: (FEE as u32).into() }
}

impl Universe {
	/// for workers: the universe the `universe` part built and left in the cache file just before
	/// (re-checked against the openings), else a fresh build
	fn build() -> Universe {
		if let Some((txs, head)) = cache_read() {
			if let Ok(mut u) = Universe::assemble(Some(&txs)) {
				u.head = Some(head);
				return u;
			}
		}
		Universe::build_fresh()
	}

	fn build_fresh() -> Universe {
		Universe::assemble(None).expect("universe")
	}

	/// `cached`: transactions built earlier by this very code (range proofs and signatures are
	/// the expensive part); everything the openings determine is recomputed and compared.
	fn assemble(cached: Option<&[Transaction]>) -> Result<Universe, String> {
		uni::init_thread();
		global::set_local_nrd_enabled(true);
		let kc = uni::keychain(12);
		let r = uni::REWARD;
		let mut members: Vec<Member> = vec![];
		let mut add = |name: &'static str, kc: &ExtKeychain, parts: Vec<(KernelFeatures, Vec<In>, Vec<Out>, OffsetMode)>, id: u64| -> Result<Sc, String> {
			let (mut ins, mut outs) = (vec![], vec![]);
			for (_, pi, po, _) in parts.iter() {
				ins.extend_from_slice(pi);
				outs.extend_from_slice(po);
			}
			if let Some(c) = cached {
				let tx = c.get(members.len()).ok_or("cache too short")?.clone();
				let mut ex = vec![];
				for (i, (f, pi, po, mode)) in parts.iter().enumerate() {
					let (e, _) = plan(kc, pi, po, id * 10 + i as u64, *mode);
					let (stub, _) = kernel_stub(kc, *f, &e);
					if !tx.kernels().iter().any(|k| k.features == stub.features && k.excess == stub.excess) {
						return Err("cached kernel differs".into());
					}
					ex.push(e);
				}
				let m = model_of(kc, &tx, &ins, &outs, &ex)?;
				let off = m.offset;
				members.push(Member { name, tx_alt: with_features(kc, &tx, &ins), fee: tx.fee(), tx, m });
				return Ok(off);
			}
			let mut built = vec![];
			for (i, (f, pi, po, mode)) in parts.iter().enumerate() {
				built.push(mk_tx(kc, *f, pi, po, id * 10 + i as u64, *mode));
			}
			let tx = if built.len() == 1 {
				built[0].tx.clone()
			} else {
				// a multi-kernel transaction assembled by hand (not by the code under test)
				let mut i: Vec<CommitWrapper> = vec![];
				let (mut o, mut k) = (vec![], vec![]);
				let mut off = ZERO;
				for b in &built {
					let bi: Vec<CommitWrapper> = b.tx.inputs().into();
					i.extend_from_slice(&bi);
					o.extend_from_slice(b.tx.outputs());
					k.extend_from_slice(b.tx.kernels());
					off = sc_add(&off, &sc_from(b.tx.offset.as_ref()));
				}
				Transaction::new(Inputs::CommitOnly(i), &o, &k).with_offset(BlindingFactor::from_slice(&off))
			};
			let ex: Vec<Sc> = built.iter().map(|b| b.excess).collect();
			let m = model_of(kc, &tx, &ins, &outs, &ex)?;
			let off = m.offset;
			members.push(Member { name, tx_alt: with_features(kc, &tx, &ins), fee: tx.fee(), tx, m });
			Ok(off)
		};
		let nat = OffsetMode::Natural;
		// A: coinbase 1 -> a1 a2 a3
		let off_a = add("A", &kc, vec![(plain(), vec![(1, r, true)], vec![(101, 20 * G9), (102, 15 * G9), (103, r - 35 * G9 - FEE)], nat)], 1)?;
		// B: coinbase 2 -> b1 b2
		add("B", &kc, vec![(plain(), vec![(2, r, true)], vec![(111, 25 * G9), (112, r - 25 * G9 - FEE)], nat)], 2)?;
		// C: a1 -> c1 (cut-through with A)
		add("C", &kc, vec![(plain(), vec![(101, 20 * G9, false)], vec![(121, 20 * G9 - FEE)], nat)], 3)?;
		// D: a2 + b1 -> d1 d2 (cut-through with A and with B)
		add("D", &kc, vec![(plain(), vec![(102, 15 * G9, false), (111, 25 * G9, false)], vec![(131, 30 * G9), (132, 10 * G9 - FEE)], nat)], 4)?;
		// E: two kernels (Plain + NoRecentDuplicate), two inputs, two outputs
		let nrd = KernelFeatures::NoRecentDuplicate {
			fee: (FEE as u32).into(),
			relative_height: NRDRelativeHeight::try_from(1u16).expect("nrd height"),
		};
		add(
			"E",
			&kc,
			vec![
				(plain(), vec![(3, r, true)], vec![(141, r - FEE)], nat),
				(nrd, vec![(4, r, true)], vec![(142, r - FEE)], nat),
			],
			5,
		)?;
		// F: height locked kernel
		let hl = KernelFeatures::HeightLocked { fee: (FEE as u32).into(), lock_height: 5 };
		add("F", &kc, vec![(hl, vec![(5, r, true)], vec![(151, r - FEE)], nat)], 6)?;
		// G: zero offset
		add("G", &kc, vec![(plain(), vec![(6, r, true)], vec![(161, 40 * G9), (162, r - 40 * G9 - FEE)], OffsetMode::Zero)], 7)?;
		// H: offset = -offset(A)  (anybody can make one: offsets are public)
		add("H", &kc, vec![(plain(), vec![(7, r, true)], vec![(171, r - FEE)], OffsetMode::Fixed(sc_neg(&off_a)))], 8)?;
		// X: spends a1 as C does (double spend of C's input)
		add("X", &kc, vec![(plain(), vec![(101, 20 * G9, false)], vec![(181, 20 * G9 - FEE)], nat)], 9)?;
		drop(add);
		Ok(Universe { kc, members, head: None })
	}

	fn names(&self, ms: &[usize]) -> String {
		ms.iter().map(|i| self.members[*i].name).collect::<Vec<_>>().join(",")
	}

	fn idx(&self, name: &str) -> Option<usize> {
		self.members.iter().position(|m| m.name == name)
	}

	/// hex of the members involved (exact failing inputs for the record)
	fn txs_json(&self, ms: &[usize]) -> Value {
		let mut o = serde_json::Map::new();
		for i in ms {
			let m = &self.members[*i];
			let (v, b) = (3, ser::ser_vec(&m.tx, V3).expect("ser"));
			o.insert(m.name.to_string(), json!({"protocol": v, "hex": hex(&b)}));
		}
		Value::Object(o)
	}
}

// ------------------------------------------------------------------------------------------
// the multiset model of aggregation
// ------------------------------------------------------------------------------------------
#[derive(Clone, PartialEq, Debug)]
struct Sets {
	ins: Vec<C33>,
	outs: Vec<(C33, Vec<u8>)>,
	kers: Vec<Vec<u8>>,
	offset: Sc,
}

struct MRes {
	sets: Sets,
	/// commitments of the matched spend pairs (removed from both sides)
	cut: Vec<C33>,
	/// a duplicate input, output or kernel remains: no valid transaction has this content
	dup: bool,
	/// all operand offsets are zero
	all_zero_offsets: bool,
}

fn has_dup<T: PartialEq>(v: &[T]) -> bool {
	v.windows(2).any(|w| w[0] == w[1])
}

fn model_agg(parts: &[&MTx]) -> MRes {
	let mut ins: BTreeMap<C33, usize> = BTreeMap::new();
	let mut outs: BTreeMap<C33, Vec<Vec<u8>>> = BTreeMap::new();
	let mut kers = vec![];
	let mut offset = ZERO;
	let mut all_zero = true;
	for p in parts {
		for i in &p.ins {
			*ins.entry(*i).or_insert(0) += 1;
		}
		for (c, b) in &p.outs {
			outs.entry(*c).or_default().push(b.clone());
		}
		kers.extend(p.kers.iter().cloned());
		offset = sc_add(&offset, &p.offset);
		all_zero &= p.offset == ZERO;
	}
	// exactly the matched spend pairs go: one input against one output of the same commitment
	let mut cut = vec![];
	for (c, n) in ins.iter_mut() {
		if let Some(o) = outs.get_mut(c) {
			while *n > 0 && !o.is_empty() {
				*n -= 1;
				o.pop();
				cut.push(*c);
			}
		}
	}
	let mut s = Sets { ins: vec![], outs: vec![], kers, offset };
	for (c, n) in &ins {
		for _ in 0..*n {
			s.ins.push(*c);
		}
	}
	for (c, v) in &outs {
		for b in v {
			s.outs.push((*c, b.clone()));
		}
	}
	s.ins.sort();
	s.outs.sort();
	s.kers.sort();
	cut.sort();
	let dup = has_dup(&s.ins) || has_dup(&s.outs.iter().map(|x| x.0).collect::<Vec<_>>()) || has_dup(&s.kers);
	MRes { sets: s, cut, dup, all_zero_offsets: all_zero }
}

fn observe_body(ins: Inputs, outs: &[Output], kers: &[TxKernel], offset: &BlindingFactor) -> Sets {
	let iv: Vec<CommitWrapper> = ins.into();
	let mut s = Sets {
		ins: iv.iter().map(|c| c33(c.as_ref())).collect(),
		outs: outs.iter().map(|o| (c33(&o.commitment()), bytes_of(o))).collect(),
		kers: kers.iter().map(bytes_of).collect(),
		offset: {
			let mut x = [0u8; 32];
			x.copy_from_slice(offset.as_ref());
			x
		},
	};
	s.ins.sort();
	s.outs.sort();
	s.kers.sort();
	s
}

fn observe(tx: &Transaction) -> Sets {
	observe_body(tx.inputs(), tx.outputs(), tx.kernels(), &tx.offset)
}

/// first difference between what the code produced and the model, as (key suffix, sentence)
fn diff(got: &Sets, exp: &Sets) -> Option<(&'static str, String)> {
	if got.ins != exp.ins {
		return Some(("inputs", format!("inputs {:?} expected {:?}", got.ins.iter().map(|c| hex(&c[..6])).collect::<Vec<_>>(), exp.ins.iter().map(|c| hex(&c[..6])).collect::<Vec<_>>())));
	}
	if got.outs != exp.outs {
		let g: Vec<_> = got.outs.iter().map(|c| hex(&c.0[..6])).collect();
		let e: Vec<_> = exp.outs.iter().map(|c| hex(&c.0[..6])).collect();
		return Some(("outputs", format!("outputs {:?} expected {:?}{}", g, e, if g == e { " (same commitments, different output bytes)" } else { "" })));
	}
	if got.kers != exp.kers {
		return Some(("kernels", format!("{} kernels, expected {} (or different kernel bytes)", got.kers.len(), exp.kers.len())));
	}
	if got.offset != exp.offset {
		return Some(("offset", format!("offset {} expected {} (sum of operand offsets mod n)", hex(&got.offset), hex(&exp.offset))));
	}
	None
}

#[derive(Clone, Debug, PartialEq)]
enum Verdict {
	Accept,
	/// expected refusal, with its class
	Reject(String),
	/// (key, what)
	Bad(String, String),
}

/// a libsecp error, however wrapped (Secp(..), Committed(Secp(..)), Transaction(Committed(Secp(..))))
fn is_secp<E: std::fmt::Debug>(e: &E) -> bool {
	format!("{:?}", e).contains("Secp(")
}

/// which shard judges a multiset heavily (full validate) and enumerates it as a root
fn owner_of(ms: &[usize], n: usize) -> usize {
	((ms_key(ms).wrapping_mul(0x9E37_79B9_7F4A_7C15) >> 33) % n as u64) as usize
}

fn err_class<E: std::fmt::Debug>(e: &E) -> String {
	let s = format!("{:?}", e);
	s.chars().take(40).collect()
}

/// validation results are cached per distinct transaction content
struct Judge<'a> {
	u: &'a Universe,
	valid: HashMap<Vec<u8>, Option<String>>,
	validations: u64,
	light_checks: u64,
	/// (shard, n): full validation only for the multisets this shard owns; None = always
	owner: Option<(usize, usize)>,
	/// multiset key -> first judged result
	canon: HashMap<u64, Canon>,
}

enum Canon {
	Tx(Transaction, Vec<u8>, Verdict),
	Failed(String, Verdict),
}

fn ms_key(ms: &[usize]) -> u64 {
	ms.iter().fold(1u64, |k, i| (k << 4) | (*i as u64 + 1))
}

fn strict_bytes(tx: &Transaction) -> Vec<u8> {
	let mut b = bytes_of(tx);
	b.push(match tx.inputs() {
		Inputs::CommitOnly(_) => 0,
		Inputs::FeaturesAndCommit(_) => 1,
	});
	b
}

impl<'a> Judge<'a> {
	fn new(u: &'a Universe) -> Judge<'a> {
		Judge { u, valid: HashMap::new(), validations: 0, light_checks: 0, owner: None, canon: HashMap::new() }
	}

	fn model(&self, ms: &[usize]) -> MRes {
		let parts: Vec<&MTx> = ms.iter().map(|i| &self.u.members[*i].m).collect();
		model_agg(&parts)
	}

	fn owns(&self, ms: &[usize]) -> bool {
		match self.owner {
			None => true,
			Some((s, n)) => owner_of(ms, n) == s,
		}
	}

	/// order, uniqueness and features only (no proofs, signatures or sums)
	fn light(&mut self, tx: &Transaction) -> Option<String> {
		self.light_checks += 1;
		tx.body.validate_read(Weighting::NoLimit).and_then(|_| tx.body.verify_features()).err().map(|e| err_class(&e))
	}

	fn validate(&mut self, tx: &Transaction) -> Option<String> {
		let k = bytes_of(tx);
		if let Some(v) = self.valid.get(&k) {
			return v.clone();
		}
		self.validations += 1;
		// weight limits are node policy, not part of the property: big aggregates are validated without them
		let v = tx.validate(Weighting::NoLimit).err().map(|e| err_class(&e));
		self.valid.insert(k, v.clone());
		v
	}

	/// Judge the result of an operation whose model result is `exp` (pfx = "agg" | "deagg").
	/// `heavy` = run the full validate(); otherwise content equality with the model plus the
	/// light check (the byte-identical transaction is fully validated where it is owned).
	fn full(&mut self, pfx: &str, exp: &MRes, desc: &str, res: &Result<Transaction, TxError>, heavy: bool) -> Verdict {
		if exp.dup {
			// no valid transaction has this content: "yields a valid transaction" leaves refusal as
			// the only faithful answer; handing out a transaction (valid or not) is not one
			return match res {
				Err(e) => Verdict::Reject(format!("err:{}", err_class(e))),
				Ok(tx) => match self.light(tx).or_else(|| self.validate(tx)) {
					Some(e) => Verdict::Bad(format!("{}:conflict-not-refused", pfx), format!("{}: the operands conflict (a duplicate input, output or kernel remains) yet a transaction is returned, one that does not validate ({})", desc, e)),
					None => Verdict::Bad(format!("{}:conflict-accepted", pfx), format!("{}: the operands conflict (a duplicate input, output or kernel remains) yet the result validates", desc)),
				},
			};
		}
		match res {
			Err(e) => {
				let zero_sum = exp.sets.offset == ZERO && !exp.all_zero_offsets && is_secp(e);
				if zero_sum {
					Verdict::Bad(format!("{}:zero-sum-offsets", pfx), format!("{}: operand offsets are non-zero and sum to zero mod n; expected a valid transaction with zero offset, got Err({:?})", desc, e))
				} else {
					Verdict::Bad(format!("{}:err", pfx), format!("{}: expected a valid transaction, got Err({:?})", desc, e))
				}
			}
			Ok(tx) => {
				if let Some((k, w)) = diff(&observe(tx), &exp.sets) {
					return Verdict::Bad(format!("{}:{}", pfx, k), format!("{}: {}", desc, w));
				}
				// the empty multiset has the empty transaction as aggregate; validity is claimed for non-empty content
				if !exp.sets.kers.is_empty() {
					let v = if heavy { self.validate(tx) } else { self.light(tx) };
					if let Some(e) = v {
						return Verdict::Bad(format!("{}:invalid", pfx), format!("{}: result matches the model but validate() = Err({})", desc, e));
					}
				}
				Verdict::Accept
			}
		}
	}

	/// Judge `aggregate` over the multiset `ms` (sorted member indices); the first result per
	/// multiset is judged against the model, later ones must be the *equal* transaction.
	fn agg_node(&mut self, ms: &[usize], desc: &str, res: &Result<Transaction, TxError>) -> Verdict {
		let key = ms_key(ms);
		match (self.canon.get(&key), res) {
			(Some(Canon::Tx(t, b, v)), Ok(t2)) => {
				if t2 == t && &strict_bytes(t2) == b {
					return v.clone();
				}
				if let Verdict::Accept = v {
					let d = diff(&observe(t2), &observe(t)).map(|x| x.1).unwrap_or_else(|| "same content, different representation".into());
					return Verdict::Bad("agg:order-or-grouping-dependent".into(), format!("{}: result differs from another order/grouping of the same multiset: {}", desc, d));
				}
			}
			(Some(Canon::Failed(e, v)), Err(e2)) => {
				if &format!("{:?}", e2) == e {
					return v.clone();
				}
			}
			(Some(Canon::Tx(_, _, Verdict::Accept)), Err(e2)) => {
				return Verdict::Bad("agg:order-or-grouping-dependent".into(), format!("{}: Err({:?}) although another order/grouping of the same multiset gives a valid transaction", desc, e2));
			}
			_ => {}
		}
		let exp = self.model(ms);
		let heavy = self.owns(ms);
		let v = self.full("agg", &exp, desc, res, heavy);
		if !self.canon.contains_key(&key) {
			let c = match res {
				Ok(t) => Canon::Tx(t.clone(), strict_bytes(t), v.clone()),
				Err(e) => Canon::Failed(format!("{:?}", e), v.clone()),
			};
			self.canon.insert(key, c);
		} else if let (Verdict::Accept, Some(Canon::Failed(..))) = (&v, self.canon.get(&key)) {
			return Verdict::Bad("agg:order-or-grouping-dependent".into(), format!("{}: a valid transaction although another order/grouping of the same multiset failed", desc));
		}
		v
	}
}

// ------------------------------------------------------------------------------------------
// bracketings, permutations, partitions
// ------------------------------------------------------------------------------------------
#[derive(Clone, Debug)]
enum Tree {
	Leaf(usize),
	Node(Vec<Tree>),
}

/// every way to split [lo,hi) into >= 2 consecutive parts, each part a bracketing
fn forests2(lo: usize, hi: usize) -> Vec<Vec<Tree>> {
	let mut out = vec![];
	for l in 1..(hi - lo) {
		for t in bracketings(lo, lo + l) {
			// the rest as one part, or split further
			let mut rests: Vec<Vec<Tree>> = bracketings(lo + l, hi).into_iter().map(|x| vec![x]).collect();
			rests.extend(forests2(lo + l, hi));
			for f in rests {
				let mut v = vec![t.clone()];
				v.extend(f);
				out.push(v);
			}
		}
	}
	out
}

/// every bracketing of leaves lo..hi: trees whose inner nodes have >= 2 children (1, 1, 3, 11, 45, 197 ...)
fn bracketings(lo: usize, hi: usize) -> Vec<Tree> {
	if hi - lo == 1 {
		return vec![Tree::Leaf(lo)];
	}
	forests2(lo, hi).into_iter().map(Tree::Node).collect()
}

fn tree_str(t: &Tree, seq: &[usize], u: &Universe) -> String {
	match t {
		Tree::Leaf(i) => u.members[seq[*i]].name.to_string(),
		Tree::Node(ch) => format!("({})", ch.iter().map(|c| tree_str(c, seq, u)).collect::<Vec<_>>().join(",")),
	}
}

fn leaves(t: &Tree, seq: &[usize], out: &mut Vec<usize>) {
	match t {
		Tree::Leaf(i) => out.push(seq[*i]),
		Tree::Node(ch) => ch.iter().for_each(|c| leaves(c, seq, out)),
	}
}

/// parse "(A,(B,C))" back into (sequence of member indices, tree)
fn parse_expr(u: &Universe, s: &str) -> Option<(Vec<usize>, Tree)> {
	fn go(u: &Universe, b: &[u8], p: &mut usize, seq: &mut Vec<usize>) -> Option<Tree> {
		if b.get(*p) == Some(&b'(') {
			*p += 1;
			let mut ch = vec![];
			loop {
				ch.push(go(u, b, p, seq)?);
				match b.get(*p) {
					Some(b',') => *p += 1,
					Some(b')') => {
						*p += 1;
						return Some(Tree::Node(ch));
					}
					_ => return None,
				}
			}
		}
		let st = *p;
		while *p < b.len() && b[*p].is_ascii_alphanumeric() {
			*p += 1;
		}
		let i = u.idx(std::str::from_utf8(&b[st..*p]).ok()?)?;
		seq.push(i);
		Some(Tree::Leaf(seq.len() - 1))
	}
	let mut seq = vec![];
	let mut p = 0;
	let t = go(u, s.as_bytes(), &mut p, &mut seq)?;
	if p == s.len() {
		Some((seq, t))
	} else {
		None
	}
}

/// lexicographic next permutation (handles repeated elements: distinct permutations only)
fn next_perm(v: &mut [usize]) -> bool {
	if v.len() < 2 {
		return false;
	}
	let mut i = v.len() - 1;
	while i > 0 && v[i - 1] >= v[i] {
		i -= 1;
	}
	if i == 0 {
		return false;
	}
	let mut j = v.len() - 1;
	while v[j] <= v[i - 1] {
		j -= 1;
	}
	v.swap(i - 1, j);
	v[i..].reverse();
	true
}

/// all non-decreasing tuples over 0..n of length 0..=max (sub-multisets); `strict` = subsets only
fn multisets(n: usize, max: usize, strict: bool) -> Vec<Vec<usize>> {
	fn go(n: usize, left: usize, from: usize, strict: bool, cur: &mut Vec<usize>, out: &mut Vec<Vec<usize>>) {
		if left == 0 {
			out.push(cur.clone());
			return;
		}
		for i in from..n {
			cur.push(i);
			go(n, left - 1, if strict { i + 1 } else { i }, strict, cur, out);
			cur.pop();
		}
	}
	let mut out = vec![];
	for k in 0..=max {
		go(n, k, 0, strict, &mut vec![], &mut out);
	}
	out
}

/// all ordered set partitions of 0..k (541 for k = 5)
fn ordered_partitions(k: usize) -> Vec<Vec<Vec<usize>>> {
	// set partitions by restricted growth strings, then every order of the blocks
	fn rgs(k: usize, i: usize, maxb: usize, cur: &mut Vec<usize>, out: &mut Vec<Vec<Vec<usize>>>) {
		if i == k {
			let mut blocks = vec![vec![]; maxb];
			for (e, b) in cur.iter().enumerate() {
				blocks[*b].push(e);
			}
			out.push(blocks);
			return;
		}
		for b in 0..=maxb {
			cur.push(b);
			rgs(k, i + 1, maxb.max(b + 1), cur, out);
			cur.pop();
		}
	}
	if k == 0 {
		return vec![vec![]];
	}
	let mut parts = vec![];
	rgs(k, 0, 0, &mut vec![], &mut parts);
	let mut out = vec![];
	for p in parts {
		let mut order: Vec<usize> = (0..p.len()).collect();
		loop {
			out.push(order.iter().map(|i| p[*i].clone()).collect());
			if !next_perm(&mut order) {
				break;
			}
		}
	}
	out
}

// ------------------------------------------------------------------------------------------
// part: aggregate  (multiset x permutation x bracketing) and cut_through
// ------------------------------------------------------------------------------------------
struct AggRun<'a> {
	j: Judge<'a>,
	r: Report,
}

impl<'a> AggRun<'a> {
	/// Evaluate one bracketing bottom-up on the real code; every inner node is judged.
	/// Returns the node's transaction, or None when evaluation stops (refusal or violation).
	fn eval(&mut self, seq: &[usize], t: &Tree, root: &Tree, alt: bool, last: &mut Verdict) -> Option<Transaction> {
		match t {
			Tree::Leaf(i) => {
				let m = &self.j.u.members[seq[*i]];
				Some(if alt { m.tx_alt.clone() } else { m.tx.clone() })
			}
			Tree::Node(ch) => {
				let mut ops = vec![];
				for c in ch {
					ops.push(self.eval(seq, c, root, alt, last)?);
				}
				let mut ms = vec![];
				leaves(t, seq, &mut ms);
				ms.sort();
				let res = transaction::aggregate(&ops);
				self.r.evaluations += 1;
				let u = self.j.u;
				let v = {
					let desc = || format!("aggregate node {} of {}", tree_str(t, seq, u), tree_str(root, seq, u));
					// the description is only needed when something is wrong: build it lazily
					let quick = self.j.agg_node(&ms, "", &res);
					match quick {
						Verdict::Bad(k, w) => Verdict::Bad(k, format!("{}{}", desc(), w)),
						o => o,
					}
				};
				*last = v.clone();
				match (v, res) {
					(Verdict::Bad(..), _) => None,
					(_, Ok(tx)) => Some(tx),
					(_, Err(_)) => None,
				}
			}
		}
	}

	fn expr(&mut self, seq: &[usize], tree: &Tree, alt: bool) -> Verdict {
		let mut last = Verdict::Accept;
		let got = self.eval(seq, tree, tree, alt, &mut last);
		let u = self.j.u;
		match &last {
			Verdict::Bad(k, w) => {
				let mut ms = seq.to_vec();
				ms.sort();
				ms.dedup();
				self.r.violation(k.clone(), w.clone(), json!({"kind": "agg", "expr": tree_str(tree, seq, u), "features_and_commit_inputs": alt, "txs": u.txs_json(&ms)}));
				self.r.outcome(&format!("violation:{}", k));
			}
			Verdict::Accept => self.r.outcome(if got.is_some() { "accept" } else { "accept-inner" }),
			// refused at the root or at an inner group (the root is then not evaluable)
			Verdict::Reject(c) => self.r.outcome(&format!("reject:{}", c)),
		}
		last
	}

	/// `cut_through` itself on the concatenated inputs/outputs of a sequence
	fn cut(&mut self, seq: &[usize]) {
		let u = self.j.u;
		let mut ins: Vec<CommitWrapper> = vec![];
		let mut outs: Vec<Output> = vec![];
		for i in seq {
			let v: Vec<CommitWrapper> = u.members[*i].tx.inputs().into();
			ins.extend_from_slice(&v);
			outs.extend_from_slice(u.members[*i].tx.outputs());
		}
		let mut ms = seq.to_vec();
		ms.sort();
		let exp = self.j.model(&ms);
		let exp_dup = has_dup(&exp.sets.ins) || has_dup(&exp.sets.outs.iter().map(|x| x.0).collect::<Vec<_>>());
		self.r.evaluations += 1;
		let bad: Option<(&str, String)> = match transaction::cut_through(&mut ins, &mut outs) {
			Err(e) => {
				if exp_dup {
					self.r.outcome(&format!("cut-reject:{}", err_class(&e)));
					None
				} else {
					Some(("cut:err", format!("Err({:?}) although no duplicate remains", e)))
				}
			}
			Ok((i, o, ic, oc)) => {
				let s = |v: Vec<C33>| {
					let mut v = v;
					v.sort();
					v
				};
				let gi = s(i.iter().map(|c| c33(c.as_ref())).collect());
				let go = s(o.iter().map(|c| c33(&c.commitment())).collect());
				let gic = s(ic.iter().map(|c| c33(c.as_ref())).collect());
				let goc = s(oc.iter().map(|c| c33(&c.commitment())).collect());
				let eo: Vec<C33> = exp.sets.outs.iter().map(|x| x.0).collect();
				// (where duplicates remain the property asks nothing of cut_through itself; if it
				// answers, the answer must still be the multiset difference)
				if gi != exp.sets.ins {
					Some(("cut:inputs", format!("{} inputs remain, expected {}", gi.len(), exp.sets.ins.len())))
				} else if go != eo {
					Some(("cut:outputs", format!("{} outputs remain, expected {}", go.len(), eo.len())))
				} else if gic != exp.cut || goc != exp.cut {
					Some(("cut:pairs", format!("cut pairs (inputs {}, outputs {}) are not exactly the {} matched spend pairs", gic.len(), goc.len(), exp.cut.len())))
				} else {
					self.r.outcome(&format!("cut-accept{}:pairs{}", if exp_dup { "-with-duplicates" } else { "" }, exp.cut.len()));
					None
				}
			}
		};
		if let Some((k, w)) = bad {
			let mut d = ms.clone();
			d.dedup();
			self.r.violation(k, format!("cut_through over [{}]: {}", u.names(seq), w), json!({"kind": "cut", "seq": u.names(seq), "txs": u.txs_json(&d)}));
			self.r.outcome(&format!("violation:{}", k));
		}
	}
}

fn part_aggregate(tier: Tier, shard: usize, n: usize) -> Report {
	let u = Universe::build();
	let max = tier.pick(4, 5);
	// thorough additionally takes every *subset* one size further (every permutation flat, every
	// bracketing of the canonical order)
	let max_set = tier.pick(4, 6);
	let mut run = AggRun { j: Judge::new(&u), r: Report::new() };
	run.j.owner = Some((shard, n));
	let trees: Vec<Vec<Tree>> = (0..=max_set).map(|k| if k == 0 { vec![] } else { bracketings(0, k) }).collect();
	let mut all = multisets(u.members.len(), max, false);
	all.extend(multisets(u.members.len(), max_set, true).into_iter().filter(|m| m.len() > max));
	let mut n_multisets = 0u64;
	for ms in all.iter() {
		// the smallest multisets are run by every shard (so that the violation kept per key is the
		// smallest failing input) but counted only by their owner
		let own = owner_of(ms, n) == shard;
		if own {
			n_multisets += 1;
			aggregate_multiset(&u, &mut run, ms, &trees, ms.len() <= max);
		} else if ms.len() <= 2 {
			let saved = std::mem::replace(&mut run.r, Report::new());
			aggregate_multiset(&u, &mut run, ms, &trees, ms.len() <= max);
			let tmp = std::mem::replace(&mut run.r, saved);
			for v in tmp.violations {
				run.r.violation(v.key, v.what, v.case);
			}
		}
	}
	run.r.extra.insert("bound_multiset_size".into(), json!(max));
	run.r.extra.insert("bound_subset_size".into(), json!(max_set));
	run.r.extra.insert("multisets".into(), json!(n_multisets));
	run.r.extra.insert("validations".into(), json!(run.j.validations));
	run.r.extra.insert("light_checks".into(), json!(run.j.light_checks));
	run.r
}

/// `full` = every permutation x every bracketing; otherwise every permutation flat and every
/// bracketing of the canonical order
fn aggregate_multiset(u: &Universe, run: &mut AggRun, ms: &Vec<usize>, trees: &[Vec<Tree>], full: bool) {
	{
		let k = ms.len();
		if k == 0 {
			// aggregate of nothing: the empty transaction
			let res = transaction::aggregate(&[]);
			run.r.evaluations += 1;
			run.r.distinct += 1;
			match run.j.agg_node(ms, "aggregate([])", &res) {
				Verdict::Bad(key, w) => run.r.violation(key, w, json!({"kind": "agg", "expr": "()"})),
				_ => run.r.outcome("accept-empty"),
			}
			return;
		}
		if k == 1 {
			// aggregate of one: that transaction, whatever its input representation
			let m = &u.members[ms[0]];
			for (alt, tx) in [(false, &m.tx), (true, &m.tx_alt)] {
				let res = transaction::aggregate(&[tx.clone()]);
				run.r.evaluations += 1;
				run.r.distinct += 1;
				let desc = format!("aggregate([{}]){}", m.name, if alt { " (features-and-commit inputs)" } else { "" });
				let v = if alt {
					let exp = run.j.model(ms);
					run.j.full("agg", &exp, &desc, &res, false)
				} else {
					run.j.agg_node(ms, &desc, &res)
				};
				match v {
					Verdict::Bad(key, w) => {
						run.r.outcome(&format!("violation:{}", key));
						run.r.violation(key, w, json!({"kind": "agg", "expr": format!("({})", m.name), "features_and_commit_inputs": alt, "txs": u.txs_json(ms)}))
					}
					_ => run.r.outcome("accept-single"),
				}
			}
			run.cut(ms);
			return;
		}
		// canonical order first, both input representations
		let mut seq = ms.clone();
		loop {
			let first = seq == *ms;
			run.cut(&seq);
			for t in trees[k].iter() {
				let flat = match t {
					Tree::Node(ch) => ch.iter().all(|c| matches!(c, Tree::Leaf(_))),
					Tree::Leaf(_) => true,
				};
				if !full && !first && !flat {
					continue;
				}
				run.r.distinct += 1;
				let v = run.expr(&seq, t, false);
				if first {
					// the same expression over features-and-commit operands (as a protocol v2 peer sends them)
					if let Tree::Node(_) = t {
						run.r.distinct += 1;
						run.expr(&seq, t, true);
					}
					if run.r.samples.len() < 3 && k >= 3 && (v == Verdict::Accept) == (run.r.samples.len() != 1) {
						let exp = run.j.model(ms);
						run.r.sample(json!({"multiset": u.names(ms), "expr": tree_str(t, &seq, &u), "verdict": format!("{:?}", v), "model": {"inputs": exp.sets.ins.len(), "outputs": exp.sets.outs.len(), "kernels": exp.sets.kers.len(), "cut_pairs": exp.cut.len(), "offset": hex(&exp.sets.offset), "conflict": exp.dup}}));
					}
				}
			}
			if !next_perm(&mut seq) {
				break;
			}
		}
	}
}

// ------------------------------------------------------------------------------------------
// part: deaggregate
// ------------------------------------------------------------------------------------------
/// no member spends an output of another member
fn independent(u: &Universe, ms: &[usize]) -> bool {
	for a in ms {
		for b in ms {
			if a != b && u.members[*a].m.ins.iter().any(|i| u.members[*b].m.outs.iter().any(|o| o.0 == *i)) {
				return false;
			}
		}
	}
	true
}

/// One de-aggregation on the real code, judged: `set` (sorted), `known` in the order given.
fn deagg_case(j: &mut Judge, set: &[usize], known: &[usize]) -> (Verdict, &'static str) {
	let u = j.u;
	let desc = format!("deaggregate(aggregate([{}]), [{}])", u.names(set), u.names(known));
	let all: Vec<Transaction> = set.iter().map(|i| u.members[*i].tx.clone()).collect();
	let agg = match transaction::aggregate(&all) {
		Ok(t) => t,
		Err(e) => {
			let v = j.agg_node(set, &format!("aggregate([{}])", u.names(set)), &Err(e));
			return (v, "aggregate-failed");
		}
	};
	let mut rest: Vec<usize> = set.to_vec();
	for k in known {
		let p = rest.iter().position(|x| x == k).expect("known is a subset");
		rest.remove(p);
	}
	let kn: Vec<Transaction> = known.iter().map(|i| u.members[*i].tx.clone()).collect();
	let exp = j.model(&rest);
	let res = transaction::deaggregate(agg.clone(), &kn);
	let class = if known.is_empty() {
		"known-empty"
	} else if rest.len() == 1 {
		"remainder-single"
	} else {
		"remainder-multi"
	};
	if let Err(e) = &res {
		let agg_off = sc_from(agg.offset.as_ref());
		let mut ks = known.to_vec();
		ks.sort();
		let km = j.model(&ks);
		if is_secp(e) && exp.sets.offset == ZERO && agg_off != ZERO {
			return (Verdict::Bad("deagg:zero-offset-remainder".into(), format!("{}: the remainder's offset is zero while the aggregate's is not; expected aggregate([{}]), got Err({:?})", desc, u.names(&rest), e)), class);
		}
		if is_secp(e) && km.sets.offset == ZERO && !km.all_zero_offsets {
			// it is aggregate(known) inside deaggregate that fails: same input class and call site as in part aggregate
			return (Verdict::Bad("agg:zero-sum-offsets".into(), format!("{}: the known transactions' non-zero offsets sum to zero mod n, aggregate([{}]) inside deaggregate fails; expected aggregate([{}]), got Err({:?})", desc, u.names(known), u.names(&rest), e)), class);
		}
	}
	// the result must be the very transaction aggregate(rest) gives (whose validity part
	// `aggregate` establishes); where that cannot be compared it is validated here
	let rt: Vec<Transaction> = rest.iter().map(|i| u.members[*i].tx.clone()).collect();
	let rest_agg = transaction::aggregate(&rt);
	let v = j.full("deagg", &exp, &desc, &res, rest_agg.is_err());
	if let (Verdict::Accept, Ok(t), Ok(a)) = (&v, &res, &rest_agg) {
		if !(a == t && strict_bytes(a) == strict_bytes(t)) {
			return (Verdict::Bad("deagg:not-aggregate-of-rest".into(), format!("{}: matches the model but is not the equal transaction to aggregate([{}])", desc, u.names(&rest))), class);
		}
	}
	(v, class)
}

fn part_deaggregate(tier: Tier, shard: usize, n: usize) -> Report {
	let u = Universe::build();
	let max = tier.pick(4, 6);
	let mut j = Judge::new(&u);
	let mut r = Report::new();
	let sets = multisets(u.members.len(), max, true);
	let mut in_domain = 0u64;
	for set in sets.iter() {
		// pairs are run by every shard (smallest failing input per key), counted by their owner
		let own = owner_of(set, n) == shard;
		if set.len() < 2 || (!own && set.len() > 2) {
			continue;
		}
		if !own {
			let saved = std::mem::replace(&mut r, Report::new());
			deagg_set(&u, &mut j, &mut r, set);
			let tmp = std::mem::replace(&mut r, saved);
			for v in tmp.violations {
				r.violation(v.key, v.what, v.case);
			}
			continue;
		}
		in_domain += deagg_set(&u, &mut j, &mut r, set);
	}
	r.extra.insert("bound_subset_size".into(), json!(max));
	r.extra.insert("sets_in_domain".into(), json!(in_domain));
	r.extra.insert("validations".into(), json!(j.validations));
	r
}

/// all de-aggregations of one set; returns 1 if the set is in the property's domain
fn deagg_set(u: &Universe, j: &mut Judge, r: &mut Report, set: &[usize]) -> u64 {
	{
		if j.model(set).dup {
			r.outcome("out-of-domain:conflicting-set");
			return 0;
		}
		if !independent(&u, set) {
			r.outcome("out-of-domain:members-spend-each-other");
			return 0;
		}
		// every proper sub-subset (the empty one included), every order of it
		for mask in 0..(1u32 << set.len()) - 1 {
			let mut known: Vec<usize> = (0..set.len()).filter(|b| mask >> b & 1 == 1).map(|b| set[b]).collect();
			loop {
				r.evaluations += 1;
				r.distinct += 1;
				let (v, class) = deagg_case(j, set, &known);
				match v {
					Verdict::Accept => r.outcome(&format!("accept:{}", class)),
					Verdict::Reject(c) => r.outcome(&format!("reject:{}", c)),
					Verdict::Bad(k, w) => {
						r.outcome(&format!("violation:{}", k));
						r.violation(k, w, json!({"kind": "deagg", "set": u.names(set), "known": u.names(&known), "txs": u.txs_json(set)}));
					}
				}
				if set.len() == 3 && known.len() == 2 && r.samples.len() < 2 {
					r.sample(json!({"set": u.names(set), "known": u.names(&known), "remainder_offset": hex(&j.model(&set.iter().cloned().filter(|x| !known.contains(x)).collect::<Vec<_>>()).sets.offset)}));
				}
				if !next_perm(&mut known) {
					break;
				}
			}
		}
	}
	1
}

// ------------------------------------------------------------------------------------------
// part: hydrate
// ------------------------------------------------------------------------------------------
struct TmpDir(std::path::PathBuf);
impl TmpDir {
	fn new(tag: &str) -> TmpDir {
		let p = std::path::Path::new(&uni::scratch_base()).join(format!("gv-c12-{}-{}", tag, std::process::id()));
		let _ = std::fs::remove_dir_all(&p);
		std::fs::create_dir_all(&p).expect("tmp dir");
		TmpDir(p)
	}
}
impl Drop for TmpDir {
	fn drop(&mut self) {
		let _ = std::fs::remove_dir_all(&self.0);
	}
}

const CHAIN_LEN: u32 = 10;
const REWARD_KEY: u32 = 99;

/// A real chain whose coinbases 1..=7 are the inputs of the universe; head at height 10.
fn build_chain(u: &Universe, dir: &TmpDir) -> (grin_chain::Chain, BlockHeader) {
	let gen = uni::genesis(&u.kc);
	let chain = uni::open_chain(&dir.0.join("chain"), &gen);
	let mut prev = gen.header.clone();
	for i in 1..=CHAIN_LEN {
		let b = uni::extend(&chain, &u.kc, &prev, &uni::BlockSpec::empty(i));
		prev = b.header.clone();
	}
	(chain, prev)
}

fn nonces() -> Vec<u64> {
	let mut v = vec![0, 1, u32::MAX as u64, u64::MAX];
	for i in 0..16u32 {
		v.push(le64(&blake(format!("c12/cb-nonce/{}", i).as_bytes())));
	}
	v
}

fn fixed_time(b: &mut Block, prev: &BlockHeader) {
	b.header.timestamp = prev.timestamp + chrono::Duration::seconds(60);
}

/// The compact block of `block` for a chosen nonce: `From<Block>` draws its nonce from
/// thread_rng, so the same conversion is redone here with the real `short_id` and the result
/// is passed through the real (de)serialisation, which re-checks order and uniqueness.
fn compact_with_nonce(block: &Block, real: &CompactBlock, nonce: u64) -> Result<CompactBlock, String> {
	let hh = block.header.hash();
	let mut ids: Vec<ShortId> = block.kernels().iter().filter(|k| !k.is_coinbase()).map(|k| k.short_id(&hh, nonce)).collect();
	ids.sort_unstable();
	let mut buf = ser::ser_vec(&block.header, V3).map_err(|e| format!("{:?}", e))?;
	buf.extend_from_slice(&nonce.to_be_bytes());
	for n in &[real.out_full().len(), real.kern_full().len(), ids.len()] {
		buf.extend_from_slice(&(*n as u64).to_be_bytes());
	}
	for o in real.out_full() {
		buf.extend(bytes_of(o));
	}
	for k in real.kern_full() {
		buf.extend(bytes_of(k));
	}
	for i in &ids {
		buf.extend(bytes_of(i));
	}
	ser::deserialize::<CompactBlock, _>(&mut &buf[..], V3, DeserializationMode::default()).map_err(|e| format!("compact block does not read back: {:?}", e))
}

struct HydrateCtx<'a> {
	u: &'a Universe,
	prev: BlockHeader,
	rewards: HashMap<u64, (Output, TxKernel)>,
	parts: std::rc::Rc<Vec<Vec<Vec<Vec<usize>>>>>,
	nonces: Vec<u64>,
	r: Report,
}

fn same_block(a: &Block, b: &Block, b_bytes: &[u8]) -> bool {
	a.header.hash() == b.header.hash() && bytes_of(a) == b_bytes && {
		let (x, y): (Vec<CommitWrapper>, Vec<CommitWrapper>) = (a.inputs().into(), b.inputs().into());
		x.len() == y.len() && x.iter().zip(y.iter()).all(|(p, q)| p.as_ref() == q.as_ref())
	} && a.outputs() == b.outputs() && a.kernels() == b.kernels()
}

impl<'a> HydrateCtx<'a> {
	fn reward(&mut self, fees: u64) -> (Output, TxKernel) {
		let kc = &self.u.kc;
		self.rewards.entry(fees).or_insert_with(|| uni::coinbase(kc, REWARD_KEY, fees)).clone()
	}

	fn bad(&mut self, key: &str, what: String, case: Value) {
		self.r.outcome(&format!("violation:{}", key));
		self.r.violation(key, what, case);
	}

	/// everything for one subset; `only` restricts to one (nonce, grouping) for replay
	fn subset(&mut self, set: &[usize], only: Option<(u64, &str)>) {
		let u = self.u;
		let txs: Vec<Transaction> = set.iter().map(|i| u.members[*i].tx.clone()).collect();
		let fees: u64 = set.iter().map(|i| u.members[*i].fee).sum();
		let (rout, rker) = self.reward(fees);
		let parts: Vec<&MTx> = set.iter().map(|i| &u.members[*i].m).collect();
		let exp = model_agg(&parts);
		let case0 = json!({"kind": "hydrate", "set": u.names(set), "txs": u.txs_json(set)});
		let desc = format!("Block::from_reward over [{}]", u.names(set));
		self.r.evaluations += 1;
		let mut block = match Block::from_reward(&self.prev, &txs, rout.clone(), rker.clone(), Difficulty::min_dma()) {
			Ok(b) => b,
			Err(e) => {
				if exp.dup {
					self.r.outcome(&format!("reject:from_reward:{}", err_class(&e)));
				} else if exp.sets.offset == ZERO && !exp.all_zero_offsets {
					self.bad("agg:zero-sum-offsets", format!("{}: operand offsets are non-zero and sum to zero mod n; expected a block, got Err({:?})", desc, e), case0);
				} else {
					self.bad("block:err", format!("{}: expected a block, got Err({:?})", desc, e), case0);
				}
				return;
			}
		};
		fixed_time(&mut block, &self.prev);
		if exp.dup {
			// conflicting transactions: whatever comes out must not be a valid block body
			match block.validate(&self.prev.total_kernel_offset) {
				Err(e) => self.r.outcome(&format!("reject:block-invalid:{}", err_class(&e))),
				Ok(_) => self.bad("block:conflict-accepted", format!("{}: conflicting transactions gave a block that validates", desc), case0),
			}
			return;
		}
		// the block against the model: body = aggregate + reward, header offset = prev + sum
		let mut want = exp.sets.clone();
		want.outs.push((c33(&rout.commitment()), bytes_of(&rout)));
		want.kers.push(bytes_of(&rker));
		want.outs.sort();
		want.kers.sort();
		want.offset = sc_add(&sc_from(self.prev.total_kernel_offset.as_ref()), &exp.sets.offset);
		let got = observe_body(block.inputs(), block.outputs(), block.kernels(), &block.header.total_kernel_offset);
		if let Some((k, w)) = diff(&got, &want) {
			self.bad(&format!("block:{}", k), format!("{}: {}", desc, w), case0);
			return;
		}
		if block.header.height != self.prev.height + 1 || block.header.prev_hash != self.prev.hash() {
			self.bad("block:header", format!("{}: height/prev_hash wrong", desc), case0);
			return;
		}
		let block_bytes = bytes_of(&block);
		// the block does not depend on the order the transactions are given in
		if only.is_none() {
			let mut order: Vec<usize> = (0..set.len()).collect();
			while next_perm(&mut order) {
				let p: Vec<Transaction> = order.iter().map(|i| txs[*i].clone()).collect();
				self.r.evaluations += 1;
				let same = match Block::from_reward(&self.prev, &p, rout.clone(), rker.clone(), Difficulty::min_dma()) {
					Ok(mut b) => {
						fixed_time(&mut b, &self.prev);
						same_block(&b, &block, &block_bytes)
					}
					Err(_) => false,
				};
				if !same {
					let names: Vec<usize> = order.iter().map(|i| set[*i]).collect();
					self.bad("block:order-dependent", format!("Block::from_reward over [{}] differs from the block over [{}]", u.names(&names), u.names(set)), case0.clone());
				}
			}
		}
		// the same transactions on top of a header whose running total of kernel offsets is exactly minus their sum
		// (the total comes back to zero), and on top of an unrelated non-zero total: a block must come out, with
		// the modelled total, and it must validate and hydrate back
		if only.is_none() && exp.sets.offset != ZERO {
			let unrelated = {
				let mut x = [0x11u8; 32];
				x[0] = 0x01;
				x
			};
			for (label, ptotal) in [("running-total-cancels", sc_neg(&exp.sets.offset)), ("running-total-unrelated", unrelated)] {
				let mut prev2 = self.prev.clone();
				prev2.total_kernel_offset = grin_keychain::BlindingFactor::from_slice(&ptotal);
				self.r.evaluations += 1;
				match Block::from_reward(&prev2, &txs, rout.clone(), rker.clone(), Difficulty::min_dma()) {
					Err(e) => self.bad(&format!("block:{}:err", label), format!("{} on a header whose total kernel offset is {}: expected a block, got Err({:?})", desc, if label.ends_with("cancels") { "minus the sum of the transactions' offsets" } else { "an unrelated non-zero value" }, e), case0.clone()),
					Ok(mut b2) => {
						fixed_time(&mut b2, &prev2);
						let want_total = sc_add(&ptotal, &exp.sets.offset);
						let got_total = sc_from(b2.header.total_kernel_offset.as_ref());
						if got_total != want_total {
							self.bad(&format!("block:{}:offset", label), format!("{}: header total kernel offset {} expected {}", desc, hex(&got_total), hex(&want_total)), case0.clone());
						} else if let Err(e) = b2.validate(&prev2.total_kernel_offset) {
							// the reference does not model block weight: five-transaction sets exceed the
							// AutomatedTesting limit, and the same body is refused on the plain header too
							if format!("{:?}", e).contains("TooHeavy") && block.validate(&self.prev.total_kernel_offset).is_err() {
								self.r.outcome(&format!("block:{}:too-heavy-for-test-limit", label));
								continue;
							}
							self.bad(&format!("block:{}:invalid", label), format!("{}: the block built on that header does not validate against it: {:?}", desc, e), case0.clone());
						} else {
							let cb = CompactBlock::from(b2.clone());
							match Block::hydrate_from(cb, &txs) {
								Ok(h) if same_block(&h, &b2, &bytes_of(&b2)) => self.r.outcome(&format!("block:{}:ok", label)),
								Ok(_) => self.bad(&format!("block:{}:hydrate-differs", label), format!("{}: hydrating its compact form gives another block", desc), case0.clone()),
								Err(e) => self.bad(&format!("block:{}:hydrate-err", label), format!("{}: hydrate_from = {:?}", desc, e), case0.clone()),
							}
						}
					}
				}
			}
		}
		// aggregates of every non-empty group of members (what a pool may hold instead of singles)
		let k = set.len();
		let mut group_tx: Vec<Option<Transaction>> = vec![None; 1 << k];
		for mask in 1..(1usize << k) {
			let g: Vec<Transaction> = (0..k).filter(|b| mask >> b & 1 == 1).map(|b| txs[b].clone()).collect();
			group_tx[mask] = transaction::aggregate(&g).ok();
		}
		// the real conversion (random nonce), then the chosen nonces
		let real = CompactBlock::from(block.clone());
		let mut cbs: Vec<(Option<u64>, CompactBlock)> = vec![];
		if only.is_none() {
			cbs.push((None, real.clone()));
		}
		for n in self.nonces.clone() {
			if only.map(|o| o.0 == n).unwrap_or(true) {
				match compact_with_nonce(&block, &real, n) {
					Ok(cb) => cbs.push((Some(n), cb)),
					Err(e) => self.bad("cb:readback", format!("compact block of [{}] nonce {}: {}", u.names(set), n, e), case0.clone()),
				}
			}
		}
		let hh = block.header.hash();
		let control_done = std::cell::Cell::new(false);
		for (chosen, cb) in &cbs {
			let nonce = cb.nonce;
			let case = json!({"kind": "hydrate", "set": u.names(set), "nonce": nonce.to_string(), "nonce_from_impl": chosen.is_none(), "txs": u.txs_json(set)});
			// shape: reward output and kernel in full, one short id per transaction kernel
			let mut want_ids: Vec<[u8; 6]> = vec![];
			for i in set {
				for kk in u.members[*i].tx.kernels() {
					want_ids.push(ref_short_id(hh.as_bytes(), nonce, kk.hash().as_bytes()));
				}
			}
			want_ids.sort();
			let mut got_ids: Vec<[u8; 6]> = cb.kern_ids().iter().map(|i| {
				let mut x = [0u8; 6];
				x.copy_from_slice(i.as_ref());
				x
			}).collect();
			got_ids.sort();
			if got_ids != want_ids || has_dup(&want_ids) {
				self.bad("cb:short-ids", format!("compact block of [{}] nonce {}: kern_ids {:?} expected {:?}", u.names(set), nonce, got_ids.iter().map(|x| hex(x)).collect::<Vec<_>>(), want_ids.iter().map(|x| hex(x)).collect::<Vec<_>>()), case.clone());
				continue;
			}
			if cb.header.hash() != hh || cb.out_full().len() != 1 || cb.out_full()[0] != rout || bytes_of(&cb.out_full()[0]) != bytes_of(&rout) || cb.kern_full().len() != 1 || bytes_of(&cb.kern_full()[0]) != bytes_of(&rker) {
				self.bad("cb:shape", format!("compact block of [{}] nonce {}: header / full reward output / full reward kernel wrong", u.names(set), nonce), case.clone());
				continue;
			}
			// the receiver picks from its pool (the whole universe) by short id: exactly `set`
			let picked: Vec<usize> = (0..u.members.len()).filter(|i| u.members[*i].tx.kernels().iter().any(|kk| cb.kern_ids().contains(&kk.short_id(&hh, nonce)))).collect();
			if picked != set {
				self.bad("cb:selection", format!("compact block of [{}] nonce {}: short ids select [{}] from the pool", u.names(set), nonce, u.names(&picked)), case.clone());
				continue;
			}
			let parts = self.parts.clone();
			for part in &parts[k] {
				let gname = part.iter().map(|g| g.iter().map(|e| u.members[set[*e]].name).collect::<Vec<_>>().join("+")).collect::<Vec<_>>().join("|");
				if let Some((_, g)) = only {
					if g != gname {
						continue;
					}
				}
				let mut ops = vec![];
				let mut blocked = false;
				for g in part {
					let mask = g.iter().fold(0usize, |m, e| m | 1 << e);
					match &group_tx[mask] {
						Some(t) => ops.push(t.clone()),
						None => blocked = true,
					}
				}
				if blocked {
					// a group of the partition has no aggregate (judged in part `aggregate`)
					self.r.outcome("skipped:group-not-aggregable");
					continue;
				}
				self.r.evaluations += 1;
				self.r.distinct += 1;
				let mut c = case.clone();
				c["groups"] = json!(gname);
				match Block::hydrate_from(cb.clone(), &ops) {
					Ok(b) => {
						if same_block(&b, &block, &block_bytes) {
							let repr = b.body == block.body;
							self.r.outcome(if repr { "accept:identical" } else { "accept:identical-content(inputs-variant-differs)" });
						} else {
							let d = diff(&observe_body(b.inputs(), b.outputs(), b.kernels(), &b.header.total_kernel_offset), &got).map(|x| x.1).unwrap_or_else(|| "header or byte encoding differs".into());
							self.bad("hydrate:not-identical", format!("hydrate_from(compact([{}]), groups {}) nonce {}: not the original block: {}", u.names(set), gname, nonce, d), c);
						}
					}
					Err(e) => self.bad("hydrate:err", format!("hydrate_from(compact([{}]), groups {}) nonce {}: Err({:?})", u.names(set), gname, nonce, e), c),
				}
			}
			// the same singles as a protocol v2 peer holds them (features-and-commit inputs)
			if k >= 1 && only.map(|o| o.1 == "v2-singles").unwrap_or(true) {
				let ops: Vec<Transaction> = set.iter().map(|i| u.members[*i].tx_alt.clone()).collect();
				self.r.evaluations += 1;
				self.r.distinct += 1;
				let mut c = case.clone();
				c["groups"] = json!("v2-singles");
				match Block::hydrate_from(cb.clone(), &ops) {
					Ok(b) if same_block(&b, &block, &block_bytes) => self.r.outcome("accept:identical(from features-and-commit inputs)"),
					Ok(_) => self.bad("hydrate:not-identical", format!("hydrate_from(compact([{}]), singles with features-and-commit inputs) nonce {}: not the original block", u.names(set), nonce), c),
					Err(e) => self.bad("hydrate:err", format!("hydrate_from(compact([{}]), singles with features-and-commit inputs) nonce {}: Err({:?})", u.names(set), nonce, e), c),
				}
			}
			// control: with one transaction withheld the result must differ (comparison is sensitive)
			if !control_done.get() && k >= 1 && only.is_none() {
				control_done.set(true);
				self.r.evaluations += 1;
				match Block::hydrate_from(cb.clone(), &txs[1..]) {
					Ok(b) if same_block(&b, &block, &block_bytes) => self.bad("hydrate:control", format!("hydrating [{}] without {} still gives the identical block", u.names(set), u.members[set[0]].name), case.clone()),
					Ok(_) => self.r.outcome("control:withheld-tx-differs"),
					Err(e) => self.r.outcome(&format!("control:withheld-tx-err:{}", err_class(&e))),
				}
			}
		}
		if self.r.samples.len() < 2 && k == 3 {
			self.r.sample(json!({"set": u.names(set), "block": hex(hh.as_bytes()), "inputs": got.ins.len(), "outputs": got.outs.len(), "kernels": got.kers.len(), "kern_ids_nonce0": cbs.iter().find(|c| c.0 == Some(0)).map(|c| c.1.kern_ids().iter().map(|i| hex(i.as_ref())).collect::<Vec<_>>()), "groupings": self.parts[k].len(), "nonces": cbs.len()}));
		}
	}
}

fn part_hydrate(tier: Tier, shard: usize, n: usize) -> Report {
	let u = Universe::build();
	let prev = match u.head.clone() {
		Some(h) => h,
		None => {
			let dir = TmpDir::new("hydrate");
			build_chain(&u, &dir).1
		}
	};
	let max = tier.pick(4, 5);
	let mut h = HydrateCtx {
		u: &u,
		prev,
		rewards: HashMap::new(),
		parts: std::rc::Rc::new((0..=max).map(ordered_partitions).collect()),
		nonces: nonces(),
		r: Report::new(),
	};
	let mut subsets = 0u64;
	for set in multisets(u.members.len(), max, true).iter() {
		// pairs and singles are run by every shard (smallest failing input per key), counted by their owner
		if owner_of(set, n) == shard {
			subsets += 1;
			h.subset(set, None);
		} else if set.len() <= 2 {
			let saved = std::mem::replace(&mut h.r, Report::new());
			h.subset(set, None);
			let tmp = std::mem::replace(&mut h.r, saved);
			for v in tmp.violations {
				h.r.violation(v.key, v.what, v.case);
			}
		}
	}
	h.r.extra.insert("bound_subset_size".into(), json!(max));
	h.r.extra.insert("subsets".into(), json!(subsets));
	h.r.extra.insert("max_nonces_per_subset".into(), json!(h.nonces.len() + 1));
	h.r
}

// ------------------------------------------------------------------------------------------
// part: universe  (the generator is what it claims to be)
// ------------------------------------------------------------------------------------------
fn part_universe(_tier: Tier) -> Report {
	let u = Universe::build_fresh();
	let mut r = Report::new();
	// every member validates on its own and has the openings the model says (asserted in build)
	for m in &u.members {
		r.evaluations += 1;
		r.distinct += 1;
		match m.tx.validate(Weighting::AsTransaction) {
			Ok(_) => r.outcome("member-valid"),
			Err(e) => panic!("universe member {} does not validate: {:?}", m.name, e),
		}
		assert!(m.tx_alt.validate(Weighting::AsTransaction).is_ok());
		assert_eq!(observe(&m.tx), Sets { ins: m.m.ins.clone(), outs: m.m.outs.clone(), kers: m.m.kers.clone(), offset: m.m.offset });
	}
	let off = |n: &str| u.members[u.idx(n).unwrap()].m.offset;
	assert_eq!(off("G"), ZERO);
	assert_eq!(sc_add(&off("A"), &off("H")), ZERO);
	assert!(off("A") != ZERO && off("B") != ZERO);
	// a second build is byte-identical (replay relies on it)
	// (against what an earlier process left in the cache file if there is one, else a rebuild)
	let other: Vec<Transaction> = match cache_read() {
		Some((txs, _)) if txs.len() == u.members.len() => txs,
		_ => Universe::build_fresh().members.into_iter().map(|m| m.tx).collect(),
	};
	for (a, b) in u.members.iter().zip(other.iter()) {
		assert_eq!(strict_bytes(&a.tx), strict_bytes(b), "universe is not deterministic (or a stale {:?})", cache_path());
	}
	// scalar arithmetic of the harness against the library, on the members' offsets
	{
		let secp = grin_util::static_secp_instance();
		let secp = secp.lock();
		let ks: Vec<SecretKey> = ["A", "B", "C", "D"].iter().map(|n| SecretKey::from_slice(&secp, &off(n)).unwrap()).collect();
		let lib = secp.blind_sum(vec![ks[0].clone(), ks[1].clone(), ks[2].clone()], vec![ks[3].clone()]).unwrap();
		let mine = sc_sub(&sc_add(&sc_add(&off("A"), &off("B")), &off("C")), &off("D"));
		assert_eq!(lib.0, mine, "harness scalar arithmetic");
	}
	// on a real chain: blocks [A,B,C,D] then [E,F,G,H], and the sibling block [A,B,X], are all
	// accepted (inputs exist and are mature, cut-through, NRD and lock height in order)
	let dir = TmpDir::new("universe");
	let (chain, head) = build_chain(&u, &dir);
	// the workers of the other parts take the universe and the chain head from here
	cache_write(&u, &head);
	let mut prev = head.clone();
	for (names, key, on_head) in &[("A,B,C,D", 50u32, true), ("E,F,G,H", 51u32, false), ("A,B,X", 52u32, true)] {
		let set: Vec<usize> = names.split(',').map(|n| u.idx(n).unwrap()).collect();
		let txs: Vec<Transaction> = set.iter().map(|i| u.members[*i].tx.clone()).collect();
		r.evaluations += 1;
		r.distinct += 1;
		let parent = if *on_head { head.clone() } else { prev.clone() };
		let res = uni::build_block(&chain, &u.kc, &parent, &uni::BlockSpec::with(*key, txs)).and_then(|b| chain.process_block(b.clone(), Options::NONE).map(|_| b).map_err(|e| format!("process_block: {:?}", e)));
		match res {
			Ok(b) => {
				prev = b.header.clone();
				r.outcome("chain-accepts-block")
			}
			// the members validate on their own (above), so a refusal points at the block assembly
			// (Block::from_reward -> aggregate) or at the harness: reported, not fatal
			Err(e) => {
				r.outcome("violation:universe:block-refused");
				r.violation("universe:block-refused", format!("the block Block::from_reward builds over [{}] on a real chain (inputs exist and are mature) is refused: {}", names, e), json!({"kind": "universe", "set": names}));
			}
		}
	}
	r.sample(json!({"members": u.members.iter().map(|m| json!({"name": m.name, "inputs": m.m.ins.len(), "outputs": m.m.outs.len(), "kernels": m.m.kers.len(), "offset": hex(&m.m.offset), "hash": hex(m.tx.hash().as_bytes())})).collect::<Vec<_>>(), "chain_head_height": head.height}));
	r.extra.insert("members".into(), json!(u.members.len()));
	r
}

// ------------------------------------------------------------------------------------------
impl Engine for C12 {
	fn id(&self) -> &'static str {
		"C12"
	}
	fn meta(&self, tier: Tier) -> Meta {
		let (q, s, d, h) = (tier.pick(4, 5), tier.pick(4, 6), tier.pick(4, 6), tier.pick(4, 5));
		let rule: &'static str = Box::leak(format!(
			"exhaustive enumeration over a universe of 9 valid transactions with known openings (A B independent; C spends an output of A; D spends outputs of A and B; E two kernels Plain+NRD; F height-locked; G zero offset; H offset = -offset(A); X spends the same output of A as C). \
			aggregate: every sub-multiset (repetition allowed) of size <= {}, every distinct permutation, every bracketing (1,3,11,45 per size), every inner node judged; subsets up to size {} beyond that bound with every permutation aggregated flat and every bracketing (197) of the canonical order; plus the same expression over features-and-commit inputs for the canonical order, plus cut_through on every permutation. \
			deaggregate: every subset of size 2..={} whose members do not spend each other, every proper sub-subset as known set (empty included), every order of it. \
			hydrate: every subset of size <= {}, every order for from_reward, compact block with the implementation's own nonce and with nonces {{0,1,2^32-1,2^64-1}} + 16 fixed, every ordered set partition of the subset with each group aggregated. \
			A case is one (expression | (set, known order) | (set, nonce, grouping)); all generated cases are distinct by construction. Oracle: multiset model over the openings (inputs/outputs = union minus matched pairs, kernels = union, offset = sum mod n on harness scalars), validate() of every distinct result, equality of all orders/groupings.",
			q, s, d, h
		).into_boxed_str());
		Meta {
			level: "exploration",
			rule,
			assumptions: vec![
				"operands whose multiset result still holds a duplicate input, output or kernel (repeated or double-spending transactions) have no valid aggregate: there the oracle is refusal (aggregate must not hand out a transaction, valid or not); Block::from_reward over such a set may refuse or give a block that does not validate".into(),
				"the empty multiset aggregates to the empty transaction; validity is only required of non-empty results".into(),
				"de-aggregation is only judged for sets whose members do not spend each other's outputs (as the property says)".into(),
				"From<Block> for CompactBlock draws its nonce from thread_rng: it is exercised with whatever nonce it draws (the verdict does not depend on the value), and for the chosen nonces the same conversion is rebuilt with the real short_id and read back through the real CompactBlock deserialiser; short ids are also compared with a SipHash-2-4/blake2b reference written in the harness".into(),
				"a transaction / block is identified by its content (commitments, full outputs, full kernels, offset, header hash, v3 byte encoding); the Inputs enum variant (with or without the features byte) is representation, reported as its own outcome class".into(),
				"validate() is context free and run with Weighting::NoLimit (weight limits are node policy: AutomatedTesting caps a transaction at 226 weight units, which 5 members can exceed); validity on a chain is shown for the universe itself in part universe".into(),
			],
			exhaustive: true,
		}
	}
	fn parts(&self, _tier: Tier) -> Vec<(&'static str, usize)> {
		vec![("universe", 1), ("aggregate", 16), ("deaggregate", 16), ("hydrate", 16)]
	}
	fn run_part(&self, part: &str, tier: Tier, shard: usize, n: usize) -> Report {
		uni::init_thread();
		match part {
			"universe" => part_universe(tier),
			"aggregate" => part_aggregate(tier, shard, n),
			"deaggregate" => part_deaggregate(tier, shard, n),
			"hydrate" => part_hydrate(tier, shard, n),
			_ => panic!("unknown part"),
		}
	}
	fn replay(&self, case: &Value) -> Result<String, String> {
		uni::init_thread();
		let u = Universe::build_fresh();
		// the recorded inputs are the ones rebuilt here?
		let mut same_inputs = true;
		if let Some(t) = case["txs"].as_object() {
			for (name, v) in t {
				let i = u.idx(name).ok_or(format!("unknown member {}", name))?;
				let want = unhex(v["hex"].as_str().unwrap_or(""));
				let ver = if v["protocol"].as_u64() == Some(2) { V2 } else { V3 };
				same_inputs &= ser::ser_vec(&u.members[i].tx, ver).map(|b| b == want).unwrap_or(false);
			}
		}
		if !same_inputs {
			return Ok("MACHINERY: the rebuilt universe differs from the recorded transactions".into());
		}
		let set_of = |s: &str| -> Result<Vec<usize>, String> {
			if s.is_empty() {
				return Ok(vec![]);
			}
			s.split(',').map(|n| u.idx(n).ok_or(format!("unknown member {}", n))).collect()
		};
		match case["kind"].as_str().unwrap_or("") {
			"agg" => {
				let e = case["expr"].as_str().unwrap_or("");
				let mut run = AggRun { j: Judge::new(&u), r: Report::new() };
				if e == "()" {
					return match run.j.agg_node(&[], "aggregate([])", &transaction::aggregate(&[])) {
						Verdict::Bad(k, w) => Err(format!("{} :: {}", k, w)),
						v => Ok(format!("{:?}", v)),
					};
				}
				let (seq, tree) = parse_expr(&u, e).ok_or("bad expr")?;
				// the flat aggregate in sorted order first: the reference for order/grouping equality
				let mut ms = seq.clone();
				ms.sort();
				if ms.len() >= 2 {
					let flat = Tree::Node((0..ms.len()).map(Tree::Leaf).collect());
					run.expr(&ms, &flat, false);
				}
				match run.expr(&seq, &tree, case["features_and_commit_inputs"].as_bool().unwrap_or(false)) {
					Verdict::Bad(k, w) => Err(format!("{} :: {}", k, w)),
					v => match run.r.violations.first() {
						Some(x) => Err(format!("{} :: {}", x.key, x.what)),
						None => Ok(format!("{} -> {:?}", e, v)),
					},
				}
			}
			"cut" => {
				let seq = set_of(case["seq"].as_str().unwrap_or(""))?;
				let mut run = AggRun { j: Judge::new(&u), r: Report::new() };
				run.cut(&seq);
				match run.r.violations.first() {
					Some(x) => Err(format!("{} :: {}", x.key, x.what)),
					None => Ok(format!("cut_through over [{}]: {:?}", u.names(&seq), run.r.outcomes)),
				}
			}
			"deagg" => {
				let set = set_of(case["set"].as_str().unwrap_or(""))?;
				let known = set_of(case["known"].as_str().unwrap_or(""))?;
				let mut j = Judge::new(&u);
				match deagg_case(&mut j, &set, &known) {
					(Verdict::Bad(k, w), _) => Err(format!("{} :: {}", k, w)),
					(v, c) => Ok(format!("{:?} ({})", v, c)),
				}
			}
			"hydrate" => {
				let set = set_of(case["set"].as_str().unwrap_or(""))?;
				let dir = TmpDir::new("replay");
				let (chain, prev) = build_chain(&u, &dir);
				drop(chain);
				let mut h = HydrateCtx {
					u: &u,
					prev,
					rewards: HashMap::new(),
					parts: std::rc::Rc::new((0..=set.len()).map(ordered_partitions).collect()),
					nonces: nonces(),
					r: Report::new(),
				};
				let nonce: Option<u64> = case["nonce"].as_str().and_then(|s| s.parse().ok());
				let from_impl = case["nonce_from_impl"].as_bool().unwrap_or(false);
				match (nonce, case["groups"].as_str()) {
					(Some(n), Some(g)) if !from_impl => {
						if !h.nonces.contains(&n) {
							h.nonces.push(n);
						}
						h.subset(&set, Some((n, g)))
					}
					_ => h.subset(&set, None),
				}
				match h.r.violations.first() {
					Some(x) => Err(format!("{} :: {}", x.key, x.what)),
					None => Ok(format!("hydrate [{}]: {:?}", u.names(&set), h.r.outcomes)),
				}
			}
			k => Ok(format!("no replay for kind {:?}", k)),
		}
	}
}
