//! C11 — Decoding untrusted bytes never panics, aborts, hangs or over-allocates.
//!
//! Bounded-exhaustive, structure-aware mutation space over every decoder reachable from the
//! network / API. Every case runs in a supervised worker *process* (catch_unwind, counting
//! allocator, 2 s watchdog, 1 GiB RLIMIT_AS); a worker that dies is a violation attributed to
//! the case it was running (case index kept in a shared-memory page).
use crate::alloc;
use crate::ev::{hex, unhex, Report, Tier};
use crate::uni;
use crate::{Engine, Meta};
use bytes::Bytes;
use chrono::Duration;
use grin_chain::txhashset::{BitmapAccumulator, BitmapChunk, BitmapSegment};
use grin_core::core::hash::{Hash, Hashed};
use grin_core::core::id::ShortIdentifiable;
use grin_core::core::merkle_proof::MerkleProof;
use grin_core::core::pmmr::{ReadablePMMR, ReadonlyPMMR, VecBackend, PMMR};
use grin_core::core::{
	Block, BlockHeader, CommitWrapper, HeaderVersion, Input, Inputs, KernelFeatures, NRDRelativeHeight, OutputFeatures,
	OutputIdentifier, Segment, SegmentError, SegmentIdentifier, Transaction, TxKernel,
	UntrustedBlock, UntrustedBlockHeader, UntrustedCompactBlock,
};
use grin_core::pow::Difficulty;
use grin_core::ser::{
	self, BufReader, DeserializationMode, PMMRIndexHashable, ProtocolVersion, Readable,
	SerializationMode, Writeable, Writer,
};
use grin_core::{consensus, global};
use grin_p2p::msg::{
	self, BanReason, GetPeerAddrs, Hand, Headers, Locator, Message, MsgHeader,
	OutputBitmapSegmentResponse, OutputSegmentResponse, PeerAddrs, Ping, Pong, SegmentRequest,
	SegmentResponse, Shake, TxHashSetArchive, TxHashSetRequest, Type,
};
use grin_p2p::types::{Capabilities, PeerAddr, ReasonForBan};
use grin_p2p::verif_export::Codec;
use grin_util::secp::pedersen::RangeProof;
use serde_derive::{Deserialize, Serialize};
use serde_json::{json, Value};
use std::cell::{Cell, RefCell};
use std::collections::{HashMap, HashSet};
use std::io::{BufRead, Write};
use std::os::unix::io::{FromRawFd, IntoRawFd};
use std::panic::{catch_unwind, AssertUnwindSafe};
use std::sync::atomic::{AtomicU64, Ordering};
use std::sync::{Arc, Mutex};

pub struct C11;

const VERSIONS: [u32; 4] = [1, 2, 3, 1000];
const WATCHDOG_MS: u128 = 2000;
const WATCHDOG_WALL_MS: u128 = 120_000;
const RLIMIT_AS_BYTES: u64 = 1 << 30;

/// the oracle's allocation bound: largest single request <= 16 * len + 128 KiB.
/// The additive constant covers the format's documented fixed cap for one field
/// (`read_fixed_bytes`: 100 000 bytes, named as the mechanism in the property's anchors); a
/// first version used 64 KiB and flagged Hand/Shake user-agent reads of 99 999 bytes, which
/// was the oracle demanding more than the property (see DESIGN.md, false alarms).
fn alloc_limit(len: usize) -> usize {
	16 * len + 128 * 1024
}

// ------------------------------------------------------------------------------------------
// Structure map: a Writer that records where every primitive write lands
// ------------------------------------------------------------------------------------------

#[derive(Clone, Debug, Serialize, Deserialize)]
struct Fld {
	off: u32,
	w: u8,
}

/// One encoding with its structure map. `ints` = integer fields (u8/u16/u32/i32/u64/i64 writes,
/// which includes every length / count / identifier / tag field), `bounds` = start offset of
/// every primitive write (field boundaries). For `hex` encodings `bytes` is the ASCII hex text
/// and `ints`/`bounds` are still in *binary* offsets (text offset = 2 * binary offset).
#[derive(Clone, Debug, Serialize, Deserialize)]
struct Enc {
	bytes: Vec<u8>,
	ints: Vec<Fld>,
	bounds: Vec<u32>,
	hex: bool,
}

impl Enc {
	fn append(&mut self, o: &Enc) {
		let sh = self.bytes.len() as u32;
		self.bytes.extend_from_slice(&o.bytes);
		self.ints.extend(o.ints.iter().map(|f| Fld { off: f.off + sh, w: f.w }));
		self.bounds.extend(o.bounds.iter().map(|b| b + sh));
	}
	fn to_hex(&self) -> Enc {
		Enc {
			bytes: hex(&self.bytes).into_bytes(),
			ints: self.ints.clone(),
			bounds: self.bounds.clone(),
			hex: true,
		}
	}
	/// field boundaries in units of `bytes`
	fn text_bounds(&self) -> Vec<u32> {
		let m = if self.hex { 2 } else { 1 };
		let mut v: Vec<u32> = self.bounds.iter().map(|b| b * m).collect();
		v.dedup();
		v
	}
	/// offsets (in `bytes`) of all bytes that belong to an integer field
	fn structural(&self) -> Vec<u32> {
		let m = if self.hex { 2 } else { 1 };
		let mut v = vec![];
		for f in &self.ints {
			for k in 0..(f.w as u32 * m) {
				v.push(f.off * m + k);
			}
		}
		v.sort();
		v.dedup();
		v
	}
	fn field_value(&self, f: &Fld) -> u64 {
		let raw: Vec<u8> = if self.hex {
			unhex(std::str::from_utf8(&self.bytes[2 * f.off as usize..2 * (f.off as usize + f.w as usize)]).unwrap())
		} else {
			self.bytes[f.off as usize..f.off as usize + f.w as usize].to_vec()
		};
		raw.iter().fold(0u64, |a, b| (a << 8) | *b as u64)
	}
	fn set_field(&self, out: &mut Vec<u8>, f: &Fld, val: u64) {
		out.clear();
		out.extend_from_slice(&self.bytes);
		let be = val.to_be_bytes();
		let raw = &be[8 - f.w as usize..];
		if self.hex {
			let h = hex(raw).into_bytes();
			out[2 * f.off as usize..2 * (f.off as usize + f.w as usize)].copy_from_slice(&h);
		} else {
			out[f.off as usize..f.off as usize + f.w as usize].copy_from_slice(raw);
		}
	}
}

struct Rec {
	v: ProtocolVersion,
	e: Enc,
}

impl Rec {
	fn new(v: u32) -> Rec {
		Rec {
			v: ProtocolVersion(v),
			e: Enc { bytes: vec![], ints: vec![], bounds: vec![], hex: false },
		}
	}
	fn int(&mut self, w: u8, be: &[u8]) -> Result<(), ser::Error> {
		let off = self.e.bytes.len() as u32;
		self.e.ints.push(Fld { off, w });
		self.e.bounds.push(off);
		self.e.bytes.extend_from_slice(be);
		Ok(())
	}
}

impl Writer for Rec {
	fn serialization_mode(&self) -> SerializationMode {
		SerializationMode::Full
	}
	fn protocol_version(&self) -> ProtocolVersion {
		self.v
	}
	fn write_u8(&mut self, n: u8) -> Result<(), ser::Error> {
		self.int(1, &[n])
	}
	fn write_u16(&mut self, n: u16) -> Result<(), ser::Error> {
		self.int(2, &n.to_be_bytes())
	}
	fn write_u32(&mut self, n: u32) -> Result<(), ser::Error> {
		self.int(4, &n.to_be_bytes())
	}
	fn write_i32(&mut self, n: i32) -> Result<(), ser::Error> {
		self.int(4, &n.to_be_bytes())
	}
	fn write_u64(&mut self, n: u64) -> Result<(), ser::Error> {
		self.int(8, &n.to_be_bytes())
	}
	fn write_i64(&mut self, n: i64) -> Result<(), ser::Error> {
		self.int(8, &n.to_be_bytes())
	}
	fn write_fixed_bytes<T: AsRef<[u8]>>(&mut self, bytes: T) -> Result<(), ser::Error> {
		let b = bytes.as_ref();
		if !b.is_empty() {
			self.e.bounds.push(self.e.bytes.len() as u32);
			self.e.bytes.extend_from_slice(b);
		}
		Ok(())
	}
}

fn enc<W: Writeable>(v: u32, w: &W) -> Enc {
	let mut r = Rec::new(v);
	w.write(&mut r).expect("seed serialisation");
	r.e
}

// ------------------------------------------------------------------------------------------
// Catalogue: seeds (valid encodings with structure map) and the validation context
// ------------------------------------------------------------------------------------------

#[derive(Clone, Debug, Serialize, Deserialize)]
struct Seed {
	/// decoder family the encoding is valid for ("Ping", "Block", "frame:Ping", "hex:MerkleProof" ...)
	kind: String,
	label: String,
	v: u32,
	enc: Enc,
}

/// What the Desegmenter would hold when `add_*_segment` is called: sizes and roots of the
/// archive header plus the unspent bitmap.
#[derive(Clone, Debug, Serialize, Deserialize)]
struct Ctx {
	k_size: u64,
	k_root: String,
	o_size: u64,
	o_pmmr_root: String,
	r_root: String,
	bitmap: Vec<u32>,
	bm_size: u64,
	bm_root: String,
	header_output_root: String,
}

#[derive(Clone, Debug, Serialize, Deserialize)]
struct Explicit {
	subject: String,
	v: u32,
	input: Vec<u8>,
}

#[derive(Clone, Debug, Serialize, Deserialize)]
struct Cat {
	seeds: Vec<Seed>,
	ctx: Ctx,
	explicit: Vec<Explicit>,
	/// generator-side caps derived from the configured consensus limits
	weight_caps: Vec<u64>,
}

fn h32(tag: u8, i: u32) -> Hash {
	let mut v = [tag; 32];
	v[28..].copy_from_slice(&i.to_be_bytes());
	Hash::from_vec(&v)
}

fn fake_rangeproof(i: u32) -> RangeProof {
	let mut p = [0u8; 675];
	for (k, b) in p.iter_mut().enumerate() {
		*b = (k as u32).wrapping_mul(31).wrapping_add(i.wrapping_mul(7)) as u8;
	}
	RangeProof { proof: p, plen: 675 }
}

fn build_mmr<T: ser::PMMRable>(elems: &[T]) -> VecBackend<T> {
	let mut ba = VecBackend::<T>::new();
	{
		let mut p = PMMR::new(&mut ba);
		for e in elems {
			p.push(e).expect("push");
		}
	}
	ba
}

fn seg_of<T>(ba: &VecBackend<T>, h: u8, idx: u64, prunable: bool) -> Segment<T::E>
where
	T: ser::PMMRable,
	T::E: Readable + Writeable + std::fmt::Debug,
{
	let p = ReadonlyPMMR::at(ba, ba.size());
	Segment::from_pmmr(SegmentIdentifier { height: h, idx }, &p, prunable).expect("from_pmmr")
}

/// drop the leaves at the given 0-based positions from a segment (as a pruned backend would)
fn prune_leaves<T>(s: Segment<T>, drop: &[u64]) -> Segment<T> {
	let (id, hp, hs, lp, ld, proof) = s.parts();
	let mut nlp = vec![];
	let mut nld = vec![];
	for (p, d) in lp.into_iter().zip(ld.into_iter()) {
		if !drop.contains(&p) {
			nlp.push(p);
			nld.push(d);
		}
	}
	Segment::from_parts(id, hp, hs, nlp, nld, proof)
}

fn compact_enc(v: u32, b: &Block, nonce: u64) -> Enc {
	let mut r = Rec::new(v);
	b.header.write(&mut r).unwrap();
	r.write_u64(nonce).unwrap();
	let out_full: Vec<_> = b.outputs().iter().filter(|o| o.is_coinbase()).cloned().collect();
	let kern_full: Vec<_> = b.kernels().iter().filter(|k| k.is_coinbase()).cloned().collect();
	let mut ids: Vec<_> = b
		.kernels()
		.iter()
		.filter(|k| !k.is_coinbase())
		.map(|k| k.short_id(&b.hash(), nonce))
		.collect();
	ids.sort();
	r.write_u64(out_full.len() as u64).unwrap();
	r.write_u64(kern_full.len() as u64).unwrap();
	r.write_u64(ids.len() as u64).unwrap();
	out_full.write(&mut r).unwrap();
	kern_full.write(&mut r).unwrap();
	ids.write(&mut r).unwrap();
	r.e
}

const MSG_TYPES: [(u8, &str, &str); 25] = [
	(3, "Ping", "Ping"),
	(4, "Pong", "Ping"),
	(5, "GetPeerAddrs", "GetPeerAddrs"),
	(6, "PeerAddrs", "PeerAddrs"),
	(7, "GetHeaders", "Locator"),
	(8, "Header", "Header"),
	(10, "GetBlock", "Hash"),
	(11, "Block", "Block"),
	(12, "GetCompactBlock", "Hash"),
	(13, "CompactBlock", "CompactBlock"),
	(14, "StemTransaction", "Transaction"),
	(15, "Transaction", "Transaction"),
	(16, "TxHashSetRequest", "TxHashSetRequest"),
	(17, "TxHashSetArchive", "TxHashSetArchive"),
	(18, "BanReason", "BanReason"),
	(19, "GetTransaction", "Hash"),
	(20, "TransactionKernel", "Hash"),
	(21, "GetOutputBitmapSegment", "SegmentRequest"),
	(22, "OutputBitmapSegment", "OutputBitmapSegmentResponse"),
	(23, "GetOutputSegment", "SegmentRequest"),
	(24, "OutputSegment", "OutputSegmentResponse"),
	(25, "GetRangeProofSegment", "SegmentRequest"),
	(26, "RangeProofSegment", "RangeProofSegmentResponse"),
	(27, "GetKernelSegment", "SegmentRequest"),
	(28, "KernelSegment", "KernelSegmentResponse"),
];

fn type_of(code: u8) -> Type {
	use num_from::from_u8;
	from_u8(code)
}

mod num_from {
	use grin_p2p::msg::Type;
	pub fn from_u8(c: u8) -> Type {
		match c {
			0 => Type::Error,
			1 => Type::Hand,
			2 => Type::Shake,
			3 => Type::Ping,
			4 => Type::Pong,
			5 => Type::GetPeerAddrs,
			6 => Type::PeerAddrs,
			7 => Type::GetHeaders,
			8 => Type::Header,
			9 => Type::Headers,
			10 => Type::GetBlock,
			11 => Type::Block,
			12 => Type::GetCompactBlock,
			13 => Type::CompactBlock,
			14 => Type::StemTransaction,
			15 => Type::Transaction,
			16 => Type::TxHashSetRequest,
			17 => Type::TxHashSetArchive,
			18 => Type::BanReason,
			19 => Type::GetTransaction,
			20 => Type::TransactionKernel,
			21 => Type::GetOutputBitmapSegment,
			22 => Type::OutputBitmapSegment,
			23 => Type::GetOutputSegment,
			24 => Type::OutputSegment,
			25 => Type::GetRangeProofSegment,
			26 => Type::RangeProofSegment,
			27 => Type::GetKernelSegment,
			28 => Type::KernelSegment,
			_ => panic!("no such message type"),
		}
	}
}

fn frame(v: u32, code: u8, body: &Enc) -> Enc {
	let mut e = enc(v, &MsgHeader::new(type_of(code), body.bytes.len() as u64));
	e.append(body);
	e
}

fn build_catalogue() -> Cat {
	uni::init_thread();
	let kc = uni::keychain(1);
	let gen = uni::genesis(&kc);
	let g = 1_000_000_000u64;

	// ---- transactions (deterministic kernels)
	let tx1 = uni::spend_coinbase(&kc, 1, uni::REWARD, &[(100, 20 * g), (101, 39 * g)], 1);
	let tx2 = uni::spend_plain(
		&kc,
		&[(110, 5 * g), (111, 7 * g)],
		&[(112, 11 * g)],
		Some(KernelFeatures::HeightLocked { fee: (g as u32).into(), lock_height: 5 }),
		2,
	);
	let tx3 = uni::spend_plain(
		&kc,
		&[(120, 9 * g)],
		&[(121, 8 * g)],
		Some(KernelFeatures::NoRecentDuplicate {
			fee: (g as u32).into(),
			relative_height: NRDRelativeHeight::new(10).unwrap(),
		}),
		3,
	);

	// ---- blocks and headers (real PoW, no chain needed)
	let mk_block = |txs: &[Transaction], key: u32| -> Block {
		let fees: u64 = txs.iter().map(|t| t.fee()).sum();
		let rw = uni::coinbase(&kc, key, fees);
		let mut b = Block::from_reward(&gen.header, txs, rw.0, rw.1, Difficulty::min_dma()).expect("from_reward");
		b.header.timestamp = gen.header.timestamp + Duration::seconds(60);
		b.header.output_mmr_size = 8;
		b.header.kernel_mmr_size = 7;
		b.header.output_root = h32(0xa1, key);
		b.header.range_proof_root = h32(0xa2, key);
		b.header.kernel_root = h32(0xa3, key);
		b.header.prev_root = h32(0xa4, key);
		uni::remine(&mut b, &gen.header);
		b
	};
	let b_txs = mk_block(&[tx1.clone(), tx2.clone()], 2);
	// protocol versions 1 and 2 carry inputs with their features
	let legacy_inputs = |t: &Transaction, f: OutputFeatures| -> Vec<Input> {
		let cw: Vec<CommitWrapper> = t.inputs().into();
		cw.iter().map(|c| Input::new(f, c.commitment())).collect()
	};
	let legacy_tx = |t: &Transaction, f: OutputFeatures| -> Transaction {
		let mut t2 = t.clone();
		let mut i = legacy_inputs(t, f);
		i.sort_unstable();
		t2.body.inputs = Inputs::FeaturesAndCommit(i);
		t2
	};
	let (tx1l, tx2l, tx3l) = (legacy_tx(&tx1, OutputFeatures::Coinbase), legacy_tx(&tx2, OutputFeatures::Plain), legacy_tx(&tx3, OutputFeatures::Plain));
	let mut b_txs_legacy = b_txs.clone();
	{
		let mut all = legacy_inputs(&tx1, OutputFeatures::Coinbase);
		all.extend(legacy_inputs(&tx2, OutputFeatures::Plain));
		all.sort_unstable();
		b_txs_legacy.body.inputs = Inputs::FeaturesAndCommit(all);
	}
	let b_empty = mk_block(&[], 3);
	let mut h12 = BlockHeader::default();
	h12.version = HeaderVersion(5);
	h12.height = 12;
	h12.timestamp = gen.header.timestamp + Duration::seconds(720);
	h12.prev_hash = h32(0xb0, 12);
	h12.output_mmr_size = 22;
	h12.kernel_mmr_size = 19;
	h12.pow.total_difficulty = Difficulty::from_num(13);
	uni::mine_header(&mut h12, Difficulty::from_num(1));
	// a genuinely mined height-0 header (what a chain's own genesis is): passes the PoW and version checks that
	// run before the later read-time rules, with the height field exactly 0
	let mut g0 = gen.clone();
	g0.header.timestamp = gen.header.timestamp;
	uni::mine_header(&mut g0.header, Difficulty::from_num(1));

	// ---- MMR universe (9 leaves each) and the validation context
	let mut kernels: Vec<TxKernel> = vec![tx1.kernels()[0].clone(), tx2.kernels()[0].clone(), b_txs.kernels().iter().find(|k| k.is_coinbase()).unwrap().clone()];
	for i in 0..6u32 {
		let mut k = TxKernel::with_features(KernelFeatures::Plain { fee: (i + 1).into() });
		k.excess = uni::commit_of(&kc, 200 + i, 1000 + i as u64);
		kernels.push(k);
	}
	let outputs: Vec<OutputIdentifier> = (0..9u32)
		.map(|i| {
			OutputIdentifier::new(
				if i % 4 == 0 { OutputFeatures::Coinbase } else { OutputFeatures::Plain },
				&uni::commit_of(&kc, 300 + i, 5000 + i as u64),
			)
		})
		.collect();
	let rproofs: Vec<RangeProof> = (0..9u32).map(fake_rangeproof).collect();
	let k_ba = build_mmr(&kernels);
	let o_ba = build_mmr(&outputs);
	let r_ba = build_mmr(&rproofs);
	// unspent leaf indices: leaves 6 and 7 (a sibling pair) are spent and pruned
	let bitmap: Vec<u32> = vec![0, 1, 2, 3, 4, 5, 8];
	// bitmap accumulator with 17 synthetic chunks exercising the three block encodings:
	// chunks 0-7 half set (raw), 8-15 (almost) all set (negative list), 16 sparse (positive list)
	let mut acc = BitmapAccumulator::new();
	for c in 0..17u32 {
		let mut ch = BitmapChunk::new();
		for bit in 0..1024u64 {
			let on = match c {
				0..=7 => (bit + c as u64) % 2 == 0,
				9 => !(bit == 5 || bit == 600 || bit == 1023),
				8..=15 => true,
				_ => bit == 1 || bit == 17 || bit == 500 || bit == 501 || bit == 1000,
			};
			if on {
				ch.set(bit, true);
			}
		}
		acc.append_chunk(ch).expect("append_chunk");
	}
	let bm_pmmr = acc.readonly_pmmr();
	let bm_size = bm_pmmr.unpruned_size();
	let bm_root = acc.root();
	let root_of = |size: u64, r: Result<Hash, String>| -> Hash { r.unwrap_or_else(|e| panic!("root at {}: {}", size, e)) };
	let k_root = root_of(k_ba.size(), ReadonlyPMMR::at(&k_ba, k_ba.size()).root());
	let o_root = root_of(o_ba.size(), ReadonlyPMMR::at(&o_ba, o_ba.size()).root());
	let r_root = root_of(r_ba.size(), ReadonlyPMMR::at(&r_ba, r_ba.size()).root());
	let header_output_root = (o_root, bm_root).hash_with_index(o_ba.size());
	let ctx = Ctx {
		k_size: k_ba.size(),
		k_root: hex(k_root.as_bytes()),
		o_size: o_ba.size(),
		o_pmmr_root: hex(o_root.as_bytes()),
		r_root: hex(r_root.as_bytes()),
		bitmap: bitmap.clone(),
		bm_size,
		bm_root: hex(bm_root.as_bytes()),
		header_output_root: hex(header_output_root.as_bytes()),
	};

	// segments (positions of leaves 6,7 are 10 and 11)
	let k_segs = vec![("h2i0", seg_of(&k_ba, 2, 0, false)), ("h2i2-last", seg_of(&k_ba, 2, 2, false)), ("h1i1", seg_of(&k_ba, 1, 1, false))];
	let o_segs = vec![
		("h2i0", seg_of(&o_ba, 2, 0, true)),
		("h2i2-last", seg_of(&o_ba, 2, 2, true)),
		("h2i1-pruned", prune_leaves(seg_of(&o_ba, 2, 1, true), &[10, 11])),
	];
	let r_segs = vec![("h1i0", seg_of(&r_ba, 1, 0, true)), ("h1i3-pruned", prune_leaves(seg_of(&r_ba, 1, 3, true), &[10, 11]))];
	let b_segs: Vec<(&str, BitmapSegment)> = vec![
		("h3i0-raw", BitmapSegment::from(Segment::from_pmmr(SegmentIdentifier { height: 3, idx: 0 }, &bm_pmmr, false).expect("bm seg"))),
		("h3i1-neg", BitmapSegment::from(Segment::from_pmmr(SegmentIdentifier { height: 3, idx: 1 }, &bm_pmmr, false).expect("bm seg"))),
		("h0i16-pos", BitmapSegment::from(Segment::from_pmmr(SegmentIdentifier { height: 0, idx: 16 }, &bm_pmmr, false).expect("bm seg"))),
	];

	// merkle proofs
	let proofs: Vec<(&str, MerkleProof)> = vec![
		("empty", MerkleProof { mmr_size: 1, path: vec![] }),
		("leaf4of9", ReadonlyPMMR::at(&k_ba, k_ba.size()).merkle_proof(7).expect("merkle_proof")),
		("leaf8of9", ReadonlyPMMR::at(&k_ba, k_ba.size()).merkle_proof(15).expect("merkle_proof")),
	];

	let v4: std::net::SocketAddr = "10.1.2.3:3414".parse().unwrap();
	let v6: std::net::SocketAddr = "[2001:db8::7]:13414".parse().unwrap();
	let block_hash = b_txs.hash();

	let mut seeds: Vec<Seed> = vec![];
	for &v in VERSIONS.iter() {
		let mut add = |kind: &str, label: &str, e: Enc| {
			seeds.push(Seed { kind: kind.to_string(), label: format!("{}/{}", kind, label), v, enc: e });
		};
		add("Ping", "td-height", enc(v, &Ping { total_difficulty: Difficulty::from_num(1 << 40), height: 5 }));
		add("BanReason", "bad-block", enc(v, &BanReason { ban_reason: ReasonForBan::BadBlock }));
		add("Hash", "block-hash", enc(v, &block_hash));
		add("Transaction", "plain-1in-2out", enc(v, if v <= 2 { &tx1l } else { &tx1 }));
		add("Transaction", "heightlocked-2in-1out", enc(v, if v <= 2 { &tx2l } else { &tx2 }));
		add("Transaction", "nrd-1in-1out", enc(v, if v <= 2 { &tx3l } else { &tx3 }));
		add("Block", "coinbase-only", enc(v, &b_empty));
		add("Block", "two-txs", enc(v, if v <= 2 { &b_txs_legacy } else { &b_txs }));
		add("CompactBlock", "coinbase-only", compact_enc(v, &b_empty, 0x0102030405060708));
		add("CompactBlock", "two-ids", compact_enc(v, &b_txs, 0x0102030405060708));
		add("Locator", "empty", enc(v, &Locator { hashes: vec![] }));
		add("Locator", "two", enc(v, &Locator { hashes: vec![h32(1, 1), h32(1, 2)] }));
		add("Locator", "max20", enc(v, &Locator { hashes: (0..20).map(|i| h32(2, i)).collect() }));
		add("Header", "h1-v1", enc(v, &b_txs.header));
		add("Header", "h12-v5", enc(v, &h12));
		add("Header", "h0-mined", enc(v, &g0.header));
		add("Block", "height0-mined", enc(v, &g0));
		add("CompactBlock", "height0-mined", compact_enc(v, &g0, 0x0102030405060708));
		add("GetPeerAddrs", "caps", enc(v, &GetPeerAddrs { capabilities: Capabilities::PEER_LIST | Capabilities::HEADER_HIST }));
		add("PeerAddrs", "empty", enc(v, &PeerAddrs { peers: vec![] }));
		add("PeerAddrs", "v4-v6", enc(v, &PeerAddrs { peers: vec![PeerAddr(v4), PeerAddr(v6)] }));
		add("TxHashSetRequest", "req", enc(v, &TxHashSetRequest { hash: block_hash, height: 1 }));
		add("TxHashSetArchive", "arch", enc(v, &TxHashSetArchive { hash: block_hash, height: 1, bytes: 4096 }));
		add("SegmentRequest", "h2i1", enc(v, &SegmentRequest { block_hash, identifier: SegmentIdentifier { height: 2, idx: 1 } }));
		for (l, s) in &b_segs {
			add("OutputBitmapSegmentResponse", l, enc(v, &OutputBitmapSegmentResponse { block_hash, segment: s.clone(), output_root: o_root }));
			add("BitmapSegment", l, enc(v, s));
		}
		for (l, s) in &o_segs {
			add("OutputSegmentResponse", l, enc(v, &OutputSegmentResponse { response: SegmentResponse { block_hash, segment: s.clone() }, output_bitmap_root: bm_root }));
			add("OutputSegment", l, enc(v, s));
		}
		for (l, s) in &r_segs {
			add("RangeProofSegmentResponse", l, enc(v, &SegmentResponse { block_hash, segment: s.clone() }));
			add("RangeProofSegment", l, enc(v, s));
		}
		for (l, s) in &k_segs {
			add("KernelSegmentResponse", l, enc(v, &SegmentResponse { block_hash, segment: s.clone() }));
			add("KernelSegment", l, enc(v, s));
		}
		for (l, p) in &proofs {
			let e = enc(v, p);
			add("hex:MerkleProof", l, e.to_hex());
			add("MerkleProof", l, e);
		}
		// ---- framed streams
		let bodies: Vec<Seed> = seeds.iter().filter(|s| s.v == v && !s.kind.contains(':')).cloned().collect();
		let mut add = |kind: &str, label: &str, e: Enc| {
			seeds.push(Seed { kind: kind.to_string(), label: format!("{}/{}", kind, label), v, enc: e });
		};
		for (code, name, kind) in MSG_TYPES.iter() {
			for s in bodies.iter().filter(|s| &s.kind == kind) {
				add(&format!("frame:{}", name), s.label.split('/').nth(1).unwrap(), frame(v, *code, &s.enc));
			}
		}
		let hand = Hand {
			version: ProtocolVersion(v),
			capabilities: Capabilities::HEADER_HIST | Capabilities::PEER_LIST,
			nonce: 0x1122334455667788,
			genesis: gen.hash(),
			total_difficulty: Difficulty::from_num(77),
			sender_addr: PeerAddr(v4),
			receiver_addr: PeerAddr(v6),
			user_agent: "MW/Grin 5.4.0".to_string(),
		};
		let shake = Shake {
			version: ProtocolVersion(v),
			capabilities: Capabilities::HEADER_HIST,
			genesis: gen.hash(),
			total_difficulty: Difficulty::from_num(78),
			user_agent: "MW/Grin 5.4.0".to_string(),
		};
		add("frame:Hand", "hand", frame(v, 1, &enc(v, &hand)));
		add("frame:Shake", "shake", frame(v, 2, &enc(v, &shake)));
		add("frame:Headers", "none", frame(v, 9, &enc(v, &Headers { headers: vec![] })));
		add("frame:Headers", "one", frame(v, 9, &enc(v, &Headers { headers: vec![b_txs.header.clone()] })));
		add("frame:Headers", "three", frame(v, 9, &enc(v, &Headers { headers: vec![b_txs.header.clone(), h12.clone(), b_empty.header.clone()] })));
		add("frame:Headers", "height0-first", frame(v, 9, &enc(v, &Headers { headers: vec![g0.header.clone(), b_txs.header.clone()] })));
		add("frame:Error", "empty", frame(v, 0, &Rec::new(v).e));
		// unknown message type 200 with a 5 byte body, followed by a Ping
		let mut unk = frame(v, 3, &enc(v, &vec![1u8, 2, 3, 4, 5]));
		unk.bytes[2] = 200;
		let ping = frame(v, 3, &enc(v, &Ping { total_difficulty: Difficulty::from_num(9), height: 1 }));
		unk.append(&ping);
		add("frame:Unknown", "unknown-then-ping", unk);
		let mut two = ping.clone();
		two.append(&frame(v, 4, &enc(v, &Pong { total_difficulty: Difficulty::from_num(10), height: 2 })));
		add("frame:Ping", "ping-then-pong", two);
	}
	let mbw = global::max_block_weight();
	let weight_caps = vec![mbw, mbw / consensus::OUTPUT_WEIGHT, mbw / consensus::KERNEL_WEIGHT, mbw / consensus::INPUT_WEIGHT.max(1)];
	Cat { seeds, ctx, explicit: vec![], weight_caps }
}

// ------------------------------------------------------------------------------------------
// Subjects: the decoder entry points, each with the seed kinds that are valid encodings for it
// ------------------------------------------------------------------------------------------

#[derive(Clone, Copy, Debug, PartialEq)]
enum Dec {
	/// `BufReader::body::<T>()` as `decode_message` does for this message type code
	Body(u8),
	SegKernel,
	SegOutput,
	SegRangeProof,
	SegBitmap,
	/// input = 8 bytes (big endian) of the archive header's MMR size for that tree, then the segment: the size a
	/// segment is validated against comes from a header the node holds by its proof of work only (0 kernel,
	/// 1 output, 2 range proof)
	SegSized(u8),
	ProofRead,
	ProofFromHex,
	ApiTx,
	ReadHand,
	ReadShake,
	Codec,
	SelfTest,
}

#[derive(Clone, Copy, Debug, PartialEq)]
enum Family {
	Body,
	Frame,
	Hex,
	SelfTest,
}

#[derive(Clone, Debug)]
struct Subject {
	name: String,
	dec: Dec,
	family: Family,
	/// site name of the read stage (used in violation keys)
	site: String,
}

impl Subject {
	fn accepts(&self, kind: &str) -> bool {
		match self.dec {
			Dec::Body(code) => MSG_TYPES.iter().any(|(c, _, k)| *c == code && *k == kind),
			Dec::SegKernel => kind == "KernelSegment",
			Dec::SegOutput => kind == "OutputSegment",
			Dec::SegRangeProof => kind == "RangeProofSegment",
			Dec::SegBitmap => kind == "BitmapSegment",
			Dec::SegSized(_) => false,
			Dec::ProofRead => kind == "MerkleProof",
			Dec::ProofFromHex => kind == "hex:MerkleProof",
			Dec::ApiTx => kind == "Transaction",
			Dec::ReadHand => ["frame:Hand", "frame:Shake", "frame:Unknown", "frame:Error"].contains(&kind),
			Dec::ReadShake => ["frame:Shake", "frame:Hand", "frame:Unknown", "frame:Error"].contains(&kind),
			Dec::Codec => kind.starts_with("frame:"),
			Dec::SelfTest => false,
		}
	}
}

fn subjects() -> Vec<Subject> {
	let mut v = vec![];
	v.push(Subject { name: "codec.read".into(), dec: Dec::Codec, family: Family::Frame, site: "codec.read".into() });
	for (code, name, _) in MSG_TYPES.iter() {
		v.push(Subject { name: format!("body:{}", name), dec: Dec::Body(*code), family: Family::Body, site: format!("msg.{}.read", name) });
	}
	v.push(Subject { name: "segment:Kernel".into(), dec: Dec::SegKernel, family: Family::Body, site: "segment.read".into() });
	v.push(Subject { name: "segment:Output".into(), dec: Dec::SegOutput, family: Family::Body, site: "segment.read".into() });
	v.push(Subject { name: "segment:RangeProof".into(), dec: Dec::SegRangeProof, family: Family::Body, site: "segment.read".into() });
	v.push(Subject { name: "segment:Bitmap".into(), dec: Dec::SegBitmap, family: Family::Body, site: "bitmapsegment.read".into() });
	v.push(Subject { name: "segment@size:Kernel".into(), dec: Dec::SegSized(0), family: Family::Body, site: "segment.read".into() });
	v.push(Subject { name: "segment@size:Output".into(), dec: Dec::SegSized(1), family: Family::Body, site: "segment.read".into() });
	v.push(Subject { name: "segment@size:RangeProof".into(), dec: Dec::SegSized(2), family: Family::Body, site: "segment.read".into() });
	v.push(Subject { name: "merkleproof.read".into(), dec: Dec::ProofRead, family: Family::Body, site: "merkleproof.read".into() });
	v.push(Subject { name: "merkleproof.from_hex".into(), dec: Dec::ProofFromHex, family: Family::Hex, site: "merkleproof.from_hex".into() });
	v.push(Subject { name: "api.tx.deserialize".into(), dec: Dec::ApiTx, family: Family::Body, site: "api.tx.deserialize".into() });
	v.push(Subject { name: "hand.read_message".into(), dec: Dec::ReadHand, family: Family::Frame, site: "hand.read_message".into() });
	v.push(Subject { name: "shake.read_message".into(), dec: Dec::ReadShake, family: Family::Frame, site: "shake.read_message".into() });
	v.push(Subject { name: "selftest".into(), dec: Dec::SelfTest, family: Family::SelfTest, site: "selftest.read".into() });
	v
}

fn family_of_kind(kind: &str) -> Family {
	if kind.starts_with("frame:") {
		Family::Frame
	} else if kind.starts_with("hex:") {
		Family::Hex
	} else {
		Family::Body
	}
}

// ------------------------------------------------------------------------------------------
// Monitored execution of one case
// ------------------------------------------------------------------------------------------

#[derive(Debug)]
struct PanicRec {
	msg: String,
	file: String,
	line: u32,
	func: String,
	max_req: usize,
	/// unresolved backtrace (resolved only when the location is not in the cache yet)
	bt: Option<std::backtrace::Backtrace>,
}

thread_local! {
	static PANIC: RefCell<Option<PanicRec>> = RefCell::new(None);
	static FN_CACHE: RefCell<HashMap<(String, u32), String>> = RefCell::new(HashMap::new());
	static MAX_REQ_SEEN: Cell<usize> = Cell::new(0);
}

/// name of the innermost grin function on the panicking stack (stable across line shifts)
fn strip_generics(s: &str) -> String {
	let mut out = String::new();
	let mut depth = 0;
	for ch in s.chars() {
		match ch {
			'<' => depth += 1,
			'>' => depth -= 1,
			_ if depth == 0 => out.push(ch),
			_ => {}
		}
	}
	out
}

/// `a::b::Type<T>::f` -> `Type::f`, `<a::Type as b::Trait>::f` -> `Type::f`, `a::m::f` -> `m::f`
fn short_symbol(sym: &str) -> String {
	let sym = sym.trim();
	if let Some(rest) = sym.strip_prefix('<') {
		if let Some(p) = rest.find(" as ") {
			let ty = strip_generics(&rest[..p]);
			let ty = ty.rsplit("::").next().unwrap_or("").to_string();
			let f = rest[p..].find(">::").map(|q| &rest[p + q + 3..]).unwrap_or("");
			let f = f.split("::").next().unwrap_or("");
			return format!("{}::{}", ty, f);
		}
	}
	let s = strip_generics(sym);
	let parts: Vec<&str> = s.split("::").filter(|p| !p.is_empty() && !p.starts_with('{')).collect();
	if parts.len() >= 2 {
		format!("{}::{}", parts[parts.len() - 2], parts[parts.len() - 1])
	} else {
		sym.replace(' ', "")
	}
}

fn cached_fn(file: &str, line: u32) -> Option<String> {
	FN_CACHE.with(|c| c.borrow().get(&(file.to_string(), line)).cloned())
}

fn panicking_fn(file: &str, line: u32, bt: Option<std::backtrace::Backtrace>) -> String {
	if let Some(f) = cached_fn(file, line) {
		return f;
	}
	// symbolising a backtrace is slow (debug info is parsed on first use): share results
	// between the workers of a pool through one small file per panic location
	let shared = std::env::var("GV_C11_DIR").ok().map(|d| std::path::PathBuf::from(d).join(format!("fn-{:016x}", crate::ev::hash64(&(file, line)))));
	if let Some(f) = shared.as_ref().and_then(|p| std::fs::read_to_string(p).ok()).filter(|f| !f.is_empty()) {
		FN_CACHE.with(|c| c.borrow_mut().insert((file.to_string(), line), f.clone()));
		return f;
	}
	let bt = bt.map(|b| format!("{}", b)).unwrap_or_default();
	let mut found = String::new();
	for l in bt.lines() {
		let l = l.trim();
		let sym = match l.find(": ") {
			Some(p) if l[..p].chars().all(|c| c.is_ascii_digit()) => &l[p + 2..],
			_ => continue,
		};
		if sym.contains("grin_") && !sym.contains("c11") {
			found = short_symbol(sym);
			break;
		}
	}
	if found.is_empty() {
		found = file.rsplit('/').next().unwrap_or(file).to_string();
	}
	FN_CACHE.with(|c| c.borrow_mut().insert((file.to_string(), line), found.clone()));
	if let Some(p) = shared {
		let tmp = p.with_extension(format!("{}", std::process::id()));
		if std::fs::write(&tmp, &found).is_ok() {
			let _ = std::fs::rename(&tmp, &p);
		}
	}
	found
}

fn install_panic_hook() {
	std::panic::set_hook(Box::new(|info| {
		let (mx, _) = alloc::stop();
		let (file, line) = info.location().map(|l| (l.file().to_string(), l.line())).unwrap_or_default();
		let msg = if let Some(s) = info.payload().downcast_ref::<&str>() {
			s.to_string()
		} else if let Some(s) = info.payload().downcast_ref::<String>() {
			s.clone()
		} else {
			"<non-string panic payload>".to_string()
		};
		// symbolisation is slow: only capture here, resolve after the stage (watchdog paused)
		let bt = if cached_fn(&file, line).is_some() { None } else { Some(std::backtrace::Backtrace::force_capture()) };
		PANIC.with(|p| *p.borrow_mut() = Some(PanicRec { msg, file, line, func: String::new(), max_req: mx, bt }));
	}));
}

fn panic_class(msg: &str) -> &'static str {
	if msg.contains("capacity overflow") {
		"over-alloc"
	} else if msg.contains("`Option::unwrap()` on a `None`") {
		"unwrap-none"
	} else if msg.contains("`Result::unwrap()` on an `Err`") {
		"unwrap-err"
	} else if msg.contains("index out of bounds") || msg.contains("out of range for slice") || msg.contains("range end index") || msg.contains("range start index") || msg.contains("slice index starts") {
		"index-oob"
	} else if msg.contains("attempt to") {
		"arith"
	} else if msg.contains("assertion") {
		"assert"
	} else {
		"panic"
	}
}

/// A property violation observed inside the worker.
#[derive(Clone, Debug)]
struct Viol {
	key: String,
	what: String,
}

fn run_stage<R>(site: &str, len: usize, f: impl FnOnce() -> R) -> Result<R, Viol> {
	note_site(site);
	PANIC.with(|p| *p.borrow_mut() = None);
	alloc::reset();
	let r = catch_unwind(AssertUnwindSafe(f));
	let (mx, _) = alloc::stop();
	MAX_REQ_SEEN.with(|c| c.set(c.get().max(mx)));
	match r {
		Err(_) => {
			let mut p = PANIC.with(|p| p.borrow_mut().take()).unwrap_or(PanicRec { msg: "?".into(), file: "?".into(), line: 0, func: "?".into(), max_req: mx, bt: None });
			// the decoder has returned (by unwinding): what follows is the harness's own time
			pause_watchdog();
			p.func = panicking_fn(&p.file, p.line, p.bt.take());
			let class = panic_class(&p.msg);
			if class == "over-alloc" {
				Err(Viol {
					key: format!("{}:over-alloc", site),
					what: format!("{} asked for more than isize::MAX bytes (panic '{}' at {}:{} in {}) for a {} byte input", site, p.msg, p.file, p.line, p.func, len),
				})
			} else {
				Err(Viol {
					key: format!("{}:{}@{}", site, class, p.func),
					what: format!("{} panicked: '{}' at {}:{} (in {}); expected a value or an Err", site, p.msg, p.file, p.line, p.func),
				})
			}
		}
		Ok(x) => {
			if mx > alloc_limit(len) {
				// the value is dropped by the caller, outside the measurement
				Err(Viol {
					key: format!("{}:over-alloc", site),
					what: format!("{} requested {} bytes in one allocation for a {} byte input; bound is 16*len+64KiB = {}", site, mx, len, alloc_limit(len)),
				})
			} else {
				Ok(x)
			}
		}
	}
}

fn ser_class(e: &ser::Error) -> &'static str {
	match e {
		ser::Error::IOErr(_, k) => {
			if *k == std::io::ErrorKind::UnexpectedEof {
				"err:Eof"
			} else {
				"err:IO"
			}
		}
		ser::Error::UnexpectedData { .. } => "err:UnexpectedData",
		ser::Error::CorruptedData => "err:CorruptedData",
		ser::Error::CountError => "err:CountError",
		ser::Error::TooLargeReadErr => "err:TooLargeRead",
		ser::Error::HexError(_) => "err:HexError",
		ser::Error::SortError => "err:SortError",
		ser::Error::DuplicateError => "err:DuplicateError",
		ser::Error::InvalidBlockVersion => "err:InvalidBlockVersion",
		ser::Error::UnsupportedProtocolVersion => "err:UnsupportedProtocolVersion",
	}
}

fn p2p_class(e: &grin_p2p::Error) -> &'static str {
	match e {
		grin_p2p::Error::Serialization(s) => ser_class(s),
		grin_p2p::Error::Connection(io) => {
			if io.kind() == std::io::ErrorKind::UnexpectedEof {
				"err:Eof"
			} else {
				"err:IO"
			}
		}
		grin_p2p::Error::BadMessage => "err:BadMessage",
		grin_p2p::Error::UnexpectedMessage => "err:UnexpectedMessage",
		grin_p2p::Error::MsgLen => "err:MsgLen",
		_ => "err:other",
	}
}

fn seg_class(r: &Result<(), SegmentError>) -> &'static str {
	match r {
		Ok(()) => "valid",
		Err(SegmentError::MissingLeaf(_)) => "invalid:MissingLeaf",
		Err(SegmentError::MissingHash(_)) => "invalid:MissingHash",
		Err(SegmentError::NonExistent) => "invalid:NonExistent",
		Err(SegmentError::Mismatch) => "invalid:Mismatch",
	}
}

fn msg_class(m: &Message) -> &'static str {
	match m {
		Message::Unknown(_) => "Unknown",
		Message::Ping(_) => "Ping",
		Message::Pong(_) => "Pong",
		Message::BanReason(_) => "BanReason",
		Message::TransactionKernel(_) => "TransactionKernel",
		Message::GetTransaction(_) => "GetTransaction",
		Message::Transaction(_) => "Transaction",
		Message::StemTransaction(_) => "StemTransaction",
		Message::GetBlock(_) => "GetBlock",
		Message::Block(_) => "Block",
		Message::GetCompactBlock(_) => "GetCompactBlock",
		Message::CompactBlock(_) => "CompactBlock",
		Message::GetHeaders(_) => "GetHeaders",
		Message::Header(_) => "Header",
		Message::Headers(_) => "Headers",
		Message::GetPeerAddrs(_) => "GetPeerAddrs",
		Message::PeerAddrs(_) => "PeerAddrs",
		Message::TxHashSetRequest(_) => "TxHashSetRequest",
		Message::TxHashSetArchive(_) => "TxHashSetArchive",
		Message::Attachment(_, _) => "Attachment",
		Message::GetOutputBitmapSegment(_) => "GetOutputBitmapSegment",
		Message::OutputBitmapSegment(_) => "OutputBitmapSegment",
		Message::GetOutputSegment(_) => "GetOutputSegment",
		Message::OutputSegment(_) => "OutputSegment",
		Message::GetRangeProofSegment(_) => "GetRangeProofSegment",
		Message::RangeProofSegment(_) => "RangeProofSegment",
		Message::GetKernelSegment(_) => "GetKernelSegment",
		Message::KernelSegment(_) => "KernelSegment",
	}
}

/// decoded, ready-to-use form of the validation context
struct RunCtx {
	k_size: u64,
	k_root: Hash,
	o_size: u64,
	o_pmmr_root: Hash,
	r_root: Hash,
	bitmap: croaring::Bitmap,
	bm_size: u64,
	bm_root: Hash,
	header_output_root: Hash,
}

impl RunCtx {
	fn from(c: &Ctx) -> RunCtx {
		let h = |s: &str| Hash::from_vec(&unhex(s));
		let mut bitmap = croaring::Bitmap::new();
		for b in &c.bitmap {
			bitmap.add(*b);
		}
		RunCtx {
			k_size: c.k_size,
			k_root: h(&c.k_root),
			o_size: c.o_size,
			o_pmmr_root: h(&c.o_pmmr_root),
			r_root: h(&c.r_root),
			bitmap,
			bm_size: c.bm_size,
			bm_root: h(&c.bm_root),
			header_output_root: h(&c.header_output_root),
		}
	}
}

/// (read-stage class, post-stage class) of a case that did not violate the property
type Classes = (&'static str, &'static str);

fn ex_plain<T: Readable>(site: &str, input: &[u8], pv: ProtocolVersion) -> Result<Classes, Viol> {
	let mut b = Bytes::copy_from_slice(input);
	let r = run_stage(site, input.len(), || BufReader::new(&mut b, pv).body::<T>())?;
	Ok(match r {
		Ok(_) => ("ok", ""),
		Err(e) => (ser_class(&e), ""),
	})
}

/// read a value, then run the stateless validation the node applies to it
fn ex_then<T: Readable>(
	site: &str,
	post_site: &str,
	input: &[u8],
	pv: ProtocolVersion,
	post: impl FnOnce(T) -> &'static str,
) -> Result<Classes, Viol> {
	let mut b = Bytes::copy_from_slice(input);
	let r = run_stage(site, input.len(), || BufReader::new(&mut b, pv).body::<T>())?;
	match r {
		Err(e) => Ok((ser_class(&e), "")),
		Ok(x) => {
			let c = run_stage(post_site, input.len(), || post(x))?;
			Ok(("ok", c))
		}
	}
}

/// OutputBitmapSegment path: read, `into_segment()` (protocol.rs), then
/// `Desegmenter::add_bitmap_segment`'s `validate_with`; each stage monitored on its own
fn ex_bitmap<T: Readable>(site: &str, input: &[u8], pv: ProtocolVersion, c: &RunCtx, split: impl FnOnce(T) -> (BitmapSegment, Hash)) -> Result<Classes, Viol> {
	let mut b = Bytes::copy_from_slice(input);
	let r = run_stage(site, input.len(), || BufReader::new(&mut b, pv).body::<T>())?;
	let (seg, other_root) = match r {
		Err(e) => return Ok((ser_class(&e), "")),
		Ok(x) => split(x),
	};
	let s = match run_stage("bitmapsegment.into_segment", input.len(), || seg.into_segment())? {
		Err(_) => return Ok(("ok", "into_segment:Err")),
		Ok(s) => s,
	};
	let v = run_stage("segment.validate_with", input.len(), || s.validate_with(c.bm_size, None, c.header_output_root, c.o_size, other_root, true))?;
	Ok(("ok", seg_class(&v)))
}

fn ex_codec(input: &[u8], pv: ProtocolVersion) -> Result<Classes, Viol> {
	let (mut a, b) = std::os::unix::net::UnixStream::pair().expect("socketpair");
	let writer = if input.len() > 100_000 {
		let data = input.to_vec();
		Some(std::thread::spawn(move || {
			let _ = a.write_all(&data);
		}))
	} else {
		a.write_all(input).expect("socket write");
		drop(a);
		None
	};
	// Codec wants a TcpStream: it only uses recv() and SO_RCVTIMEO, which a stream socketpair
	// end supports identically; EOF after the input marks the end of the peer's bytes.
	let tcp = unsafe { std::net::TcpStream::from_raw_fd(b.into_raw_fd()) };
	let len = input.len();
	let mut first: &'static str = "";
	let mut n_ok = 0usize;
	let r = run_stage("codec.read", len, || {
		let mut c = Codec::new(pv, tcp);
		loop {
			let (m, _) = c.read();
			match m {
				Ok(msg) => {
					n_ok += 1;
					if first.is_empty() {
						first = msg_class(&msg);
					}
					// every message returned must account for at least one input byte
					if n_ok > len + 1 {
						return None;
					}
				}
				Err(e) => return Some(p2p_class(&e)),
			}
		}
	});
	if let Some(w) = writer {
		let _ = w.join();
	}
	match r? {
		None => Err(Viol {
			key: "codec.read:no-progress".into(),
			what: format!("Codec::read returned {} messages from a {} byte stream without reaching its end: input is not being consumed", n_ok, len),
		}),
		Some(end) => Ok((if first.is_empty() { "none" } else { first }, end)),
	}
}

fn ex_selftest(input: &[u8]) -> Result<Classes, Viol> {
	let r = run_stage("selftest.read", input.len(), || -> Result<u8, ()> {
		match input.first().copied().unwrap_or(0) {
			1 => Err(()),
			2 => {
				let x: Option<u8> = if input.len() > 100 { Some(1) } else { None };
				Ok(x.unwrap())
			}
			3 => {
				let v: Vec<u8> = Vec::with_capacity(1 << 20);
				Ok(v.capacity() as u8)
			}
			4 => std::process::abort(),
			5 => loop {
				std::hint::spin_loop();
			},
			6 => {
				let v: Vec<u8> = Vec::with_capacity(4usize << 30);
				Ok(v.capacity() as u8)
			}
			7 => {
				let n = usize::MAX - input.len();
				let v: Vec<u64> = Vec::with_capacity(n);
				Ok(v.capacity() as u8)
			}
			_ => Ok(0),
		}
	})?;
	Ok((if r.is_ok() { "ok" } else { "err:selftest" }, ""))
}

fn run_case(s: &Subject, v: u32, input: &[u8], c: &RunCtx) -> Result<Classes, Viol> {
	let pv = ProtocolVersion(v);
	let site = s.site.as_str();
	match s.dec {
		Dec::Codec => ex_codec(input, pv),
		Dec::SelfTest => ex_selftest(input),
		Dec::Body(code) => match code {
			3 => ex_plain::<Ping>(site, input, pv),
			4 => ex_plain::<Pong>(site, input, pv),
			5 => ex_plain::<GetPeerAddrs>(site, input, pv),
			6 => ex_plain::<PeerAddrs>(site, input, pv),
			7 => ex_plain::<Locator>(site, input, pv),
			8 => ex_plain::<UntrustedBlockHeader>(site, input, pv),
			10 | 12 | 19 | 20 => ex_plain::<Hash>(site, input, pv),
			11 => ex_plain::<UntrustedBlock>(site, input, pv),
			13 => ex_plain::<UntrustedCompactBlock>(site, input, pv),
			14 | 15 => ex_plain::<Transaction>(site, input, pv),
			16 => ex_plain::<TxHashSetRequest>(site, input, pv),
			17 => ex_plain::<TxHashSetArchive>(site, input, pv),
			18 => ex_plain::<BanReason>(site, input, pv),
			21 | 23 | 25 | 27 => ex_plain::<SegmentRequest>(site, input, pv),
			22 => ex_bitmap::<OutputBitmapSegmentResponse>(site, input, pv, c, |r| (r.segment, r.output_root)),
			24 => ex_then::<OutputSegmentResponse>(site, "segment.validate_with", input, pv, |r| {
				seg_class(&r.response.segment.validate_with(c.o_size, Some(&c.bitmap), c.header_output_root, c.o_size, c.bm_root, false))
			}),
			26 => ex_then::<SegmentResponse<RangeProof>>(site, "segment.validate", input, pv, |r| {
				seg_class(&r.segment.validate(c.o_size, Some(&c.bitmap), c.r_root))
			}),
			28 => ex_then::<SegmentResponse<TxKernel>>(site, "segment.validate", input, pv, |r| {
				seg_class(&r.segment.validate(c.k_size, None, c.k_root))
			}),
			_ => panic!("no decoder for message type {}", code),
		},
		Dec::SegKernel => ex_then::<Segment<TxKernel>>(site, "segment.validate", input, pv, |s| seg_class(&s.validate(c.k_size, None, c.k_root))),
		Dec::SegRangeProof => ex_then::<Segment<RangeProof>>(site, "segment.validate", input, pv, |s| seg_class(&s.validate(c.o_size, Some(&c.bitmap), c.r_root))),
		Dec::SegOutput => ex_then::<Segment<OutputIdentifier>>(site, "segment.validate_with", input, pv, |s| {
			seg_class(&s.validate_with(c.o_size, Some(&c.bitmap), c.header_output_root, c.o_size, c.bm_root, false))
		}),
		Dec::SegBitmap => ex_bitmap::<BitmapSegment>(site, input, pv, c, |s| (s, c.o_pmmr_root)),
		Dec::SegSized(t) => {
			if input.len() < 8 {
				return Ok(("short", ""));
			}
			let mut b8 = [0u8; 8];
			b8.copy_from_slice(&input[..8]);
			let size = u64::from_be_bytes(b8);
			let rest = &input[8..];
			match t {
				0 => ex_then::<Segment<TxKernel>>(site, "segment.validate", rest, pv, |s| seg_class(&s.validate(size, None, c.k_root))),
				1 => ex_then::<Segment<OutputIdentifier>>(site, "segment.validate_with", rest, pv, |s| seg_class(&s.validate_with(size, Some(&c.bitmap), c.header_output_root, size, c.bm_root, false))),
				_ => ex_then::<Segment<RangeProof>>(site, "segment.validate", rest, pv, |s| seg_class(&s.validate(size, Some(&c.bitmap), c.r_root))),
			}
		}
		Dec::ProofRead => {
			let r = run_stage(site, input.len(), || ser::deserialize::<MerkleProof, _>(&mut &input[..], pv, DeserializationMode::default()))?;
			Ok(match r {
				Ok(_) => ("ok", ""),
				Err(e) => (ser_class(&e), ""),
			})
		}
		Dec::ApiTx => {
			let r = run_stage(site, input.len(), || ser::deserialize::<Transaction, _>(&mut &input[..], pv, DeserializationMode::default()))?;
			Ok(match r {
				Ok(_) => ("ok", ""),
				Err(e) => (ser_class(&e), ""),
			})
		}
		Dec::ProofFromHex => match std::str::from_utf8(input) {
			Err(_) => Ok(("not-a-string", "")),
			Ok(text) => {
				let r = run_stage(site, input.len(), || MerkleProof::from_hex(text))?;
				Ok((if r.is_ok() { "ok" } else { "err:String" }, ""))
			}
		},
		Dec::ReadHand => {
			let r = run_stage(site, input.len(), || msg::read_message::<Hand, _>(&mut &input[..], pv, Type::Hand))?;
			Ok(match r {
				Ok(_) => ("ok", ""),
				Err(e) => (p2p_class(&e), ""),
			})
		}
		Dec::ReadShake => {
			let r = run_stage(site, input.len(), || msg::read_message::<Shake, _>(&mut &input[..], pv, Type::Shake))?;
			Ok(match r {
				Ok(_) => ("ok", ""),
				Err(e) => (p2p_class(&e), ""),
			})
		}
	}
}

// ------------------------------------------------------------------------------------------
// The mutation space: units of work and the cases inside them (deterministic enumeration)
// ------------------------------------------------------------------------------------------

#[derive(Clone, Copy, Debug, PartialEq)]
enum Class {
	Short,
	Trunc,
	Bytes,
	Fields,
	Splice,
	Monitors,
	Explicit,
}

const NONE: usize = usize::MAX;

#[derive(Clone, Debug)]
struct Unit {
	class: Class,
	subj: usize,
	v: u32,
	/// index into `cat.seeds` (NONE for Short / Monitors), or into `cat.explicit`
	seed: usize,
}

#[derive(Clone, Debug)]
enum Mut {
	Short,
	Seed,
	Trunc(usize),
	Byte(usize, u8),
	Field(usize, u64),
	Splice(usize, u32, u32),
	Given,
}

struct Params {
	/// encodings up to this length get every byte offset x 256; longer ones structural bytes only
	full_bytes_limit: usize,
	/// splice every seed with every seed (else: one representative seed per kind)
	splice_all: bool,
	/// codec.read: sweep the structural bytes of message bodies too (else: frame header bytes,
	/// plus everything for Headers frames and for streams of at most 128 bytes)
	codec_body_bytes: bool,
}

fn params(tier: Tier) -> Params {
	Params { full_bytes_limit: tier.pick(300, 4096), splice_all: tier.pick(false, true), codec_body_bytes: tier.pick(false, true) }
}

fn boundary_values(w: u8, orig: u64, extra_caps: &[u64]) -> Vec<u64> {
	let mut v: Vec<u64> = vec![0, 1, 2, 3];
	let caps: [u64; 9] = [13, 20, 64, 256, 512, 1024, 100_000, 1_000_000, 48_000];
	for c in caps.iter().chain(extra_caps.iter()) {
		v.extend_from_slice(&[c.wrapping_sub(1), *c, c + 1]);
	}
	v.extend_from_slice(&[
		(1 << 16) - 1,
		1 << 16,
		(1 << 16) + 1,
		(1 << 31) - 1,
		1 << 31,
		(1u64 << 32) - 1,
		1u64 << 32,
		(1u64 << 32) + 1,
		(1u64 << 63) - 1,
		1u64 << 63,
		(1u64 << 63) + 1,
		u64::MAX - 1,
		u64::MAX,
		orig.wrapping_sub(1),
		orig.wrapping_add(1),
	]);
	let max = if w >= 8 { u64::MAX } else { (1u64 << (8 * w as u32)) - 1 };
	v.extend_from_slice(&[max, max - 1, max >> 1, (max >> 1) + 1]);
	v.retain(|x| *x <= max && *x != orig);
	v.sort();
	v.dedup();
	v
}

struct Space<'a> {
	cat: &'a Cat,
	subs: Vec<Subject>,
	p: Params,
	/// first seed of every (kind, version)
	reps: HashSet<usize>,
}

impl<'a> Space<'a> {
	fn new(cat: &'a Cat, tier: Tier) -> Space<'a> {
		let mut seen = HashSet::new();
		let mut reps = HashSet::new();
		for (i, s) in cat.seeds.iter().enumerate() {
			if seen.insert((s.kind.clone(), s.v)) {
				reps.insert(i);
			}
		}
		Space { cat, subs: subjects(), p: params(tier), reps }
	}

	fn seeds_of(&self, subj: usize, v: u32) -> Vec<usize> {
		let s = &self.subs[subj];
		(0..self.cat.seeds.len()).filter(|i| self.cat.seeds[*i].v == v && s.accepts(&self.cat.seeds[*i].kind)).collect()
	}

	/// splice partners of a subject: every seed of the same family and version
	fn partners(&self, subj: usize, v: u32) -> Vec<usize> {
		let fam = self.subs[subj].family;
		(0..self.cat.seeds.len())
			.filter(|i| {
				let s = &self.cat.seeds[*i];
				s.v == v && family_of_kind(&s.kind) == fam && (self.p.splice_all || self.reps.contains(i))
			})
			.collect()
	}

	fn units(&self, part: &str) -> Vec<Unit> {
		let mut out = vec![];
		let real = |s: &Subject| s.dec != Dec::SelfTest;
		match part {
			"short" => {
				for (si, s) in self.subs.iter().enumerate().filter(|(_, s)| real(s)) {
					let _ = s;
					for &v in VERSIONS.iter() {
						out.push(Unit { class: Class::Short, subj: si, v, seed: NONE });
					}
				}
			}
			"trunc" | "bytes" | "fields" | "splice" => {
				let class = match part {
					"trunc" => Class::Trunc,
					"bytes" => Class::Bytes,
					"fields" => Class::Fields,
					_ => Class::Splice,
				};
				for (si, s) in self.subs.iter().enumerate().filter(|(_, s)| real(s)) {
					let _ = s;
					for &v in VERSIONS.iter() {
						for seed in self.seeds_of(si, v) {
							if class == Class::Splice && !self.p.splice_all && !self.reps.contains(&seed) {
								continue;
							}
							out.push(Unit { class, subj: si, v, seed });
						}
					}
				}
			}
			"monitors" => {
				let si = self.subs.iter().position(|s| s.dec == Dec::SelfTest).unwrap();
				out.push(Unit { class: Class::Monitors, subj: si, v: 1000, seed: NONE });
			}
			"explicit" => {
				for (i, e) in self.cat.explicit.iter().enumerate() {
					let si = self.subs.iter().position(|s| s.name == e.subject).expect("explicit subject");
					out.push(Unit { class: Class::Explicit, subj: si, v: e.v, seed: i });
				}
			}
			_ => panic!("unknown part {}", part),
		}
		// debugging aid: restrict to subjects whose name contains GV_C11_SUBJECT
		if let Ok(f) = std::env::var("GV_C11_SUBJECT") {
			out.retain(|u| self.subs[u.subj].name.contains(&f));
		}
		out
	}

	fn byte_offsets(&self, subj: usize, seed: usize) -> Vec<u32> {
		let e = &self.cat.seeds[seed].enc;
		let codec_quick = self.subs[subj].dec == Dec::Codec && !self.p.codec_body_bytes;
		if e.bytes.len() <= if codec_quick { self.p.full_bytes_limit.min(128) } else { self.p.full_bytes_limit } {
			(0..e.bytes.len() as u32).collect()
		} else if codec_quick && e.bytes.len() > 128 && self.cat.seeds[seed].kind != "frame:Headers" {
			// the body's structural bytes are swept through the body subject of the same
			// decoder; the framing layer itself only looks at the 11 header bytes
			e.structural().into_iter().filter(|o| (*o as usize) < MsgHeader::LEN).collect()
		} else {
			e.structural()
		}
	}

	fn unit_size(&self, u: &Unit) -> u64 {
		match u.class {
			Class::Short => 65_793,
			Class::Monitors => 8,
			Class::Explicit => 1,
			Class::Trunc => 1 + self.cat.seeds[u.seed].enc.bytes.len() as u64,
			Class::Bytes => 255 * self.byte_offsets(u.subj, u.seed).len() as u64,
			Class::Fields => 40 * self.cat.seeds[u.seed].enc.ints.len() as u64,
			Class::Splice => {
				let a = self.cat.seeds[u.seed].enc.text_bounds().len() as u64;
				let b: u64 = self.partners(u.subj, u.v).iter().map(|i| self.cat.seeds[*i].enc.text_bounds().len() as u64).sum();
				a * b
			}
		}
	}

	/// Enumerate the cases of a unit in a fixed order; `f(k, input, mutation)` returns false to stop.
	fn for_each_case(&self, u: &Unit, mut f: impl FnMut(u64, &[u8], &Mut) -> bool) {
		let mut k = 0u64;
		let mut buf: Vec<u8> = vec![];
		macro_rules! emit {
			($bytes:expr, $m:expr) => {{
				let go = f(k, $bytes, &$m);
				k += 1;
				if !go {
					return;
				}
			}};
		}
		match u.class {
			Class::Short => {
				emit!(&[], Mut::Short);
				for a in 0..=255u8 {
					emit!(&[a], Mut::Short);
				}
				for a in 0..=255u8 {
					for b in 0..=255u8 {
						emit!(&[a, b], Mut::Short);
					}
				}
			}
			Class::Monitors => {
				for a in 0..8u8 {
					emit!(&[a, 0xee], Mut::Given);
				}
			}
			Class::Explicit => {
				emit!(&self.cat.explicit[u.seed].input, Mut::Given);
			}
			Class::Trunc => {
				let e = &self.cat.seeds[u.seed].enc;
				emit!(&e.bytes, Mut::Seed);
				for at in 0..e.bytes.len() {
					emit!(&e.bytes[..at], Mut::Trunc(at));
				}
			}
			Class::Bytes => {
				let e = &self.cat.seeds[u.seed].enc;
				buf.extend_from_slice(&e.bytes);
				for off in self.byte_offsets(u.subj, u.seed) {
					let orig = e.bytes[off as usize];
					for val in 0..=255u8 {
						if val != orig {
							buf[off as usize] = val;
							emit!(&buf, Mut::Byte(off as usize, val));
						}
					}
					buf[off as usize] = orig;
				}
			}
			Class::Fields => {
				let e = &self.cat.seeds[u.seed].enc;
				for (fi, fl) in e.ints.iter().enumerate() {
					let orig = e.field_value(fl);
					for val in boundary_values(fl.w, orig, &self.cat.weight_caps) {
						e.set_field(&mut buf, fl, val);
						emit!(&buf, Mut::Field(fi, val));
					}
				}
			}
			Class::Splice => {
				let a = &self.cat.seeds[u.seed].enc;
				let ab = a.text_bounds();
				for bi in self.partners(u.subj, u.v) {
					let b = &self.cat.seeds[bi].enc;
					for &i in &ab {
						for &j in &b.text_bounds() {
							if bi == u.seed && i == j {
								continue;
							}
							buf.clear();
							buf.extend_from_slice(&a.bytes[..i as usize]);
							buf.extend_from_slice(&b.bytes[j as usize..]);
							emit!(&buf, Mut::Splice(bi, i, j));
						}
					}
				}
			}
		}
		let _ = k;
	}

	fn describe(&self, u: &Unit, m: &Mut) -> String {
		let seed = |i: usize| -> String { if i == NONE { "-".into() } else { format!("{} (v{}, {} bytes)", self.cat.seeds[i].label, self.cat.seeds[i].v, self.cat.seeds[i].enc.bytes.len()) } };
		match m {
			Mut::Short => "byte string of length <= 2".into(),
			Mut::Given => "given input".into(),
			Mut::Seed => format!("unmutated seed {}", seed(u.seed)),
			Mut::Trunc(at) => format!("seed {} truncated to {} bytes", seed(u.seed), at),
			Mut::Byte(off, val) => format!("seed {} with byte at offset {} set to 0x{:02x} (was 0x{:02x})", seed(u.seed), off, val, self.cat.seeds[u.seed].enc.bytes[*off]),
			Mut::Field(fi, val) => {
				let e = &self.cat.seeds[u.seed].enc;
				let fl = &e.ints[*fi];
				format!("seed {} with integer field #{} (u{} at offset {}, was {}) set to {}", seed(u.seed), fi, fl.w as u32 * 8, fl.off, e.field_value(fl), val)
			}
			Mut::Splice(b, i, j) => format!("seed {} up to field boundary {} followed by seed {} from field boundary {}", seed(u.seed), i, seed(*b), j),
		}
	}

	fn case_json(&self, u: &Unit, input: &[u8], m: &Mut) -> Value {
		json!({
			"subject": self.subs[u.subj].name,
			"version": u.v,
			"input": hex(input),
			"len": input.len(),
			"mutation": self.describe(u, m),
		})
	}
}

// ------------------------------------------------------------------------------------------
// Shared progress page: lets the supervisor attribute a worker's death to the case it ran
// ------------------------------------------------------------------------------------------

const SHM_LEN: usize = 128;
const S_SEQ: usize = 0;
const S_CASE: usize = 1;
const S_STATE: usize = 2;
const S_HANG: usize = 3;
const S_SITE: usize = 64; // byte offset of the 0-terminated site name

static SHM_ADDR: std::sync::atomic::AtomicUsize = std::sync::atomic::AtomicUsize::new(0);

#[derive(Clone, Copy)]
struct Shm(*mut u8);
unsafe impl Send for Shm {}

impl Shm {
	fn map(path: &std::path::Path) -> Shm {
		use std::os::unix::io::AsRawFd;
		let f = std::fs::OpenOptions::new().read(true).write(true).open(path).expect("open shm file");
		let p = unsafe { libc::mmap(std::ptr::null_mut(), SHM_LEN, libc::PROT_READ | libc::PROT_WRITE, libc::MAP_SHARED, f.as_raw_fd(), 0) };
		assert!(p != libc::MAP_FAILED, "mmap of the progress page failed");
		Shm(p as *mut u8)
	}
	fn slot(&self, i: usize) -> &AtomicU64 {
		unsafe { &*(self.0 as *const AtomicU64).add(i) }
	}
	fn set_site(&self, site: &str) {
		let b = site.as_bytes();
		let n = b.len().min(SHM_LEN - S_SITE - 1);
		unsafe {
			std::ptr::copy_nonoverlapping(b.as_ptr(), self.0.add(S_SITE), n);
			*self.0.add(S_SITE + n) = 0;
		}
	}
}

fn pause_watchdog() {
	let a = SHM_ADDR.load(Ordering::Relaxed);
	if a != 0 {
		Shm(a as *mut u8).slot(S_STATE).store(0, Ordering::SeqCst);
	}
}

fn note_site(site: &str) {
	let a = SHM_ADDR.load(Ordering::Relaxed);
	if a != 0 {
		Shm(a as *mut u8).set_site(site);
	}
}

struct ShmView {
	seq: u64,
	case: u64,
	state: u64,
	hang: u64,
	site: String,
}

fn read_shm(path: &std::path::Path) -> ShmView {
	let mut b = std::fs::read(path).unwrap_or_default();
	b.resize(SHM_LEN, 0);
	let g = |i: usize| u64::from_ne_bytes(b[8 * i..8 * i + 8].try_into().unwrap());
	let site: Vec<u8> = b[S_SITE..].iter().cloned().take_while(|c| *c != 0).collect();
	ShmView { seq: g(S_SEQ), case: g(S_CASE), state: g(S_STATE), hang: g(S_HANG), site: String::from_utf8_lossy(&site).to_string() }
}

// ------------------------------------------------------------------------------------------
// Worker process: a long-lived, single-threaded parent that forks one case-runner child per
// chunk of a unit. The child writes one record per finished case into shared memory; when it
// dies (abort, allocation failure, kill by the watchdog) the parent knows the case it was on,
// records the violation and forks a new child right after that case.
// ------------------------------------------------------------------------------------------

const CHUNK: usize = 1 << 16;
const R_NDONE: usize = 0;
const R_FINISHED: usize = 1;
const R_MAXREQ: usize = 2;
const R_HDR: usize = 8; // u64 slots before the records

#[repr(C)]
#[derive(Clone, Copy)]
struct RecSlot {
	hash: u64,
	a_ptr: usize,
	a_len: usize,
	b_ptr: usize,
	b_len: usize,
}

struct ResArea(*mut u8);

impl ResArea {
	fn new() -> ResArea {
		let len = R_HDR * 8 + CHUNK * std::mem::size_of::<RecSlot>();
		let p = unsafe { libc::mmap(std::ptr::null_mut(), len, libc::PROT_READ | libc::PROT_WRITE, libc::MAP_SHARED | libc::MAP_ANONYMOUS, -1, 0) };
		assert!(p != libc::MAP_FAILED, "mmap of the result area failed");
		ResArea(p as *mut u8)
	}
	fn hdr(&self, i: usize) -> &AtomicU64 {
		unsafe { &*(self.0 as *const AtomicU64).add(i) }
	}
	fn rec(&self, i: usize) -> *mut RecSlot {
		unsafe { (self.0.add(R_HDR * 8) as *mut RecSlot).add(i) }
	}
}

fn fast_hash(b: &[u8]) -> u64 {
	let mut h: u64 = 0x9e37_79b9_7f4a_7c15 ^ (b.len() as u64).wrapping_mul(0xff51_afd7_ed55_8ccd);
	let mut it = b.chunks_exact(8);
	for c in &mut it {
		h = (h ^ u64::from_le_bytes(c.try_into().unwrap())).wrapping_mul(0x2127_599b_f432_5c37);
		h ^= h >> 29;
	}
	for x in it.remainder() {
		h = (h ^ *x as u64).wrapping_mul(0x0000_0100_0000_01b3);
	}
	h ^= h >> 32;
	h.wrapping_mul(0x8803_55f2_1e6d_1965) ^ (h >> 17)
}

/// body of the forked child: run the cases `start..` of the unit (at most CHUNK), never returns
fn child_run(sp: &Space, rc: &RunCtx, u: &Unit, start: u64, shm: &Shm, res: &ResArea, pipe_wr: i32) -> ! {
	let s = &sp.subs[u.subj];
	let mut n = 0usize;
	let mut stopped = false;
	let mut keys: HashSet<String> = HashSet::new();
	let mut sampled = (false, false);
	// truncations, single-byte changes and short strings are pairwise distinct by construction
	let need_hash = matches!(u.class, Class::Fields | Class::Splice);
	let send = |line: String| {
		let b = line.into_bytes();
		let mut off = 0;
		while off < b.len() {
			let w = unsafe { libc::write(pipe_wr, b[off..].as_ptr() as *const libc::c_void, b.len() - off) };
			if w <= 0 {
				break;
			}
			off += w as usize;
		}
	};
	sp.for_each_case(u, |k, input, m| {
		if k < start {
			return true;
		}
		if n == CHUNK {
			stopped = true;
			return false;
		}
		shm.slot(S_CASE).store(k, Ordering::SeqCst);
		shm.slot(S_STATE).store(1, Ordering::SeqCst);
		let out = run_case(s, u.v, input, rc);
		shm.slot(S_STATE).store(0, Ordering::SeqCst);
		let c: Classes = match out {
			Ok(c) => {
				let ok = c.0 == "ok" || (s.dec == Dec::Codec && c.0 != "none");
				if ((ok && !sampled.0) || (!ok && !sampled.1)) && (u.class != Class::Short || k % 7 == 3) {
					if ok {
						sampled.0 = true
					} else {
						sampled.1 = true
					}
					let mut cj = sp.case_json(u, &input[..input.len().min(96)], m);
					cj["outcome"] = json!(format!("{}{}{}", c.0, if c.1.is_empty() { "" } else { " / " }, c.1));
					send(format!("S {}\n", cj));
				}
				c
			}
			Err(v) => {
				let key = if u.class == Class::Monitors { format!("{}#{}", v.key, input[0]) } else { v.key };
				if keys.insert(key.clone()) {
					let what = format!("{} [{}; v{}; {}]", v.what, s.name, u.v, sp.describe(u, m));
					send(format!("V {}\n", json!({"key": key, "what": what, "case": sp.case_json(u, input, m)})));
				}
				("VIOLATION", "")
			}
		};
		unsafe {
			*res.rec(n) = RecSlot { hash: if need_hash { fast_hash(input) } else { k }, a_ptr: c.0.as_ptr() as usize, a_len: c.0.len(), b_ptr: c.1.as_ptr() as usize, b_len: c.1.len() };
		}
		n += 1;
		res.hdr(R_NDONE).store(n as u64, Ordering::SeqCst);
		true
	});
	res.hdr(R_MAXREQ).store(MAX_REQ_SEEN.with(|c| c.get()) as u64, Ordering::SeqCst);
	res.hdr(R_FINISHED).store(if stopped { 0 } else { 1 }, Ordering::SeqCst);
	unsafe { libc::_exit(0) }
}

fn run_unit(sp: &Space, rc: &RunCtx, u: &Unit, shm: &Shm, res: &ResArea, cerr: &std::path::Path) -> Report {
	let mut r = Report::new();
	let s = &sp.subs[u.subj];
	let mut seen: HashSet<u64> = HashSet::new();
	let mut classes: HashMap<Classes, u64> = HashMap::new();
	let mut start = 0u64;
	let mut deaths = 0u64;
	let mut max_req = 0u64;
	shm.slot(S_SEQ).fetch_add(1, Ordering::SeqCst);
	let cerr_c = std::ffi::CString::new(cerr.to_str().unwrap()).unwrap();
	loop {
		res.hdr(R_NDONE).store(0, Ordering::SeqCst);
		res.hdr(R_FINISHED).store(0, Ordering::SeqCst);
		res.hdr(R_MAXREQ).store(0, Ordering::SeqCst);
		shm.slot(S_STATE).store(0, Ordering::SeqCst);
		let mut fds = [0i32; 2];
		assert!(unsafe { libc::pipe(fds.as_mut_ptr()) } == 0, "pipe");
		let pid = unsafe { libc::fork() };
		assert!(pid >= 0, "fork failed");
		if pid == 0 {
			unsafe {
				libc::prctl(libc::PR_SET_PDEATHSIG, libc::SIGKILL);
				libc::close(fds[0]);
				let fd = libc::open(cerr_c.as_ptr(), libc::O_WRONLY | libc::O_CREAT | libc::O_TRUNC, 0o644);
				if fd >= 0 {
					libc::dup2(fd, 2);
					libc::close(fd);
				}
			}
			child_run(sp, rc, u, start, shm, res, fds[1]);
		}
		unsafe { libc::close(fds[1]) };
		// collect the child's messages; act as its watchdog
		let mut data: Vec<u8> = vec![];
		let cpu_of = |pid: i32| -> u128 {
			let mut cid: libc::clockid_t = 0;
			let mut ts = libc::timespec { tv_sec: 0, tv_nsec: 0 };
			unsafe {
				if libc::clock_getcpuclockid(pid, &mut cid) != 0 || libc::clock_gettime(cid, &mut ts) != 0 {
					return 0;
				}
			}
			ts.tv_sec as u128 * 1000 + ts.tv_nsec as u128 / 1_000_000
		};
		let mut last = (u64::MAX, std::time::Instant::now(), 0u128);
		let mut hung = false;
		loop {
			let mut pfd = libc::pollfd { fd: fds[0], events: libc::POLLIN, revents: 0 };
			let pr = unsafe { libc::poll(&mut pfd, 1, 20) };
			if pr > 0 {
				let mut buf = [0u8; 8192];
				let n = unsafe { libc::read(fds[0], buf.as_mut_ptr() as *mut libc::c_void, buf.len()) };
				if n <= 0 {
					break;
				}
				data.extend_from_slice(&buf[..n as usize]);
				continue;
			}
			let cur = shm.slot(S_CASE).load(Ordering::SeqCst);
			let busy = shm.slot(S_STATE).load(Ordering::SeqCst) == 1;
			if !busy || cur != last.0 {
				last = (cur, std::time::Instant::now(), cpu_of(pid));
			} else if cpu_of(pid).saturating_sub(last.2) >= WATCHDOG_MS || last.1.elapsed().as_millis() >= WATCHDOG_WALL_MS {
				// 2 s of CPU on one case (a machine-load independent reading of "2 s"), or
				// 120 s of wall time (blocked without consuming CPU; Codec's own body timeout is 60 s)
				hung = true;
				unsafe { libc::kill(pid, libc::SIGKILL) };
				last = (cur, std::time::Instant::now(), u128::MAX);
			}
		}
		unsafe { libc::close(fds[0]) };
		let mut status = 0i32;
		unsafe { libc::waitpid(pid, &mut status, 0) };
		for line in String::from_utf8_lossy(&data).lines() {
			if let Some(j) = line.strip_prefix("V ") {
				if let Ok(v) = serde_json::from_str::<Value>(j) {
					r.violation(v["key"].as_str().unwrap_or("?"), v["what"].as_str().unwrap_or("?"), v["case"].clone());
				}
			} else if let Some(j) = line.strip_prefix("S ") {
				if let Ok(v) = serde_json::from_str::<Value>(j) {
					r.sample(v);
				}
			}
		}
		let n_done = res.hdr(R_NDONE).load(Ordering::SeqCst) as usize;
		for i in 0..n_done {
			let rec = unsafe { *res.rec(i) };
			// the strings are statics of this very binary image: same addresses in parent and child
			let a: &'static str = unsafe { std::str::from_utf8_unchecked(std::slice::from_raw_parts(rec.a_ptr as *const u8, rec.a_len)) };
			let b: &'static str = unsafe { std::str::from_utf8_unchecked(std::slice::from_raw_parts(rec.b_ptr as *const u8, rec.b_len)) };
			*classes.entry((a, b)).or_insert(0) += 1;
			if seen.insert(rec.hash) {
				r.distinct += 1;
			}
		}
		r.evaluations += n_done as u64;
		max_req = max_req.max(res.hdr(R_MAXREQ).load(Ordering::SeqCst));
		let clean = libc::WIFEXITED(status) && libc::WEXITSTATUS(status) == 0;
		if clean {
			if res.hdr(R_FINISHED).load(Ordering::SeqCst) == 1 {
				break;
			}
			start += n_done as u64;
			continue;
		}
		// the child died on case start + n_done
		let d = start + n_done as u64;
		if shm.slot(S_STATE).load(Ordering::SeqCst) != 1 || shm.slot(S_CASE).load(Ordering::SeqCst) != d {
			eprintln!("MACHINERY: C11 case runner died outside a case (status {:#x}, unit {:?}, expected case {}, page says {}/{})", status, u, d, shm.slot(S_CASE).load(Ordering::SeqCst), shm.slot(S_STATE).load(Ordering::SeqCst));
			std::process::exit(3);
		}
		deaths += 1;
		r.evaluations += 1;
		r.distinct += 1;
		let how = if libc::WIFSIGNALED(status) { format!("signal {}", libc::WTERMSIG(status)) } else { format!("exit {}", libc::WEXITSTATUS(status)) };
		let errtxt = std::fs::read_to_string(cerr).unwrap_or_default();
		let site = unsafe {
			let p = shm.0.add(S_SITE);
			let mut n = 0;
			while n < SHM_LEN - S_SITE && *p.add(n) != 0 {
				n += 1;
			}
			String::from_utf8_lossy(std::slice::from_raw_parts(p, n)).to_string()
		};
		let mut desc = None;
		sp.for_each_case(u, |kk, input, m| {
			if kk == d {
				desc = Some((sp.case_json(u, input, m), sp.describe(u, m), input.len(), input.first().copied().unwrap_or(0)));
				false
			} else {
				true
			}
		});
		let (cj, dtext, len, b0) = desc.expect("case index of the dead case runner");
		let alloc_fail = errtxt.lines().find(|l| l.contains("memory allocation of") && l.contains("failed")).map(|l| l.trim().to_string());
		let (mut key, what) = if hung {
			(format!("{}:hang", site), format!("{} did not return within {} ms of CPU time / {} ms of wall time (case runner stopped by the watchdog)", site, WATCHDOG_MS, WATCHDOG_WALL_MS))
		} else if let Some(l) = alloc_fail {
			(format!("{}:over-alloc", site), format!("{} aborted the process: '{}' for a {} byte input under a 1 GiB address-space limit; bound is 16*len+64KiB = {}", site, l, len, alloc_limit(len)))
		} else {
			let tail: String = errtxt.lines().rev().take(3).collect::<Vec<_>>().join(" | ");
			(format!("{}:died({})", site, how), format!("{} killed the decoding process ({}); stderr: {}", site, how, tail))
		};
		if u.class == Class::Monitors {
			key = format!("{}#{}", key, b0);
		}
		if !r.violations.iter().any(|x| x.key == key) {
			r.violation(key, format!("{} [{}; v{}; {}]", what, s.name, u.v, dtext), cj);
		}
		*classes.entry(("DIED", "")).or_insert(0) += 1;
		start = d + 1;
		// a decoder that hangs or dies on a whole family of inputs: every such case costs its watchdog; the verdict is
		// in the violations already, so the rest of this unit is left out (reported as capped)
		if deaths >= 12 && u.class != Class::Monitors {
			r.capped = Some(format!("{}: a unit was stopped after {} deaths / hangs of its case runner", s.name, deaths));
			break;
		}
	}
	for ((a, b), n) in classes {
		let name = if b.is_empty() { format!("{}|{}", s.name, a) } else { format!("{}|{}|{}", s.name, a, b) };
		*r.outcomes.entry(name).or_insert(0) += n;
	}
	r.extra.insert("max_single_request".into(), json!(max_req));
	if deaths > 0 {
		r.extra.insert("case_runner_deaths".into(), json!(deaths));
	}
	r
}

fn worker_main(tier: Tier) {
	uni::init_thread();
	// never outlive the supervisor
	unsafe { libc::prctl(libc::PR_SET_PDEATHSIG, libc::SIGKILL) };
	let dir = std::path::PathBuf::from(std::env::var("GV_C11_DIR").expect("GV_C11_DIR"));
	let slot: usize = std::env::var("GV_C11_SLOT").expect("GV_C11_SLOT").parse().unwrap();
	let cat: Cat = serde_json::from_slice(&std::fs::read(dir.join("cat.json")).expect("read catalogue")).expect("parse catalogue");
	let sp = Space::new(&cat, tier);
	let rc = RunCtx::from(&cat.ctx);
	let shm = Shm::map(&dir.join(format!("w{}.shm", slot)));
	SHM_ADDR.store(shm.0 as usize, Ordering::SeqCst);
	let res = ResArea::new();
	let cerr = dir.join(format!("w{}.cerr", slot));
	// address-space cap (inherited by the case runners): an allocation the machine cannot
	// back fails instead of thrashing; no core files
	unsafe {
		let lim = libc::rlimit { rlim_cur: RLIMIT_AS_BYTES, rlim_max: RLIMIT_AS_BYTES };
		libc::setrlimit(libc::RLIMIT_AS, &lim);
		let nocore = libc::rlimit { rlim_cur: 0, rlim_max: 0 };
		libc::setrlimit(libc::RLIMIT_CORE, &nocore);
	}
	install_panic_hook();
	let mut units: HashMap<String, Vec<Unit>> = HashMap::new();
	let stdin = std::io::stdin();
	let stdout = std::io::stdout();
	for line in stdin.lock().lines() {
		let line = match line {
			Ok(l) => l,
			Err(_) => break,
		};
		let mut it = line.split(' ');
		if it.next() != Some("U") {
			continue;
		}
		let part = it.next().unwrap().to_string();
		let uid: usize = it.next().unwrap().parse().unwrap();
		let us = units.entry(part.clone()).or_insert_with(|| sp.units(&part));
		let rep = run_unit(&sp, &rc, &us[uid], &shm, &res, &cerr);
		let mut o = stdout.lock();
		writeln!(o, "R {} {}", uid, serde_json::to_string(&rep.to_json()).unwrap()).unwrap();
		o.flush().unwrap();
	}
}

// ------------------------------------------------------------------------------------------
// Supervisor: own worker pool, deaths attributed to cases
// ------------------------------------------------------------------------------------------

struct Worker {
	child: std::process::Child,
	stdin: std::process::ChildStdin,
	stdout: std::io::BufReader<std::process::ChildStdout>,
}

fn spawn_worker(dir: &std::path::Path, slot: usize, tier: Tier) -> Worker {
	use std::process::{Command, Stdio};
	std::fs::write(dir.join(format!("w{}.shm", slot)), vec![0u8; SHM_LEN]).expect("init shm");
	let err = std::fs::File::create(dir.join(format!("w{}.err", slot))).expect("stderr file");
	let mut child = Command::new(std::env::current_exe().expect("current_exe"))
		.args(["C11", tier.name(), "--part", "worker", "--shard", &slot.to_string(), "1"])
		.env("GV_C11_DIR", dir)
		.env("GV_C11_SLOT", slot.to_string())
		.env("RUST_BACKTRACE", "0")
		.env_remove("RUST_LIB_BACKTRACE")
		.stdin(Stdio::piped())
		.stdout(Stdio::piped())
		.stderr(Stdio::from(err))
		.spawn()
		.expect("spawn worker");
	let stdin = child.stdin.take().unwrap();
	let stdout = std::io::BufReader::new(child.stdout.take().unwrap());
	Worker { child, stdin, stdout }
}

fn status_text(st: &std::process::ExitStatus) -> String {
	use std::os::unix::process::ExitStatusExt;
	match (st.code(), st.signal()) {
		(Some(c), _) => format!("exit {}", c),
		(_, Some(s)) => format!("signal {}", s),
		_ => "unknown".into(),
	}
}

fn nthreads() -> usize {
	std::env::var("GV_C11_WORKERS").ok().and_then(|s| s.parse().ok()).unwrap_or(16)
}

fn run_pool(cat: &Cat, tier: Tier, part: &str) -> Report {
	// (several parts of one run use the class "explicit": each call gets a directory of its own)
	static POOL_SEQ: std::sync::atomic::AtomicUsize = std::sync::atomic::AtomicUsize::new(0);
	let dir = std::path::Path::new(&crate::uni::scratch_base()).join(format!("gv-c11-{}-{}-{}", std::process::id(), part, POOL_SEQ.fetch_add(1, std::sync::atomic::Ordering::SeqCst)));
	let _ = std::fs::remove_dir_all(&dir);
	std::fs::create_dir_all(&dir).expect("pool dir");
	std::fs::write(dir.join("cat.json"), serde_json::to_vec(cat).unwrap()).expect("write catalogue");
	let sp = Space::new(cat, tier);
	let units = sp.units(part);
	// largest first, so that the tail of the pool run is short
	let mut order: Vec<usize> = (0..units.len()).collect();
	order.sort_by_key(|i| std::cmp::Reverse(sp.unit_size(&units[*i])));
	order.reverse(); // popped from the back
	let queue = Arc::new(Mutex::new(order));
	let total = Arc::new(Mutex::new(Report::new()));
	let pids: Arc<Mutex<Vec<u32>>> = Arc::new(Mutex::new(vec![0; nthreads()]));
	let done = Arc::new(AtomicU64::new(0));
	let n = nthreads().min(units.len().max(1));
	// backup monitor: a worker whose own watchdog did not fire is killed after 900 s on one case
	{
		let (pids, done, dir) = (pids.clone(), done.clone(), dir.clone());
		std::thread::spawn(move || {
			let mut last: Vec<(u64, u64, std::time::Instant)> = (0..n).map(|_| (0, 0, std::time::Instant::now())).collect();
			while done.load(Ordering::SeqCst) == 0 {
				std::thread::sleep(std::time::Duration::from_millis(500));
				for slot in 0..n {
					let v = read_shm(&dir.join(format!("w{}.shm", slot)));
					if v.state != 1 || (v.seq, v.case) != (last[slot].0, last[slot].1) {
						last[slot] = (v.seq, v.case, std::time::Instant::now());
					} else if last[slot].2.elapsed().as_secs() >= 900 {
						let pid = pids.lock().unwrap()[slot];
						if pid != 0 {
							unsafe { libc::kill(pid as i32, libc::SIGKILL) };
						}
						last[slot].2 = std::time::Instant::now();
					}
				}
			}
		});
	}
	std::thread::scope(|scope| {
		for slot in 0..n {
			let (queue, total, pids, dir) = (queue.clone(), total.clone(), pids.clone(), dir.clone());
			let units = &units;
			scope.spawn(move || {
				let mut w = spawn_worker(&dir, slot, tier);
				pids.lock().unwrap()[slot] = w.child.id();
				let mut local = Report::new();
				loop {
					let uid = match queue.lock().unwrap().pop() {
						Some(u) => u,
						None => break,
					};
					let u = &units[uid];
					let sent = writeln!(w.stdin, "U {} {}", part, uid).and_then(|_| w.stdin.flush());
					let mut line = String::new();
					let got = if sent.is_ok() { w.stdout.read_line(&mut line).unwrap_or(0) } else { 0 };
					let pfx = format!("R {} ", uid);
					if got > 0 && line.starts_with(&pfx) {
						let j: Value = serde_json::from_str(line[pfx.len()..].trim()).expect("unit report");
						local.merge(Report::from_json(&j));
						continue;
					}
					// cases run in forked case runners; the worker itself must not die
					let st = w.child.wait().expect("wait worker");
					let view = read_shm(&dir.join(format!("w{}.shm", slot)));
					let errtxt = std::fs::read_to_string(dir.join(format!("w{}.err", slot))).unwrap_or_default();
					eprintln!(
						"MACHINERY: C11 worker {} died ({}) on unit {} {:?} of part {} (page: seq {} case {} state {} site {}):\n{}",
						slot, status_text(&st), uid, u, part, view.seq, view.case, view.state, view.site, errtxt
					);
					std::process::exit(2);
				}
				drop(w.stdin);
				let _ = w.child.wait();
				pids.lock().unwrap()[slot] = 0;
				total.lock().unwrap().merge(local);
			});
		}
	});
	done.store(1, Ordering::SeqCst);
	if std::env::var("GV_C11_KEEP").is_err() {
		let _ = std::fs::remove_dir_all(&dir);
	}
	let mut r = std::mem::take(&mut *total.lock().unwrap());
	r.extra.insert("units".into(), json!(units.len() as u64));
	r.extra.insert("bound_worker_processes".into(), json!(n as u64));
	r
}

// ------------------------------------------------------------------------------------------
// Engine
// ------------------------------------------------------------------------------------------

static CAT: std::sync::OnceLock<Cat> = std::sync::OnceLock::new();

fn catalogue() -> &'static Cat {
	CAT.get_or_init(build_catalogue)
}

/// The monitors must catch a planted panic / over-allocation / abort / hang / allocation
/// failure and attribute each to its case; anything missed is a defect of the check itself.
fn check_monitors(mut r: Report) -> Report {
	let expect: [(u8, &str); 6] = [
		(2, "selftest.read:unwrap-none@"),
		(3, "selftest.read:over-alloc#3"),
		(4, "selftest.read:died(signal 6)#4"),
		(5, "selftest.read:hang#5"),
		(6, "selftest.read:over-alloc#6"),
		(7, "selftest.read:over-alloc#7"),
	];
	let found: Vec<(String, Value)> = r.violations.iter().map(|v| (v.key.clone(), v.case.clone())).collect();
	r.violations.clear();
	for (b, pat) in expect.iter() {
		let hit = found.iter().any(|(k, c)| {
			let right_case = c["input"].as_str().map(|s| s.starts_with(&format!("{:02x}", b))).unwrap_or(false);
			right_case && if pat.ends_with('@') { k.starts_with(pat) && k.ends_with(&format!("#{}", b)) } else { k == pat }
		});
		if hit {
			r.outcome(&format!("planted-fault-{}-detected-and-attributed", b));
		} else {
			r.violation(
				format!("monitors:missed-planted-fault-{}", b),
				format!("the planted fault {} (expected key {}) was not detected or not attributed to its case; saw {:?}", b, pat, found.iter().map(|f| &f.0).collect::<Vec<_>>()),
				json!({"subject": "selftest", "version": 1000, "input": format!("{:02x}ee", b)}),
			);
		}
	}
	for (k, _) in found.iter().filter(|(k, _)| !expect.iter().any(|(b, _)| k.ends_with(&format!("#{}", b)))) {
		r.violation(format!("monitors:false-alarm:{}", k), "a harmless self-test input was reported as a violation".to_string(), json!({"subject": "selftest"}));
	}
	r
}

impl Engine for C11 {
	fn id(&self) -> &'static str {
		"C11"
	}
	fn meta(&self, tier: Tier) -> Meta {
		let p = params(tier);
		Meta {
			level: "exploration",
			rule: "exhaustive enumeration of a structure-aware mutation space, per decoder subject x protocol version {1,2,3,1000}: all byte strings of length <= 2; for every valid seed encoding: the seed, every truncation offset, every structural byte (bytes of integer fields; every byte for short encodings in thorough) x all 256 values, every integer field (every length / count / identifier / tag field, located by a recording Writer) x a boundary value set, every head of the seed up to a field boundary followed by every tail of every other seed from a field boundary. A case is one (subject, version, input); distinct = distinct inputs per (subject, version, seed). Each case runs in a forked case-runner process of a supervised worker (release arithmetic, catch_unwind, counting allocator bound 16*len+64KiB on the largest single request, watchdog at 2 s of CPU or 120 s of wall time on one case, 1 GiB RLIMIT_AS); a case runner that dies (abort, failed allocation, watchdog kill) is a violation attributed to the case it was running, whose index it publishes in shared memory beforehand. Codec::read must also consume input: more messages than stream bytes is a no-progress violation. Part 'monitors' plants a panic, an over-allocation, an abort, a spin loop, a failing allocation and a capacity overflow and requires each to be detected and attributed.",
			assumptions: vec![
				"chain type AutomatedTesting (max block weight 250, proof size 8, edge bits 10): message size limits and weight caps are the ones configured for it".into(),
				"release arithmetic (overflow-checks off), panic=unwind".into(),
				format!("byte x 256 sweeps cover every byte of seeds of at most {} bytes (all seeds are shorter than 4096) and the structural bytes (integer fields) of longer ones, whose opaque blobs (hashes, commitments, signatures, range proofs, PoW nonces) are then swept by truncation and splicing only{}", p.full_bytes_limit, if p.codec_body_bytes { "" } else { "; for codec.read streams longer than 128 bytes only the 11 frame-header bytes are swept (all structural bytes for Headers frames): the bodies' bytes are swept through the body subject that uses the same decoder" }),
				format!("splices: {}", if p.splice_all { "every ordered pair of seeds of the same family (bodies / framed streams / hex text) and version" } else { "every ordered pair of representative seeds (first seed of each encoding kind) of the same family and version" }),
				"Codec::read is driven over a stream socketpair end wrapped as TcpStream (same recv/SO_RCVTIMEO path); the peer closes after the input, so every stream ends in a connection error".into(),
				"decode_message is private: body subjects call BufReader::body::<T>() with the same type table, and codec.read reaches decode_message itself".into(),
				"segment validation context: 9-leaf kernel / output / range-proof MMRs, a 17-chunk bitmap accumulator and an unspent bitmap chosen here; calls mirror Desegmenter::add_*_segment".into(),
				"Codec attachment mode (expect_attachment) and UTF-8-invalid text for from_hex are outside the space (from_hex takes a &str; valid text with characters of 2-4 bytes is part `text`)".into(),
				"random byte strings are not part of the verdict".into(),
			],
			exhaustive: true,
		}
	}
	fn parts(&self, _tier: Tier) -> Vec<(&'static str, usize)> {
		vec![("monitors", 1), ("short", 1), ("trunc", 1), ("fields", 1), ("bytes", 1), ("splice", 1), ("text", 1), ("header-sizes", 1)]
	}
	fn run_part(&self, part: &str, tier: Tier, _shard: usize, _n: usize) -> Report {
		if part == "worker" {
			worker_main(tier);
			return Report::new();
		}
		if part == "text" {
			// hex text is a string, not bytes: every valid hex seed with one character of 2, 3 or 4 UTF-8 bytes
			// replacing / inserted before the characters at every offset, and every string of at most 4
			// characters over {'0', 'a', 'F', 'x', ' ', U+00E9, U+20AC, U+1F600}
			let mut cat = catalogue().clone();
			let wide: [&str; 4] = ["\u{e9}", "\u{7ff}", "\u{20ac}", "\u{1f600}"];
			let mut inputs: Vec<Vec<u8>> = vec![];
			for sd in cat.seeds.iter().filter(|s| s.kind == "hex:MerkleProof" && s.v == 1000) {
				let text = String::from_utf8(sd.enc.bytes.clone()).expect("hex seed is text");
				let n = text.len();
				let offs: Vec<usize> = if n <= 80 { (0..=n).collect() } else { (0..=8).chain(n - 8..=n).collect() };
				for w in wide.iter() {
					for &o in &offs {
						// inserted
						inputs.push(format!("{}{}{}", &text[..o], w, &text[o..]).into_bytes());
						// replacing 1, 2, 3 or 4 hex digits (keeps / changes the parity of the byte length)
						for k in 1..=4usize {
							if o + k <= n {
								inputs.push(format!("{}{}{}", &text[..o], w, &text[o + k..]).into_bytes());
							}
						}
					}
				}
			}
			let alpha: [&str; 8] = ["0", "a", "F", "x", " ", "\u{e9}", "\u{20ac}", "\u{1f600}"];
			for len in 1..=4usize {
				let mut idx = vec![0usize; len];
				loop {
					inputs.push(idx.iter().map(|i| alpha[*i]).collect::<String>().into_bytes());
					let mut k = 0;
					while k < len {
						idx[k] += 1;
						if idx[k] < alpha.len() {
							break;
						}
						idx[k] = 0;
						k += 1;
					}
					if k == len {
						break;
					}
				}
			}
			inputs.sort();
			inputs.dedup();
			cat.explicit = inputs.into_iter().map(|input| Explicit { subject: "merkleproof.from_hex".into(), v: 1000, input }).collect();
			let mut r = run_pool(&cat, tier, "explicit");
			r.extra.insert("text_inputs".into(), json!(cat.explicit.len() as u64));
			return r;
		}
		if part == "header-sizes" {
			// every honest segment of the catalogue validated against every small MMR size (valid or not: 2, 5, 6, 9 ...
			// are no MMR sizes), sizes around its own, around powers of two and at the top of the u64 range
			let mut cat = catalogue().clone();
			let mut inputs: Vec<(String, u32, Vec<u8>)> = vec![];
			let mut sizes: Vec<u64> = (0..=tier.pick(300u64, 4000u64)).collect();
			for k in 1..64u32 {
				for d in [-2i64, -1, 0, 1] {
					sizes.push(((1u64 << k) as i128 + d as i128).max(0) as u64);
				}
			}
			sizes.extend_from_slice(&[u64::MAX, u64::MAX - 1, u64::MAX / 2, u64::MAX / 2 + 1]);
			sizes.sort();
			sizes.dedup();
			for sd in cat.seeds.iter().filter(|s| s.v == 1000 || s.v == 1) {
				let subject = match sd.kind.as_str() {
					"KernelSegment" => "segment@size:Kernel",
					"OutputSegment" => "segment@size:Output",
					"RangeProofSegment" => "segment@size:RangeProof",
					_ => continue,
				};
				for sz in &sizes {
					let mut inp = sz.to_be_bytes().to_vec();
					inp.extend_from_slice(&sd.enc.bytes);
					inputs.push((subject.to_string(), sd.v, inp));
				}
			}
			inputs.sort();
			inputs.dedup();
			cat.explicit = inputs.into_iter().map(|(subject, v, input)| Explicit { subject, v, input }).collect();
			let mut r = run_pool(&cat, tier, "explicit");
			r.extra.insert("header_size_inputs".into(), json!(cat.explicit.len() as u64));
			r.extra.insert("header_sizes".into(), json!(sizes.len() as u64));
			return r;
		}
		let cat = catalogue();
		let mut r = run_pool(cat, tier, part);
		if part == "monitors" {
			r = check_monitors(r);
		} else {
			r.extra.insert("seeds".into(), json!(cat.seeds.len() as u64));
			r.extra.insert("bound_alloc".into(), json!("16*len+131072"));
		}
		r
	}
	fn replay(&self, case: &Value) -> Result<String, String> {
		let mut cat = catalogue().clone();
		let subject = case["subject"].as_str().ok_or("case without subject")?.to_string();
		if !subjects().iter().any(|s| s.name == subject) {
			return Ok(format!("unknown subject {}", subject));
		}
		cat.explicit = vec![Explicit { subject, v: case["version"].as_u64().unwrap_or(1000) as u32, input: unhex(case["input"].as_str().unwrap_or("")) }];
		let r = run_pool(&cat, Tier::Quick, "explicit");
		match r.violations.first() {
			Some(v) => Err(format!("{} :: {}", v.key, v.what)),
			None => Ok(format!("no violation; outcome {:?}", r.outcomes.keys().collect::<Vec<_>>())),
		}
	}
}
