//! C19 — Peer message framing is faithful under fragmentation and enforces size limits.
//!
//! Subject: the real `grin_p2p` `Codec` (hook H6) reading from a loopback `TcpStream`; the
//! byte stream is produced by the real `write_message` (into a buffer) and the harness owns
//! the fragmentation: after every fragment the writer waits until its own send queue
//! (`TIOCOUTQ`) and the reader's receive queue (`FIONREAD`) are both empty, i.e. the reader
//! has consumed the fragment and can only continue once the next fragment is written.
//! No sleeps, no randomness.
use crate::ev::{hex, Report, Tier};
use crate::par::mine;
use crate::{alloc, uni, Engine, Meta};
use grin_core::core::compact_block::CompactBlockBody;
use grin_core::core::hash::{Hash, Hashed};
use grin_core::core::id::{ShortId, ShortIdentifiable};
use grin_core::core::transaction::OutputIdentifier;
use grin_core::core::{
	Block, BlockHeader, Input, Inputs, OutputFeatures, CompactBlock, Segment, SegmentIdentifier, SegmentProof, Transaction,
	TransactionBody, TxKernel,
};
use grin_core::pow::Difficulty;
use grin_core::ser::{self, ProtocolVersion, Writeable, Writer};
use grin_core::{consensus, global};
use grin_p2p::handshake::Handshake;
use grin_p2p::msg::{
	self, BanReason, GetPeerAddrs, Hand, Headers, Locator, Message, Msg, MsgHeader,
	OutputBitmapSegmentResponse, OutputSegmentResponse, PeerAddrs, Ping, Pong, SegmentRequest,
	SegmentResponse, Shake, TxHashSetArchive, TxHashSetRequest, Type,
};
use grin_p2p::types::AttachmentMeta;
use grin_p2p::verif_export::{Codec, Tracker};
use grin_p2p::{Capabilities, Error as P2pError, P2PConfig, PeerAddr, ReasonForBan};
use serde_json::{json, Value};
use std::io::{Read, Write};
use std::net::{Shutdown, SocketAddr, TcpListener, TcpStream};
use std::os::unix::io::AsRawFd;
use std::sync::atomic::{AtomicU64, Ordering};
use std::sync::{mpsc, Arc};
use std::time::{Duration, Instant};

pub struct C19;

/// protocol versions of the quantifier
const VERSIONS: [u32; 4] = [1, 2, 3, 1000];
/// length of a frame header: 2 magic bytes, 1 type byte, 8 length bytes (big endian)
const FRAME: usize = 11;
/// batch size of header lists stated by the property ("header lists delivered in batches")
const BATCH: usize = 32;

// ------------------------------------------------------------------------------------------
// socket plumbing
// ------------------------------------------------------------------------------------------

fn inq(s: &TcpStream) -> usize {
	let mut n: libc::c_int = 0;
	unsafe {
		libc::ioctl(s.as_raw_fd(), libc::FIONREAD, &mut n);
	}
	n.max(0) as usize
}

fn outq(s: &TcpStream) -> usize {
	let mut n: libc::c_int = 0;
	unsafe {
		libc::ioctl(s.as_raw_fd(), libc::TIOCOUTQ, &mut n);
	}
	n.max(0) as usize
}

fn set_buf(fd: std::os::unix::io::RawFd, opt: libc::c_int, bytes: libc::c_int) {
	unsafe {
		libc::setsockopt(fd, libc::SOL_SOCKET, opt, &bytes as *const _ as *const libc::c_void, std::mem::size_of::<libc::c_int>() as libc::socklen_t);
	}
}

/// abortive close (RST): no TIME_WAIT sockets pile up over millions of connections
fn linger0(s: &TcpStream) {
	let l = libc::linger {
		l_onoff: 1,
		l_linger: 0,
	};
	unsafe {
		libc::setsockopt(
			s.as_raw_fd(),
			libc::SOL_SOCKET,
			libc::SO_LINGER,
			&l as *const _ as *const libc::c_void,
			std::mem::size_of::<libc::linger>() as libc::socklen_t,
		);
	}
}

/// What the reading side observed, in a comparable form.
#[derive(Clone, Debug, PartialEq)]
enum Ev {
	/// a typed message other than a header list: wire type and the re-serialised body
	Msg(u8, Vec<u8>),
	/// one batch of a header list: the headers re-serialised and the `remaining` count
	Headers(usize, u64, Vec<u8>),
	/// an attachment chunk: data, `read`, `left`
	Chunk(Vec<u8>, usize, usize),
	Unknown(u8),
	Err(String),
	Panic(String),
}

impl Ev {
	fn brief(&self) -> String {
		match self {
			Ev::Msg(t, b) => format!("Msg(type {}, {} bytes)", t, b.len()),
			Ev::Headers(n, r, _) => format!("Headers({} headers, remaining {})", n, r),
			Ev::Chunk(d, r, l) => format!("Chunk({} bytes, read {}, left {})", d.len(), r, l),
			Ev::Unknown(t) => format!("Unknown({})", t),
			Ev::Err(e) => format!("Err({})", e),
			Ev::Panic(e) => format!("Panic({})", e),
		}
	}
}

fn err_class(e: &P2pError) -> String {
	match e {
		P2pError::Connection(io) => format!("Connection({:?})", io.kind()),
		P2pError::Serialization(s) => {
			let t = format!("{:?}", s);
			let t: String = t.chars().take(60).collect();
			format!("Serialization({})", t)
		}
		other => {
			let t = format!("{:?}", other);
			t.chars().take(60).collect()
		}
	}
}

#[derive(Clone, Copy, PartialEq)]
enum Mode {
	/// read until the first error (end of stream)
	All,
	/// stop after the first result
	First,
}

struct Job {
	id: u64,
	stream: TcpStream,
	version: u32,
	mode: Mode,
}

struct Outcome {
	events: Vec<Ev>,
	/// bytes the codec reports as read, per call
	reported: Vec<u64>,
	stream: Option<TcpStream>,
	/// (largest single allocation request, peak live bytes) during the reads
	alloc: (usize, usize),
}

fn ser<T: Writeable>(t: &T, v: u32) -> Vec<u8> {
	ser::ser_vec(t, ProtocolVersion(v)).expect("ser_vec")
}

/// Turns a received message into its comparable form; plays the part of the protocol
/// handler for an archive message (announce the attachment to the codec).
fn digest(m: Message, v: u32, codec: &mut Codec) -> Ev {
	match m {
		Message::Unknown(t) => Ev::Unknown(t),
		Message::Ping(x) => Ev::Msg(Type::Ping as u8, ser(&x, v)),
		Message::Pong(x) => Ev::Msg(Type::Pong as u8, ser(&x, v)),
		Message::BanReason(x) => Ev::Msg(Type::BanReason as u8, ser(&x, v)),
		Message::TransactionKernel(x) => Ev::Msg(Type::TransactionKernel as u8, ser(&x, v)),
		Message::GetTransaction(x) => Ev::Msg(Type::GetTransaction as u8, ser(&x, v)),
		Message::Transaction(x) => Ev::Msg(Type::Transaction as u8, ser(&x, v)),
		Message::StemTransaction(x) => Ev::Msg(Type::StemTransaction as u8, ser(&x, v)),
		Message::GetBlock(x) => Ev::Msg(Type::GetBlock as u8, ser(&x, v)),
		Message::Block(x) => Ev::Msg(Type::Block as u8, ser(&Block::from(x), v)),
		Message::GetCompactBlock(x) => Ev::Msg(Type::GetCompactBlock as u8, ser(&x, v)),
		Message::CompactBlock(x) => {
			Ev::Msg(Type::CompactBlock as u8, ser(&CompactBlock::from(x), v))
		}
		Message::GetHeaders(x) => Ev::Msg(Type::GetHeaders as u8, ser(&x, v)),
		Message::Header(x) => Ev::Msg(Type::Header as u8, ser(&BlockHeader::from(x), v)),
		Message::Headers(d) => {
			let mut b = vec![];
			for h in &d.headers {
				b.extend(ser(h, v));
			}
			Ev::Headers(d.headers.len(), d.remaining, b)
		}
		Message::GetPeerAddrs(x) => Ev::Msg(Type::GetPeerAddrs as u8, ser(&x, v)),
		Message::PeerAddrs(x) => Ev::Msg(Type::PeerAddrs as u8, ser(&x, v)),
		Message::TxHashSetRequest(x) => Ev::Msg(Type::TxHashSetRequest as u8, ser(&x, v)),
		Message::TxHashSetArchive(x) => {
			let e = Ev::Msg(Type::TxHashSetArchive as u8, ser(&x, v));
			// what Protocol::consume does: Consumed::Attachment(meta{size: bytes}, file)
			codec.expect_attachment(Arc::new(AttachmentMeta {
				size: x.bytes as usize,
				hash: x.hash,
				height: x.height,
				start_time: chrono::Utc::now(),
				path: std::path::PathBuf::from("/nonexistent"),
			}));
			e
		}
		Message::Attachment(u, bytes) => {
			Ev::Chunk(bytes.map(|b| b.to_vec()).unwrap_or_default(), u.read, u.left)
		}
		Message::GetOutputBitmapSegment(x) => Ev::Msg(Type::GetOutputBitmapSegment as u8, ser(&x, v)),
		Message::OutputBitmapSegment(x) => Ev::Msg(Type::OutputBitmapSegment as u8, ser(&x, v)),
		Message::GetOutputSegment(x) => Ev::Msg(Type::GetOutputSegment as u8, ser(&x, v)),
		Message::OutputSegment(x) => Ev::Msg(Type::OutputSegment as u8, ser(&x, v)),
		Message::GetRangeProofSegment(x) => Ev::Msg(Type::GetRangeProofSegment as u8, ser(&x, v)),
		Message::RangeProofSegment(x) => Ev::Msg(Type::RangeProofSegment as u8, ser(&x, v)),
		Message::GetKernelSegment(x) => Ev::Msg(Type::GetKernelSegment as u8, ser(&x, v)),
		Message::KernelSegment(x) => Ev::Msg(Type::KernelSegment as u8, ser(&x, v)),
	}
}

/// The receiving peer: one thread per process that runs the real codec over each stream.
fn reader_loop(rx: mpsc::Receiver<Job>, tx: mpsc::Sender<Outcome>, done: Arc<AtomicU64>) {
	uni::init_thread();
	while let Ok(job) = rx.recv() {
		let id = job.id;
		let mut events = vec![];
		let mut reported = vec![];
		let mut codec = Codec::new(ProtocolVersion(job.version), job.stream);
		alloc::reset();
		let r = std::panic::catch_unwind(std::panic::AssertUnwindSafe(|| {
			loop {
				let (res, n) = codec.read();
				reported.push(n);
				match res {
					Ok(m) => {
						let e = digest(m, job.version, &mut codec);
						events.push(e);
					}
					Err(e) => {
						events.push(Ev::Err(err_class(&e)));
						break;
					}
				}
				if job.mode == Mode::First || events.len() > 4096 {
					break;
				}
			}
		}));
		let alloc = alloc::stop();
		if let Err(p) = r {
			let s = p
				.downcast_ref::<String>()
				.cloned()
				.or_else(|| p.downcast_ref::<&str>().map(|s| s.to_string()))
				.unwrap_or_else(|| "?".into());
			events.push(Ev::Panic(s));
		}
		done.store(id, Ordering::SeqCst);
		let _ = tx.send(Outcome {
			events,
			reported,
			stream: Some(codec.stream()),
			alloc,
		});
	}
}

struct Exec {
	events: Vec<Ev>,
	reported: Vec<u64>,
	/// bytes still unread in the reader's socket when the reader had finished
	unread: usize,
	alloc: (usize, usize),
	/// machinery trouble (writer could not get rid of a fragment, reader never answered)
	stalled: Option<String>,
	/// fragments really delivered one by one (reader had drained the socket before the next)
	fragments_observed: usize,
}

struct Rig {
	listener: TcpListener,
	port: u16,
	ctr: u32,
	job: u64,
	tx: mpsc::Sender<Job>,
	rx: mpsc::Receiver<Outcome>,
	done: Arc<AtomicU64>,
	spins: u64,
	/// the long-lived connection of `exec_reuse`: (writer end, dup of the reader end, reader end)
	conn: Option<(TcpStream, TcpStream, TcpStream)>,
	connections: u64,
	/// time spent waiting for a reader that wanted more bytes than the stream has
	hung_ms: u64,
	/// executions repeated because an I/O timeout of the codec fired (CPU starvation)
	timeouts: u64,
}

/// Pins the process (writer and reader thread) onto one CPU: the two threads strictly
/// alternate, so on a shared CPU a hand-over is one context switch instead of a cross-CPU
/// wake-up.
fn pin(slot: usize) {
	unsafe {
		let mut set: libc::cpu_set_t = std::mem::zeroed();
		if libc::sched_getaffinity(0, std::mem::size_of::<libc::cpu_set_t>(), &mut set) != 0 {
			return;
		}
		let cpus: Vec<usize> = (0..libc::CPU_SETSIZE as usize).filter(|&c| libc::CPU_ISSET(c, &set)).collect();
		if cpus.is_empty() {
			return;
		}
		let mut one: libc::cpu_set_t = std::mem::zeroed();
		libc::CPU_SET(cpus[slot % cpus.len()], &mut one);
		libc::sched_setaffinity(0, std::mem::size_of::<libc::cpu_set_t>(), &one);
	}
}

impl Rig {
	fn new(slot: usize) -> Rig {
		if std::env::var("GV_C19_NOPIN").is_err() {
			pin(slot);
		}
		let listener = TcpListener::bind("0.0.0.0:0").expect("bind loopback listener");
		// room for the largest stream, so that TCP flow control (window probes) never adds
		// delays of its own; accepted sockets inherit the receive buffer
		set_buf(listener.as_raw_fd(), libc::SO_RCVBUF, 1 << 20);
		let port = listener.local_addr().unwrap().port();
		let (tx, jrx) = mpsc::channel::<Job>();
		let (otx, rx) = mpsc::channel::<Outcome>();
		let done = Arc::new(AtomicU64::new(0));
		let d2 = done.clone();
		std::thread::Builder::new()
			.name("c19-reader".into())
			.spawn(move || reader_loop(jrx, otx, d2))
			.expect("spawn reader");
		Rig {
			listener,
			port,
			ctr: std::process::id().wrapping_mul(2654435761),
			job: 0,
			tx,
			rx,
			done,
			spins: 0,
			conn: None,
			connections: 0,
			hung_ms: 0,
			timeouts: 0,
		}
	}

	/// a fresh loopback connection; the destination address rotates through 127.0.0.0/8 so
	/// that 4-tuples are never reused quickly
	fn connect(&mut self) -> (TcpStream, TcpStream) {
		self.ctr = self.ctr.wrapping_add(1);
		let c = self.ctr;
		let ip = std::net::Ipv4Addr::new(127, ((c >> 16) & 0x7f) as u8, (c >> 8) as u8, (c as u8) | 1);
		let client = TcpStream::connect(SocketAddr::new(ip.into(), self.port)).expect("connect");
		let (server, _) = self.listener.accept().expect("accept");
		let _ = client.set_nodelay(true);
		set_buf(client.as_raw_fd(), libc::SO_SNDBUF, 1 << 20);
		let _ = client.set_write_timeout(Some(Duration::from_secs(5)));
		self.connections += 1;
		(client, server)
	}

	/// waits until everything written so far has been consumed by the reader
	fn wait_consumed(&mut self, client: &TcpStream, probe: &TcpStream, id: u64) -> Result<bool, String> {
		let mut n = 0u64;
		let mut start: Option<Instant> = None;
		loop {
			if outq(client) == 0 && inq(probe) == 0 {
				return Ok(true);
			}
			if self.done.load(Ordering::SeqCst) == id {
				return Ok(false);
			}
			n += 1;
			self.spins += 1;
			std::thread::yield_now();
			if n % 4096 == 0 {
				let s = *start.get_or_insert_with(Instant::now);
				if s.elapsed() > Duration::from_secs(10) {
					return Err("reader did not consume the fragment within 10 s".into());
				}
			}
		}
	}

	/// One execution on the long-lived connection (a fresh `Codec` per execution): the
	/// fragments written one by one; the stream is terminated by a sentinel frame with a
	/// wrong magic, which the codec must refuse exactly at the next frame boundary. After
	/// any anomaly the connection is replaced.
	fn exec_reuse(&mut self, version: u32, frags: &[&[u8]], sentinel: &[u8]) -> Exec {
		let reusable = match &self.conn {
			Some((c, p, _)) => outq(c) == 0 && inq(p) == 0,
			None => false,
		};
		if !reusable {
			if let Some((c, _, _)) = self.conn.take() {
				linger0(&c);
			}
			let (client, server) = self.connect();
			let probe = server.try_clone().expect("dup");
			self.conn = Some((client, probe, server));
		}
		let (mut client, probe, server) = self.conn.take().unwrap();
		self.job += 1;
		let id = self.job;
		self.tx.send(Job { id, stream: server, version, mode: Mode::All }).expect("reader thread alive");
		let mut stalled = None;
		let mut observed = 0;
		for (i, f) in frags.iter().enumerate() {
			let last = i + 1 == frags.len();
			let mut res = client.write_all(f);
			if last && res.is_ok() {
				res = client.write_all(sentinel);
			}
			if let Err(e) = res {
				if self.done.load(Ordering::SeqCst) != id {
					stalled = Some(format!("write of fragment {} failed: {}", i, e));
				}
				break;
			}
			if !last {
				match self.wait_consumed(&client, &probe, id) {
					Ok(true) => observed += 1,
					Ok(false) => break,
					Err(e) => {
						stalled = Some(e);
						break;
					}
				}
			}
		}
		// The reader normally finishes on the sentinel. If it has consumed everything and
		// still wants more (it can only be waiting for bytes that were never announced), end
		// the stream so that it fails at once instead of after the 2 s / 60 s I/O timeouts.
		let mut hung = false;
		let mut since: Option<Instant> = None;
		let mut n = 0u32;
		while self.done.load(Ordering::SeqCst) != id {
			std::thread::yield_now();
			n += 1;
			if n % 8 == 0 && stalled.is_none() && outq(&client) == 0 && inq(&probe) == 0 {
				let t = *since.get_or_insert_with(Instant::now);
				if t.elapsed() > Duration::from_millis(50) {
					hung = true;
					let _ = client.shutdown(Shutdown::Write);
					break;
				}
			}
		}
		let mut out = match self.rx.recv_timeout(Duration::from_secs(150)) {
			Ok(o) => o,
			Err(_) => {
				eprintln!("MACHINERY: C19 reader thread did not answer within 150 s");
				std::process::exit(2);
			}
		};
		let unread = inq(&probe);
		if hung && !matches!(out.events.last(), Some(Ev::Err(e)) if e.starts_with("Serialization(UnexpectedData")) {
			// the reader really was waiting for bytes the stream does not have
			self.hung_ms += 50;
		}
		let clean = unread == 0 && stalled.is_none() && !hung && outq(&client) == 0;
		match (clean, out.stream.take()) {
			(true, Some(server)) => self.conn = Some((client, probe, server)),
			_ => linger0(&client),
		}
		Exec {
			events: out.events,
			reported: out.reported,
			unread,
			alloc: out.alloc,
			stalled,
			fragments_observed: observed + 1,
		}
	}

	/// One execution: a fresh connection, the fragments written one by one, end of stream.
	fn exec(&mut self, version: u32, frags: &[&[u8]], mode: Mode) -> Exec {
		let (mut client, server) = self.connect();
		let probe = server.try_clone().expect("dup");
		self.job += 1;
		let id = self.job;
		self.tx
			.send(Job {
				id,
				stream: server,
				version,
				mode,
			})
			.expect("reader thread alive");
		let mut stalled = None;
		let mut observed = 0;
		for (i, f) in frags.iter().enumerate() {
			if let Err(e) = client.write_all(f) {
				if self.done.load(Ordering::SeqCst) != id {
					stalled = Some(format!("write of fragment {} failed: {}", i, e));
				}
				break;
			}
			if i + 1 < frags.len() {
				match self.wait_consumed(&client, &probe, id) {
					Ok(true) => observed += 1,
					Ok(false) => break,
					Err(e) => {
						stalled = Some(e);
						break;
					}
				}
			}
		}
		let _ = client.shutdown(Shutdown::Write);
		for _ in 0..2_000 {
			if self.done.load(Ordering::SeqCst) == id {
				break;
			}
			std::thread::yield_now();
		}
		let out = match self.rx.recv_timeout(Duration::from_secs(150)) {
			Ok(o) => o,
			Err(_) => {
				// the reader is stuck inside the codec: nothing sane can follow in this process
				eprintln!("MACHINERY: C19 reader thread did not answer within 150 s");
				std::process::exit(2);
			}
		};
		let unread = inq(&probe);
		linger0(&client);
		drop(client);
		drop(out.stream);
		drop(probe);
		Exec {
			events: out.events,
			reported: out.reported,
			unread,
			alloc: out.alloc,
			stalled,
			fragments_observed: observed + 1,
		}
	}
}

// ------------------------------------------------------------------------------------------
// the message alphabet
// ------------------------------------------------------------------------------------------

/// What the receiver must observe for one sent item (from the property statement).
#[derive(Clone, Debug)]
enum Exp {
	Msg(u8, Vec<u8>),
	/// one batch of at most 32 headers with the count of headers still to come
	Headers(usize, u64, Vec<u8>),
	/// attachment chunks that concatenate to this file
	Attach(Vec<u8>),
	Unknown(u8),
}

struct Item {
	name: String,
	/// per version: the bytes the sending peer puts on the wire (frame, body, attachment)
	wire: Vec<Vec<u8>>,
	/// per version: the expected observations
	exp: Vec<Vec<Exp>>,
	/// offset of interesting structure inside the wire bytes (for outcome classes)
	body_len: Vec<usize>,
}

struct RawCompact<'a> {
	header: &'a BlockHeader,
	nonce: u64,
	body: &'a CompactBlockBody,
}
impl<'a> Writeable for RawCompact<'a> {
	fn write<W: Writer>(&self, w: &mut W) -> Result<(), ser::Error> {
		self.header.write(w)?;
		w.write_u64(self.nonce)?;
		self.body.write(w)
	}
}

fn magic() -> [u8; 2] {
	let h = ser(&MsgHeader::new(Type::Ping, 0), 1);
	[h[0], h[1]]
}

/// frame header written by hand: magic, type byte, length (big endian)
fn raw_header(m: [u8; 2], ty: u8, len: u64) -> Vec<u8> {
	let mut v = vec![m[0], m[1], ty];
	v.extend_from_slice(&len.to_be_bytes());
	v
}

fn tmp_file(tag: &str, data: &[u8]) -> (std::path::PathBuf, std::fs::File) {
	let p = std::path::Path::new(&crate::uni::scratch_base()).join(format!("gv-c19-{}-{}", std::process::id(), tag));
	std::fs::write(&p, data).expect("write attachment file");
	let f = std::fs::File::open(&p).expect("open attachment file");
	(p, f)
}

/// The sending peer: the real `Msg::new` + `write_message` into a buffer (fresh tracker, so
/// no rate-limit sleep). The result is cross-checked against the hand-written framing.
fn wire_of<T: Writeable>(ty: Type, payload: &T, v: u32, attachment: Option<&[u8]>) -> (Vec<u8>, Vec<u8>) {
	let body = ser(payload, v);
	let mut msg = Msg::new(ty, payload, ProtocolVersion(v)).expect("Msg::new");
	let mut path = None;
	if let Some(a) = attachment {
		let (p, f) = tmp_file("att", a);
		msg.add_attachment(f);
		path = Some(p);
	}
	let mut wire = vec![];
	msg::write_message(&mut wire, &msg, Arc::new(Tracker::new())).expect("write_message");
	if let Some(p) = path {
		let _ = std::fs::remove_file(p);
	}
	let mut exp = raw_header(magic(), ty as u8, body.len() as u64);
	exp.extend_from_slice(&body);
	if let Some(a) = attachment {
		exp.extend_from_slice(a);
	}
	assert!(wire == exp, "write_message framing of {:?} differs from magic|type|len|body|attachment", ty);
	(wire, body)
}

fn hash_of(b: u8) -> Hash {
	Hash::from_vec(&[b; 32])
}

/// deterministic attachment content
fn att_bytes(n: usize) -> Vec<u8> {
	(0..n).map(|i| ((i * 131 + i / 251 + 7) % 256) as u8).collect()
}

/// `n` block headers with real proof of work (accepted by the untrusted-header reader)
fn mined_headers(n: usize) -> Vec<BlockHeader> {
	let mut out = vec![];
	let mut prev = hash_of(0);
	for i in 0..n {
		let mut h = BlockHeader::default();
		h.height = 1 + i as u64;
		h.version = consensus::header_version(h.height);
		h.timestamp = chrono::DateTime::<chrono::Utc>::from_timestamp(1_600_000_000 + 60 * i as i64, 0).unwrap();
		h.prev_hash = prev;
		h.prev_root = hash_of(1);
		h.output_root = hash_of(2);
		h.range_proof_root = hash_of(3);
		h.kernel_root = hash_of(4);
		h.output_mmr_size = 1 + i as u64;
		h.kernel_mmr_size = 1 + i as u64;
		h.pow.total_difficulty = Difficulty::from_num(1 + i as u64);
		h.pow.secondary_scaling = 1;
		uni::mine_header(&mut h, Difficulty::min_dma());
		prev = h.hash();
		out.push(h);
	}
	out
}

const HEADERS_N: [usize; 7] = [0, 1, 31, 32, 33, 64, 65];
const ATTACH_N: [usize; 6] = [0, 1, 47_999, 48_000, 48_001, 100_000];
const UNKNOWN_LEN: [usize; 3] = [0, 1, 100];

struct Alphabet {
	items: Vec<Item>,
	headers: Vec<BlockHeader>,
	/// end marker of a stream on the long-lived connection: a frame header with wrong magic
	sentinel: Vec<u8>,
}

impl Alphabet {
	fn idx(&self, name: &str) -> usize {
		self.items
			.iter()
			.position(|i| i.name == name)
			.unwrap_or_else(|| panic!("no alphabet item {}", name))
	}

	fn push<T: Writeable>(&mut self, name: &str, ty: Type, payload: &T) {
		self.push_by(name, ty, |_| payload)
	}

	/// `payload(v)`: what a sender talking protocol version `v` hands to `Msg::new`
	fn push_by<'a, T: Writeable + 'a>(&mut self, name: &str, ty: Type, payload: impl Fn(u32) -> &'a T) {
		let mut it = Item {
			name: name.to_string(),
			wire: vec![],
			exp: vec![],
			body_len: vec![],
		};
		for &v in VERSIONS.iter() {
			let (w, b) = wire_of(ty, payload(v), v, None);
			it.body_len.push(b.len());
			it.wire.push(w);
			it.exp.push(vec![Exp::Msg(ty as u8, b)]);
		}
		self.items.push(it);
	}

	fn build() -> Alphabet {
		let mut a = Alphabet {
			items: vec![],
			headers: mined_headers(65),
			sentinel: raw_header([magic()[0] ^ 0xff, magic()[1] ^ 0xff], 0, 0),
		};
		let kc = uni::keychain(19);
		let tx: Transaction = uni::spend_coinbase(&kc, 1, uni::REWARD, &[(2, 20_000_000_000), (3, 39_000_000_000)], 19);
		// peers below protocol version 3 are sent inputs with their features
		let tx_old = Transaction::new(
			Inputs::FeaturesAndCommit(vec![Input::new(OutputFeatures::Coinbase, uni::commit_of(&kc, 1, uni::REWARD))]),
			tx.outputs(),
			tx.kernels(),
		)
		.with_offset(tx.offset.clone());
		let hs = a.headers.clone();

		a.push("Ping", Type::Ping, &Ping { total_difficulty: Difficulty::from_num(123_456_789), height: 77 });
		a.push("Pong", Type::Pong, &Pong { total_difficulty: Difficulty::from_num(987_654_321), height: 78 });
		a.push("GetPeerAddrs", Type::GetPeerAddrs, &GetPeerAddrs { capabilities: Capabilities::PEER_LIST | Capabilities::HEADER_HIST });
		a.push(
			"PeerAddrs",
			Type::PeerAddrs,
			&PeerAddrs {
				peers: vec![
					PeerAddr("10.1.2.3:3414".parse().unwrap()),
					PeerAddr("[2001:db8::7]:13414".parse().unwrap()),
					PeerAddr("192.168.0.9:1".parse().unwrap()),
				],
			},
		);
		a.push("GetHeaders", Type::GetHeaders, &Locator { hashes: vec![hash_of(11), hash_of(12), hash_of(13)] });
		a.push("Header", Type::Header, &hs[0]);
		// header lists: expected in batches of at most 32 with the count still to come
		for &n in HEADERS_N.iter() {
			let mut it = Item { name: format!("Headers:{}", n), wire: vec![], exp: vec![], body_len: vec![] };
			for &v in VERSIONS.iter() {
				let (w, b) = wire_of(Type::Headers, &Headers { headers: hs[..n].to_vec() }, v, None);
				it.body_len.push(b.len());
				it.wire.push(w);
				let mut e = vec![];
				let mut at = 0;
				loop {
					let k = BATCH.min(n - at);
					let mut bytes = vec![];
					for h in &hs[at..at + k] {
						bytes.extend(ser(h, v));
					}
					at += k;
					e.push(Exp::Headers(k, (n - at) as u64, bytes));
					if at >= n {
						break;
					}
				}
				it.exp.push(e);
			}
			a.items.push(it);
		}
		a.push("GetBlock", Type::GetBlock, &hash_of(21));
		let block = Block {
			header: hs[1].clone(),
			body: TransactionBody::init(tx.inputs(), tx.outputs(), tx.kernels(), true).expect("body"),
		};
		let block_old = Block {
			header: hs[1].clone(),
			body: TransactionBody::init(tx_old.inputs(), tx.outputs(), tx.kernels(), true).expect("body"),
		};
		a.push_by("Block", Type::Block, |v| if v < 3 { &block_old } else { &block });
		a.push("GetCompactBlock", Type::GetCompactBlock, &hash_of(22));
		{
			let nonce = 0x0123_4567_89ab_cdefu64;
			let mut ids: Vec<ShortId> = tx.kernels().iter().map(|k| k.short_id(&hs[2].hash(), nonce)).collect();
			ids.push(ShortId::from_bytes(&[1, 2, 3, 4, 5, 6]));
			ids.push(ShortId::from_bytes(&[9, 9, 9, 9, 9, 9]));
			ids.sort_unstable();
			let mut outs = tx.outputs().to_vec();
			outs.sort_unstable();
			let mut kerns = tx.kernels().to_vec();
			kerns.sort_unstable();
			let body = CompactBlockBody { out_full: outs[..1].to_vec(), kern_full: kerns, kern_ids: ids };
			a.push("CompactBlock", Type::CompactBlock, &RawCompact { header: &hs[2], nonce, body: &body });
		}
		a.push_by("StemTransaction", Type::StemTransaction, |v| if v < 3 { &tx_old } else { &tx });
		a.push_by("Transaction", Type::Transaction, |v| if v < 3 { &tx_old } else { &tx });
		a.push("TxHashSetRequest", Type::TxHashSetRequest, &TxHashSetRequest { hash: hash_of(31), height: 4242 });
		for &n in ATTACH_N.iter() {
			let file = att_bytes(n);
			let mut it = Item { name: format!("TxHashSetArchive+{}", n), wire: vec![], exp: vec![], body_len: vec![] };
			for &v in VERSIONS.iter() {
				let (w, b) = wire_of(Type::TxHashSetArchive, &TxHashSetArchive { hash: hash_of(32), height: 4243, bytes: n as u64 }, v, Some(&file));
				it.body_len.push(b.len());
				it.wire.push(w);
				it.exp.push(vec![Exp::Msg(Type::TxHashSetArchive as u8, b), Exp::Attach(file.clone())]);
			}
			a.items.push(it);
		}
		a.push("BanReason", Type::BanReason, &BanReason { ban_reason: ReasonForBan::BadBlockHeader });
		a.push("GetTransaction", Type::GetTransaction, &hash_of(41));
		a.push("TransactionKernel", Type::TransactionKernel, &hash_of(42));
		// the eight segment messages
		let proof: SegmentProof = ser::deserialize(
			&mut &{
				let mut b = 2u64.to_be_bytes().to_vec();
				b.extend_from_slice(hash_of(51).as_bytes());
				b.extend_from_slice(hash_of(52).as_bytes());
				b
			}[..],
			ProtocolVersion(1),
			ser::DeserializationMode::default(),
		)
		.expect("segment proof");
		let id = SegmentIdentifier { height: 3, idx: 5 };
		let req = |h: u8| SegmentRequest { block_hash: hash_of(h), identifier: id };
		a.push("GetOutputBitmapSegment", Type::GetOutputBitmapSegment, &req(61));
		{
			let mut chunk = grin_chain::txhashset::BitmapChunk::new();
			for b in [0u64, 1, 5, 700, 1023] {
				chunk.set(b, true);
			}
			let seg = Segment::from_parts(SegmentIdentifier { height: 0, idx: 0 }, vec![], vec![], vec![0], vec![chunk], proof.clone());
			let bs: grin_chain::txhashset::BitmapSegment = seg.into();
			a.push("OutputBitmapSegment", Type::OutputBitmapSegment, &OutputBitmapSegmentResponse { block_hash: hash_of(62), segment: bs, output_root: hash_of(63) });
		}
		a.push("GetOutputSegment", Type::GetOutputSegment, &req(64));
		{
			let leaves: Vec<OutputIdentifier> = tx.outputs().iter().map(|o| o.identifier()).collect();
			let seg = Segment::from_parts(id, vec![2, 6], vec![hash_of(65), hash_of(66)], vec![0, 1], leaves, proof.clone());
			a.push("OutputSegment", Type::OutputSegment, &OutputSegmentResponse { response: SegmentResponse { block_hash: hash_of(67), segment: seg }, output_bitmap_root: hash_of(68) });
		}
		a.push("GetRangeProofSegment", Type::GetRangeProofSegment, &req(69));
		{
			let seg = Segment::from_parts(id, vec![2], vec![hash_of(70)], vec![3], vec![tx.outputs()[0].proof], proof.clone());
			a.push("RangeProofSegment", Type::RangeProofSegment, &SegmentResponse { block_hash: hash_of(71), segment: seg });
		}
		a.push("GetKernelSegment", Type::GetKernelSegment, &req(72));
		{
			let kerns: Vec<TxKernel> = tx.kernels().to_vec();
			let seg = Segment::from_parts(id, vec![], vec![], vec![4], kerns, proof.clone());
			a.push("KernelSegment", Type::KernelSegment, &SegmentResponse { block_hash: hash_of(73), segment: seg });
		}
		// every unknown type byte with body lengths 0, 1, 100
		let m = magic();
		for t in 29..=255u8 {
			for &l in UNKNOWN_LEN.iter() {
				let mut w = raw_header(m, t, l as u64);
				w.extend((0..l).map(|i| (i as u8) ^ t));
				a.items.push(Item {
					name: format!("Unknown:{}:{}", t, l),
					wire: vec![w; VERSIONS.len()],
					exp: vec![vec![Exp::Unknown(t)]; VERSIONS.len()],
					body_len: vec![l; VERSIONS.len()],
				});
			}
		}
		// long unknown bodies: around a plausible internal buffer size and up to the enforced limit
		let top = enforced_limit(200) as usize;
		for &l in [8191usize, 8192, 8193, top].iter() {
			let t = 200u8;
			let mut w = raw_header(m, t, l as u64);
			// filler that would parse as frames if the skip stopped early: repeated Ping frames
			let mut fill = raw_header(m, Type::Ping as u8, 16);
			fill.extend(vec![0u8; 16]);
			w.extend((0..l).map(|i| fill[i % fill.len()]));
			a.items.push(Item {
				name: format!("UnknownLong:{}:{}", t, l),
				wire: vec![w; VERSIONS.len()],
				exp: vec![vec![Exp::Unknown(t)]; VERSIONS.len()],
				body_len: vec![l; VERSIONS.len()],
			});
		}
		// known types whose frame announces more bytes than the type's decoder reads (still within the limit enforced for
		// the type): whatever the decoder makes of them, the announced length is what separates this frame from the next
		for name in ["Ping", "Pong", "GetTransaction", "BanReason", "TxHashSetRequest"] {
			let (src_wire, src_exp, src_body_len) = {
				let i = a.items.iter().find(|i| i.name == name).expect("padded: source item");
				(i.wire.clone(), i.exp.clone(), i.body_len.clone())
			};
			struct Src {
				wire: Vec<Vec<u8>>,
				exp: Vec<Vec<Exp>>,
				body_len: Vec<usize>,
			}
			let src = Src { wire: src_wire, exp: src_exp, body_len: src_body_len };
			let ty = src.wire[0][2];
			let top = enforced_limit(ty) as usize;
			let base = src.body_len[0];
			let mut pads = vec![1usize, 8];
			if top > base + 8 {
				pads.push(top - base);
			}
			for pad in pads {
				let mut it = Item { name: format!("Padded:{}:+{}", name, pad), wire: vec![], exp: src.exp.clone(), body_len: vec![] };
				for (vi, _) in VERSIONS.iter().enumerate() {
					let body = &src.wire[vi][11..];
					let mut w = raw_header(m, ty, (body.len() + pad) as u64);
					w.extend_from_slice(body);
					// filler that would parse as frames if the reader resumed inside it: repeated Ping frames
					let mut fill = raw_header(m, Type::Ping as u8, 16);
					fill.extend(vec![0u8; 16]);
					w.extend((0..pad).map(|i| fill[i % fill.len()]));
					it.body_len.push(body.len() + pad);
					it.wire.push(w);
				}
				a.items.push(it);
			}
		}
		a
	}
}

/// Judges one execution: the observations must be exactly the expected ones followed by a
/// clean end of stream.
fn judge(expected: &[&Exp], got: &[Ev], end: &str) -> Result<(), (String, String)> {
	let mut g = 0usize;
	for (k, e) in expected.iter().enumerate() {
		let at = |g: usize| got.get(g).map(|x| x.brief()).unwrap_or_else(|| "nothing".into());
		match e {
			Exp::Msg(t, b) => {
				match got.get(g) {
					Some(Ev::Msg(t2, b2)) if t2 == t && b2 == b => {}
					Some(Ev::Msg(t2, _)) if t2 == t => return Err(("body-differs".into(), format!("message #{} (type {}) arrived with a different body", k, t))),
					_ => return Err((format!("type{}", t), format!("message #{}: expected type {} ({} bytes), observed {}", k, t, b.len(), at(g)))),
				}
				g += 1;
			}
			Exp::Unknown(t) => {
				match got.get(g) {
					Some(Ev::Unknown(t2)) if t2 == t => {}
					_ => return Err(("unknown".into(), format!("message #{}: expected Unknown({}), observed {}", k, t, at(g)))),
				}
				g += 1;
			}
			Exp::Headers(n, rem, b) => {
				match got.get(g) {
					Some(Ev::Headers(n2, r2, b2)) if n2 == n && r2 == rem && b2 == b => {}
					Some(Ev::Headers(n2, r2, _)) => {
						return Err(("headers-batch".into(), format!("message #{}: expected a batch of {} headers with remaining {}, observed {} headers with remaining {} (or different content)", k, n, rem, n2, r2)))
					}
					_ => {
						let key = if *n == 0 { "headers-empty" } else { "headers" };
						return Err((key.into(), format!("message #{}: expected a batch of {} headers (remaining {}), observed {}", k, n, rem, at(g))));
					}
				}
				g += 1;
			}
			Exp::Attach(file) => {
				let mut cat: Vec<u8> = Vec::with_capacity(file.len());
				loop {
					match got.get(g) {
						Some(Ev::Chunk(d, read, left)) => {
							g += 1;
							cat.extend_from_slice(d);
							if *read != d.len() || cat.len() + *left != file.len() {
								return Err(("attachment-accounting".into(), format!("attachment chunk reports read {} left {} for {} bytes after {} of {}", read, left, d.len(), cat.len(), file.len())));
							}
							if *left == 0 {
								break;
							}
						}
						_ => return Err(("attachment".into(), format!("attachment of {} bytes: after {} bytes observed {}", file.len(), cat.len(), at(g)))),
					}
				}
				if &cat != file {
					return Err(("attachment-content".into(), "attachment chunks do not concatenate to the file".into()));
				}
			}
		}
	}
	match got.get(g) {
		Some(Ev::Err(e)) if e.starts_with(end) && g + 1 == got.len() => Ok(()),
		other => Err(("end".into(), format!("after all {} expected observations: expected the end marker, observed {}", expected.len(), other.map(|x| x.brief()).unwrap_or_else(|| "nothing".into())))),
	}
}

// ------------------------------------------------------------------------------------------
// part "streams": sequences x versions x split points
// ------------------------------------------------------------------------------------------

#[derive(Clone, Copy, PartialEq, Debug)]
enum Cuts {
	/// the unfragmented stream and every single split point
	Single,
	/// every pair of split points (streams of at most 96 bytes)
	Pairs,
}

struct Group {
	name: &'static str,
	seqs: Vec<Vec<usize>>,
	/// indices into VERSIONS
	versions: Vec<usize>,
	cuts: Cuts,
}

const PAIR_MAX: usize = 96;

fn product(sets: &[&[usize]]) -> Vec<Vec<usize>> {
	let mut out: Vec<Vec<usize>> = vec![vec![]];
	for s in sets {
		let mut next = vec![];
		for p in &out {
			for &x in s.iter() {
				let mut q = p.clone();
				q.push(x);
				next.push(q);
			}
		}
		out = next;
	}
	out
}

const SETS_DOC: &str = "item sets: ALL = the whole alphabet (26 known types, with header lists of 0/1/31/32/33/64/65 headers and archive attachments of 0/1/47999/48000/48001/100000 bytes, and every unknown type byte 29..255 with bodies of 0/1/100 bytes: 718 items); CORE = one item per known type (Headers:1, TxHashSetArchive+1) and Unknown:255:1 (27 items); LIGHT = CORE items of at most 400 wire bytes, HEAVY = the rest of CORE; BIG = Headers:0, Headers:32, Headers:33, Headers:65, TxHashSetArchive+0, TxHashSetArchive+48000, TxHashSetArchive+48001; UNK1 = the 227 unknown type bytes with a 1-byte body; SMALL = CORE items of at most 120 wire bytes, Headers:0, Unknown:29:0, Unknown:29:1, Unknown:255:0; TINY = SMALL items of at most 32 wire bytes; ULONG = unknown type 200 with bodies of 8191 / 8192 / 8193 bytes and of exactly the enforced limit, filled with well-formed Ping frames (in pairs with Ping / the LIGHT items, every split point); PADDED = Ping, Pong, GetTransaction, BanReason, TxHashSetRequest frames announcing 1 / 8 / up-to-the-enforced-limit more bytes than the type's decoder reads (filler: Ping frames), alone and in pairs with the LIGHT items";

/// The stated finite space, as a list of groups (see SETS_DOC for the item sets).
fn groups(a: &Alphabet, tier: Tier) -> Vec<Group> {
	let n = a.items.len();
	let all: Vec<usize> = (0..n).collect();
	let core: Vec<usize> = (0..n)
		.filter(|&i| {
			let nm = &a.items[i].name;
			(!nm.starts_with("Unknown") && !nm.starts_with("Headers:") && !nm.starts_with("TxHashSetArchive+"))
				|| nm == "Headers:1" || nm == "TxHashSetArchive+1" || nm == "Unknown:255:1"
		})
		.collect();
	let wl = |i: usize| a.items[i].wire.iter().map(|w| w.len()).max().unwrap();
	let light: Vec<usize> = core.iter().cloned().filter(|&i| wl(i) <= 400).collect();
	let heavy: Vec<usize> = core.iter().cloned().filter(|&i| wl(i) > 400).collect();
	let big: Vec<usize> = ["Headers:0", "Headers:32", "Headers:33", "Headers:65", "TxHashSetArchive+0", "TxHashSetArchive+48000", "TxHashSetArchive+48001"].iter().map(|s| a.idx(s)).collect();
	let unk1: Vec<usize> = (29..=255u32).map(|t| a.idx(&format!("Unknown:{}:1", t))).collect();
	let mut small: Vec<usize> = core.iter().cloned().filter(|&i| wl(i) <= 120).collect();
	for s in ["Headers:0", "Unknown:29:0", "Unknown:29:1", "Unknown:255:0"] {
		small.push(a.idx(s));
	}
	let tiny: Vec<usize> = small.iter().cloned().filter(|&i| wl(i) <= 32).collect();
	let ulong: Vec<usize> = (0..n).filter(|&i| a.items[i].name.starts_with("UnknownLong:")).collect();
	let padded: Vec<usize> = (0..n).filter(|&i| a.items[i].name.starts_with("Padded:")).collect();
	let all: Vec<usize> = all.into_iter().filter(|i| !ulong.contains(i)).collect();
	let ping: Vec<usize> = vec![a.idx("Ping")];
	let one = |s: &[usize]| -> Vec<Vec<usize>> { s.iter().map(|&i| vec![i]).collect() };
	let v_all: Vec<usize> = (0..VERSIONS.len()).collect();
	let v_last = vec![VERSIONS.len() - 1];
	let v_ends = vec![0, VERSIONS.len() - 1];
	let mut g = vec![];
	match tier {
		Tier::Quick => {
			let att: Vec<usize> = ["TxHashSetArchive+47999", "TxHashSetArchive+48000", "TxHashSetArchive+48001", "TxHashSetArchive+100000"].iter().map(|s| a.idx(s)).collect();
			let rest: Vec<usize> = all.iter().cloned().filter(|i| !att.contains(i)).collect();
			g.push(Group { name: "single", seqs: one(&rest), versions: v_all.clone(), cuts: Cuts::Single });
			g.push(Group { name: "single-attachment-48001", seqs: one(&att[2..3]), versions: v_last.clone(), cuts: Cuts::Single });
			g.push(Group { name: "pair-light", seqs: product(&[&light, &light]), versions: v_all.clone(), cuts: Cuts::Single });
			let mut s = product(&[&heavy, &core]);
			s.extend(product(&[&light, &heavy]));
			g.push(Group { name: "pair-heavy", seqs: s, versions: v_ends.clone(), cuts: Cuts::Single });
			g.push(Group { name: "single-2cuts", seqs: one(&small), versions: v_all.clone(), cuts: Cuts::Pairs });
			g.push(Group { name: "pair-tiny-2cuts", seqs: product(&[&tiny, &tiny]), versions: v_all.clone(), cuts: Cuts::Pairs });
			// a long unknown body must be skipped entirely: the next message is read after it
			let mut s = product(&[&ulong, &ping]);
			s.extend(product(&[&ping, &ulong]));
			g.push(Group { name: "pair-unknown-long", seqs: s, versions: v_last.clone(), cuts: Cuts::Single });
			// a frame longer than its decoder reads: the next message starts after the announced length
			let mut s = product(&[&padded, &light]);
			s.extend(product(&[&ping, &padded]));
			g.push(Group { name: "pair-padded", seqs: s, versions: v_ends.clone(), cuts: Cuts::Single });
		}
		Tier::Thorough => {
			let mut s = product(&[&padded, &light]);
			s.extend(product(&[&light, &padded]));
			s.extend(product(&[&padded, &padded]));
			g.push(Group { name: "pair-padded", seqs: s, versions: v_all.clone(), cuts: Cuts::Single });
			g.push(Group { name: "single", seqs: one(&all), versions: v_all.clone(), cuts: Cuts::Single });
			g.push(Group { name: "pair-core", seqs: product(&[&core, &core]), versions: v_all.clone(), cuts: Cuts::Single });
			let mut s = product(&[&big, &core]);
			s.extend(product(&[&core, &big]));
			s.extend(product(&[&big, &big]));
			g.push(Group { name: "pair-big", seqs: s, versions: v_last.clone(), cuts: Cuts::Single });
			let mut s = product(&[&unk1, &light]);
			s.extend(product(&[&light, &unk1]));
			g.push(Group { name: "pair-unknown", seqs: s, versions: v_all.clone(), cuts: Cuts::Single });
			let mut s = product(&[&ulong, &light]);
			s.extend(product(&[&light, &ulong]));
			g.push(Group { name: "pair-unknown-long", seqs: s, versions: v_ends.clone(), cuts: Cuts::Single });
			let mut tri = light.clone();
			for i in small.iter() {
				if !tri.contains(i) {
					tri.push(*i);
				}
			}
			g.push(Group { name: "triple-light", seqs: product(&[&tri, &tri, &tri]), versions: v_all.clone(), cuts: Cuts::Single });
			g.push(Group { name: "single-2cuts", seqs: one(&all), versions: v_all.clone(), cuts: Cuts::Pairs });
			g.push(Group { name: "pair-small-2cuts", seqs: product(&[&small, &small]), versions: v_all.clone(), cuts: Cuts::Pairs });
			g.push(Group { name: "triple-tiny-2cuts", seqs: product(&[&tiny, &tiny, &tiny]), versions: v_all.clone(), cuts: Cuts::Pairs });
		}
	}
	g
}

/// where a split point falls, for the outcome classes
fn cut_class(bounds: &[(usize, usize, usize)], c: usize) -> &'static str {
	// bounds: per message (start, end of frame header, end of body); attachment until next start
	for (k, &(s, h, b)) in bounds.iter().enumerate() {
		let end = bounds.get(k + 1).map(|x| x.0).unwrap_or(usize::MAX);
		if c >= end {
			continue;
		}
		return if c == s {
			"at-message-boundary"
		} else if c < h {
			"inside-frame-header"
		} else if c == h {
			"between-header-and-body"
		} else if c < b {
			"inside-body"
		} else if c == b {
			"between-body-and-attachment"
		} else {
			"inside-attachment"
		};
	}
	"at-message-boundary"
}

const CHUNK: usize = 2048;
/// a shard gives up once its reader has spent this long waiting for bytes beyond the stream
const HUNG_BUDGET_MS: u64 = 10_000;

struct Unit {
	g: usize,
	s: usize,
	v: usize,
	/// range of first cut positions (0 = unfragmented for Single)
	from: usize,
	to: usize,
}

fn stream_of(a: &Alphabet, seq: &[usize], v: usize) -> Vec<u8> {
	let mut out = vec![];
	for &i in seq {
		out.extend_from_slice(&a.items[i].wire[v]);
	}
	out
}

fn seq_names(a: &Alphabet, seq: &[usize]) -> Vec<String> {
	seq.iter().map(|&i| a.items[i].name.clone()).collect()
}

/// runs one fragmentation of one stream and judges it; returns the violation if any
fn run_case(rig: &mut Rig, a: &Alphabet, seq: &[usize], v: usize, stream: &[u8], cuts: &[usize], fresh: bool) -> (Exec, Result<(), (String, String)>) {
	let mut frags: Vec<&[u8]> = vec![];
	let mut last = 0;
	for &c in cuts {
		frags.push(&stream[last..c]);
		last = c;
	}
	frags.push(&stream[last..]);
	let expected: Vec<&Exp> = seq.iter().flat_map(|&i| a.items[i].exp[v].iter()).collect();
	let mut attempt = 0;
	loop {
		attempt += 1;
		let (ex, end, extra) = if fresh {
			(rig.exec(VERSIONS[v], &frags, Mode::All), "Connection(UnexpectedEof)", 0)
		} else {
			(rig.exec_reuse(VERSIONS[v], &frags, &a.sentinel), "Serialization(UnexpectedData", FRAME)
		};
		let mut verdict = judge(&expected, &ex.events, end);
		if verdict.is_ok() {
			if let Some(s) = &ex.stalled {
				verdict = Err(("stalled".into(), s.clone()));
			} else if ex.unread != 0 {
				verdict = Err(("unread".into(), format!("{} bytes left unread in the socket", ex.unread)));
			} else {
				let total: u64 = ex.reported.iter().sum();
				if total != (stream.len() + extra) as u64 {
					verdict = Err(("bytes-reported".into(), format!("codec reports {} bytes read for a stream of {}", total, stream.len())));
				}
			}
		}
		// No delays are generated, so the codec's 2 s / 60 s I/O timeouts can only fire when
		// this process was starved of CPU between two fragments: that is outside the
		// property, the execution is repeated (a timeout that persists is reported).
		let timed_out = ex.events.iter().any(|e| matches!(e, Ev::Err(x) if x == "Connection(WouldBlock)" || x == "Connection(TimedOut)"));
		if verdict.is_err() && timed_out {
			rig.timeouts += 1;
			if attempt < 4 {
				continue;
			}
			verdict = Err(("io-timeout".into(), format!("the codec ran into its I/O timeout in {} attempts although no delay was generated", attempt)));
		}
		return (ex, verdict);
	}
}

fn streams(tier: Tier, shard: usize, nshards: usize) -> Report {
	uni::init_thread();
	let mut r = Report::new();
	let a = Alphabet::build();
	let gs = groups(&a, tier);
	let mut rig = Rig::new(shard);
	// flat list of work units, identical in every shard
	let mut units: Vec<Unit> = vec![];
	let mut per_group: Vec<(u64, u64)> = vec![(0, 0); gs.len()];
	for (gi, g) in gs.iter().enumerate() {
		for (si, seq) in g.seqs.iter().enumerate() {
			for &v in g.versions.iter() {
				let len: usize = seq.iter().map(|&i| a.items[i].wire[v].len()).sum();
				match g.cuts {
					Cuts::Single => {
						per_group[gi].0 += 1;
						per_group[gi].1 += len as u64;
						let mut from = 0;
						while from < len {
							let to = (from + CHUNK).min(len);
							units.push(Unit { g: gi, s: si, v, from, to });
							from = to;
						}
					}
					Cuts::Pairs => {
						if len <= PAIR_MAX && len >= 3 {
							per_group[gi].0 += 1;
							per_group[gi].1 += ((len - 1) * (len - 2) / 2) as u64;
							units.push(Unit { g: gi, s: si, v, from: 1, to: len });
						}
					}
				}
			}
		}
	}
	let t0 = Instant::now();
	let mut fragments = 0u64;
	for (ui, u) in units.iter().enumerate() {
		if !mine(ui as u64, shard, nshards) {
			continue;
		}
		if rig.hung_ms > HUNG_BUDGET_MS {
			r.capped = Some("a shard spent more than 10 s on readers waiting for bytes beyond the stream (see the violations); its remaining cases were skipped".into());
			break;
		}
		let g = &gs[u.g];
		let seq = &g.seqs[u.s];
		let stream = stream_of(&a, seq, u.v);
		let mut bounds = vec![];
		let mut off = 0;
		for &i in seq.iter() {
			bounds.push((off, off + FRAME, off + FRAME + a.items[i].body_len[u.v]));
			off += a.items[i].wire[u.v].len();
		}
		let mut one = |r: &mut Report, rig: &mut Rig, cuts: &[usize]| {
			let (ex, verdict) = run_case(rig, &a, seq, u.v, &stream, cuts, cuts.is_empty());
			r.evaluations += 1;
			r.distinct += 1;
			fragments += ex.fragments_observed as u64;
			match verdict {
				Ok(()) => {
					let c = match cuts.len() {
						0 => "faithful:unfragmented".to_string(),
						1 => format!("faithful:cut-{}", cut_class(&bounds, cuts[0])),
						_ => "faithful:two-cuts".to_string(),
					};
					r.outcome(&c);
					if ex.fragments_observed != cuts.len() + 1 {
						r.outcome("machinery:fragment-not-observed");
					}
				}
				Err((key, what)) => {
					r.outcome(&format!("unfaithful:{}", key));
					let names = seq_names(&a, seq);
					r.violation(
						format!("stream:{}", key),
						format!("sequence {:?} at protocol version {} split at {:?} (stream of {} bytes): {}", names, VERSIONS[u.v], cuts, stream.len(), what),
						json!({"kind": "stream", "seq": names, "version": VERSIONS[u.v], "cuts": cuts, "observed": ex.events.iter().map(|e| e.brief()).collect::<Vec<_>>()}),
					);
				}
			}
		};
		match g.cuts {
			Cuts::Single => {
				for c in u.from..u.to {
					if rig.hung_ms > HUNG_BUDGET_MS {
						break;
					}
					if c == 0 {
						one(&mut r, &mut rig, &[]);
					} else {
						one(&mut r, &mut rig, &[c]);
					}
				}
			}
			Cuts::Pairs => {
				for c1 in 1..stream.len() {
					for c2 in c1 + 1..stream.len() {
						if rig.hung_ms > HUNG_BUDGET_MS {
							break;
						}
						one(&mut r, &mut rig, &[c1, c2]);
					}
				}
			}
		}
		if ui % 97 == 0 && r.samples.len() < 3 && shard == 0 {
			r.sample(json!({"group": g.name, "seq": seq_names(&a, seq), "version": VERSIONS[u.v], "stream_bytes": stream.len(), "first_cut_range": [u.from, u.to], "stream_head": hex(&stream[..stream.len().min(24)])}));
		}
	}
	if shard == 0 {
		for (gi, g) in gs.iter().enumerate() {
			r.extra.insert(format!("group_{}", g.name), json!({"sequences": g.seqs.len(), "versions": g.versions.iter().map(|&v| VERSIONS[v]).collect::<Vec<_>>(), "cases(seq x version)": per_group[gi].0, "executions": per_group[gi].1, "cuts": format!("{:?}", g.cuts)}));
		}
		r.extra.insert("alphabet_items".into(), json!(a.items.len()));
	}
	r.extra.insert("fragments_delivered_one_by_one".into(), json!(fragments));
	r.extra.insert("connections_opened".into(), json!(rig.connections));
	if rig.timeouts > 0 {
		r.notes.push(format!("shard {}: {} executions repeated after an I/O timeout of the codec (CPU starvation)", shard, rig.timeouts));
	}
	let _ = t0;
	r
}

// ------------------------------------------------------------------------------------------
// part "limits": frame headers with boundary and over-limit lengths, wrong magic, item counts
// ------------------------------------------------------------------------------------------

/// Nominal per-type body limits of the protocol (bytes), written down from the message
/// definitions: fixed-size bodies, `MAX_*` item counts, and the largest block.
/// A fragment that arrives late but well inside the I/O timeout that applies at that point of the
/// stream (60 s inside a body, a header batch or an attachment) must change nothing.  One delay of
/// `DELAY_MS` (longer than the 2 s the codec allows for a frame header, far below the 60 s it
/// allows for a body) is placed after the first body byte and in the middle of the body of one
/// message of each kind; the message and a Ping sent right behind it must both be read.  All cases
/// run concurrently (one connection, one real Codec and one writer thread each).
const DELAY_MS: u64 = 2300;

fn delays(_tier: Tier) -> Report {
	uni::init_thread();
	let mut r = Report::new();
	let a = Arc::new(Alphabet::build());
	let v = VERSIONS.len() - 2; // protocol version 3 (the last real version)
	let ping = a.idx("Ping");
	let mut cases: Vec<(usize, usize, &'static str)> = vec![];
	for name in ["Ping", "GetPeerAddrs", "Headers:1", "Headers:33", "Block", "TxHashSetArchive+48001", "Unknown:255:100", "OutputSegment"] {
		let i = match a.items.iter().position(|x| x.name == name) {
			Some(i) => i,
			None => continue,
		};
		let body = a.items[i].body_len[v];
		let wire = a.items[i].wire[v].len();
		if body >= 1 {
			cases.push((i, FRAME + 1, "after-first-body-byte"));
		}
		if body >= 4 {
			cases.push((i, FRAME + body / 2, "mid-body"));
		}
		if wire > FRAME + body + 1 {
			// inside the attachment that follows the message
			cases.push((i, FRAME + body + (wire - FRAME - body) / 2, "mid-attachment"));
		}
	}
	r.extra.insert("delay_ms".into(), json!(DELAY_MS));
	let mut handles = vec![];
	for (i, cut, where_) in cases {
		let a = a.clone();
		handles.push(std::thread::spawn(move || {
			uni::init_thread();
			let item = &a.items[i];
			let mut stream = item.wire[v].clone();
			stream.extend_from_slice(&a.items[ping].wire[v]);
			let (mut w, rd) = {
				let l = TcpListener::bind("127.0.0.1:0").expect("bind");
				let c = TcpStream::connect(l.local_addr().unwrap()).expect("connect");
				let (s, _) = l.accept().expect("accept");
				(c, s)
			};
			let _ = w.set_nodelay(true);
			let version = VERSIONS[v];
			let reader = std::thread::spawn(move || {
				uni::init_thread();
				let mut codec = Codec::new(ProtocolVersion(version), rd);
				let mut events = vec![];
				loop {
					let (res, _) = codec.read();
					match res {
						Ok(m) => events.push(digest(m, version, &mut codec)),
						Err(e) => {
							events.push(Ev::Err(err_class(&e)));
							break;
						}
					}
					if events.len() > 64 {
						break;
					}
				}
				events
			});
			let _ = w.write_all(&stream[..cut]);
			std::thread::sleep(Duration::from_millis(DELAY_MS));
			let _ = w.write_all(&stream[cut..]);
			let _ = w.shutdown(std::net::Shutdown::Write);
			let events = reader.join().unwrap_or_else(|_| vec![Ev::Panic("reader thread".into())]);
			let expected: Vec<&Exp> = item.exp[v].iter().chain(a.items[ping].exp[v].iter()).collect();
			let verdict = judge(&expected, &events, "Connection(UnexpectedEof)");
			(item.name.clone(), cut, where_, verdict, events.iter().map(|e| e.brief()).collect::<Vec<_>>())
		}));
	}
	for h in handles {
		let (name, cut, where_, verdict, got) = h.join().expect("delay case thread");
		r.evaluations += 1;
		r.distinct += 1;
		match verdict {
			Ok(()) => r.outcome(&format!("late-fragment:{}:unchanged", where_)),
			Err((k, what)) => {
				r.outcome(&format!("late-fragment:{}:CHANGED", where_));
				r.violation(
					format!("delay:{}:{}", where_, k),
					format!("{} followed by Ping, with the bytes from offset {} ({}) arriving {} ms late (the body timeout is 60 s): {}; observed {:?}", name, cut, where_, DELAY_MS, what, got),
					json!({"kind": "delay", "item": name, "cut": cut, "where": where_, "delay_ms": DELAY_MS}),
				);
			}
		}
	}
	r
}

fn nominal_limit(ty: u8) -> u64 {
	let max_block = global::max_block_weight() / consensus::OUTPUT_WEIGHT * 708;
	match ty {
		0 => 0,                    // Error
		1 => 128,                  // Hand
		2 => 88,                   // Shake
		3 | 4 => 16,               // Ping, Pong: difficulty + height
		5 => 4,                    // GetPeerAddrs: capabilities
		6 => 4 + (1 + 16 + 2) * 256, // PeerAddrs: count + 256 v6 addresses
		7 => 1 + 32 * 20,          // GetHeaders: count + 20 locator hashes
		8 => 365,                  // Header
		9 => 2 + 365 * 512,        // Headers: count + 512 headers
		10 | 12 => 32,             // GetBlock, GetCompactBlock
		11 | 14 | 15 => max_block, // Block, StemTransaction, Transaction
		13 => max_block / 10,      // CompactBlock
		16 => 40,                  // TxHashSetRequest
		17 | 18 => 64,             // TxHashSetArchive, BanReason
		19 | 20 => 32,             // GetTransaction, TransactionKernel
		21 | 23 | 25 | 27 => 41,   // segment requests: hash + identifier
		22 | 24 | 26 | 28 => 2 * max_block, // segment responses
		_ => max_block,            // unknown types
	}
}

/// the enforced limit is four times the nominal one (headroom for protocol changes)
fn enforced_limit(ty: u8) -> u64 {
	4 * nominal_limit(ty)
}

const FILL: usize = 4096;

/// One frame header with an announced length, followed by (a prefix of) the body, then end
/// of stream; the reader stops after its first result. `cut`: the frame header itself is
/// delivered in two fragments. Returns (execution, body bytes consumed, body bytes written).
fn probe_frame(rig: &mut Rig, header: &[u8], announced: u64, body: Option<&[u8]>, cut: usize) -> (Exec, usize, usize) {
	let fill: Vec<u8>;
	let body: &[u8] = match body {
		Some(b) => b,
		None => {
			fill = vec![0u8; (announced.min(FILL as u64)) as usize];
			&fill
		}
	};
	let mut w = header.to_vec();
	w.extend_from_slice(body);
	let ex = if cut == 0 { rig.exec(3, &[&w], Mode::First) } else { rig.exec(3, &[&w[..cut], &w[cut..]], Mode::First) };
	let consumed = w.len() - ex.unread;
	let body_consumed = consumed.saturating_sub(FRAME);
	(ex, body_consumed, body.len())
}

/// a finding of one check: (key, what)
type Finding = Option<(String, String)>;

/// Frame of type `ty` announcing `len` body bytes: over the limit it must be refused with
/// the body untouched and nothing of the announced size allocated; within the limit the
/// frame header must be accepted (the body gets read).
fn check_limit(rig: &mut Rig, ty: u8, len: u64, cut: usize) -> (Vec<&'static str>, Finding, Value) {
	let nominal = nominal_limit(ty);
	let enforced = enforced_limit(ty);
	let hdr = raw_header(magic(), ty, len);
	let (ex, body_consumed, body_written) = probe_frame(rig, &hdr, len, None, cut);
	let first = ex.events.first().cloned().unwrap_or(Ev::Err("nothing".into()));
	let tname = if ty <= 28 { format!("type{}", ty) } else { "unknown-type".to_string() };
	let mut classes = vec![];
	let mut finding = None;
	if len > enforced {
		classes.push(if cut == 0 { "refused:over-limit" } else { "refused:over-limit-fragmented-header" });
		if !matches!(first, Ev::Err(_)) {
			finding = Some((format!("limits:over-limit-accepted:{}", tname), format!("frame of type {} announcing {} bytes (limit {}) was not refused: {}", ty, len, enforced, first.brief())));
		} else if body_consumed != 0 {
			finding = Some((format!("limits:over-limit-body-read:{}", tname), format!("frame of type {} announcing {} bytes (limit {}) refused, but {} of the {} body bytes written were consumed", ty, len, enforced, body_consumed, body_written)));
		}
		if len > 65_536 {
			classes.push("refused:allocation-checked");
			if finding.is_none() && (ex.alloc.0 as u64 >= len || ex.alloc.1 as u64 >= len) {
				finding = Some((format!("limits:over-limit-allocated:{}", tname), format!("frame of type {} announcing {} bytes: largest allocation {} / peak {} while reading", ty, len, ex.alloc.0, ex.alloc.1)));
			}
		}
	} else {
		classes.push(if len <= nominal { "accepted:within-nominal" } else { "accepted:within-4x-headroom" });
		let refused_at_header = matches!(first, Ev::Err(_)) && body_consumed == 0 && body_written > 0;
		if refused_at_header {
			finding = Some((format!("limits:within-limit-refused:{}", tname), format!("frame of type {} announcing {} bytes (limit {}) refused at the frame header: {}", ty, len, enforced, first.brief())));
		} else if ty != Type::Headers as u8 && body_consumed != body_written {
			finding = Some((format!("limits:within-limit-body:{}", tname), format!("frame of type {} announcing {} bytes: {} of {} body bytes consumed ({})", ty, len, body_consumed, body_written, first.brief())));
		}
	}
	if let Some(s) = &ex.stalled {
		finding = Some(("limits:stalled".into(), s.clone()));
	}
	let sample = json!({"type": ty, "announced": len.to_string(), "nominal_limit": nominal, "enforced_limit": enforced, "header_cut_at": cut, "first_observation": first.brief(), "body_bytes_consumed": body_consumed, "body_bytes_written": body_written, "largest_allocation": ex.alloc.0});
	(classes, finding, sample)
}

/// Ping-sized frame with a wrong magic: refused, body untouched.
fn check_magic(rig: &mut Rig, mm: [u8; 2], ty: u8) -> Finding {
	let m = magic();
	let body = vec![0u8; 16];
	let hdr = raw_header(mm, ty, 16);
	let (ex, body_consumed, _) = probe_frame(rig, &hdr, 16, Some(&body), 0);
	let first = ex.events.first().cloned().unwrap_or(Ev::Err("nothing".into()));
	if mm == m {
		// control: the right magic is accepted
		if ty == Type::Ping as u8 && (!matches!(first, Ev::Msg(3, _)) || body_consumed != 16) {
			return Some(("limits:right-magic-refused".into(), format!("well-formed Ping frame not read: {}", first.brief())));
		}
		return None;
	}
	if !matches!(first, Ev::Err(_)) {
		Some(("limits:wrong-magic-accepted".into(), format!("frame with magic {:?} (network magic {:?}) type {} accepted: {}", mm, m, ty, first.brief())))
	} else if body_consumed != 0 {
		Some(("limits:wrong-magic-body-read".into(), format!("frame with magic {:?} type {} refused but {} body bytes consumed", mm, ty, body_consumed)))
	} else {
		None
	}
}

/// smallest / largest serialised block header (edge bits from the minimum up to 63)
fn header_size_range() -> (u64, u64) {
	let fixed = 2 + 2 * 8 + 5 * 32 + 32 + 2 * 8 + 8 + 4 + 8 + 1;
	let proof = |bits: u64| (bits * global::proofsize() as u64 + 7) / 8;
	(fixed + proof(global::min_edge_bits() as u64), fixed + proof(63))
}

/// How an announced item count relates to the announced length (len = 2 + bytes of headers)
fn count_kind(count: u64, bytes: u64) -> &'static str {
	let (lo, hi) = header_size_range();
	if count == 0 && bytes > 0 {
		"zero-with-bytes"
	} else if count * lo > bytes {
		"too-large"
	} else if count * hi < bytes {
		"too-small"
	} else {
		"possible"
	}
}

/// Header list frame with `n` real headers in the body and `count` announced.
fn check_count(rig: &mut Rig, hb: &[Vec<u8>], n: usize, count: u16) -> (String, Finding, Value) {
	let mut body = count.to_be_bytes().to_vec();
	for b in &hb[..n] {
		body.extend_from_slice(b);
	}
	let mut w = raw_header(magic(), Type::Headers as u8, body.len() as u64);
	w.extend_from_slice(&body);
	let ex = rig.exec(3, &[&w], Mode::All);
	let delivered: usize = ex.events.iter().map(|e| if let Ev::Headers(k, _, _) = e { *k } else { 0 }).sum();
	// bytes of the body consumed when the first error was returned
	let first_err = ex.events.iter().position(|e| matches!(e, Ev::Err(_) | Ev::Panic(_)));
	let consumed_until_refusal: u64 = ex.reported[..first_err.map(|p| p + 1).unwrap_or(ex.reported.len()).min(ex.reported.len())].iter().sum();
	let body_read = consumed_until_refusal.saturating_sub(FRAME as u64);
	let obs: Vec<String> = ex.events.iter().map(|e| e.brief()).collect();
	let refused = ex.events.iter().any(|e| matches!(e, Ev::Err(x) if x != "Connection(UnexpectedEof)") || matches!(e, Ev::Panic(_)));
	let kind = count_kind(count as u64, (body.len() - 2) as u64);
	let sample = json!({"headers_in_body": n, "announced_count": count, "count_vs_length": kind, "observed": obs, "body_bytes_read_before_refusal": body_read});
	if count as usize == n {
		let f = if delivered != n || refused { Some(("limits:count-consistent-refused".to_string(), format!("list of {} headers with count {} not delivered: {:?}", n, count, obs))) } else { None };
		return ("accepted:count-consistent".into(), f, sample);
	}
	if kind == "possible" {
		// the count can be right for this length; only the content shows it is not: the list
		// must not pass as complete
		let f = if !refused { Some(("limits:count-contradicts-content:not-refused".to_string(), format!("header list with count {} but {} headers ({} bytes) was not refused: {:?}", count, n, body.len(), obs))) } else { None };
		return ("refused:count-contradicts-content".into(), f, sample);
	}
	// the count is inconsistent with the length alone: refuse before touching the headers
	let f = if !refused {
		Some((format!("limits:count-{}:not-refused", kind), format!("header list with count {} but {} headers ({} bytes) was not refused: {:?}", count, n, body.len(), obs)))
	} else if delivered > 0 {
		Some((format!("limits:count-{}:batch-delivered", kind), format!("header list announcing count {} in {} body bytes ({} headers): {} headers were delivered before the refusal: {:?}", count, body.len(), n, delivered, obs)))
	} else if body_read > 2 {
		Some((format!("limits:count-{}:body-read", kind), format!("header list announcing count {} in {} body bytes ({} headers): refused only after reading {} body bytes (the item count takes 2): {:?}", count, body.len(), n, body_read, obs)))
	} else {
		None
	};
	(format!("refused:count-{}", kind), f, sample)
}

fn limit_lens(ty: u8) -> Vec<u64> {
	let nominal = nominal_limit(ty);
	let enforced = enforced_limit(ty);
	let mut lens = vec![0, nominal, nominal + 1, enforced, enforced + 1, 1u64 << 32, u64::MAX];
	lens.sort();
	lens.dedup();
	lens
}

fn magic_cases() -> Vec<([u8; 2], u8)> {
	let m = magic();
	let mut cases: Vec<([u8; 2], u8)> = vec![(m, Type::Ping as u8)];
	// every wrong value of each byte, for a few types
	for ty in [3u8, 9, 11, 17, 255] {
		for b in 0..=255u8 {
			if b != m[0] {
				cases.push(([b, m[1]], ty));
			}
			if b != m[1] {
				cases.push(([m[0], b], ty));
			}
		}
	}
	// swapped, the other networks' magics and a two-bit error, for every type byte
	for ty in 0..=255u8 {
		for mm in [[m[1], m[0]], [83, 59], [97, 61], [m[0] ^ 0x80, m[1] ^ 0x01]] {
			if mm != m {
				cases.push((mm, ty));
			}
		}
	}
	cases
}

const COUNT_HEADERS: [usize; 5] = [1, 2, 32, 33, 34];

fn count_cases() -> Vec<(usize, u16)> {
	let mut cases = vec![];
	for n in COUNT_HEADERS {
		for c in [0, 1, n - 1, n, n + 1, 512, u16::MAX as usize] {
			cases.push((n, c as u16));
		}
	}
	cases.sort();
	cases.dedup();
	cases
}

fn limits(_tier: Tier, shard: usize, nshards: usize) -> Report {
	uni::init_thread();
	let mut r = Report::new();
	let mut rig = Rig::new(shard);
	let mut idx = 0u64;
	// ---- announced lengths around the limits, every type byte; and the over-limit frame
	// header delivered in two fragments (every split point of the header)
	for ty in 0..=255u8 {
		let mut cases: Vec<(u64, usize)> = limit_lens(ty).into_iter().map(|l| (l, 0)).collect();
		for cut in 1..FRAME {
			cases.push((enforced_limit(ty) + 1, cut));
		}
		for (len, cut) in cases {
			idx += 1;
			if !mine(idx, shard, nshards) {
				continue;
			}
			let (classes, finding, sample) = check_limit(&mut rig, ty, len, cut);
			r.evaluations += 1;
			r.distinct += 1;
			for c in classes {
				r.outcome(c);
			}
			if let Some((key, what)) = finding {
				r.violation(key, what, json!({"kind": "limit", "type": ty, "len": len.to_string(), "cut": cut}));
			}
			if ty == Type::Block as u8 && cut == 0 && len > 0 {
				r.sample(sample);
			}
		}
	}
	// ---- wrong network magic
	for (mm, ty) in magic_cases() {
		idx += 1;
		if !mine(idx, shard, nshards) {
			continue;
		}
		let finding = check_magic(&mut rig, mm, ty);
		r.evaluations += 1;
		r.distinct += 1;
		r.outcome(if mm == magic() { "accepted:right-magic" } else { "refused:wrong-magic" });
		if let Some((key, what)) = finding {
			r.violation(key, what, json!({"kind": "magic", "magic": [mm[0], mm[1]], "type": ty}));
		}
	}
	// ---- header lists whose item count does not fit the announced length
	let hs = mined_headers(*COUNT_HEADERS.iter().max().unwrap());
	let hb: Vec<Vec<u8>> = hs.iter().map(|h| ser(h, 3)).collect();
	for (n, count) in count_cases() {
		idx += 1;
		if !mine(idx, shard, nshards) {
			continue;
		}
		let (class, finding, sample) = check_count(&mut rig, &hb, n, count);
		r.evaluations += 1;
		r.distinct += 1;
		r.outcome(&class);
		if let Some((key, what)) = finding {
			r.violation(key, what, json!({"kind": "count", "headers": n, "count": count}));
		}
		if n == 33 {
			r.sample(sample);
		}
	}
	if shard == 0 {
		let (lo, hi) = header_size_range();
		r.extra.insert("header_size_range".into(), json!([lo, hi]));
	}
	r
}

// ------------------------------------------------------------------------------------------
// part "handshake"
// ------------------------------------------------------------------------------------------

const SELF_ROUNDS: u32 = 24;
const REMOTE_VERSIONS: [u32; 8] = [0, 1, 2, 3, 999, 1000, 1001, u32::MAX];

fn hand_frame(version: u32, nonce: u64, genesis: Hash, port: u16) -> Vec<u8> {
	let hand = Hand {
		version: ProtocolVersion(version),
		capabilities: Capabilities::default(),
		nonce,
		genesis,
		total_difficulty: Difficulty::from_num(1000),
		sender_addr: PeerAddr(SocketAddr::new("127.0.0.1".parse().unwrap(), port)),
		receiver_addr: PeerAddr("127.0.0.1:3414".parse().unwrap()),
		user_agent: "scripted-peer".into(),
	};
	let body = ser(&hand, ProtocolVersion::local().value());
	let mut w = raw_header(magic(), Type::Hand as u8, body.len() as u64);
	w.extend(body);
	w
}

fn shake_frame(version: u32, genesis: Hash) -> Vec<u8> {
	let shake = Shake {
		version: ProtocolVersion(version),
		capabilities: Capabilities::default(),
		genesis,
		total_difficulty: Difficulty::from_num(1000),
		user_agent: "scripted-peer".into(),
	};
	let body = ser(&shake, ProtocolVersion::local().value());
	let mut w = raw_header(magic(), Type::Shake as u8, body.len() as u64);
	w.extend(body);
	w
}

fn pair() -> (TcpStream, TcpStream) {
	let l = TcpListener::bind("127.0.0.1:0").expect("bind");
	let c = TcpStream::connect(l.local_addr().unwrap()).expect("connect");
	let (s, _) = l.accept().expect("accept");
	let _ = c.set_read_timeout(Some(Duration::from_secs(5)));
	(c, s)
}

/// reads one frame from the scripted peer's side: (type, body)
fn read_frame(s: &mut TcpStream) -> Result<(u8, Vec<u8>), String> {
	let mut h = [0u8; FRAME];
	s.read_exact(&mut h).map_err(|e| format!("no frame: {}", e))?;
	let mut l = [0u8; 8];
	l.copy_from_slice(&h[3..]);
	let len = u64::from_be_bytes(l) as usize;
	if len > 4096 {
		return Err(format!("frame announces {} bytes", len));
	}
	let mut b = vec![0u8; len];
	s.read_exact(&mut b).map_err(|e| format!("short body: {}", e))?;
	Ok((h[2], b))
}

#[derive(Debug, PartialEq, Clone)]
enum HsOut {
	Ok(u32),
	Err(String),
}

fn hs_class(r: &Result<grin_p2p::PeerInfo, P2pError>) -> HsOut {
	match r {
		Ok(pi) => HsOut::Ok(pi.version.value()),
		Err(P2pError::GenesisMismatch { .. }) => HsOut::Err("GenesisMismatch".into()),
		Err(e) => HsOut::Err(err_class(e)),
	}
}

/// `accept` against a scripted initiator; returns (result, what the initiator got back)
fn hs_accept(hs: &Handshake, first: &[u8]) -> (HsOut, Result<(u8, Vec<u8>), String>, usize) {
	let (mut peer, mut conn) = pair();
	peer.write_all(first).unwrap();
	let res = hs.accept(Capabilities::default(), Difficulty::from_num(5), &mut conn);
	let out = hs_class(&res);
	let pending = inq(&peer);
	let reply = if pending > 0 { read_frame(&mut peer) } else { Err("nothing written".into()) };
	(out, reply, pending)
}

/// `initiate` against a scripted acceptor that answers `reply`; returns (result, the Hand sent)
fn hs_initiate(hs: &Handshake, reply: &[u8]) -> (HsOut, Result<Hand, String>) {
	let (mut conn, mut peer) = pair();
	let _ = peer.set_read_timeout(Some(Duration::from_secs(5)));
	peer.write_all(reply).unwrap();
	let res = hs.initiate(Capabilities::default(), Difficulty::from_num(5), PeerAddr("127.0.0.1:3414".parse().unwrap()), &mut conn);
	let out = hs_class(&res);
	let hand = read_frame(&mut peer).and_then(|(t, b)| {
		if t != Type::Hand as u8 {
			return Err(format!("first frame has type {}", t));
		}
		ser::deserialize::<Hand, _>(&mut &b[..], ProtocolVersion::local(), ser::DeserializationMode::default()).map_err(|e| format!("{:?}", e))
	});
	(out, hand)
}

/// The handshake frame and the peer's next message arrive coalesced (one TCP write, before the
/// handshake code reads anything) or with the stream cut at `cut`: once the handshake has returned
/// the connection is handed to the codec, which must read `follow` as the next message.  Returns
/// (handshake result, bytes left in our socket when the handshake returned, what the codec read).
fn hs_then(hs: &Handshake, accept: bool, first: &[u8], follow: &[u8], cut: Option<usize>) -> (HsOut, usize, Option<Ev>) {
	let (mut peer, mut conn) = if accept {
		pair()
	} else {
		let (c, p) = pair();
		(p, c)
	};
	let _ = peer.set_read_timeout(Some(Duration::from_secs(5)));
	let _ = peer.set_nodelay(true);
	let mut all = first.to_vec();
	all.extend_from_slice(follow);
	let writer = match cut {
		None => {
			peer.write_all(&all).unwrap();
			None
		}
		Some(c) => {
			peer.write_all(&all[..c]).unwrap();
			let mut p2 = peer.try_clone().unwrap();
			let rest = all[c..].to_vec();
			Some(std::thread::spawn(move || {
				std::thread::sleep(Duration::from_millis(15));
				let _ = p2.write_all(&rest);
			}))
		}
	};
	let res = if accept {
		hs.accept(Capabilities::default(), Difficulty::from_num(5), &mut conn)
	} else {
		hs.initiate(Capabilities::default(), Difficulty::from_num(5), PeerAddr("127.0.0.1:3414".parse().unwrap()), &mut conn)
	};
	let out = hs_class(&res);
	if let Some(w) = writer {
		let _ = w.join();
	}
	let v = match &out {
		HsOut::Ok(v) => *v,
		_ => return (out, 0, None),
	};
	// the whole stream has been written by now and loopback delivery is immediate
	let mut left = inq(&conn);
	for _ in 0..200 {
		if left >= follow.len() {
			break;
		}
		std::thread::sleep(Duration::from_millis(1));
		left = inq(&conn);
	}
	if left == 0 {
		return (out, 0, None);
	}
	let mut codec = Codec::new(ProtocolVersion(v), conn);
	let (m, _) = codec.read();
	let ev = match m {
		Ok(m) => digest(m, v, &mut codec),
		Err(e) => Ev::Err(err_class(&e)),
	};
	(out, left, Some(ev))
}

/// One long-lived `Handshake` (as a node has): after every one of N outgoing handshakes the nonce it has just
/// sent - and the previous one, the one sent 50 and the one sent 98 handshakes ago, i.e. members of the window
/// of recent nonces the node keeps (the code's ring holds 99: it pushes, then pops once the length reaches 100) - comes back in an incoming Hand and must be refused as a connection
/// to ourselves, with nothing written back.  N crosses the capacity of the nonce ring (100).
fn handshake_ring(tier: Tier) -> Report {
	uni::init_thread();
	let mut r = Report::new();
	let genesis = hash_of(0xaa);
	let local = ProtocolVersion::local().value();
	let hs = Handshake::new(genesis, P2PConfig::default());
	let n = tier.pick(108usize, 230usize);
	let mut sent: Vec<u64> = vec![];
	for k in 1..=n {
		let (out, hand) = hs_initiate(&hs, &shake_frame(local, genesis));
		r.evaluations += 1;
		match (out, hand) {
			(HsOut::Ok(_), Ok(h)) => sent.push(h.nonce),
			(o, h) => {
				r.violation("handshake:initiate", format!("outgoing handshake {} of a long-lived node failed: {:?} {:?}", k, o, h.err()), json!({"kind": "handshake-ring", "k": k}));
				break;
			}
		}
		for back in [0usize, 1, 50, 98] {
			if back >= k {
				continue;
			}
			let nonce = sent[k - 1 - back];
			let (out, _, pending) = hs_accept(&hs, &hand_frame(local, nonce, genesis, 40_100));
			r.evaluations += 1;
			r.distinct += 1;
			r.outcome(&format!("ring:own-nonce-{}-back:{}", back, match &out { HsOut::Ok(_) => "ACCEPTED".to_string(), HsOut::Err(e) => e.clone() }));
			if out != HsOut::Err("PeerWithSelf".into()) || pending != 0 {
				r.violation(
					format!("handshake:self-connect:after-many-outgoing:{}-back", back),
					format!("after {} outgoing handshakes of one node, an incoming Hand carrying the nonce it sent {} handshakes ago was not refused as a connection to itself: {:?}, {} reply bytes", k, back, out, pending),
					json!({"kind": "handshake-ring", "k": k, "back": back}),
				);
				if r.violations.len() > 8 {
					return r;
				}
			}
		}
	}
	let mut d = sent.clone();
	d.sort();
	d.dedup();
	r.extra.insert("ring_outgoing_handshakes".into(), json!(n));
	r.extra.insert("ring_distinct_nonces".into(), json!(d.len()));
	r.sample(json!({"kind": "handshake-ring", "outgoing_handshakes": n, "checked_back": [0, 1, 50, 98]}));
	r
}

fn handshake(_tier: Tier) -> Report {
	uni::init_thread();
	let mut r = Report::new();
	let genesis = hash_of(0xaa);
	let other_genesis = hash_of(0xab);
	let local = ProtocolVersion::local().value();
	let ping = {
		let mut w = raw_header(magic(), Type::Ping as u8, 16);
		w.extend(vec![0u8; 16]);
		w
	};
	let unknown = {
		let mut w = raw_header(magic(), 200, 4);
		w.extend(vec![0u8; 4]);
		w
	};
	for &v in REMOTE_VERSIONS.iter() {
		let want = v.min(local);
		let fresh = || Handshake::new(genesis, P2PConfig::default());
		// ---- inbound
		let (out, reply, _) = hs_accept(&fresh(), &hand_frame(v, 0x1111_0000 + v as u64, genesis, 40_000));
		r.evaluations += 1;
		r.distinct += 1;
		r.outcome(&format!("accept:negotiated-{}", if want == local { "ours" } else { "theirs" }));
		let case = json!({"kind": "handshake", "side": "accept", "remote_version": v});
		if out != HsOut::Ok(want) {
			r.violation("handshake:accept-version", format!("accept with remote version {} (ours {}): {:?}, expected version {}", v, local, out, want), case.clone());
		}
		match reply {
			Ok((t, b)) if t == Type::Shake as u8 => {
				match ser::deserialize::<Shake, _>(&mut &b[..], ProtocolVersion(want), ser::DeserializationMode::default()) {
					Ok(s) => {
						if s.version.value() != local || s.genesis != genesis {
							r.violation("handshake:accept-shake", format!("Shake announces version {} genesis {} (ours {} / {})", s.version.value(), s.genesis, local, genesis), case.clone());
						}
					}
					Err(e) => r.violation("handshake:accept-shake", format!("Shake unreadable: {:?}", e), case.clone()),
				}
			}
			other => r.violation("handshake:accept-shake", format!("no Shake reply: {:?}", other.map(|x| x.0)), case.clone()),
		}
		// ---- outbound
		let (out, hand) = hs_initiate(&fresh(), &shake_frame(v, genesis));
		r.evaluations += 1;
		r.distinct += 1;
		r.outcome(&format!("initiate:negotiated-{}", if want == local { "ours" } else { "theirs" }));
		let case = json!({"kind": "handshake", "side": "initiate", "remote_version": v});
		if out != HsOut::Ok(want) {
			r.violation("handshake:initiate-version", format!("initiate with remote version {} (ours {}): {:?}, expected version {}", v, local, out, want), case.clone());
		}
		match hand {
			Ok(h) => {
				if h.version.value() != local || h.genesis != genesis {
					r.violation("handshake:initiate-hand", format!("Hand announces version {} genesis {}", h.version.value(), h.genesis), case.clone());
				}
			}
			Err(e) => r.violation("handshake:initiate-hand", format!("no Hand written: {}", e), case.clone()),
		}
		// ---- different genesis, both directions
		let (out, _, pending) = hs_accept(&fresh(), &hand_frame(v, 0x2222_0000 + v as u64, other_genesis, 40_001));
		r.evaluations += 1;
		r.distinct += 1;
		r.outcome("accept:refused-genesis");
		if out != HsOut::Err("GenesisMismatch".into()) || pending != 0 {
			r.violation("handshake:accept-genesis", format!("accept of a Hand with another genesis (version {}): {:?}, {} reply bytes", v, out, pending), json!({"kind": "handshake", "side": "accept-genesis", "remote_version": v}));
		}
		let (out, _) = hs_initiate(&fresh(), &shake_frame(v, other_genesis));
		r.evaluations += 1;
		r.distinct += 1;
		r.outcome("initiate:refused-genesis");
		if out != HsOut::Err("GenesisMismatch".into()) {
			r.violation("handshake:initiate-genesis", format!("initiate answered by a Shake with another genesis (version {}): {:?}", v, out), json!({"kind": "handshake", "side": "initiate-genesis", "remote_version": v}));
		}
	}
	// ---- the handshake frame followed by the peer's next message in the same byte stream
	{
		let ping_msg = grin_p2p::msg::Ping { total_difficulty: Difficulty::from_num(77), height: 9 };
		let mut follows: Vec<(&str, Vec<u8>, Ev)> = vec![];
		for &v in REMOTE_VERSIONS.iter() {
			let _ = v;
		}
		let pbody = ser(&ping_msg, local);
		let mut pw = raw_header(magic(), Type::Ping as u8, pbody.len() as u64);
		pw.extend(pbody.clone());
		follows.push(("ping", pw, Ev::Msg(Type::Ping as u8, pbody)));
		follows.push(("unknown-type", unknown.clone(), Ev::Unknown(200)));
		let mut gp = raw_header(magic(), Type::GetPeerAddrs as u8, 4);
		gp.extend(vec![0, 0, 0, 1]);
		follows.push(("get-peer-addrs", gp, Ev::Msg(Type::GetPeerAddrs as u8, vec![0, 0, 0, 1])));
		for &v in [1u32, local, 1000].iter() {
			for accept in [true, false] {
				let first = if accept { hand_frame(v, 0x3333_0000 + v as u64, genesis, 40_010) } else { shake_frame(v, genesis) };
				for (fname, follow, want_ev) in follows.iter() {
					// coalesced, cut exactly between the two frames, cut inside the handshake frame,
					// cut inside the following frame
					let cuts: Vec<Option<usize>> = vec![None, Some(first.len()), Some(FRAME), Some(first.len() / 2), Some(first.len() + 1), Some(first.len() + FRAME)];
					for cut in cuts {
						let hs = Handshake::new(genesis, P2PConfig::default());
						let (out, left, ev) = hs_then(&hs, accept, &first, follow, cut);
						r.evaluations += 1;
						r.distinct += 1;
						let side = if accept { "accept" } else { "initiate" };
						r.outcome(&format!("{}:then-message-delivered", side));
						let case = json!({"kind": "handshake-then", "side": side, "remote_version": v, "follow": fname, "cut": cut});
						if out != HsOut::Ok(v.min(local)) {
							r.violation(format!("handshake:{}-then:version", side), format!("{} with remote version {} followed by {} (cut {:?}): {:?}", side, v, fname, cut, out), case.clone());
							continue;
						}
						if left != follow.len() || ev.as_ref() != Some(want_ev) {
							r.violation(
								format!("handshake:{}-then:message-lost", side),
								format!(
									"{} with remote version {} followed by a {} message in the same stream (cut {:?}): after the handshake {} of its {} bytes are left in the socket and the codec reads {}",
									side,
									v,
									fname,
									cut,
									left,
									follow.len(),
									ev.map(|e| e.brief()).unwrap_or_else(|| "nothing".into())
								),
								case,
							);
						}
					}
				}
			}
		}
	}
	// ---- self connection: every nonce we send out must be refused when it comes back in
	// (a fresh Handshake per round: its tracker spaces writes 150 ms apart)
	let mut nonces = vec![];
	let mut self_round = |r: &mut Report, hs: &Handshake, k: u32, inits: u32, foreign: bool| {
		let mut mine = vec![];
		for _ in 0..inits {
			let (out, hand) = hs_initiate(hs, &shake_frame(local, genesis));
			r.evaluations += 1;
			match (out, hand) {
				(HsOut::Ok(_), Ok(h)) => mine.push(h.nonce),
				(o, h) => r.violation("handshake:initiate", format!("plain initiate in round {} failed: {:?} {:?}", k, o, h.err()), json!({"kind": "handshake", "side": "self", "round": k})),
			}
		}
		for (j, &nonce) in mine.iter().enumerate() {
			let (out, _, pending) = hs_accept(hs, &hand_frame(local, nonce, genesis, 40_002));
			r.evaluations += 1;
			r.distinct += 1;
			r.outcome("accept:refused-self");
			if out != HsOut::Err("PeerWithSelf".into()) || pending != 0 {
				r.violation("handshake:self-connect", format!("Hand carrying our own nonce (round {}, initiate {} of {}) was not refused: {:?}, {} reply bytes", k, j, inits, out, pending), json!({"kind": "handshake", "side": "self", "round": k}));
			}
		}
		if foreign {
			// control: a foreign nonce is fine
			let (out, _, _) = hs_accept(hs, &hand_frame(local, mine[0] ^ 0x5555_5555_5555_5555, genesis, 40_003));
			r.evaluations += 1;
			r.outcome("accept:foreign-nonce");
			if out != HsOut::Ok(local) {
				r.violation("handshake:foreign-nonce", format!("Hand with a foreign nonce refused: {:?}", out), json!({"kind": "handshake", "side": "foreign", "round": k}));
			}
		}
		nonces.extend(mine);
	};
	for k in 0..SELF_ROUNDS {
		let hs = Handshake::new(genesis, P2PConfig::default());
		self_round(&mut r, &hs, k, if k == 0 { 4 } else { 1 }, k < 2);
	}
	let mut d = nonces.clone();
	d.sort();
	d.dedup();
	r.extra.insert("distinct_nonces_sent".into(), json!(d.len()));
	// ---- wrong first message
	for (name, first) in [("ping", ping.clone()), ("shake", shake_frame(local, genesis)), ("unknown-type", unknown.clone())] {
		let (out, _, pending) = hs_accept(&Handshake::new(genesis, P2PConfig::default()), &first);
		r.evaluations += 1;
		r.distinct += 1;
		r.outcome("accept:refused-wrong-first-message");
		if !matches!(out, HsOut::Err(_)) || pending != 0 {
			r.violation("handshake:accept-wrong-type", format!("accept with a {} frame first: {:?}, {} reply bytes", name, out, pending), json!({"kind": "handshake", "side": "accept-wrong-type", "first": name}));
		}
	}
	for (name, first) in [("ping", ping), ("hand", hand_frame(local, 7, genesis, 40_004)), ("unknown-type", unknown)] {
		let (out, _) = hs_initiate(&Handshake::new(genesis, P2PConfig::default()), &first);
		r.evaluations += 1;
		r.distinct += 1;
		r.outcome("initiate:refused-wrong-first-message");
		if !matches!(out, HsOut::Err(_)) {
			r.violation("handshake:initiate-wrong-type", format!("initiate answered by a {} frame: {:?}", name, out), json!({"kind": "handshake", "side": "initiate-wrong-type", "first": name}));
		}
	}
	r.sample(json!({"local_version": local, "remote_versions": REMOTE_VERSIONS.to_vec(), "self_connect_rounds": SELF_ROUNDS}));
	r
}

impl Engine for C19 {
	fn id(&self) -> &'static str {
		"C19"
	}
	fn meta(&self, tier: Tier) -> Meta {
		let seqs = tier.pick(
			"quick groups: single = every ALL item except the four largest attachments, all versions; single-attachment-48001 at version 1000; pair-light = LIGHT x LIGHT, all versions; pair-heavy = HEAVY x CORE and LIGHT x HEAVY at versions 1 and 1000; single-2cuts = SMALL items; pair-tiny-2cuts = TINY x TINY",
			"thorough groups: single = ALL, all versions; pair-core = CORE x CORE, all versions; pair-big = BIG x CORE, CORE x BIG, BIG x BIG at version 1000; pair-unknown = UNK1 x LIGHT and LIGHT x UNK1, all versions; triple-light = (LIGHT u SMALL)^3, all versions; single-2cuts = ALL; pair-small-2cuts = SMALL x SMALL; triple-tiny-2cuts = TINY^3",
		);
		Meta {
			level: "exploration",
			rule: Box::leak(
				format!(
					"exhaustive enumeration of environment decisions (short reads) on the real Codec over a loopback TcpStream; the byte stream is produced by the real Msg::new/write_message and the writer delivers the next fragment only when its send queue (TIOCOUTQ) and the reader's receive queue (FIONREAD) are empty. streams: for every group of message sequences x the group's protocol versions (of 1, 2, 3, 1000) x the unfragmented stream and every single split point of the byte stream; groups named *-2cuts: every pair of split points of every stream of at most 96 bytes. {}. {}. A case is (sequence, version, split points); all cases are distinct by construction; per-group counts are in coverage.parts.streams.group_*. limits: every type byte 0..255 x announced lengths {{0, nominal, nominal+1, 4*nominal, 4*nominal+1, 2^32, 2^64-1}}, and 4*nominal+1 with the 11-byte frame header split at each of its 10 interior points; wrong magic: every wrong value of either magic byte for types 3, 9, 11, 17, 255 and 4 wrong magics (bytes swapped, testnet, mainnet, two bit errors) for every type byte; header lists of 1, 2, 32, 33, 34 real headers announcing counts {{0, 1, n-1, n, n+1, 512, 65535}}. handshake: accept and initiate against a scripted peer for remote versions {{0, 1, 2, 3, 999, 1000, 1001, 2^32-1}} x {{same, different}} genesis, {} self-connection rounds (own nonce coming back, after 1 or 4 initiations), one long-lived Handshake making 108 (thorough 230) outgoing handshakes with the nonces sent 0 / 1 / 50 / 98 handshakes ago coming back after each, foreign nonce control, wrong first message (Ping, Shake/Hand, unknown type) on both sides",
					SETS_DOC, seqs, SELF_ROUNDS
				)
				.into_boxed_str(),
			),
			assumptions: vec![
				"chain type AutomatedTesting (magic, block size limit, header sizes 257..310 bytes)".into(),
				"the space of sequences is the listed groups, not every sequence of up to 3 items over the 718-item alphabet (718^3 sequences x stream length is out of reach); every listed group is enumerated completely".into(),
				"'the limit for its type' is four times the nominal per-type size (the protocol's documented headroom): announced lengths up to 4*nominal must be accepted, anything above refused with 0 body bytes consumed; the nominal table is written down in the harness from the message definitions".into(),
				"an item count is 'inconsistent with its length' when no list of that many headers of admissible size can fill the announced length (count 0 with bytes, count*257 > bytes, count*310 < bytes): such frames must be refused having consumed at most the 2-byte count and delivered nothing; a count that fits the length but is contradicted by the content must merely not pass as a complete list".into(),
				"typed messages are compared by wire type and by re-serialising the received value at the same protocol version (the serialiser is not the subject, the framing is); header lists are compared batch by batch (at most 32 headers, 'remaining' = headers still to come); attachment chunks must account for themselves (read/left) and concatenate to the file, chunk sizes are free".into(),
				"the reader drives the codec as conn.rs/protocol.rs do: expect_attachment(size = announced bytes) right after a TxHashSetArchive message".into(),
				"senders talking protocol version 1 or 2 hand inputs with features to Msg::new (as the node converts them); version 1000 is the node's own version".into(),
				"no inter-fragment delays are generated: delays of the order of the 2 s / 60 s I/O timeouts are outside the property".into(),
				"fragmented streams run on a long-lived connection with a fresh Codec per execution and are terminated by a sentinel frame with a wrong magic, which must be refused exactly at the next frame boundary; unfragmented streams use a fresh connection and end of stream; after any anomaly the connection is replaced".into(),
				"'no allocation of the announced size' is checked (largest single request and peak live bytes on the reading thread) when the announced length exceeds 64 KiB".into(),
			],
			exhaustive: true,
		}
	}
	fn parts(&self, _tier: Tier) -> Vec<(&'static str, usize)> {
		vec![("streams", 16), ("limits", 4), ("handshake", 1), ("handshake-ring", 1), ("delays", 1)]
	}
	fn run_part(&self, part: &str, tier: Tier, shard: usize, n: usize) -> Report {
		match part {
			"streams" => streams(tier, shard, n),
			"limits" => limits(tier, shard, n),
			"handshake" => handshake(tier),
			"handshake-ring" => handshake_ring(tier),
			"delays" => delays(tier),
			_ => panic!("unknown part"),
		}
	}
	fn replay(&self, case: &Value) -> Result<String, String> {
		uni::init_thread();
		let verdict = |f: Finding, ok: String| match f {
			Some((key, what)) => Err(format!("{}: {}", key, what)),
			None => Ok(ok),
		};
		match case["kind"].as_str() {
			Some("stream") => {
				let a = Alphabet::build();
				let mut rig = Rig::new(0);
				let seq: Vec<usize> = case["seq"].as_array().ok_or("seq")?.iter().map(|n| a.idx(n.as_str().unwrap())).collect();
				let version = case["version"].as_u64().ok_or("version")? as u32;
				let v = VERSIONS.iter().position(|x| *x == version).ok_or("unknown version")?;
				let cuts: Vec<usize> = case["cuts"].as_array().ok_or("cuts")?.iter().map(|c| c.as_u64().unwrap() as usize).collect();
				let stream = stream_of(&a, &seq, v);
				let (ex, verdict) = run_case(&mut rig, &a, &seq, v, &stream, &cuts, cuts.is_empty());
				let obs: Vec<String> = ex.events.iter().map(|e| e.brief()).collect();
				match verdict {
					Ok(()) => Ok(format!("faithful: {:?}", obs)),
					Err((key, what)) => Err(format!("stream:{}: {} (observed {:?})", key, what, obs)),
				}
			}
			Some("limit") => {
				let mut rig = Rig::new(0);
				let ty = case["type"].as_u64().ok_or("type")? as u8;
				let len: u64 = case["len"].as_str().ok_or("len")?.parse().map_err(|_| "len")?;
				let cut = case["cut"].as_u64().unwrap_or(0) as usize;
				let (classes, f, sample) = check_limit(&mut rig, ty, len, cut);
				verdict(f, format!("{:?} {}", classes, sample))
			}
			Some("magic") => {
				let mut rig = Rig::new(0);
				let mm = [case["magic"][0].as_u64().ok_or("magic")? as u8, case["magic"][1].as_u64().ok_or("magic")? as u8];
				let f = check_magic(&mut rig, mm, case["type"].as_u64().ok_or("type")? as u8);
				verdict(f, "refused, body untouched".into())
			}
			Some("count") => {
				let mut rig = Rig::new(0);
				let n = case["headers"].as_u64().ok_or("headers")? as usize;
				let hb: Vec<Vec<u8>> = mined_headers(n).iter().map(|h| ser(h, 3)).collect();
				let (class, f, sample) = check_count(&mut rig, &hb, n, case["count"].as_u64().ok_or("count")? as u16);
				verdict(f, format!("{} {}", class, sample))
			}
			Some("delay") => {
				let r = delays(Tier::Quick);
				match r.violations.iter().find(|v| &v.case == case).or(r.violations.first()) {
					Some(v) => Err(format!("{}: {}", v.key, v.what)),
					None => Ok(format!("delays part holds: {:?}", r.outcomes)),
				}
			}
			Some("handshake") | Some("handshake-then") => {
				let r = handshake(Tier::Quick);
				match r.violations.iter().find(|v| &v.case == case).or(r.violations.first()) {
					Some(v) => Err(format!("{}: {}", v.key, v.what)),
					None => Ok(format!("handshake part holds: {:?}", r.outcomes)),
				}
			}
			Some("handshake-ring") => {
				let r = handshake_ring(Tier::Quick);
				match r.violations.iter().find(|v| &v.case == case).or(r.violations.first()) {
					Some(v) => Err(format!("{}: {}", v.key, v.what)),
					None => Ok(format!("handshake-ring part holds: {:?}", r.outcomes)),
				}
			}
			_ => Err("unknown case kind".into()),
		}
	}
}
