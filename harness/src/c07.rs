//! C07 — MMR roots, positions and Merkle proofs follow the MMR definition.
use crate::elem::Elem;
use crate::ev::{hex, Report, Tier};
use crate::par::mine;
use crate::refmmr::{self, Forest};
use crate::{Engine, Meta};
use grin_core::core::hash::Hash;
use grin_core::core::merkle_proof::MerkleProof;
use grin_core::core::pmmr::{self, ReadablePMMR, ReadonlyPMMR, VecBackend, PMMR};
use grin_util::ToHex;
use serde_json::{json, Value};

pub struct C07;

fn h(x: &[u8; 32]) -> Hash {
	Hash::from_vec(x)
}

macro_rules! chk {
	($r:expr, $cond:expr, $key:expr, $what:expr, $case:expr) => {
		if !($cond) {
			$r.violation($key, $what, $case);
		}
	};
}

fn arith(tier: Tier, shard: usize, n: usize) -> Report {
	let mut r = Report::new();
	let bound: u64 = tier.pick(65536, 1 << 20); // nodes
	// one forest large enough that every position < bound has its parent inside
	let leaves = (bound as usize).next_power_of_two();
	let mut f = Forest::new(false);
	// record (size -> peaks) at every complete size
	let mut complete: std::collections::HashMap<u64, Vec<u64>> = Default::default();
	complete.insert(0, vec![]);
	for _ in 0..leaves {
		f.push(&[]);
		if f.size() <= bound + 1 {
			complete.insert(f.size(), f.stack.clone());
		}
	}
	let mut leaf_count_below = vec![0u64; bound as usize + 2];
	for p in 0..=bound as usize {
		leaf_count_below[p + 1] =
			leaf_count_below[p] + if f.nodes[p].height == 0 { 1 } else { 0 };
	}
	// ---- per-position functions
	for pos in 0..bound {
		if !mine(pos, shard, n) {
			continue;
		}
		let nd = &f.nodes[pos as usize];
		r.evaluations += 1;
		r.distinct += 1;
		let case = json!({"fn": "position", "pos": pos});
		chk!(r, pmmr::bintree_postorder_height(pos) == nd.height as u64, "arith:height", format!("bintree_postorder_height({})", pos), case.clone());
		chk!(r, pmmr::is_leaf(pos) == (nd.height == 0), "arith:is_leaf", format!("is_leaf({})", pos), case.clone());
		let parent = nd.parent.expect("inside perfect tree");
		let pn = &f.nodes[parent as usize];
		let is_left = pn.left == Some(pos);
		let sib = if is_left { pn.right.unwrap() } else { pn.left.unwrap() };
		chk!(r, pmmr::family(pos) == (parent, sib), "arith:family", format!("family({}) = {:?} expected {:?}", pos, pmmr::family(pos), (parent, sib)), case.clone());
		chk!(r, pmmr::is_left_sibling(pos) == is_left, "arith:is_left_sibling", format!("is_left_sibling({})", pos), case.clone());
		let sub = f.subtree(pos);
		chk!(r, pmmr::bintree_leftmost(pos) == sub[0], "arith:leftmost", format!("bintree_leftmost({})", pos), case.clone());
		let rightmost_leaf = *sub.iter().filter(|p| f.nodes[**p as usize].height == 0).max().unwrap();
		chk!(r, pmmr::bintree_rightmost(pos) == rightmost_leaf, "arith:rightmost", format!("bintree_rightmost({})", pos), case.clone());
		let rg = pmmr::bintree_range(pos);
		chk!(r, rg.start == sub[0] && rg.end == pos + 1 && (rg.end - rg.start) as usize == sub.len(), "arith:range", format!("bintree_range({})", pos), case.clone());
		if nd.height <= 8 {
			let it: Vec<u64> = pmmr::bintree_pos_iter(pos).collect();
			chk!(r, it == sub, "arith:pos_iter", format!("bintree_pos_iter({})", pos), case.clone());
			let lit: Vec<u64> = pmmr::bintree_leaf_pos_iter(pos).collect();
			let leaves: Vec<u64> = sub.iter().cloned().filter(|p| f.nodes[*p as usize].height == 0).collect();
			chk!(r, lit == leaves, "arith:leaf_pos_iter", format!("bintree_leaf_pos_iter({})", pos), case.clone());
		}
		chk!(r, pmmr::pmmr_leaf_to_insertion_index(pos) == nd.leaf_idx, "arith:leaf_to_insertion", format!("pmmr_leaf_to_insertion_index({})", pos), case.clone());
		if let Some(li) = nd.leaf_idx {
			chk!(r, pmmr::insertion_to_pmmr_index(li) == pos, "arith:insertion_to_pmmr", format!("insertion_to_pmmr_index({})", li), case.clone());
		}
		// least leaf position >= pos
		let next_leaf = f.leaf_pos[leaf_count_below[pos as usize] as usize];
		chk!(r, pmmr::round_up_to_leaf_pos(pos) == next_leaf, "arith:round_up", format!("round_up_to_leaf_pos({}) = {} expected {}", pos, pmmr::round_up_to_leaf_pos(pos), next_leaf), case.clone());
		r.outcome(&format!("height{}", nd.height.min(12)));
		if pos == 22 {
			r.sample(json!({"pos": pos, "height": nd.height, "family": [parent, sib], "is_left": is_left, "subtree": [sub[0], pos]}));
		}
	}
	// ---- per-size functions
	for size in 0..=bound {
		if !mine(size, shard, n) {
			continue;
		}
		r.evaluations += 1;
		r.distinct += 1;
		let case = json!({"fn": "size", "size": size});
		chk!(r, pmmr::n_leaves(size) == leaf_count_below[size as usize], "arith:n_leaves", format!("n_leaves({}) = {} expected {}", size, pmmr::n_leaves(size), leaf_count_below[size as usize]), case.clone());
		let (map, hgt) = pmmr::peak_map_height(size);
		chk!(r, hgt == f.nodes[size as usize].height as u64, "arith:peak_map_height.height", format!("peak_map_height({}).1", size), case.clone());
		match complete.get(&size) {
			Some(peaks) => {
				r.outcome("complete-size");
				chk!(r, &pmmr::peaks(size) == peaks, "arith:peaks", format!("peaks({}) = {:?} expected {:?}", size, pmmr::peaks(size), peaks), case.clone());
				chk!(r, hgt == 0 && map == leaf_count_below[size as usize], "arith:peak_map", format!("peak_map_height({})", size), case.clone());
				let sizes: Vec<u64> = peaks.iter().map(|p| (2u64 << f.nodes[*p as usize].height) - 1).collect();
				chk!(r, pmmr::peak_sizes_height(size) == (sizes.clone(), 0), "arith:peak_sizes", format!("peak_sizes_height({})", size), case.clone());
				if size == 11 {
					r.sample(json!({"size": size, "peaks": peaks, "peak_sizes": sizes, "n_leaves": leaf_count_below[size as usize]}));
				}
			}
			None => {
				r.outcome("incomplete-size");
				chk!(r, pmmr::peaks(size).is_empty(), "arith:peaks-incomplete", format!("peaks({}) not empty for an incomplete size", size), case.clone());
				chk!(r, hgt != 0, "arith:peak_map_height-incomplete", format!("peak_map_height({}).1 == 0 for an incomplete size", size), case.clone());
			}
		}
	}
	// ---- family_branch for every (size, pos), complete sizes up to fb_bound
	let fb_bound: u64 = tier.pick(4096, 16384);
	for size in 1..=fb_bound {
		if !mine(size, shard, n) || !complete.contains_key(&size) {
			continue;
		}
		for pos in 0..size {
			r.evaluations += 1;
			let mut exp = vec![];
			let mut cur = pos;
			loop {
				let p = f.nodes[cur as usize].parent.unwrap();
				if p >= size {
					break;
				}
				let pn = &f.nodes[p as usize];
				let sib = if pn.left == Some(cur) { pn.right.unwrap() } else { pn.left.unwrap() };
				exp.push((p, sib));
				cur = p;
			}
			let got = pmmr::family_branch(pos, size);
			if got != exp {
				r.violation("arith:family_branch", format!("family_branch({},{}) = {:?} expected {:?}", pos, size, got, exp), json!({"fn": "family_branch", "pos": pos, "size": size}));
			}
		}
		r.distinct += size;
	}
	r.extra.insert("bound_nodes".into(), json!(bound));
	r.extra.insert("bound_family_branch_size".into(), json!(fb_bound));
	r
}

/// pure functions near powers of two and near the u64 limits against the u128 reference
fn big(_tier: Tier) -> Report {
	let mut r = Report::new();
	let mut points: Vec<u64> = vec![];
	for k in 1..=63u32 {
		let c = 1u128 << k;
		for d in -3i128..=3 {
			let v = c as i128 + d;
			if v >= 0 && v < (1i128 << 63) {
				points.push(v as u64);
			}
		}
	}
	for d in 0..8u64 {
		points.push(u64::MAX / 2 - d);
		points.push(u64::MAX / 4 + d);
	}
	points.sort();
	points.dedup();
	for &p in &points {
		r.evaluations += 1;
		r.distinct += 1;
		let case = json!({"fn": "big", "pos": p.to_string()});
		let hh = refmmr::ref_height(p as u128) as u64;
		chk!(r, pmmr::bintree_postorder_height(p) == hh, "big:height", format!("bintree_postorder_height({})", p), case.clone());
		r.outcome(&format!("h{}", hh));
		// domain limit: results must fit in u64 (positions of a consensus-valid MMR are < 2^63)
		let (par, sib) = refmmr::ref_family(p as u128);
		if par < (1u128 << 63) {
			chk!(r, pmmr::family(p) == (par as u64, sib as u64), "big:family", format!("family({})", p), case.clone());
			chk!(r, pmmr::is_left_sibling(p) == (sib > p as u128), "big:is_left_sibling", format!("is_left_sibling({})", p), case.clone());
		}
		let lm = p as u128 + 2 - (2u128 << hh);
		chk!(r, pmmr::bintree_leftmost(p) as u128 == lm, "big:leftmost", format!("bintree_leftmost({})", p), case.clone());
		chk!(r, pmmr::bintree_rightmost(p) == p - hh, "big:rightmost", format!("bintree_rightmost({})", p), case.clone());
		chk!(r, pmmr::n_leaves(p) as u128 == refmmr::ref_leaves_below(p as u128), "big:n_leaves", format!("n_leaves({}) = {} expected {}", p, pmmr::n_leaves(p), refmmr::ref_leaves_below(p as u128)), case.clone());
		// p as a leaf insertion index
		if p < (1u64 << 62) {
			let lp = refmmr::ref_leaf_pos(p as u128);
			chk!(r, pmmr::insertion_to_pmmr_index(p) as u128 == lp, "big:insertion_to_pmmr", format!("insertion_to_pmmr_index({})", p), case.clone());
			chk!(r, pmmr::pmmr_leaf_to_insertion_index(lp as u64) == Some(p), "big:leaf_to_insertion", format!("pmmr_leaf_to_insertion_index({})", lp), case.clone());
			chk!(r, pmmr::round_up_to_leaf_pos(lp as u64) == lp as u64, "big:round_up", format!("round_up_to_leaf_pos({})", lp), case.clone());
		}
		if hh == 0 {
			let li = refmmr::ref_leaves_below(p as u128);
			chk!(r, pmmr::pmmr_leaf_to_insertion_index(p).map(|x| x as u128) == Some(li), "big:leaf_to_insertion2", format!("pmmr_leaf_to_insertion_index({})", p), case.clone());
		} else {
			chk!(r, pmmr::pmmr_leaf_to_insertion_index(p).is_none(), "big:leaf_to_insertion3", format!("pmmr_leaf_to_insertion_index({}) for non-leaf", p), case.clone());
		}
	}
	r.sample(json!({"points": points.len(), "first": points[..6].to_vec(), "last": points[points.len()-3..].iter().map(|x| x.to_string()).collect::<Vec<_>>()}));
	r
}

fn roots(tier: Tier, shard: usize, n: usize) -> Report {
	let mut r = Report::new();
	let maxl: u32 = tier.pick(2048, 16384);
	if shard != 0 {
		// incremental by nature: one worker pushes, the others check views at earlier sizes
	}
	let mut ba = VecBackend::<Elem>::new();
	let mut f = Forest::new(true);
	let mut sizes = vec![];
	let mut roots_at: Vec<(u64, [u8; 32], Vec<u64>)> = vec![];
	for i in 0..maxl {
		let size_before = f.size();
		{
			let mut p = PMMR::at(&mut ba, size_before);
			let pos = p.push(&Elem(i)).expect("push");
			let epos = f.push(&Elem(i).bytes());
			if shard == 0 {
			r.evaluations += 1;
			r.distinct += 1;
			r.transitions += 1;
			let case = json!({"fn": "push", "leaves": i + 1});
			chk!(r, pos == epos, "roots:pos", format!("push #{} returned pos {} expected {}", i, pos, epos), case.clone());
			chk!(r, p.unpruned_size() == f.size(), "roots:size", format!("size after {} leaves = {} expected {}", i + 1, p.unpruned_size(), f.size()), case.clone());
			let root = p.root().unwrap_or_else(|_| Hash::default());
			chk!(r, root == h(&f.root()), "roots:root", format!("root after {} leaves differs from the definition", i + 1), case.clone());
			let peaks: Vec<Hash> = f.stack.iter().map(|p| h(&f.nodes[*p as usize].hash)).collect();
			chk!(r, p.peaks() == peaks, "roots:peaks", format!("peak hashes after {} leaves", i + 1), case.clone());
			if (i + 1) % 256 == 0 || i < 40 {
				chk!(r, p.validate().is_ok(), "roots:validate", format!("PMMR::validate after {} leaves", i + 1), case.clone());
				for pos in 0..f.size() {
					chk!(r, p.get_hash(pos) == Some(h(&f.nodes[pos as usize].hash)), "roots:get_hash", format!("get_hash({}) at {} leaves", pos, i + 1), case.clone());
				}
			}
			if i == 6 {
				r.sample(json!({"leaves": 7, "size": f.size(), "root": hex(&f.root()), "peaks": f.stack}));
			}
			r.outcome(&format!("peaks{}", f.stack.len()));
			}
		}
		sizes.push(f.size());
		roots_at.push((f.size(), f.root(), f.stack.clone()));
	}
	if shard == 0 {
		r.states = maxl as u64;
	}
	// read-only views at every earlier complete size must give that size's root
	let step = tier.pick(1, 1);
	for (k, (size, root, _)) in roots_at.iter().enumerate() {
		if !mine(k as u64, shard, n) || k % step != 0 {
			continue;
		}
		let v = ReadonlyPMMR::<Elem, _>::at(&ba, *size);
		r.evaluations += 1;
		chk!(r, v.root().ok() == Some(h(root)), "roots:readonly_at", format!("ReadonlyPMMR::at(size {}) root", size), json!({"fn": "readonly_at", "size": size}));
		chk!(r, v.unpruned_size() == *size, "roots:readonly_size", format!("ReadonlyPMMR::at(size {}) size", size), json!({"fn": "readonly_at", "size": size}));
	}
	// rewindable views: rewinding the view to ANY position (not only to a complete size) gives the
	// smallest complete MMR containing that position, with that MMR's root
	{
		let total = f.size();
		let upto = total.min(tier.pick(4200, 33000));
		let mut l = 0usize; // number of leaves of the expected MMR
		for pos in 1..=upto {
			while roots_at[l].0 < pos {
				l += 1;
			}
			if !mine(pos, shard, n) {
				continue;
			}
			let (want_size, want_root, _) = &roots_at[l];
			let mut v = grin_core::core::pmmr::RewindablePMMR::<Elem, _>::at(&ba, total);
			let rw = v.rewind(pos);
			let ro = v.as_readonly();
			r.evaluations += 1;
			let case = json!({"fn": "rewindable_rewind", "pos": pos, "leaves": maxl});
			chk!(r, rw.is_ok(), "roots:rewindable:error", format!("RewindablePMMR::rewind({}) = {:?}", pos, rw), case.clone());
			chk!(r, ro.unpruned_size() == *want_size, "roots:rewindable:size", format!("view rewound to position {} has size {} expected {} (the smallest complete MMR containing it)", pos, ro.unpruned_size(), want_size), case.clone());
			chk!(r, ro.root().ok() == Some(h(want_root)), "roots:rewindable:root", format!("view rewound to position {}: root differs from the root of the {}-leaf MMR", pos, l + 1), case.clone());
		}
		r.outcome("rewindable-view:every-position");
	}
	r.extra.insert("bound_leaves".into(), json!(maxl));
	r
}

/// a fresh VecBackend with `nl` leaves of which leaf `rm` is removed
fn ba_clone_with_removed(f: &Forest, nl: u32, rm: u32) -> VecBackend<Elem> {
	let mut ba = VecBackend::<Elem>::new();
	{
		let mut p = PMMR::new(&mut ba);
		for i in 0..nl {
			p.push(&Elem(i)).unwrap();
		}
		p.prune(f.leaf_pos[rm as usize]).unwrap();
	}
	ba
}

fn proofs(tier: Tier, shard: usize, n: usize) -> Report {
	let mut r = Report::new();
	let maxl: u32 = tier.pick(96, 320);
	for nl in 1..=maxl {
		if !mine(nl as u64, shard, n) {
			continue;
		}
		let mut ba = VecBackend::<Elem>::new();
		let mut f = Forest::new(true);
		{
			let mut p = PMMR::new(&mut ba);
			for i in 0..nl {
				p.push(&Elem(i)).unwrap();
				f.push(&Elem(i).bytes());
			}
		}
		let size = f.size();
		let p = PMMR::at(&mut ba, size);
		let root = p.root().unwrap();
		let case0 = json!({"leaves": nl});
		chk!(r, root == h(&f.root()), "proofs:root", format!("root of {} leaves", nl), case0.clone());
		for li in 0..nl {
			let pos = f.leaf_pos[li as usize];
			let case = json!({"leaves": nl, "leaf": li, "pos": pos});
			let proof = match p.merkle_proof(pos) {
				Ok(x) => x,
				Err(e) => {
					r.violation("proofs:create", format!("merkle_proof({}) failed: {}", pos, e), case);
					continue;
				}
			};
			r.evaluations += 1;
			r.distinct += 1;
			// the path equals the defining construction
			let exp: Vec<Hash> = f.proof_path(pos).iter().map(h).collect();
			chk!(r, proof.path == exp && proof.mmr_size == size, "proofs:path", format!("proof path for leaf {} of {} differs from definition", li, nl), case.clone());
			chk!(r, proof.verify(root, &Elem(li), pos).is_ok(), "proofs:verify", format!("honest proof for leaf {} of {} does not verify", li, nl), case.clone());
			r.outcome(&format!("pathlen{}", proof.path.len()));
			if nl == 11 && li == 4 {
				r.sample(json!({"leaves": nl, "leaf": li, "pos": pos, "path": proof.path.iter().map(|x| x.to_hex()).collect::<Vec<_>>()}));
			}
			// --- corruptions: every one must fail
			let mut must_fail = |r: &mut Report, key: &str, what: String, pr: &MerkleProof, el: Elem, at: u64| {
				r.evaluations += 1;
				if pr.verify(root, &el, at).is_ok() {
					r.violation(key, what, json!({"leaves": nl, "leaf": li, "pos": pos, "corruption": key, "elem": el.0, "at": at, "path": pr.path.iter().map(|x| x.to_hex()).collect::<Vec<_>>()}));
				}
			};
			for other in 0..nl {
				if other != li {
					must_fail(&mut r, "proofs:other-element", format!("proof of leaf {} (of {}) verifies for element {}", li, nl, other), &proof, Elem(other), pos);
				}
			}
			for at in 0..size + 2 {
				if at != pos {
					must_fail(&mut r, "proofs:other-position", format!("proof of leaf {} at pos {} (of {} leaves) verifies at pos {}", li, pos, nl, at), &proof, Elem(li), at);
				}
			}
			for k in 0..proof.path.len() {
				let mut pr = proof.clone();
				let mut b = pr.path[k].to_vec();
				b[31] ^= 1;
				pr.path[k] = Hash::from_vec(&b);
				must_fail(&mut r, "proofs:path-hash-altered", format!("path hash {} altered still verifies (leaf {} of {})", k, li, nl), &pr, Elem(li), pos);
				// replaced by a neighbouring path hash
				if proof.path.len() > 1 {
					let mut pr = proof.clone();
					pr.path[k] = proof.path[(k + 1) % proof.path.len()];
					if pr.path != proof.path {
						must_fail(&mut r, "proofs:path-hash-replaced", format!("path hash {} replaced still verifies (leaf {} of {})", k, li, nl), &pr, Elem(li), pos);
					}
				}
				let mut pr = proof.clone();
				pr.path.remove(k);
				must_fail(&mut r, "proofs:path-shortened", format!("path without hash {} still verifies (leaf {} of {})", k, li, nl), &pr, Elem(li), pos);
			}
			for k in 0..=proof.path.len() {
				let mut pr = proof.clone();
				pr.path.insert(k, if k < proof.path.len() { proof.path[k] } else { root });
				must_fail(&mut r, "proofs:path-lengthened", format!("path with extra hash at {} still verifies (leaf {} of {})", k, li, nl), &pr, Elem(li), pos);
				let mut pr = proof.clone();
				pr.path.insert(k, Hash::default());
				must_fail(&mut r, "proofs:path-lengthened", format!("path with extra zero hash at {} still verifies (leaf {} of {})", k, li, nl), &pr, Elem(li), pos);
			}
		}
		// proofs of present leaves are unaffected by the removal of any other single leaf
		// (VecBackend::remove = the leaf is spent: get_hash/get_data no longer report it)
		if nl <= 48 {
			for rm in 0..nl {
				let mut bb = ba_clone_with_removed(&f, nl, rm);
				let pp = PMMR::at(&mut bb, size);
				let case = json!({"leaves": nl, "removed_leaf": rm});
				chk!(r, pp.root().ok() == Some(root), "proofs:root-after-removal", format!("root of {} leaves changes when leaf {} is removed", nl, rm), case.clone());
				for li in 0..nl {
					if li == rm {
						continue;
					}
					let pos = f.leaf_pos[li as usize];
					r.evaluations += 1;
					match pp.merkle_proof(pos) {
						Ok(pr) => {
							if pr.verify(root, &Elem(li), pos).is_err() {
								r.violation("proofs:after-removal-of-other-leaf", format!("with leaf {} of {} removed, the proof produced for present leaf {} does not verify against the root", rm, nl, li), json!({"leaves": nl, "removed_leaf": rm, "leaf": li}));
							}
						}
						Err(e) => r.violation("proofs:after-removal-create", format!("merkle_proof failed after removal of another leaf: {}", e), case.clone()),
					}
				}
			}
		}
		// proofs for non-leaf positions must be refused
		for pos in 0..size {
			if f.nodes[pos as usize].height > 0 {
				r.evaluations += 1;
				chk!(r, p.merkle_proof(pos).is_err(), "proofs:non-leaf", format!("merkle_proof({}) for a non-leaf succeeded", pos), case0.clone());
			}
		}
	}
	r.extra.insert("bound_leaves".into(), json!(maxl));
	r
}

impl Engine for C07 {
	fn id(&self) -> &'static str {
		"C07"
	}
	fn meta(&self, _tier: Tier) -> Meta {
		Meta {
			level: "exploration",
			rule: "exhaustive enumeration: every node position and every MMR size up to the node bound (pure position arithmetic vs an explicitly built forest), every (size,pos) for family_branch, every leaf count up to the root bound (push/root/peaks/validate/read-only views), every leaf of every MMR up to the proof bound x every single corruption of element/position/path, and with every other single leaf removed (<= 48 leaves); a case is one (function family, argument tuple); all generated cases are distinct by construction",
			assumptions: vec![
				"blake2b-256 (blake2-rfc crate) is the hash; the reference hashes (index BE || content) itself".into(),
				"positions >= 2^63 are outside the domain (no consensus-valid MMR reaches them)".into(),
				"the advisory mmr_size field of a proof is not mutated (excluded by the property)".into(),
			],
			exhaustive: true,
		}
	}
	fn parts(&self, _tier: Tier) -> Vec<(&'static str, usize)> {
		vec![("arith", 16), ("big", 1), ("roots", 8), ("proofs", 16)]
	}
	fn run_part(&self, part: &str, tier: Tier, shard: usize, n: usize) -> Report {
		match part {
			"arith" => arith(tier, shard, n),
			"big" => big(tier),
			"roots" => roots(tier, shard, n),
			"proofs" => proofs(tier, shard, n),
			_ => panic!("unknown part"),
		}
	}
	fn replay(&self, case: &Value) -> Result<String, String> {
		// proofs: re-run one corruption
		if let (Some(nl), Some(li)) = (case["leaves"].as_u64(), case["leaf"].as_u64()) {
			let mut ba = VecBackend::<Elem>::new();
			let mut p = PMMR::new(&mut ba);
			for i in 0..nl as u32 {
				p.push(&Elem(i)).unwrap();
			}
			let root = p.root().unwrap();
			if let Some(path) = case["path"].as_array() {
				let pr = MerkleProof {
					mmr_size: p.unpruned_size(),
					path: path.iter().map(|x| Hash::from_hex(x.as_str().unwrap()).unwrap()).collect(),
				};
				let el = Elem(case["elem"].as_u64().unwrap_or(li) as u32);
				let at = case["at"].as_u64().unwrap();
				return match pr.verify(root, &el, at) {
					Ok(_) => Err(format!("corrupted proof verifies (leaves {}, leaf {}, at {})", nl, li, at)),
					Err(e) => Ok(format!("rejected: {:?}", e)),
				};
			}
		}
		if case["fn"] == "position" {
			let pos = case["pos"].as_u64().unwrap();
			return Ok(format!("height={} family={:?} left={}", pmmr::bintree_postorder_height(pos), pmmr::family(pos), pmmr::is_left_sibling(pos)));
		}
		Ok(format!("no single-case replay for {}", case))
	}
}
