//! C18 — Database batches are atomic, isolated and survive growth of the map.
//! (sequential semantics: explicit-state exploration against a nested-transaction map model;
//!  growth: operation sequences with values that force map resizes; crash: kill around commit.)
use crate::ev::{hash64, Report, Tier};
use crate::par::mine;
use crate::uni;
use crate::{Engine, Meta};
use grin_core::ser::{self, Readable, Reader, Writeable, Writer};
use grin_store::lmdb::{Batch, Store};
use serde_json::{json, Value};
use std::collections::{BTreeMap, HashSet};
use std::path::Path;
use std::process::{Command, Stdio};

pub struct C18;

const PRE: u8 = 7;

#[derive(Clone, Debug, PartialEq)]
struct Val(Vec<u8>);
impl Writeable for Val {
	fn write<W: Writer>(&self, w: &mut W) -> Result<(), ser::Error> {
		w.write_u64(self.0.len() as u64)?;
		w.write_fixed_bytes(&self.0)
	}
}
impl Readable for Val {
	fn read<R: Reader>(r: &mut R) -> Result<Val, ser::Error> {
		let n = r.read_u64()? as usize;
		// read in chunks (read_fixed_bytes is capped at 100 000 bytes)
		let mut v = Vec::with_capacity(n.min(1 << 20));
		let mut left = n;
		while left > 0 {
			let c = left.min(65536);
			v.extend_from_slice(&r.read_fixed_bytes(c)?);
			left -= c;
		}
		Ok(Val(v))
	}
}

type Key = (Option<u8>, Vec<u8>);

#[derive(Clone, Debug, PartialEq, Eq, Hash, PartialOrd, Ord)]
enum Op {
	Batch,
	Child,
	Put(u8, u8, u8), // db (0 = default, 1 = prefix), key, value
	Del(u8, u8),
	Commit,
	Drop,
	Reopen,
}

fn show(op: &Op) -> String {
	match op {
		Op::Batch => "batch".into(),
		Op::Child => "child".into(),
		Op::Put(d, k, v) => format!("put({},{},{})", if *d == 0 { "def" } else { "pre" }, (b'a' + k) as char, v),
		Op::Del(d, k) => format!("del({},{})", if *d == 0 { "def" } else { "pre" }, (b'a' + k) as char),
		Op::Commit => "commit".into(),
		Op::Drop => "drop".into(),
		Op::Reopen => "reopen".into(),
	}
}

fn dbk(d: u8) -> Option<u8> {
	if d == 0 {
		None
	} else {
		Some(PRE)
	}
}
fn key(k: u8) -> Vec<u8> {
	vec![b'k', b'a' + k]
}
fn val(v: u8) -> Val {
	Val(vec![v; 3])
}

#[derive(Clone, Debug, Default, PartialEq, Eq, Hash)]
struct Model {
	committed: BTreeMap<(u8, u8), u8>,
	/// open levels: overlay of writes (Some = put, None = deleted)
	stack: Vec<BTreeMap<(u8, u8), Option<u8>>>,
}
impl Model {
	fn inside(&self, k: &(u8, u8)) -> Option<u8> {
		for lvl in self.stack.iter().rev() {
			if let Some(v) = lvl.get(k) {
				return *v;
			}
		}
		self.committed.get(k).cloned()
	}
	fn apply(&mut self, op: &Op) {
		match op {
			Op::Batch | Op::Child => self.stack.push(BTreeMap::new()),
			Op::Put(d, k, v) => {
				self.stack.last_mut().unwrap().insert((*d, *k), Some(*v));
			}
			Op::Del(d, k) => {
				self.stack.last_mut().unwrap().insert((*d, *k), None);
			}
			Op::Commit => {
				let top = self.stack.pop().unwrap();
				match self.stack.last_mut() {
					Some(parent) => {
						for (k, v) in top {
							parent.insert(k, v);
						}
					}
					None => {
						for (k, v) in top {
							match v {
								Some(x) => {
									self.committed.insert(k, x);
								}
								None => {
									self.committed.remove(&k);
								}
							}
						}
					}
				}
			}
			Op::Drop => {
				self.stack.pop();
			}
			Op::Reopen => {}
		}
	}
	fn enabled(&self, depth_limit: usize) -> Vec<Op> {
		let mut v = vec![];
		if self.stack.is_empty() {
			v.push(Op::Batch);
			v.push(Op::Reopen);
		} else {
			for (d, k, x) in [(0, 0, 1), (0, 0, 2), (0, 1, 1), (1, 0, 1), (1, 0, 2), (1, 1, 2)] {
				v.push(Op::Put(d, k, x));
			}
			for (d, k) in [(0, 0), (1, 0), (0, 1)] {
				v.push(Op::Del(d, k));
			}
			if self.stack.len() < depth_limit {
				v.push(Op::Child);
			}
			v.push(Op::Commit);
			v.push(Op::Drop);
		}
		v
	}
}

const KEYS: [(u8, u8); 4] = [(0, 0), (0, 1), (1, 0), (1, 1)];

struct Ctx<'r> {
	rep: &'r mut Report,
	hist: Vec<String>,
	ok: bool,
}
impl<'r> Ctx<'r> {
	fn fail(&mut self, key: &str, what: String) {
		self.ok = false;
		self.rep.violation(key.to_string(), what, json!({"ops": self.hist}));
	}
}

fn observe_outside(store: &Store, m: &Model, cx: &mut Ctx<'_>, stage: &str) {
	for k in KEYS {
		let exp = m.committed.get(&k).cloned();
		match store.get_ser::<Val>(dbk(k.0), &key(k.1), None) {
			Ok(got) => {
				if got != exp.map(val) {
					cx.fail(&format!("outside:{}:get", stage), format!("Store::get_ser({:?}) = {:?} but only committed state {:?} may be visible outside a batch", k, got, exp));
				}
			}
			Err(e) => cx.fail("outside:get-error", format!("{:?}", e)),
		}
		match store.exists(dbk(k.0), &key(k.1)) {
			Ok(got) => {
				if got != exp.is_some() {
					cx.fail(&format!("outside:{}:exists", stage), format!("Store::exists({:?}) = {} expected {}", k, got, exp.is_some()));
				}
			}
			Err(e) => cx.fail("outside:exists-error", format!("{:?}", e)),
		}
	}
	for d in [0u8, 1] {
		let exp: Vec<(Vec<u8>, Val)> = m.committed.iter().filter(|(k, _)| k.0 == d).map(|(k, v)| (key(k.1), val(*v))).collect();
		match store.iter(dbk(d), |k, mut v| ser::deserialize::<Val, _>(&mut v, ser::ProtocolVersion(1), ser::DeserializationMode::default()).map(|x| (k.to_vec(), x)).map_err(From::from)) {
			Ok(it) => {
				let got: Vec<(Vec<u8>, Val)> = it.filter_map(|x| x.ok()).collect();
				if got != exp {
					cx.fail(&format!("outside:{}:iter", stage), format!("Store::iter(db {}) = {:?} expected {:?}", d, got.iter().map(|x| &x.0).collect::<Vec<_>>(), exp.iter().map(|x| &x.0).collect::<Vec<_>>()));
				}
			}
			Err(e) => cx.fail("outside:iter-error", format!("{:?}", e)),
		}
	}
}

fn observe_inside(b: &Batch<'_>, m: &Model, cx: &mut Ctx<'_>) {
	for k in KEYS {
		let exp = m.inside(&k);
		match b.get_ser::<Val>(dbk(k.0), &key(k.1), None) {
			Ok(got) => {
				if got != exp.map(val) {
					cx.fail("inside:get", format!("Batch::get_ser({:?}) at nesting level {} = {:?} expected {:?}", k, m.stack.len(), got, exp));
				}
			}
			Err(e) => cx.fail("inside:get-error", format!("{:?}", e)),
		}
		match b.exists(dbk(k.0), &key(k.1)) {
			Ok(got) => {
				if got != exp.is_some() {
					cx.fail("inside:exists", format!("Batch::exists({:?}) = {} expected {}", k, got, exp.is_some()));
				}
			}
			Err(e) => cx.fail("inside:exists-error", format!("{:?}", e)),
		}
	}
	for d in [0u8, 1] {
		let exp: Vec<Vec<u8>> = KEYS.iter().filter(|k| k.0 == d && m.inside(k).is_some()).map(|k| key(k.1)).collect();
		match b.iter(dbk(d), |k, _| Ok(k.to_vec())) {
			Ok(it) => {
				let got: Vec<Vec<u8>> = it.filter_map(|x| x.ok()).collect();
				if got != exp {
					cx.fail("inside:iter", format!("Batch::iter(db {}) = {:?} expected {:?}", d, got, exp));
				}
			}
			Err(e) => cx.fail("inside:iter-error", format!("{:?}", e)),
		}
	}
}

/// run ops[i..] at one nesting level; returns the index after the op that closed the level
fn level(store: &Store, b: &mut Batch<'_>, ops: &[Op], mut i: usize, m: &mut Model, cx: &mut Ctx<'_>) -> (usize, bool) {
	// returns (next index, commit?) ; the caller commits or drops the batch object
	while i < ops.len() {
		let op = &ops[i];
		cx.hist.push(show(op));
		match op {
			Op::Put(d, k, v) => {
				if let Err(e) = b.put_ser(dbk(*d), &key(*k), &val(*v)) {
					cx.fail("op:put-error", format!("{:?}", e));
				}
				m.apply(op);
			}
			Op::Del(d, k) => {
				if let Err(e) = b.delete(dbk(*d), &key(*k)) {
					cx.fail("op:delete-error", format!("{:?}", e));
				}
				m.apply(op);
			}
			Op::Child => {
				m.apply(op);
				{
				let child = b.child();
				match child {
					Ok(mut c) => {
						observe_inside(&c, m, cx);
						let (ni, commit) = level(store, &mut c, ops, i + 1, m, cx);
						i = ni;
						if commit {
							if let Err(e) = c.commit() {
								cx.fail("op:child-commit-error", format!("{:?}", e));
							}
							m.apply(&Op::Commit);
						} else {
							drop(c);
							m.apply(&Op::Drop);
						}
					}
					Err(e) => {
						cx.fail("op:child-error", format!("{:?}", e));
						m.stack.pop();
						i += 1;
					}
				}
				}
				observe_inside(b, m, cx);
				observe_outside(store, m, cx, "in-batch");
				continue;
			}
			Op::Commit => return (i + 1, true),
			Op::Drop => return (i + 1, false),
			_ => unreachable!(),
		}
		observe_inside(b, m, cx);
		observe_outside(store, m, cx, "in-batch");
		i += 1;
	}
	// sequence ended with the level still open: it is dropped
	(i, false)
}

fn open_store(dir: &Path) -> Store {
	Store::new(dir.to_str().unwrap(), None, Some("verif"), vec![PRE], None, None).expect("Store::new")
}

/// Execute a whole operation sequence on a fresh store; every step is observed.
fn execute(dir: &Path, ops: &[Op], rep: &mut Report) -> (Model, bool) {
	let mut m = Model::default();
	let mut cx = Ctx { rep, hist: vec![], ok: true };
	let mut store = open_store(dir);
	let mut i = 0;
	while i < ops.len() {
		match &ops[i] {
			Op::Reopen => {
				cx.hist.push("reopen".into());
				drop(store);
				store = open_store(dir);
				observe_outside(&store, &m, &mut cx, "reopened");
				i += 1;
			}
			Op::Batch => {
				cx.hist.push("batch".into());
				m.apply(&Op::Batch);
				match store.batch() {
					Ok(mut b) => {
						observe_inside(&b, &m, &mut cx);
						let (ni, commit) = level(&store, &mut b, ops, i + 1, &mut m, &mut cx);
						i = ni;
						if commit {
							if let Err(e) = b.commit() {
								cx.fail("op:commit-error", format!("{:?}", e));
							}
							m.apply(&Op::Commit);
						} else {
							drop(b);
							m.apply(&Op::Drop);
						}
						// an unfinished nesting (sequence ended inside a child) unwinds as drops
						while !m.stack.is_empty() {
							m.apply(&Op::Drop);
						}
						observe_outside(&store, &m, &mut cx, "after-batch");
					}
					Err(e) => {
						cx.fail("op:batch-error", format!("{:?}", e));
						m.stack.pop();
						i += 1;
					}
				}
			}
			_ => unreachable!("op outside a batch"),
		}
	}
	let ok = cx.ok;
	(m, ok)
}

fn seq(tier: Tier, shard: usize, n: usize) -> Report {
	uni::init_thread();
	let mut rep = Report::new();
	let sc = uni::Scratch::new("c18");
	let depth = tier.pick(7, 9);
	let nest = 3; // top-level batch + 2 nested children
	rep.extra.insert("bound_depth".into(), json!(depth));
	let mut memo: HashSet<u64> = HashSet::new();
	// iterative DFS over op sequences; each prefix is executed from scratch on a fresh store
	fn rec(prefix: &mut Vec<Op>, m: &Model, depth: usize, nest: usize, memo: &mut HashSet<u64>, sc: &uni::Scratch, rep: &mut Report, shard: usize, n: usize, ctr: &mut u64) {
		if prefix.len() >= depth {
			return;
		}
		for op in m.enabled(nest) {
			if prefix.len() == 1 {
				// split the work below the first op
				*ctr += 1;
				if !mine(*ctr, shard, n) {
					continue;
				}
			}
			prefix.push(op.clone());
			let d = sc.fresh("s");
			let (m2, ok) = execute(&d, prefix, rep);
			let _ = std::fs::remove_dir_all(&d);
			rep.transitions += 1;
			rep.evaluations += 1;
			rep.outcome(match &op {
				Op::Batch => "batch",
				Op::Child => "child",
				Op::Put(..) => "put",
				Op::Del(..) => "delete",
				Op::Commit => if m.stack.len() > 1 { "child-commit" } else { "commit" },
				Op::Drop => if m.stack.len() > 1 { "child-drop" } else { "drop" },
				Op::Reopen => "reopen",
			});
			if ok {
				// the model state after the *open* levels are accounted for: m2 has the stack unwound,
				// so recompute the live model by applying the op to m
				let mut live = m.clone();
				live.apply(&op);
				let key = hash64(&(&live, depth - prefix.len()));
				if memo.insert(key) {
					rep.states += 1;
					rep.distinct += 1;
					rep.state_keys.insert(hash64(&live));
					if rep.samples.len() < 3 && prefix.len() == depth {
						rep.sample(json!({"ops": prefix.iter().map(show).collect::<Vec<_>>(), "committed_after": format!("{:?}", m2.committed)}));
					}
					rec(prefix, &live, depth, nest, memo, sc, rep, shard, n, ctr);
				}
			}
			prefix.pop();
		}
	}
	let mut prefix = vec![];
	let mut ctr = 0u64;
	rec(&mut prefix, &Model::default(), depth, nest, &mut memo, &sc, &mut rep, shard, n, &mut ctr);
	rep
}

// ---------------------------------------------------------------------------------------------
// growth: values large enough that the 1 MiB test-mode map must be enlarged once or twice

#[derive(Clone, Debug, PartialEq, Eq, Hash)]
enum G {
	/// one batch writing value #i of 48 KiB (within the 10 % headroom the resize rule guarantees)
	Write,
	/// batch writing two values that must become visible together
	WritePair,
	OpenIter,
	DropIter,
	Reopen,
}

fn big(i: u32) -> Val {
	Val((0..48 * 1024).map(|k| (i as u8).wrapping_add((k % 251) as u8)).collect())
}

fn growth(tier: Tier, shard: usize, n: usize) -> Report {
	uni::init_thread();
	let mut rep = Report::new();
	let sc = uni::Scratch::new("c18g");
	// every sequence of `len` steps over the alphabet, preceded by a fill that brings the map
	// close to its first resize threshold
	let len = tier.pick(7, 9);
	let fill = 14u32; // 14 x 48 KiB = 672 KiB of a 1 MiB map
	let alphabet = [G::Write, G::WritePair, G::OpenIter, G::DropIter, G::Reopen];
	// (iterator steps only bracket reads / reopen-free stretches; see the well-formedness filter)
	let total = alphabet.len().pow(len as u32);
	rep.extra.insert("bound_len".into(), json!(len));
	let mut map_sizes = std::collections::BTreeSet::new();
	for code in 0..total {
		if !mine(code as u64, shard, n) {
			continue;
		}
		let mut c = code;
		let steps: Vec<G> = (0..len).map(|_| { let g = alphabet[c % alphabet.len()].clone(); c /= alphabet.len(); g }).collect();
		// skip ill-formed iterator usage (drop without open / open twice): not different behaviours
		let mut open = false;
		let mut wf = true;
		for s in &steps {
			match s {
				G::OpenIter => { if open { wf = false; } open = true; }
				G::DropIter => { if !open { wf = false; } open = false; }
				G::Reopen => { if open { wf = false; } }
				// a read view held by the *writing* thread itself while it writes is outside the
				// property ("while other threads read, iterate and write"): with the view on
				// another thread the writer waits for the deferred resize instead (scheduler part)
				G::Write | G::WritePair => { if open { wf = false; } }
			}
		}
		if !wf {
			continue;
		}
		let d = sc.fresh("g");
		let hist: Vec<String> = steps.iter().map(|s| format!("{:?}", s)).collect();
		let case = json!({"fill": fill, "steps": hist});
		let mut store = open_store(&d);
		let mut written: Vec<u32> = vec![];
		let mut next = 0u32;
		let mut fail = |rep: &mut Report, key: &str, what: String| rep.violation(key.to_string(), what, case.clone());
		let mut write = |store: &Store, ids: &[u32], rep: &mut Report, fail: &mut dyn FnMut(&mut Report, &str, String)| -> bool {
			match store.batch() {
				Ok(mut b) => {
					for i in ids {
						if let Err(e) = b.put_ser(None, &i.to_be_bytes(), &big(*i)) {
							fail(rep, "growth:put-failed", format!("put of value {} failed: {:?}", i, e));
							return false;
						}
					}
					if let Err(e) = b.commit() {
						fail(rep, "growth:commit-failed", format!("commit failed: {:?}", e));
						return false;
					}
					true
				}
				Err(e) => {
					fail(rep, "growth:batch-failed", format!("{:?}", e));
					false
				}
			}
		};
		let mut ok = true;
		for _ in 0..fill {
			if write(&store, &[next], &mut rep, &mut fail) {
				written.push(next);
			} else {
				ok = false;
			}
			next += 1;
		}
		let mut iter_snapshot: Option<(Vec<u32>, Box<dyn Iterator<Item = (Vec<u8>, usize)>>)> = None;
		for s in &steps {
			if !ok {
				break;
			}
			match s {
				G::Write => {
					if write(&store, &[next], &mut rep, &mut fail) {
						written.push(next);
					} else {
						ok = false;
					}
					next += 1;
				}
				G::WritePair => {
					if write(&store, &[next, next + 1], &mut rep, &mut fail) {
						written.push(next);
						written.push(next + 1);
					} else {
						ok = false;
					}
					next += 2;
				}
				G::OpenIter => match store.iter(None, |k, v| Ok((k.to_vec(), v.len()))) {
					Ok(it) => {
						// the iterator is a snapshot of what was committed when it was opened
						let it: Box<dyn Iterator<Item = (Vec<u8>, usize)>> = Box::new(it.filter_map(|x| x.ok()));
						// extend lifetime: the iterator owns its read transaction
						let it: Box<dyn Iterator<Item = (Vec<u8>, usize)>> = unsafe { std::mem::transmute(it) };
						iter_snapshot = Some((written.clone(), it));
					}
					Err(e) => {
						fail(&mut rep, "growth:iter-failed", format!("{:?}", e));
						ok = false;
					}
				},
				G::DropIter => {
					if let Some((snap, it)) = iter_snapshot.take() {
						let got: Vec<Vec<u8>> = it.map(|(k, _)| k).collect();
						let exp: Vec<Vec<u8>> = snap.iter().map(|i| i.to_be_bytes().to_vec()).collect();
						if got != exp {
							fail(&mut rep, "growth:iterator-saw-other-state", format!("an iterator opened over {} values and drained later (after further writes / a resize) returned {} keys", exp.len(), got.len()));
							ok = false;
						}
					}
				}
				G::Reopen => {
					drop(store);
					store = open_store(&d);
				}
			}
			// all committed values readable, byte-exact
			for i in &written {
				match store.get_ser::<Val>(None, &i.to_be_bytes(), None) {
					Ok(Some(v)) if v == big(*i) => {}
					other => {
						fail(&mut rep, "growth:committed-write-lost", format!("value {} of {} committed ones reads back as {:?}", i, written.len(), other.map(|o| o.map(|v| v.0.len()))));
						ok = false;
						break;
					}
				}
			}
		}
		drop(iter_snapshot);
		let msz = std::fs::metadata(d.join("multi_lmdb").join("data.mdb")).map(|m| m.len()).unwrap_or(0);
		map_sizes.insert(msz / (1 << 20));
		drop(store);
		let _ = std::fs::remove_dir_all(&d);
		rep.evaluations += 1;
		rep.distinct += 1;
		rep.outcome(&format!("final-data-file-{}MiB", msz / (1 << 20)));
		if rep.samples.len() < 2 {
			rep.sample(json!({"fill_values_48KiB": fill, "steps": steps.iter().map(|s| format!("{:?}", s)).collect::<Vec<_>>(), "data_file_MiB": msz / (1 << 20)}));
		}
	}
	rep
}

// ---------------------------------------------------------------------------------------------
// crash: kill immediately before / after the commit of a batch that writes a pair

fn crash(_tier: Tier) -> Report {
	uni::init_thread();
	let mut rep = Report::new();
	let sc = uni::Scratch::new("c18c");
	let exe = std::env::current_exe().unwrap();
	for nested in [false, true] {
		// count crash points
		let d0 = sc.fresh("count");
		let out = Command::new(&exe).args(["C18", "--child", "run", d0.to_str().unwrap(), "0", if nested { "nested" } else { "flat" }]).stderr(Stdio::null()).output().expect("child");
		let so = String::from_utf8_lossy(&out.stdout).to_string();
		let labels: Vec<String> = so.lines().find_map(|l| l.strip_prefix("LABELS ")).map(|j| serde_json::from_str::<Vec<String>>(j).unwrap()).unwrap_or_default();
		if labels.is_empty() {
			eprintln!("MACHINERY: C18 crash count run produced no labels");
			std::process::exit(2);
		}
		for (k, label) in labels.iter().enumerate() {
			use std::os::unix::process::ExitStatusExt;
			let d = sc.fresh("victim");
			let st = Command::new(&exe).args(["C18", "--child", "run", d.to_str().unwrap(), &(k + 1).to_string(), if nested { "nested" } else { "flat" }]).stderr(Stdio::null()).stdout(Stdio::null()).status().expect("child");
			if st.signal() != Some(libc::SIGABRT) {
				eprintln!("MACHINERY: C18 victim did not abort at {}", label);
				std::process::exit(2);
			}
			let store = open_store(&d);
			let a = store.get_ser::<Val>(None, b"pair-a", None).ok().flatten();
			let b = store.get_ser::<Val>(Some(PRE), b"pair-b", None).ok().flatten();
			let old = store.get_ser::<Val>(None, b"old", None).ok().flatten();
			rep.evaluations += 1;
			rep.distinct += 1;
			let case = json!({"nested": nested, "crash_at": k + 1, "label": label});
			let after_commit = label == "lmdb.commit:after";
			let both = a.is_some() && b.is_some();
			let none = a.is_none() && b.is_none();
			if old != Some(val(9)) {
				rep.violation("crash:committed-write-lost", format!("killed at {}: a previously committed value is gone", label), case.clone());
			}
			if !(both || none) {
				rep.violation(format!("crash:partial-batch:{}", label), format!("killed at {}: half of the batch is visible after reopen (a={:?} b={:?})", label, a.is_some(), b.is_some()), case.clone());
			} else if after_commit && !both {
				rep.violation("crash:acknowledged-commit-lost", format!("killed right after commit returned ({}): the batch is gone after reopen", label), case.clone());
			} else if !after_commit && label.starts_with("lmdb.commit:before") && !none {
				rep.violation("crash:uncommitted-visible", format!("killed before commit ({}): the batch is visible after reopen", label), case.clone());
			}
			rep.outcome(&format!("{}:{}", label, if both { "all" } else if none { "none" } else { "partial" }));
			if rep.samples.len() < 2 {
				rep.sample(case);
			}
		}
	}
	rep
}

fn crash_child(args: &[String]) -> i32 {
	uni::init_thread();
	unsafe {
		let r = libc::rlimit { rlim_cur: 0, rlim_max: 0 };
		libc::setrlimit(libc::RLIMIT_CORE, &r);
	}
	let dir = std::path::PathBuf::from(&args[1]);
	let n: u64 = args[2].parse().unwrap();
	let nested = args[3] == "nested";
	let store = open_store(&dir);
	{
		let mut b = store.batch().unwrap();
		b.put_ser(None, b"old", &val(9)).unwrap();
		b.commit().unwrap();
	}
	if n == 0 {
		grin_util::verif::crash_record(true);
	} else {
		grin_util::verif::crash_arm(n);
	}
	{
		let mut b = store.batch().unwrap();
		b.put_ser(None, b"pair-a", &val(1)).unwrap();
		if nested {
			let mut c = b.child().unwrap();
			c.put_ser(Some(PRE), b"pair-b", &val(2)).unwrap();
			c.commit().unwrap();
		} else {
			b.put_ser(Some(PRE), b"pair-b", &val(2)).unwrap();
		}
		b.commit().unwrap();
	}
	if n == 0 {
		println!("LABELS {}", serde_json::to_string(&grin_util::verif::crash_labels()).unwrap());
		return 0;
	}
	3
}

// ---------------------------------------------------------------------------------------------
// concurrent: readers / iterator / writer on other threads with a map resize in flight, every
// schedule up to the preemption bound under the controlled scheduler (src/sched.rs)

/// A value whose decoding - which `Store::get_ser` runs inside its LMDB read transaction - contains a scheduling
/// point: the reading thread can be paused with its transaction open.
struct SlowVal(Vec<u8>);
impl Readable for SlowVal {
	fn read<R: Reader>(reader: &mut R) -> Result<SlowVal, ser::Error> {
		use std::sync::atomic::Ordering::SeqCst;
		crate::sched::OPEN_READS.fetch_add(1, SeqCst);
		grin_util::verif::sched_point("in-read");
		let v = Val::read(reader);
		crate::sched::OPEN_READS.fetch_sub(1, SeqCst);
		v.map(|v| SlowVal(v.0))
	}
}

#[derive(Clone, Debug)]
struct CObs {
	thread: String,
	what: String,
	ok: bool,
}

fn conc_execute(base: &Path, sc: &uni::Scratch, choices: &[usize], fill: u32, variant: u8) -> (crate::sched::Verdict, Vec<crate::sched::Step>, Vec<(String, String)>, Vec<CObs>, bool) {
	use std::sync::{Arc, Mutex};
	let d = sc.fresh("c");
	uni::copy_dir(base, &d);
	let store = Arc::new(open_store(&d));
	let log: Arc<Mutex<Vec<CObs>>> = Arc::new(Mutex::new(vec![]));
	let names: Vec<&str> = match variant {
		0 => vec!["reader-iter", "writer", "reader-get"],
		1 => vec!["reader-writes", "writer-large"],
		2 => vec!["reader-slow", "writer"],
		_ => vec!["reader-a", "reader-b", "writer"],
	};
	crate::sched::OPEN_READS.store(0, std::sync::atomic::Ordering::SeqCst);
	crate::sched::RESIZE_UNDER_READ.store(0, std::sync::atomic::Ordering::SeqCst);
	// variant 3: the accesses to the atomics of the store's resize gate are scheduling points too
	grin_util::verif::set_atomic_points(variant == 3);
	let sched = crate::sched::Scheduler::new(&names, choices.to_vec());
	let mut bodies: Vec<Box<dyn FnOnce() + Send>> = vec![];
	if variant == 1 {
		// A': holds an iterator (read view) and, before closing it, commits a small batch of its own
		// (a thread that already holds a transaction is let through while a resize is pending)
		{
			let store = store.clone();
			let log = log.clone();
			bodies.push(Box::new(move || {
				let push = |what: String, ok: bool| log.lock().unwrap().push(CObs { thread: "reader-writes".into(), what, ok });
				match store.iter(None, |k, v| Ok((k.to_vec(), v.len()))) {
					Ok(it) => {
						grin_util::verif::sched_point("iterator-open");
						let e1 = store.exists(None, &0u32.to_be_bytes());
						push(format!("nested exists -> {:?}", e1.as_ref().map_err(|e| format!("{:?}", e))), matches!(e1, Ok(true)));
						let w = store.batch().and_then(|mut b| {
							b.put_ser(None, b"reader-note", &val(7))?;
							b.commit()
						});
						push(format!("own small batch while the view is open -> {:?}", w.as_ref().map_err(|e| format!("{:?}", e))), w.is_ok());
						let keys: Vec<Vec<u8>> = it.filter_map(|x| x.ok()).map(|x| x.0).collect();
						let fills = keys.iter().filter(|k| k.len() == 4).count() as u32;
						let group: Vec<bool> = [&b"large-0"[..], b"large-1", b"large-2", b"pair-a", b"pair-b"].iter().map(|n| keys.iter().any(|k| k.as_slice() == *n)).collect();
						push(format!("iterator drained: {} fill keys, writer's batch {:?}", fills, group), fills == fill && group.iter().all(|x| *x == group[0]));
					}
					Err(e) => push(format!("iter failed {:?}", e), false),
				}
			}));
		}
		// B': a batch larger than what is left of the old map: it may only be let in once the map
		// has been enlarged, and must then succeed
		{
			let store = store.clone();
			let log = log.clone();
			bodies.push(Box::new(move || {
				let push = |what: String, ok: bool| log.lock().unwrap().push(CObs { thread: "writer-large".into(), what, ok });
				let r = store.batch().and_then(|mut b| {
					b.put_ser(None, b"large-0", &big(200))?;
					b.put_ser(None, b"large-1", &big(201))?;
					b.put_ser(None, b"large-2", &big(202))?;
					b.put_ser(None, b"pair-a", &val(4))?;
					b.put_ser(None, b"pair-b", &val(5))?;
					b.commit()
				});
				push(format!("batch of 3 x 48 KiB + pair -> {:?}", r.as_ref().map_err(|e| format!("{:?}", e))), r.is_ok());
			}));
		}
	}
	if variant == 2 {
		// a point read whose transaction is open while the thread is paused (inside the value's decoder)
		let st = store.clone();
		let lg = log.clone();
		bodies.push(Box::new(move || {
			let g = st.get_ser::<SlowVal>(None, &3u32.to_be_bytes(), None);
			let want = big(3).0;
			let ok = matches!(&g, Ok(Some(v)) if v.0 == want);
			lg.lock().unwrap().push(CObs { thread: "reader-slow".into(), what: format!("get_ser (paused inside its read transaction) -> {}", match &g { Ok(Some(v)) => format!("{} bytes{}", v.0.len(), if v.0 == want { "" } else { ", NOT the stored value" }), Ok(None) => "None".into(), Err(e) => format!("{:?}", e) }), ok });
		}));
	}
	if variant == 3 {
		// two threads whose short read transactions end at the same time
		for (name, k) in [("reader-a", 0u32), ("reader-b", 1u32)] {
			let st = store.clone();
			let lg = log.clone();
			bodies.push(Box::new(move || {
				let e = st.exists(None, &k.to_be_bytes());
				lg.lock().unwrap().push(CObs { thread: name.into(), what: format!("exists -> {:?}", e.as_ref().map_err(|e| format!("{:?}", e))), ok: matches!(e, Ok(true)) });
			}));
		}
	}
	if variant == 2 || variant == 3 {
		// a batch that needs the map enlarged
		let st = store.clone();
		let lg = log.clone();
		bodies.push(Box::new(move || {
			let r = st.batch().and_then(|mut b| {
				b.put_ser(None, b"pair-a", &big(200))?;
				b.put_ser(None, b"pair-b", &val(5))?;
				b.commit()
			});
			lg.lock().unwrap().push(CObs { thread: "writer".into(), what: format!("batch put/put/commit -> {:?}", r.as_ref().map_err(|e| format!("{:?}", e))), ok: r.is_ok() });
		}));
	}
	if variant == 0 {
	{
		// A: holds an iterator (read view) and makes nested reads while it is open
		let store = store.clone();
		let log = log.clone();
		bodies.push(Box::new(move || {
			let push = |what: String, ok: bool| log.lock().unwrap().push(CObs { thread: "reader-iter".into(), what, ok });
			match store.iter(None, |k, v| Ok((k.to_vec(), v.len()))) {
				Ok(it) => {
					grin_util::verif::sched_point("iterator-open");
					let e1 = store.exists(None, &0u32.to_be_bytes());
					push(format!("nested exists -> {:?}", e1.as_ref().map_err(|e| format!("{:?}", e))), matches!(e1, Ok(true)));
					let g1 = store.get_ser::<Val>(None, &1u32.to_be_bytes(), None);
					push(format!("nested get_ser -> {}", g1.is_ok()), matches!(g1, Ok(Some(_))));
					let e2 = store.exists(None, &2u32.to_be_bytes());
					push(format!("nested exists (2nd) -> {:?}", e2.as_ref().map_err(|e| format!("{:?}", e))), matches!(e2, Ok(true)));
					let keys: Vec<Vec<u8>> = it.filter_map(|x| x.ok()).map(|x| x.0).collect();
					// the snapshot: all fill keys, and the pair entirely or not at all
					let fills = keys.iter().filter(|k| k.len() == 4).count() as u32;
					let pa = keys.iter().any(|k| k.as_slice() == b"pair-a");
					let pb = keys.iter().any(|k| k.as_slice() == b"pair-b");
					push(format!("iterator drained: {} fill keys, pair-a {} pair-b {}", fills, pa, pb), fills == fill && pa == pb);
				}
				Err(e) => push(format!("iter failed {:?}", e), false),
			}
		}));
	}
	{
		// B: a batch that needs the map enlarged, writing a pair that must appear together
		let store = store.clone();
		let log = log.clone();
		bodies.push(Box::new(move || {
			let push = |what: String, ok: bool| log.lock().unwrap().push(CObs { thread: "writer".into(), what, ok });
			match store.batch() {
				Ok(mut b) => {
					let r1 = b.put_ser(None, b"pair-a", &big(200));
					let r2 = b.put_ser(None, b"pair-b", &val(5));
					let r3 = b.commit();
					push(format!("batch put/put/commit -> {:?} {:?} {:?}", r1.as_ref().map_err(|e| format!("{:?}", e)), r2.as_ref().map_err(|e| format!("{:?}", e)), r3.as_ref().map_err(|e| format!("{:?}", e))), r1.is_ok() && r2.is_ok() && r3.is_ok());
				}
				Err(e) => push(format!("batch failed {:?}", e), false),
			}
		}));
	}
	{
		// C: plain reads and a short-lived iterator on a third thread
		let store = store.clone();
		let log = log.clone();
		bodies.push(Box::new(move || {
			let push = |what: String, ok: bool| log.lock().unwrap().push(CObs { thread: "reader-get".into(), what, ok });
			let g = store.get_ser::<Val>(None, &3u32.to_be_bytes(), None);
			push(format!("get_ser -> {}", g.is_ok()), matches!(g, Ok(Some(_))));
			match store.iter(None, |k, _| Ok(k.to_vec())) {
				Ok(it) => {
					let keys: Vec<Vec<u8>> = it.filter_map(|x| x.ok()).collect();
					let pa = keys.iter().any(|k| k.as_slice() == b"pair-a");
					let pb = keys.iter().any(|k| k.as_slice() == b"pair-b");
					push(format!("iterator: pair-a {} pair-b {}", pa, pb), pa == pb);
				}
				Err(e) => push(format!("iter failed {:?}", e), false),
			}
		}));
	}
	}
	let (verdict, trace, panics) = sched.run(bodies);
	grin_util::verif::set_atomic_points(false);
	let mut obs = log.lock().unwrap().clone();
	let under = crate::sched::RESIZE_UNDER_READ.load(std::sync::atomic::Ordering::SeqCst);
	if under > 0 {
		obs.push(CObs { thread: "store".into(), what: format!("map-resized-under-open-read-transaction: the memory map was enlarged {} time(s) while a get_ser of another thread had its read transaction open", under), ok: false });
	}
	let mut final_ok = true;
	if matches!(verdict, crate::sched::Verdict::Completed) {
		// afterwards: nothing committed is lost
		for i in 0..fill {
			if !matches!(store.get_ser::<Val>(None, &i.to_be_bytes(), None), Ok(Some(_))) {
				final_ok = false;
			}
		}
		// what a thread was told is committed must be there (a failed batch is reported on its own)
		let told_ok = |thread: &str, what: &str| obs.iter().any(|o| o.thread == thread && o.what.starts_with(what) && o.ok);
		let a = store.get_ser::<Val>(None, b"pair-a", None).ok().flatten().is_some();
		let b = store.get_ser::<Val>(None, b"pair-b", None).ok().flatten().is_some();
		if a != b {
			final_ok = false;
		}
		if (variant == 0 || variant >= 2) && told_ok("writer", "batch put/put/commit") && !(a && b) {
			final_ok = false;
		}
		if variant == 1 {
			if told_ok("writer-large", "batch of 3") {
				for k in [&b"large-0"[..], b"large-1", b"large-2", b"pair-a", b"pair-b"] {
					if !matches!(store.get_ser::<Val>(None, k, None), Ok(Some(_))) {
						final_ok = false;
					}
				}
			}
			if told_ok("reader-writes", "own small batch") && !matches!(store.get_ser::<Val>(None, b"reader-note", None), Ok(Some(_))) {
				final_ok = false;
			}
		}
		drop(store);
		let _ = std::fs::remove_dir_all(&d);
	}
	(verdict, trace, panics, obs, final_ok)
}

fn fill_store(dir: &Path, n: u32) {
	let store = open_store(dir);
	for i in 0..n {
		let mut b = store.batch().unwrap();
		b.put_ser(None, &i.to_be_bytes(), &big(i)).unwrap();
		b.commit().unwrap();
	}
}

fn concurrent(tier: Tier, shard: usize, n: usize) -> Report {
	uni::init_thread();
	let mut rep = Report::new();
	let sc = uni::Scratch::new("c18s");
	let bound = tier.pick(1, 2);
	rep.extra.insert("max_preemption_bound_completed".into(), json!(bound));
	// base: a store filled just past the 90 % threshold of its current map, so that a batch()
	// opened while another thread holds a read view must defer the resize to the waiter thread.
	// Calibrated: the smallest fill for which the forcing schedule (iterator thread up to the
	// point where its view is open, then the writer) starts the waiter thread.
	let mut fill = 0u32;
	let mut base = sc.fresh("base");
	for cand in 10..80u32 {
		let b0 = sc.fresh("cal");
		fill_store(&b0, cand);
		if std::env::var("GV_DEBUG").is_ok() {
			eprintln!("calibrating fill {}", cand);
		}
		let (v0, t0, _, _, _) = conc_execute(&b0, &sc, &[], cand, 0);
		if std::env::var("GV_DEBUG").is_ok() {
			eprintln!("  default: {:?} steps {}", v0, t0.len());
		}
		let mut dead = !matches!(v0, crate::sched::Verdict::Completed);
		let mut hit = false;
		if !dead {
			if let Some(at) = t0.iter().position(|s| s.what == "reader-iter:point(iterator-open)") {
				// decisions up to and including the one that lets the iterator thread reach the point,
				// then the writer instead of the iterator thread
				let mut pre: Vec<usize> = t0[..=at].iter().map(|s| s.chosen).collect();
				pre.push(1);
				let (v, trace, _, _, _) = conc_execute(&b0, &sc, &pre, cand, 0);
				dead = !matches!(v, crate::sched::Verdict::Completed);
				hit = trace.iter().any(|s| s.what.starts_with("lmdb-resize"));
				if std::env::var("GV_DEBUG").is_ok() {
					eprintln!("  forcing: {:?}\n  trace tail: {:?}", v, trace.iter().rev().take(12).map(|s| s.what.clone()).collect::<Vec<_>>());
				}
			}
		}
		if hit || dead {
			fill = cand;
			base = b0;
			break;
		}
		let _ = std::fs::remove_dir_all(&b0);
	}
	if fill == 0 {
		eprintln!("MACHINERY: C18 concurrent: no fill level makes the forcing schedule defer a resize");
		std::process::exit(2);
	}
	rep.extra.insert("fill_values_48KiB".into(), json!(fill));
	fn preempt(trace: &[crate::sched::Step], upto: usize) -> usize {
		trace[..upto].iter().filter(|s| s.running.map(|r| s.enabled.contains(&r) && s.enabled[s.chosen] != r).unwrap_or(false)).count()
	}
	let cap = tier.pick(3_000u64, 60_000);
	let mut with_resize = 0u64;
	for variant in [0u8, 1u8, 2u8, 3u8] {
	let vname = ["concurrent", "concurrent2", "concurrent3", "concurrent4"][variant as usize];
	let mut stack: Vec<Vec<usize>> = vec![vec![]];
	let mut top = 0usize;
	let mut done_here = 0u64;
	while let Some(prefix) = stack.pop() {
		if done_here >= cap {
			rep.capped = Some(format!("execution cap {}", cap));
			break;
		}
		let t_exec = std::time::Instant::now();
		let (verdict, trace, panics, obs, final_ok) = conc_execute(&base, &sc, &prefix, fill, variant);
		done_here += 1;
		if std::env::var("GV_DEBUG").is_ok() {
			eprintln!("exec {} prefix_len {} -> {:?} steps {} in {:?}", rep.evaluations, prefix.len(), std::mem::discriminant(&verdict), trace.len(), t_exec.elapsed());
		}
		rep.evaluations += 1;
		rep.distinct += 1;
		rep.states += 1;
		rep.transitions += trace.len() as u64;
		let choices: Vec<usize> = trace.iter().map(|s| s.chosen).collect();
		let case = json!({"harness": vname, "choices": choices, "schedule": trace.iter().map(|s| s.what.clone()).collect::<Vec<_>>(), "observations": obs.iter().map(|o| format!("{}: {}", o.thread, o.what)).collect::<Vec<_>>()});
		let resized = trace.iter().any(|s| s.what.starts_with("lmdb-resize"));
		if resized {
			with_resize += 1;
		}
		match &verdict {
			crate::sched::Verdict::Completed => {}
			crate::sched::Verdict::Deadlock(m) => {
				rep.violation(format!("{}:deadlock", vname), format!("deadlock: {}", m), case.clone());
				break;
			}
			crate::sched::Verdict::Livelock(m) => {
				rep.violation(format!("{}:livelock", vname), format!("threads wait for each other forever: {}", m), case.clone());
				break;
			}
			crate::sched::Verdict::Unsafe(m) => {
				rep.violation(format!("{}:map-resized-under-open-read-transaction", vname), m.clone(), case.clone());
				break;
			}
			crate::sched::Verdict::Divergence(m) | crate::sched::Verdict::Stuck(m) => {
				eprintln!("MACHINERY: C18 concurrent: {}", m);
				std::process::exit(2);
			}
		}
		for (t, m) in &panics {
			rep.violation(format!("{}:panic:{}", vname, t), m.clone(), case.clone());
		}
		for o in &obs {
			if !o.ok {
				rep.violation(format!("{}:{}:{}", vname, o.thread, o.what.split(" ->").next().unwrap_or("").split(':').next().unwrap_or("")), format!("{}: {}", o.thread, o.what), case.clone());
			}
		}
		if !final_ok {
			rep.violation(format!("{}:committed-write-lost", vname), "after all threads finished a committed value (or half of the pair) is missing".to_string(), case.clone());
		}
		rep.outcome(&format!("{}:completed:resize-{}", vname, if resized { "deferred-to-waiter-thread" } else { "immediate-or-not-needed" }));
		if rep.samples.len() < 2 && resized {
			rep.sample(case.clone());
		}
		for i in prefix.len()..trace.len() {
			let p = &trace[i];
			let cost = preempt(&trace, i);
			for alt in 0..p.enabled.len() {
				if alt == p.chosen {
					continue;
				}
				let extra = p.running.map(|r| (p.enabled.contains(&r) && p.enabled[alt] != r) as usize).unwrap_or(0);
				// the gate's lost-update window needs two readers overlapping twice: two preemptions, in both tiers
				if cost + extra > if variant == 3 { bound.max(2) } else { bound } {
					continue;
				}
				if prefix.is_empty() {
					top += 1;
					if (top - 1) % n != shard {
						continue;
					}
				}
				let mut next = choices[..i].to_vec();
				next.push(alt);
				stack.push(next);
			}
		}
	}
	}
	rep.extra.insert("schedules_with_deferred_resize".into(), json!(with_resize));
	rep
}

/// Iteration over key spaces larger than one internal page of the iterator (it loads 10 000 keys at
/// a time): sizes around one, two and two-and-a-half pages, through Store::iter and through
/// Batch::iter (with two uncommitted keys on top), in the default and in a prefixed key space.  The
/// iterator must return exactly the committed keys, in order, and stop.
fn bigiter(tier: Tier, shard: usize, n: usize) -> Report {
	uni::init_thread();
	let mut rep = Report::new();
	let sc = uni::Scratch::new("c18b");
	let sizes: Vec<u32> = tier.pick(vec![10_001, 20_001], vec![9_999, 10_000, 10_001, 19_999, 20_000, 20_001, 25_000, 30_001]);
	let mut k = 0u64;
	for &total in &sizes {
		for space in [None, Some(PRE)] {
			k += 1;
			if !mine(k, shard, n) {
				continue;
			}
			let dir = sc.fresh("big");
			let store = open_store(&dir);
			let case = json!({"part": "bigiter", "keys": total, "key_space": space});
			let mut ok = true;
			let mut i = 0u32;
			while i < total {
				let mut b = store.batch().expect("batch");
				let end = (i + 5_000).min(total);
				while i < end {
					b.put_ser(space, &i.to_be_bytes(), &val((i % 251) as u8)).expect("put");
					i += 1;
				}
				b.commit().expect("commit");
			}
			// a few keys in the other key space must not show up
			{
				let mut b = store.batch().expect("batch");
				let other = if space.is_none() { Some(PRE) } else { None };
				b.put_ser(other, b"other-1", &val(1)).expect("put");
				b.put_ser(other, b"other-2", &val(2)).expect("put");
				b.commit().expect("commit");
			}
			let cap = total as usize + 5_000;
			let judge = |keys: Vec<Vec<u8>>, extra: usize, how: &str, rep: &mut Report| -> bool {
				let want = total as usize + extra;
				let mut good = keys.len() == want;
				if good {
					for (j, kk) in keys.iter().take(total as usize).enumerate() {
						if kk.as_slice() != (j as u32).to_be_bytes() {
							good = false;
							break;
						}
					}
				}
				if !good {
					let first_bad = keys.iter().take(total as usize).enumerate().find(|(j, kk)| kk.as_slice() != (*j as u32).to_be_bytes()).map(|(j, _)| j);
					rep.violation(
						format!("bigiter:{}:wrong-keys", how),
						format!("{} over {} committed keys in key space {:?} returned {} keys (cap {}), expected {}; first wrong index {:?}", how, total, space, keys.len(), cap, want, first_bad),
						case.clone(),
					);
				}
				good
			};
			match store.iter(space, |k, _| Ok(k.to_vec())) {
				Ok(it) => {
					let keys: Vec<Vec<u8>> = it.take(cap).filter_map(|x| x.ok()).collect();
					ok &= judge(keys, 0, "Store::iter", &mut rep);
				}
				Err(e) => {
					rep.violation("bigiter:Store::iter:error", format!("{:?}", e), case.clone());
					ok = false;
				}
			}
			{
				let mut b = store.batch().expect("batch");
				// two uncommitted keys that sort after every committed one
				b.put_ser(space, &[0xff, 0xff, 0xff, 0xfe, 1], &val(3)).expect("put");
				b.put_ser(space, &[0xff, 0xff, 0xff, 0xff, 2], &val(4)).expect("put");
				match b.iter(space, |k, _| Ok(k.to_vec())) {
					Ok(it) => {
						let keys: Vec<Vec<u8>> = it.take(cap).filter_map(|x| x.ok()).collect();
						ok &= judge(keys, 2, "Batch::iter", &mut rep);
					}
					Err(e) => {
						rep.violation("bigiter:Batch::iter:error", format!("{:?}", e), case.clone());
						ok = false;
					}
				}
				drop(b);
			}
			// an iterator is ONE snapshot, also across its internal pages: after `consumed` items another thread commits
			// a batch that changes the first key, deletes one near the end, changes the last and adds one beyond it
			for consumed in [0usize, 1, 9_999, 10_000, 10_001] {
				if consumed >= total as usize {
					continue;
				}
				let raw = |k: &[u8], v: &[u8]| Ok((k.to_vec(), v.to_vec()));
				match store.iter(space, raw) {
					Err(e) => {
						rep.violation("bigiter:Store::iter:error", format!("{:?}", e), case.clone());
						ok = false;
					}
					Ok(mut it) => {
						let mut seen: Vec<(Vec<u8>, Vec<u8>)> = vec![];
						for _ in 0..consumed {
							if let Some(Ok(x)) = it.next() {
								seen.push(x);
							}
						}
						let (st, sp) = (&store, space);
						std::thread::scope(|s| {
							s.spawn(move || {
								uni::init_thread();
								let mut b = st.batch().expect("batch");
								b.put_ser(sp, &0u32.to_be_bytes(), &val(0xee)).expect("put");
								b.delete(sp, &(total - 2).to_be_bytes()).expect("delete");
								b.put_ser(sp, &(total - 1).to_be_bytes(), &val(0xee)).expect("put");
								b.put_ser(sp, &(total + 7).to_be_bytes(), &val(0xee)).expect("put");
								b.commit().expect("commit");
							});
						});
						seen.extend(it.take(cap).filter_map(|x| x.ok()));
						let want: Vec<(Vec<u8>, Vec<u8>)> = (0..total).map(|j| (j.to_be_bytes().to_vec(), grin_core::ser::ser_vec(&val((j % 251) as u8), grin_core::ser::ProtocolVersion::local()).expect("ser"))).collect();
						rep.evaluations += 1;
						rep.distinct += 1;
						if seen != want {
							let first = seen.iter().zip(want.iter()).position(|(a, b)| a != b);
							rep.violation(
								"bigiter:Store::iter:not-one-snapshot",
								format!("an iterator over {} keys (key space {:?}) that had returned {} items when another thread committed a batch (first key changed, key {} deleted, last key changed, key {} added) then returned {} items in all; first difference from its snapshot at index {:?}", total, space, consumed, total - 2, total + 7, seen.len(), first),
								json!({"part": "bigiter", "keys": total, "key_space": space, "consumed_before_commit": consumed}),
							);
							ok = false;
						} else {
							rep.outcome(&format!("bigiter:snapshot-held:commit-after-{}", consumed));
						}
					}
				}
				// put the store back as it was
				let mut b = store.batch().expect("batch");
				b.put_ser(space, &0u32.to_be_bytes(), &val(0)).expect("put");
				b.put_ser(space, &(total - 2).to_be_bytes(), &val(((total - 2) % 251) as u8)).expect("put");
				b.put_ser(space, &(total - 1).to_be_bytes(), &val(((total - 1) % 251) as u8)).expect("put");
				b.delete(space, &(total + 7).to_be_bytes()).expect("delete");
				b.commit().expect("commit");
			}
			rep.evaluations += 2;
			rep.distinct += 2;
			rep.outcome(&format!("bigiter:{}-pages:{}", (total + 9_999) / 10_000, if ok { "exact" } else { "WRONG" }));
			drop(store);
			let _ = std::fs::remove_dir_all(&dir);
		}
	}
	rep
}

impl Engine for C18 {
	fn id(&self) -> &'static str {
		"C18"
	}
	fn meta(&self, _tier: Tier) -> Meta {
		Meta {
			level: "model_checking",
			rule: "(seq) explicit-state exploration: every sequence up to the depth bound over {batch, child (nesting <= 2), put (6 key/value/keyspace combinations over two key spaces), delete (3), commit, drop, reopen} executed on a real Store; after EVERY operation every key is read inside the innermost open level (get_ser, exists, iter) and through the Store (outside view) and compared with a nested-transaction map model (stack of overlays); memoised on (model state, remaining depth). (growth) every well-formed sequence of the length bound over {write 48 KiB value, write a pair, open iterator, drain iterator, reopen} on a store pre-filled to 65 % of its 1 MiB map, so that one or two automatic resizes happen with and without an open read view: no operation may fail, every committed value reads back byte-exact, an iterator sees exactly its snapshot. (bigiter) key spaces of 10 001 and 20 001 keys (thorough: 9 999 ... 30 001, around the iterator's internal page of 10 000 keys) are iterated through Store::iter and Batch::iter: exactly the committed keys, in order, then the end. (crash) a kill at every crash point around the commit of a flat and of a nested batch writing a pair across two key spaces: after reopen the pair is visible entirely or not at all, entirely once commit returned, and earlier commits survive. (concurrent) under the controlled scheduler, every schedule up to the preemption bound of {thread A: open iterator, three nested reads, drain; thread B: a batch that needs the map enlarged and writes a pair; thread C: get + iterator} on a store filled just past the resize threshold, the resize waiter thread being a scheduled participant: no deadlock or livelock, every operation Ok, iterators see all fill keys and the pair entirely or not at all, nothing committed is lost; and the same for {thread A': open iterator, nested read, commit a small batch of its own, drain; thread B': a batch of 3 x 48 KiB + a pair, more than the old map has left}.",
			assumptions: vec![
				"batches stay within the headroom the resize rule guarantees (<= 10 % of the map per batch)".into(),
				"(concurrent) preemption bound 1 (quick) / 2 (thorough); scheduling points are util::RwLock operations (incl. the environment map), the LMDB writer lock, the two polling loops and thread start/exit of the resize waiter".into(),
			],
			exhaustive: true,
		}
	}
	fn parts(&self, _tier: Tier) -> Vec<(&'static str, usize)> {
		vec![("seq", 12), ("growth", 8), ("crash", 1), ("concurrent", 12), ("bigiter", 4)]
	}
	fn run_part(&self, part: &str, tier: Tier, shard: usize, n: usize) -> Report {
		match part {
			"seq" => seq(tier, shard, n),
			"growth" => growth(tier, shard, n),
			"crash" => crash(tier),
			"concurrent" => concurrent(tier, shard, n),
			"bigiter" => bigiter(tier, shard, n),
			_ => panic!("unknown part"),
		}
	}
	fn child(&self, args: &[String]) -> i32 {
		crash_child(args)
	}
	fn replay(&self, case: &Value) -> Result<String, String> {
		Ok(format!("re-run by hand: {}", case))
	}
}
